package main

import (
	"fmt"
	"reflect"
	"regexp"
	"strconv"
	"strings"

	"golang.org/x/perf/benchfmt"
	"golang.org/x/perf/benchproc"
	parse "golang.org/x/perf/benchproc/verifbridge"
	"verifharness/internal/hx"
)

func init() { gens["C06"] = genC06 }

type c06Input struct {
	Kind   string      `json:"kind"`
	Filter string      `json:"filter"`
	Projs  []string    `json:"projections,omitempty"`
	Name   string      `json:"name"`
	Config [][3]string `json:"config"`
	Units  [][2]string `json:"units"` // unit, orig unit
}

var c06Units = [][2]string{
	{"sec/op", "ns/op"}, {"sec/op", ""}, {"B/op", ""}, {"allocs/op", ""}, {"B/s", "MB/s"},
	{"ns/op", ""}, {"sec/op", "sec/op"}, {"x", "y"}, {"", ""}, {"op", "ns"},
}

func c06Result(r *hx.Rng, n int) (*benchfmt.Result, c06Input) {
	names := []string{"Fib", "Fib/k=1", "Fib/k=1-8", "X/k=1", "X", "Y/k=2/j=a", "Sort/size=4k/gomaxprocs=2", "A-b-4", "Fib/k=1/k=2", "*"}
	name := names[r.Intn(len(names))]
	res := &benchfmt.Result{Name: benchfmt.Name(name), Iters: 7}
	in := c06Input{Name: name}
	for _, kv := range [][2]string{{"goos", "linux"}, {"pkg", "p/q"}, {"a b", "x y"}, {"goarch", ""}, {"é", "ü"}} {
		if r.Chance(0.6) {
			v := kv[1]
			if r.Chance(0.3) {
				v = []string{"darwin", "x", "", "linux "}[r.Intn(4)]
			}
			res.SetConfig(kv[0], v)
			i, ok := res.ConfigIndex(kv[0])
			if !ok {
				continue // SetConfig with an empty value deletes the key
			}
			kind := "file"
			if r.Chance(0.25) {
				res.Config[i].File = false
				kind = "internal"
			}
			in.Config = append(in.Config, [3]string{kv[0], v, kind})
		}
	}
	nu := r.Range(1, 4)
	for i := 0; i < n; i++ {
		u := c06Units[r.Intn(nu+2)%len(c06Units)]
		if r.Chance(0.15) {
			u = c06Units[r.Intn(len(c06Units))]
		}
		res.Values = append(res.Values, benchfmt.Value{Value: float64(i), Unit: u[0], OrigValue: float64(i), OrigUnit: u[1]})
		in.Units = append(in.Units, u)
	}
	return res, in
}

func c06ResSx(res *benchfmt.Result) (hx.Sx, hx.Sx, hx.Sx) {
	var cfgT, units []hx.Sx
	for _, c := range res.Config {
		cfgT = append(cfgT, hx.L(hx.S(c.Key), hx.B(c.Value), hx.Bool(c.File)))
	}
	for _, v := range res.Values {
		units = append(units, hx.L(hx.S(v.Unit), hx.S(v.OrigUnit)))
	}
	return hx.S(string(res.Name)), hx.List(cfgT), hx.List(units)
}

// candidate strings a regexp of the expression can be applied to, computed
// without the code under test: config values, name pieces, units
func c06Candidates(res *benchfmt.Result) []string {
	seen := map[string]bool{}
	var out []string
	add := func(s string) {
		if !seen[s] {
			seen[s] = true
			out = append(out, s)
		}
	}
	add("")
	add(string(res.Name))
	add(string(res.Name.Base()))
	_, parts := res.Name.Parts()
	for _, p := range parts {
		ps := string(p)
		if i := strings.IndexByte(ps, '='); i >= 0 {
			add(ps[i+1:])
		}
		if strings.HasPrefix(ps, "-") {
			add(ps[1:])
		}
	}
	for _, c := range res.Config {
		add(string(c.Value))
	}
	for _, v := range res.Values {
		add(v.Unit)
		add(v.OrigUnit)
	}
	return out
}

func c06Regexps(f parse.Filter, acc map[string]*regexp.Regexp) {
	switch f := f.(type) {
	case *parse.FilterMatch:
		if f.Regexp != nil {
			acc[f.Regexp.String()] = f.Regexp
		}
	case *parse.FilterOp:
		for _, e := range f.Exprs {
			c06Regexps(e, acc)
		}
	}
}

func c06ReTable(q string, res *benchfmt.Result) hx.Sx {
	f, err := parse.ParseFilter(q)
	if err != nil {
		return hx.L()
	}
	acc := map[string]*regexp.Regexp{}
	c06Regexps(f, acc)
	var keys []string
	for k := range acc {
		keys = append(keys, k)
	}
	sortStrings(keys)
	cands := c06Candidates(res)
	var l []hx.Sx
	for _, k := range keys {
		re := regexp.MustCompile(k) // compiled afresh from its text
		for _, c := range cands {
			l = append(l, hx.L(hx.S(k), hx.S(c), hx.Bool(re.MatchString(c))))
		}
	}
	return hx.List(l)
}

func sortStrings(a []string) {
	for i := 1; i < len(a); i++ {
		for j := i; j > 0 && a[j] < a[j-1]; j-- {
			a[j], a[j-1] = a[j-1], a[j]
		}
	}
}

func c06Clone(res *benchfmt.Result) *benchfmt.Result { return res.Clone() }

func c06Same(a, b *benchfmt.Result) bool {
	if string(a.Name) != string(b.Name) || a.Iters != b.Iters || len(a.Config) != len(b.Config) || len(a.Values) != len(b.Values) {
		return false
	}
	for i := range a.Config {
		if a.Config[i].Key != b.Config[i].Key || string(a.Config[i].Value) != string(b.Config[i].Value) || a.Config[i].File != b.Config[i].File {
			return false
		}
	}
	return reflect.DeepEqual(a.Values, b.Values)
}

var c06Keys = []string{".name", ".fullname", "/k", "/gomaxprocs", "goos", "pkg", `"a b"`, "goarch", "/j", "é", "missing"}
var c06Res = []string{"/^l/", "/x$/", "/./", "/^$/", "/(a|b)/", "/ns/", "/op$/", "/^sec[/]op$/", "/[0-9]/", "/Fib/", "/k=1/", "/B/"}

func c06Value(r *hx.Rng, cands []string) string {
	switch r.Intn(5) {
	case 0:
		return c06Res[r.Intn(len(c06Res))]
	case 1:
		return r.Pick([]string{"linux", "x", `"x y"`, "1", "8", `""`, "Fib", "X", "sec/op"})
	default:
		c := cands[r.Intn(len(cands))]
		return strconv.Quote(c)
	}
}

func c06Term(r *hx.Rng, depth int, cands []string) string {
	if depth > 0 {
		switch r.Intn(7) {
		case 0:
			return "-" + c06Term(r, depth-1, cands)
		case 1, 2:
			return "(" + c06Expr(r, depth-1, cands) + ")"
		}
	}
	if r.Chance(0.05) {
		return "*"
	}
	key := c06Keys[r.Intn(len(c06Keys))]
	if r.Chance(0.5) {
		key = ".unit"
		// mostly units that occur (the candidate list ends with the units)
		if r.Chance(0.7) {
			u := cands[len(cands)-1-r.Intn(min(4, len(cands)))]
			if r.Chance(0.3) {
				return "-.unit:" + strconv.Quote(u)
			}
			return ".unit:" + strconv.Quote(u)
		}
	} else if r.Chance(0.5) {
		// a term that is true or false of the whole result, with a value that occurs
		return r.Pick([]string{"", "", "-"}) + r.Pick([]string{".fullname", ".name", "goos", "pkg"}) + ":" + strconv.Quote(cands[r.Intn(min(3, len(cands)))+0])
	}
	if r.Chance(0.2) {
		n := r.Range(1, 3)
		var vs []string
		for i := 0; i < n; i++ {
			vs = append(vs, c06Value(r, cands))
		}
		return key + ":(" + strings.Join(vs, " OR ") + ")"
	}
	return key + ":" + c06Value(r, cands)
}

func c06And(r *hx.Rng, depth int, cands []string) string {
	n := 1
	if r.Chance(0.5) {
		n = r.Range(2, 4)
	}
	var ts []string
	for i := 0; i < n; i++ {
		ts = append(ts, c06Term(r, depth, cands))
	}
	s := ts[0]
	for _, t := range ts[1:] {
		s += r.Pick([]string{" ", " AND ", "  "}) + t
	}
	return s
}

func c06Expr(r *hx.Rng, depth int, cands []string) string {
	n := 1
	if r.Chance(0.4) {
		n = r.Range(2, 3)
	}
	var ts []string
	for i := 0; i < n; i++ {
		ts = append(ts, c06And(r, depth, cands))
	}
	return strings.Join(ts, " OR ")
}

func c06Matched(m benchproc.Match, n int) (hx.Sx, int) {
	var idx []hx.Sx
	for i := 0; i < n; i++ {
		if m.Test(i) {
			idx = append(idx, hx.I(i))
		}
	}
	return hx.List(idx), len(idx)
}

func c06Filter(o *hx.Out, r *hx.Rng, n int, depth int) error {
	res, in := c06Result(r, n)
	q := c06Expr(r, depth, c06Candidates(res))
	in.Kind, in.Filter = "filter", q
	flt, err := benchproc.NewFilter(q)
	if err != nil {
		return fmt.Errorf("generated filter %q rejected: %v", q, err)
	}
	before := c06Clone(res)
	m, err := flt.Match(res)
	if err != nil {
		return err
	}
	unchanged := c06Same(before, res)
	matched, nm := c06Matched(m, n)
	oob := !m.Test(-1) && !m.Test(n) && !m.Test(n+31) && !m.Test(n+64)
	all, any := m.All(), m.Any()
	// a second Match gives the same answer (filter holds no state)
	m2, _ := flt.Match(res)
	matched2, _ := c06Matched(m2, n)
	if matched2.Text() != matched.Text() {
		unchanged = false
	}
	app := c06Clone(res)
	ret, err := flt.Apply(app)
	if err != nil {
		return err
	}
	var rem []hx.Sx
	for _, v := range app.Values {
		rem = append(rem, hx.I(int(v.Value)))
	}
	name, cfgs, units := c06ResSx(res)
	c := hx.L(hx.I(1), hx.S(q), c07Oracle(q), c07ParseFilter(q), name, cfgs, units, c06ReTable(q, res),
		matched, hx.Bool(oob), hx.Bool(all), hx.Bool(any), hx.Bool(ret), hx.List(rem), hx.Bool(unchanged))
	kind := "some"
	if nm == 0 {
		kind = "none"
	} else if nm == n {
		kind = "all"
	}
	o.Count(fmt.Sprintf("filter n=%d matched=%s", n, kind))
	o.Count(fmt.Sprintf("filter ops AND/OR/NOT/unit=%d/%d/%d/%d", min(strings.Count(q, " AND ")+strings.Count(q, "  "), 3), min(strings.Count(q, " OR "), 3), min(strings.Count(q, "-"), 3), min(strings.Count(q, ".unit"), 3)))
	o.Add(c, in, q+"\x00"+in.Name+fmt.Sprint(n, in.Units), nm != 0 && nm != n)
	return nil
}

// c06Consult reads everything out of a Match that was obtained earlier and
// emits it as a kind-3 case for res alone.
func c06Consult(o *hx.Out, q string, m benchproc.Match, res, before *benchfmt.Result, in c06Input, how string) {
	n := len(res.Values)
	matched, nm := c06Matched(m, n)
	oob := !m.Test(-1) && !m.Test(n) && !m.Test(n+31) && !m.Test(n+64)
	all, any := m.All(), m.Any()
	app := c06Clone(res)
	ret := m.Apply(app)
	var rem []hx.Sx
	for _, v := range app.Values {
		rem = append(rem, hx.I(int(v.Value)))
	}
	unchanged := c06Same(before, res)
	name, cfgs, units := c06ResSx(res)
	c := hx.L(hx.I(3), hx.S(q), c07Oracle(q), c07ParseFilter(q), name, cfgs, units, c06ReTable(q, res),
		matched, hx.Bool(oob), hx.Bool(all), hx.Bool(any), hx.Bool(ret), hx.List(rem), hx.Bool(unchanged))
	kind := "some"
	if nm == 0 {
		kind = "none"
	} else if nm == n {
		kind = "all"
	}
	o.Count(fmt.Sprintf("seq %s matched=%s", how, kind))
	in.Kind, in.Filter = "sequence:"+how, q
	o.Add(c, in, "S"+how+q+"\x00"+in.Name+fmt.Sprint(n, in.Units), nm != 0 && nm != n)
}

// c06Seq: one Filter, Match(A), then Match / Apply on another result B (other
// units, other n), and only then A's Match is consulted; likewise B's.
func c06Seq(o *hx.Out, r *hx.Rng, nA, nB int) error {
	A, inA := c06Result(r, nA)
	B, inB := c06Result(r, nB)
	cands := append(c06Candidates(A), c06Candidates(B)...)
	// units last, as c06Term expects
	for _, v := range A.Values[:min(2, len(A.Values))] {
		cands = append(cands, v.Unit)
	}
	for _, v := range B.Values[:min(2, len(B.Values))] {
		cands = append(cands, v.Unit, v.OrigUnit)
	}
	q := c06Expr(r, r.Range(0, 3), cands)
	if !strings.Contains(q, ".unit") {
		q = r.Pick([]string{"", "-"}) + ".unit:" + strconv.Quote(cands[len(cands)-1-r.Intn(3)]) + r.Pick([]string{" ", " OR ", " AND "}) + "(" + q + ")"
	}
	flt, err := benchproc.NewFilter(q)
	if err != nil {
		return fmt.Errorf("generated filter %q rejected: %v", q, err)
	}
	beforeA, beforeB := c06Clone(A), c06Clone(B)
	mA, err := flt.Match(A)
	if err != nil {
		return err
	}
	how := ""
	var mB benchproc.Match
	haveB := false
	switch r.Intn(4) {
	case 0:
		how = "match-other"
		mB, _ = flt.Match(B)
		haveB = true
	case 1:
		how = "apply-other"
		flt.Apply(c06Clone(B))
	case 2:
		how = "match-other-twice"
		mB, _ = flt.Match(B)
		haveB = true
		C, _ := c06Result(r, []int{nA, nB}[r.Intn(2)])
		flt.Match(C)
		flt.Apply(C)
	default:
		how = "match-other-then-same"
		mB, _ = flt.Match(B)
		haveB = true
		flt.Match(c06Clone(A))
	}
	c06Consult(o, q, mA, A, beforeA, inA, how)
	if haveB {
		c06Consult(o, q, mB, B, beforeB, inB, how+"/second")
	}
	return nil
}

var c06Projs = []string{
	".fullname@(X Y)", ".fullname@(Fib X/k=1)", "/k", "/k@(1 2)", "/k@(2)", ".name@(Fib X)", ".name", "goos@(linux darwin)",
	"goos@(x)", "pkg", ".fullname", "/gomaxprocs@(8 4)", "/gomaxprocs", "/j@(a)", `"a b"@("x y")`, ".config", ".fullname@(\"*\" \"*/k=1\")",
	"goarch@(\"\")", "/k@(zz)", ".fullname@(Fib/k=1 Fib-8 A-b)", // "/k@(zz)": a list no value is in (key@fixed is rejected since 9f4ec2f)
}

func c06Fixed(o *hx.Out, r *hx.Rng, n int) error {
	res, in := c06Result(r, n)
	q := "*"
	if r.Chance(0.6) {
		q = c06Expr(r, 1, c06Candidates(res))
	}
	flt, err := benchproc.NewFilter(q)
	if err != nil {
		return fmt.Errorf("generated filter %q rejected: %v", q, err)
	}
	np := r.Range(1, 3)
	var projs []string
	var pp benchproc.ProjectionParser
	var ps []*benchproc.Projection
	for i := 0; i < np; i++ {
		pe := c06Projs[r.Intn(len(c06Projs))]
		if r.Chance(0.3) {
			pe += "," + c06Projs[r.Intn(len(c06Projs))]
		}
		p, err := pp.Parse(pe, flt)
		if err != nil {
			return fmt.Errorf("generated projection %q rejected: %v", pe, err)
		}
		projs = append(projs, pe)
		ps = append(ps, p)
	}
	in.Kind, in.Filter, in.Projs = "fixed", q, projs
	m, err := flt.Match(res)
	if err != nil {
		return err
	}
	matched, nm := c06Matched(m, n)
	// projected values of the fields with a fixed order
	var pvals []hx.Sx
	for i, p := range ps {
		fs, _ := parse.ParseProjection(projs[i])
		key := p.Project(res)
		var l []hx.Sx
		fields := p.Fields()
		for j, f := range fs {
			if f.Order != "fixed" || j >= len(fields) || fields[j].IsTuple {
				continue
			}
			l = append(l, hx.L(hx.S(f.Key), hx.S(key.Get(fields[j]))))
		}
		pvals = append(pvals, hx.List(l))
	}
	name, cfgs, units := c06ResSx(res)
	c := hx.L(hx.I(2), hx.S(q), hx.SList(projs), c07Oracle(q), name, cfgs, units, c06ReTable(q, res),
		matched, hx.Bool(m.All()), hx.Bool(m.Any()), hx.List(pvals))
	o.Count(fmt.Sprintf("fixed n=%d kept=%v", n, nm > 0))
	o.Add(c, in, "F"+q+"\x00"+strings.Join(projs, "\x00")+in.Name, true)
	return nil
}

func genC06(o *hx.Out, r *hx.Rng, tier string, replay string) error {
	o.Rule = "sequences on ONE Filter: Match(A), then Match/Apply of another result B (other units, other n), then A's (and B's) Match consulted (Test all i, All, Any, Match.Apply) and judged on that result alone; " + "filter expressions generated from the grammar (terms key:value / key:(v OR v) / -term / (expr) / *, AND by juxtaposition or keyword, OR; keys .name .fullname /k /gomaxprocs file keys quoted keys .unit; values literal, quoted, regexp) up to depth 5, evaluated on results with n in {1,2,31,32,33,63,64,65,130} measurements with base and written units; fixed-list projections (1-3 Parse calls on one parser, incl. .fullname next to /k) wrapping such filters. non-trivial = some but not all measurements match (filters)"
	ns := []int{1, 2, 31, 32, 33, 63, 64, 65, 130}
	per := 110
	perFixed := 60
	if tier == "thorough" {
		per, perFixed = 1500, 800
	}
	for _, n := range ns {
		for i := 0; i < per; i++ {
			if err := c06Filter(o, r, n, r.Range(0, 5)); err != nil {
				return err
			}
		}
	}
	seqN := []int{1, 2, 31, 32, 33, 63, 64, 65, 130}
	perSeq := 40
	if tier == "thorough" {
		perSeq = 600
	}
	for _, nA := range seqN {
		for i := 0; i < perSeq; i++ {
			nB := seqN[r.Intn(len(seqN))]
			if r.Chance(0.3) {
				nB = nA
			}
			if err := c06Seq(o, r, nA, nB); err != nil {
				return err
			}
		}
	}
	for _, n := range []int{1, 2, 33} {
		for i := 0; i < perFixed; i++ {
			if err := c06Fixed(o, r, n); err != nil {
				return err
			}
		}
	}
	return nil
}
