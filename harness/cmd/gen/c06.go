package main

import (
	"fmt"
	"reflect"
	"regexp"
	"strconv"
	"strings"

	"golang.org/x/perf/benchfmt"
	"golang.org/x/perf/benchproc"
	parse "golang.org/x/perf/benchproc/verifbridge"
	"verifharness/internal/hx"
)

func init() { gens["C06"] = genC06 }

type c06Input struct {
	Kind   string      `json:"kind"`
	Filter string      `json:"filter"`
	Projs  []string    `json:"projections,omitempty"`
	Name   string      `json:"name"`
	Config [][3]string `json:"config"`
	Units  [][2]string `json:"units"` // unit, orig unit
}

var c06Units = [][2]string{
	{"sec/op", "ns/op"}, {"sec/op", ""}, {"B/op", ""}, {"allocs/op", ""}, {"B/s", "MB/s"},
	{"ns/op", ""}, {"sec/op", "sec/op"}, {"x", "y"}, {"", ""}, {"op", "ns"},
}

func c06Result(r *hx.Rng, n int) (*benchfmt.Result, c06Input) {
	names := []string{"Fib", "Fib/k=1", "Fib/k=1-8", "X/k=1", "X", "Y/k=2/j=a", "Sort/size=4k/gomaxprocs=2", "A-b-4", "Fib/k=1/k=2", "*"}
	name := names[r.Intn(len(names))]
	res := &benchfmt.Result{Name: benchfmt.Name(name), Iters: 7}
	in := c06Input{Name: name}
	for _, kv := range [][2]string{{"goos", "linux"}, {"pkg", "p/q"}, {"a b", "x y"}, {"goarch", ""}, {"é", "ü"}} {
		if r.Chance(0.6) {
			v := kv[1]
			if r.Chance(0.3) {
				v = []string{"darwin", "x", "", "linux "}[r.Intn(4)]
			}
			res.SetConfig(kv[0], v)
			i, ok := res.ConfigIndex(kv[0])
			if !ok {
				continue // SetConfig with an empty value deletes the key
			}
			kind := "file"
			if r.Chance(0.25) {
				res.Config[i].File = false
				kind = "internal"
			}
			in.Config = append(in.Config, [3]string{kv[0], v, kind})
		}
	}
	nu := r.Range(1, 4)
	for i := 0; i < n; i++ {
		u := c06Units[r.Intn(nu+2)%len(c06Units)]
		if r.Chance(0.15) {
			u = c06Units[r.Intn(len(c06Units))]
		}
		res.Values = append(res.Values, benchfmt.Value{Value: float64(i), Unit: u[0], OrigValue: float64(i), OrigUnit: u[1]})
		in.Units = append(in.Units, u)
	}
	return res, in
}

func c06ResSx(res *benchfmt.Result) (hx.Sx, hx.Sx, hx.Sx) {
	var cfgT, units []hx.Sx
	for _, c := range res.Config {
		cfgT = append(cfgT, hx.L(hx.S(c.Key), hx.B(c.Value), hx.Bool(c.File)))
	}
	for _, v := range res.Values {
		units = append(units, hx.L(hx.S(v.Unit), hx.S(v.OrigUnit)))
	}
	return hx.S(string(res.Name)), hx.List(cfgT), hx.List(units)
}

// candidate strings a regexp of the expression can be applied to, computed
// without the code under test: config values, name pieces, units
func c06Candidates(res *benchfmt.Result) []string {
	seen := map[string]bool{}
	var out []string
	add := func(s string) {
		if !seen[s] {
			seen[s] = true
			out = append(out, s)
		}
	}
	add("")
	add(string(res.Name))
	add(string(res.Name.Base()))
	_, parts := res.Name.Parts()
	for _, p := range parts {
		ps := string(p)
		if i := strings.IndexByte(ps, '='); i >= 0 {
			add(ps[i+1:])
		}
		if strings.HasPrefix(ps, "-") {
			add(ps[1:])
		}
	}
	for _, c := range res.Config {
		add(string(c.Value))
	}
	for _, v := range res.Values {
		add(v.Unit)
		add(v.OrigUnit)
	}
	return out
}

func c06Regexps(f parse.Filter, acc map[string]*regexp.Regexp) {
	switch f := f.(type) {
	case *parse.FilterMatch:
		if f.Regexp != nil {
			acc[f.Regexp.String()] = f.Regexp
		}
	case *parse.FilterOp:
		for _, e := range f.Exprs {
			c06Regexps(e, acc)
		}
	}
}

func c06ReTable(q string, res *benchfmt.Result) hx.Sx {
	return hx.List(c06ReTableList(q, res))
}

func c06ReTableList(q string, res *benchfmt.Result) []hx.Sx {
	f, err := parse.ParseFilter(q)
	if err != nil {
		return nil
	}
	acc := map[string]*regexp.Regexp{}
	c06Regexps(f, acc)
	var keys []string
	for k := range acc {
		keys = append(keys, k)
	}
	sortStrings(keys)
	cands := c06Candidates(res)
	// first the regexp texts the generator itself put into the expression (not taken from the parser under test)
	seen := map[[2]string]bool{}
	l := c06ReExtra(res, seen)
	for _, k := range keys {
		re := regexp.MustCompile(k) // compiled afresh from its text
		for _, c := range cands {
			if seen[[2]string{k, c}] {
				continue
			}
			l = append(l, hx.L(hx.S(k), hx.S(c), hx.Bool(re.MatchString(c))))
		}
	}
	return l
}

func sortStrings(a []string) {
	for i := 1; i < len(a); i++ {
		for j := i; j > 0 && a[j] < a[j-1]; j-- {
			a[j], a[j-1] = a[j-1], a[j]
		}
	}
}

func c06Clone(res *benchfmt.Result) *benchfmt.Result { return res.Clone() }

func c06Same(a, b *benchfmt.Result) bool {
	if string(a.Name) != string(b.Name) || a.Iters != b.Iters || len(a.Config) != len(b.Config) || len(a.Values) != len(b.Values) {
		return false
	}
	for i := range a.Config {
		if a.Config[i].Key != b.Config[i].Key || string(a.Config[i].Value) != string(b.Config[i].Value) || a.Config[i].File != b.Config[i].File {
			return false
		}
	}
	if len(a.Values) == 0 {
		return true // both without measurements (a nil and an empty slice are the same result)
	}
	return reflect.DeepEqual(a.Values, b.Values)
}

var c06Keys = []string{".name", ".fullname", "/k", "/gomaxprocs", "goos", "pkg", `"a b"`, "goarch", "/j", "é", "missing"}
var c06Res = []string{"/^l/", "/x$/", "/./", "/^$/", "/(a|b)/", "/ns/", "/op$/", "/^sec[/]op$/", "/[0-9]/", "/Fib/", "/k=1/", "/B/"}

func c06Value(r *hx.Rng, cands []string) string {
	switch r.Intn(5) {
	case 0:
		return c06Res[r.Intn(len(c06Res))]
	case 1:
		return r.Pick([]string{"linux", "x", `"x y"`, "1", "8", `""`, "Fib", "X", "sec/op"})
	default:
		c := cands[r.Intn(len(cands))]
		return strconv.Quote(c)
	}
}

func c06Term(r *hx.Rng, depth int, cands []string) string {
	if depth > 0 {
		switch r.Intn(7) {
		case 0:
			return "-" + c06Term(r, depth-1, cands)
		case 1, 2:
			return "(" + c06Expr(r, depth-1, cands) + ")"
		}
	}
	if r.Chance(0.05) {
		return "*"
	}
	key := c06Keys[r.Intn(len(c06Keys))]
	if r.Chance(0.5) {
		key = ".unit"
		// mostly units that occur (the candidate list ends with the units)
		if r.Chance(0.7) {
			u := cands[len(cands)-1-r.Intn(min(4, len(cands)))]
			if r.Chance(0.3) {
				return "-.unit:" + strconv.Quote(u)
			}
			return ".unit:" + strconv.Quote(u)
		}
	} else if r.Chance(0.5) {
		// a term that is true or false of the whole result, with a value that occurs
		return r.Pick([]string{"", "", "-"}) + r.Pick([]string{".fullname", ".name", "goos", "pkg"}) + ":" + strconv.Quote(cands[r.Intn(min(3, len(cands)))+0])
	}
	if r.Chance(0.2) {
		n := r.Range(1, 3)
		var vs []string
		for i := 0; i < n; i++ {
			vs = append(vs, c06Value(r, cands))
		}
		return key + ":(" + strings.Join(vs, " OR ") + ")"
	}
	return key + ":" + c06Value(r, cands)
}

func c06And(r *hx.Rng, depth int, cands []string) string {
	n := 1
	if r.Chance(0.5) {
		n = r.Range(2, 4)
	}
	var ts []string
	for i := 0; i < n; i++ {
		ts = append(ts, c06Term(r, depth, cands))
	}
	s := ts[0]
	for _, t := range ts[1:] {
		s += r.Pick([]string{" ", " AND ", "  "}) + t
	}
	return s
}

func c06Expr(r *hx.Rng, depth int, cands []string) string {
	n := 1
	if r.Chance(0.4) {
		n = r.Range(2, 3)
	}
	var ts []string
	for i := 0; i < n; i++ {
		ts = append(ts, c06And(r, depth, cands))
	}
	return strings.Join(ts, " OR ")
}

func c06Matched(m benchproc.Match, n int) (hx.Sx, int) {
	var idx []hx.Sx
	for i := 0; i < n; i++ {
		if m.Test(i) {
			idx = append(idx, hx.I(i))
		}
	}
	return hx.List(idx), len(idx)
}

func c06Filter(o *hx.Out, r *hx.Rng, n int, depth int) error {
	res, in := c06Result(r, n)
	q := c06Expr(r, depth, c06Candidates(res))
	return c06FilterOn(o, res, in, q, "filter")
}

// c06FilterOn: NewFilter(q), Match / All / Any / Test / Apply on res, as a kind-1 case.
func c06FilterOn(o *hx.Out, res *benchfmt.Result, in c06Input, q string, fam string) error {
	n := len(res.Values)
	in.Kind, in.Filter = fam, q
	flt, err := benchproc.NewFilter(q)
	if err != nil {
		return fmt.Errorf("generated filter %q rejected: %v", q, err)
	}
	before := c06Clone(res)
	m, err := flt.Match(res)
	if err != nil {
		return err
	}
	unchanged := c06Same(before, res)
	matched, nm := c06Matched(m, n)
	oob := !m.Test(-1) && !m.Test(n) && !m.Test(n+31) && !m.Test(n+64)
	all, any := m.All(), m.Any()
	// a second Match gives the same answer (filter holds no state)
	m2, _ := flt.Match(res)
	matched2, _ := c06Matched(m2, n)
	if matched2.Text() != matched.Text() {
		unchanged = false
	}
	app := c06Clone(res)
	ret, err := flt.Apply(app)
	if err != nil {
		return err
	}
	var rem []hx.Sx
	for _, v := range app.Values {
		rem = append(rem, hx.I(int(v.Value)))
	}
	name, cfgs, units := c06ResSx(res)
	c := hx.L(hx.I(1), hx.S(q), c07Oracle(q), c07ParseFilter(q), name, cfgs, units, c06ReTable(q, res),
		matched, hx.Bool(oob), hx.Bool(all), hx.Bool(any), hx.Bool(ret), hx.List(rem), hx.Bool(unchanged))
	kind := "some"
	if nm == 0 {
		kind = "none"
	} else if nm == n {
		kind = "all"
	}
	o.Count(fmt.Sprintf("%s n=%d matched=%s", fam, n, kind))
	if fam == "filter" {
		o.Count(fmt.Sprintf("filter ops AND/OR/NOT/unit=%d/%d/%d/%d", min(strings.Count(q, " AND ")+strings.Count(q, "  "), 3), min(strings.Count(q, " OR "), 3), min(strings.Count(q, "-"), 3), min(strings.Count(q, ".unit"), 3)))
	}
	o.Add(c, in, q+"\x00"+in.Name+fmt.Sprint(n, in.Units), nm != 0 && nm != n, c06EmptyTags(res)...)
	return nil
}

// c06EmptyTags: known finding C06_empty_result_answers concerns exactly the
// results WITHOUT measurements (a predicate of the input result).
func c06EmptyTags(res *benchfmt.Result) []string {
	if len(res.Values) == 0 {
		return []string{"c06_result_without_measurements"}
	}
	return nil
}

// c06Consult reads everything out of a Match that was obtained earlier and
// emits it as a kind-3 case for res alone.
func c06Consult(o *hx.Out, q string, m benchproc.Match, res, before *benchfmt.Result, in c06Input, how string) {
	n := len(res.Values)
	matched, nm := c06Matched(m, n)
	oob := !m.Test(-1) && !m.Test(n) && !m.Test(n+31) && !m.Test(n+64)
	all, any := m.All(), m.Any()
	app := c06Clone(res)
	ret := m.Apply(app)
	var rem []hx.Sx
	for _, v := range app.Values {
		rem = append(rem, hx.I(int(v.Value)))
	}
	unchanged := c06Same(before, res)
	name, cfgs, units := c06ResSx(res)
	c := hx.L(hx.I(3), hx.S(q), c07Oracle(q), c07ParseFilter(q), name, cfgs, units, c06ReTable(q, res),
		matched, hx.Bool(oob), hx.Bool(all), hx.Bool(any), hx.Bool(ret), hx.List(rem), hx.Bool(unchanged))
	kind := "some"
	if nm == 0 {
		kind = "none"
	} else if nm == n {
		kind = "all"
	}
	o.Count(fmt.Sprintf("seq %s matched=%s", how, kind))
	in.Kind, in.Filter = "sequence:"+how, q
	o.Add(c, in, "S"+how+q+"\x00"+in.Name+fmt.Sprint(n, in.Units), nm != 0 && nm != n)
}

// c06Seq: one Filter, Match(A), then Match / Apply on another result B (other
// units, other n), and only then A's Match is consulted; likewise B's.
func c06Seq(o *hx.Out, r *hx.Rng, nA, nB int) error {
	A, inA := c06Result(r, nA)
	B, inB := c06Result(r, nB)
	cands := append(c06Candidates(A), c06Candidates(B)...)
	// units last, as c06Term expects
	for _, v := range A.Values[:min(2, len(A.Values))] {
		cands = append(cands, v.Unit)
	}
	for _, v := range B.Values[:min(2, len(B.Values))] {
		cands = append(cands, v.Unit, v.OrigUnit)
	}
	q := c06Expr(r, r.Range(0, 3), cands)
	if !strings.Contains(q, ".unit") {
		q = r.Pick([]string{"", "-"}) + ".unit:" + strconv.Quote(cands[len(cands)-1-r.Intn(3)]) + r.Pick([]string{" ", " OR ", " AND "}) + "(" + q + ")"
	}
	return c06SeqOn(o, r, A, inA, B, inB, q, "")
}

// c06SeqOn: the sequence protocol of c06Seq on two given results and one filter text.
func c06SeqOn(o *hx.Out, r *hx.Rng, A *benchfmt.Result, inA c06Input, B *benchfmt.Result, inB c06Input, q string, fam string) error {
	nA, nB := len(A.Values), len(B.Values)
	flt, err := benchproc.NewFilter(q)
	if err != nil {
		return fmt.Errorf("generated filter %q rejected: %v", q, err)
	}
	beforeA, beforeB := c06Clone(A), c06Clone(B)
	mA, err := flt.Match(A)
	if err != nil {
		return err
	}
	how := ""
	var mB benchproc.Match
	haveB := false
	switch r.Intn(4) {
	case 0:
		how = "match-other"
		mB, _ = flt.Match(B)
		haveB = true
	case 1:
		how = "apply-other"
		flt.Apply(c06Clone(B))
	case 2:
		how = "match-other-twice"
		mB, _ = flt.Match(B)
		haveB = true
		C, _ := c06Result(r, []int{nA, nB}[r.Intn(2)])
		flt.Match(C)
		flt.Apply(C)
	default:
		how = "match-other-then-same"
		mB, _ = flt.Match(B)
		haveB = true
		flt.Match(c06Clone(A))
	}
	c06Consult(o, q, mA, A, beforeA, inA, fam+how)
	if haveB {
		c06Consult(o, q, mB, B, beforeB, inB, fam+how+"/second")
	}
	return nil
}

var c06Projs = []string{
	".fullname@(X Y)", ".fullname@(Fib X/k=1)", "/k", "/k@(1 2)", "/k@(2)", ".name@(Fib X)", ".name", "goos@(linux darwin)",
	"goos@(x)", "pkg", ".fullname", "/gomaxprocs@(8 4)", "/gomaxprocs", "/j@(a)", `"a b"@("x y")`, ".config", ".fullname@(\"*\" \"*/k=1\")",
	"goarch@(\"\")", "/k@(zz)", ".fullname@(Fib/k=1 Fib-8 A-b)", // "/k@(zz)": a list no value is in (key@fixed is rejected since 9f4ec2f)
}

func c06Fixed(o *hx.Out, r *hx.Rng, n int) error {
	res, in := c06Result(r, n)
	q := "*"
	if r.Chance(0.6) {
		q = c06Expr(r, 1, c06Candidates(res))
	}
	np := r.Range(1, 3)
	var projs []string
	for i := 0; i < np; i++ {
		pe := c06Projs[r.Intn(len(c06Projs))]
		if r.Chance(0.3) {
			pe += "," + c06Projs[r.Intn(len(c06Projs))]
		}
		projs = append(projs, pe)
	}
	return c06FixedOn(o, res, in, q, projs, "fixed")
}

// c06FixedOn: one parser, Parse(projs[0], flt), Parse(projs[1], flt), ...; then
// flt.Match(res), and the projected values of the fields that have a fixed list.
func c06FixedOn(o *hx.Out, res *benchfmt.Result, in c06Input, q string, projs []string, fam string) error {
	n := len(res.Values)
	flt, err := benchproc.NewFilter(q)
	if err != nil {
		return fmt.Errorf("generated filter %q rejected: %v", q, err)
	}
	var pp benchproc.ProjectionParser
	var ps []*benchproc.Projection
	for _, pe := range projs {
		p, err := pp.Parse(pe, flt)
		if err != nil {
			return fmt.Errorf("generated projection %q rejected: %v", pe, err)
		}
		ps = append(ps, p)
	}
	in.Kind, in.Filter, in.Projs = fam, q, projs
	m, err := flt.Match(res)
	if err != nil {
		return err
	}
	matched, nm := c06Matched(m, n)
	// projected values of the fields with a fixed order
	var pvals []hx.Sx
	for i, p := range ps {
		fs, _ := parse.ParseProjection(projs[i])
		key := p.Project(res)
		var l []hx.Sx
		fields := p.Fields()
		for j, f := range fs {
			if f.Order != "fixed" || j >= len(fields) || fields[j].IsTuple {
				continue
			}
			l = append(l, hx.L(hx.S(f.Key), hx.S(key.Get(fields[j]))))
		}
		pvals = append(pvals, hx.List(l))
	}
	name, cfgs, units := c06ResSx(res)
	c := hx.L(hx.I(2), hx.S(q), hx.SList(projs), c07Oracle(q), name, cfgs, units, c06ReTable(q, res),
		matched, hx.Bool(m.All()), hx.Bool(m.Any()), hx.List(pvals))
	o.Count(fmt.Sprintf("%s n=%d kept=%v", fam, n, nm > 0))
	o.Add(c, in, "F"+q+"\x00"+strings.Join(projs, "\x00")+in.Name, true, c06EmptyTags(res)...)
	return nil
}

// c06Empty: results WITHOUT measurements - built that way, or emptied by an
// earlier Apply of a filter that drops every measurement (res.Values[:0]).
func c06Empty(o *hx.Out, r *hx.Rng) error {
	res, in := c06Result(r, 0)
	how := "built"
	if r.Chance(0.5) {
		how = "emptied-by-Apply"
		res, in = c06Result(r, []int{1, 2, 33}[r.Intn(3)])
		f0, err := benchproc.NewFilter(".unit:nosuchunit")
		if err != nil {
			return err
		}
		if ok, _ := f0.Apply(res); ok || len(res.Values) != 0 {
			return fmt.Errorf("empty: the first Apply kept %d measurements", len(res.Values))
		}
		in.Units = nil
	}
	o.Count("class:empty-result:" + how)
	switch r.Intn(4) {
	case 0:
		q := "*"
		if r.Chance(0.6) {
			q = c06Expr(r, 1, c06Candidates(res))
		}
		var projs []string
		for i := r.Range(1, 2); i > 0; i-- {
			projs = append(projs, c06Projs[r.Intn(len(c06Projs))])
		}
		return c06FixedOn(o, res, in, q, projs, "empty-fixed")
	case 1:
		q := r.Pick([]string{"*", "-*", "goos:linux", "-goos:linux", ".unit:x", "-.unit:x", "goos:linux .unit:x", "-goos:linux OR .unit:x",
			".unit:x OR *", "* .unit:x", "-(.unit:x OR goos:linux)", ".unit:(x OR y) -.unit:z"})
		return c06FilterOn(o, res, in, q, "empty")
	}
	return c06FilterOn(o, res, in, c06Expr(r, r.Range(0, 3), append(c06Candidates(res), "ns/op", "sec/op")), "empty")
}

// ---- (C06-a) a fixed list on .fullname with .name / sub-name keys projected
// before, next to, or AFTER it: every order of the fields, every way of
// cutting that order into Parse calls on one parser ----

var c06OrdNames = []string{"Copy/size=1", "Copy/size=1-8", "Move/size=2/gomaxprocs=4", "Copy", "Copy-8", "Other/size=1",
	"Move/gomaxprocs=8/size=1", "Copy/size=1/x=2", "Move/size=2", "Copy/x=2-4"}
var c06OrdLists = []string{"(Copy Move)", "(Copy Move)", "(Copy/size=1 Move/size=2)", `("*" "*/size=1")`, "(Copy-8 Copy)", `("*")`,
	"(Copy/x=2 Move)", "(Copy/gomaxprocs=8 Copy/size=1-8 X)", `("*/x=2" "*-8" "*/size=1")`, "(Move/gomaxprocs=4 Copy/size=1)"}

func c06Perms(n int) [][]int {
	var out [][]int
	var rec func(cur []int, used []bool)
	rec = func(cur []int, used []bool) {
		if len(cur) == n {
			out = append(out, append([]int(nil), cur...))
			return
		}
		for i := 0; i < n; i++ {
			if !used[i] {
				used[i] = true
				rec(append(cur, i), used)
				used[i] = false
			}
		}
	}
	rec(nil, make([]bool, n))
	return out
}

// c06Deleted: name with the parts of the keys in set deleted, by plain string
// surgery (used only to CHOOSE value lists that tell the projected name from
// the written one; nothing is judged with it).
func c06Deleted(name string, set []string) string {
	has := func(k string) bool {
		for _, x := range set {
			if x == k {
				return true
			}
		}
		return false
	}
	segs := strings.Split(name, "/")
	gm := ""
	last := segs[len(segs)-1]
	if i := strings.LastIndex(last, "-"); i >= 0 && i+1 < len(last) && strings.Trim(last[i+1:], "0123456789") == "" {
		gm, segs[len(segs)-1] = last[i:], last[:i]
	}
	out := segs[0]
	if has(".name") {
		out = "*"
	}
	for _, sg := range segs[1:] {
		if i := strings.IndexByte(sg, '='); i >= 0 && has("/"+sg[:i]) {
			continue
		}
		out += "/" + sg
	}
	if gm != "" && !has("/gomaxprocs") {
		out += gm
	}
	return out
}

func c06Order(o *hx.Out, r *hx.Rng, reps int) error {
	others := []string{"/size", ".name", "/gomaxprocs"}
	for sub := 1; sub < 8; sub++ {
		var set []string
		for b, k := range others {
			if sub&(1<<b) != 0 {
				set = append(set, k)
			}
		}
		for _, perm := range c06Perms(len(set) + 1) {
			for rep := 0; rep < reps; rep++ {
				// field texts in this order; index 0 is the fixed-list .fullname
				var fields []string
				first := perm[0] == 0
				name := c06OrdNames[r.Intn(len(c06OrdNames))]
				list := c06OrdLists[r.Intn(len(c06OrdLists))]
				want := c06Deleted(name, set)
				listKind := "pool"
				switch x := r.Intn(20); {
				case x < 11 && want != name: // the name as projected is listed, the name as written is not
					list, listKind = "("+strconv.Quote(want)+" Zzz)", "projected-only"
				case x < 15 && want != name: // the name as written is listed, the name as projected is not
					list, listKind = "(Zzz "+strconv.Quote(name)+")", "written-only"
				}
				o.Count("order list=" + listKind)
				for _, x := range perm {
					if x == 0 {
						fields = append(fields, ".fullname@"+list)
						continue
					}
					f := set[x-1]
					if r.Chance(0.2) {
						f += map[string]string{"/size": "@(1 2)", ".name": "@(Copy Move)", "/gomaxprocs": `@(8 "")`}[f]
					}
					fields = append(fields, f)
				}
				// cut into Parse calls
				var projs []string
				cur := fields[0]
				for _, f := range fields[1:] {
					if r.Chance(0.5) {
						projs = append(projs, cur)
						cur = f
					} else {
						cur += r.Pick([]string{",", ",", " ", ", "}) + f
					}
				}
				projs = append(projs, cur)
				res := &benchfmt.Result{Name: benchfmt.Name(name), Iters: 7}
				in := c06Input{Name: name}
				if r.Chance(0.5) {
					res.SetConfig("goos", "linux")
					in.Config = append(in.Config, [3]string{"goos", "linux", "file"})
				}
				for i, nv := 0, r.Range(1, 3); i < nv; i++ {
					u := c06Units[r.Intn(4)]
					res.Values = append(res.Values, benchfmt.Value{Value: float64(i), Unit: u[0], OrigValue: float64(i), OrigUnit: u[1]})
					in.Units = append(in.Units, u)
				}
				q := "*"
				if r.Chance(0.3) {
					q = c06Expr(r, 1, c06Candidates(res))
				}
				o.Count(fmt.Sprintf("order fullname-list-first=%v calls=%d", first, len(projs)))
				if err := c06FixedOn(o, res, in, q, projs, "fixed-order"); err != nil {
					return err
				}
			}
		}
	}
	return nil
}

// ---- (C06-b) '*' as a direct operand of OR / AND next to other operands ----

func c06StarExpr(r *hx.Rng, cands []string) string {
	t := func() string {
		switch r.Intn(4) {
		case 0: // .unit term on a unit that occurs
			u := cands[len(cands)-1-r.Intn(min(4, len(cands)))]
			return r.Pick([]string{"", "", "-"}) + ".unit:" + strconv.Quote(u)
		case 1: // whole-result term, true or false
			return r.Pick([]string{"", "", "-"}) + r.Pick([]string{".fullname", ".name", "goos", "pkg"}) + ":" + strconv.Quote(cands[r.Intn(min(3, len(cands)))])
		case 2:
			return r.Pick([]string{"goos:plan9", "goos:linux", ".unit:B/op", "-.unit:B/op", ".unit:/op$/", "missing:x", `missing:""`})
		}
		return c06Term(r, 1, cands)
	}
	a, b, c := t(), t(), t()
	switch r.Intn(16) {
	case 0:
		return a + " OR *"
	case 1:
		return "* OR " + a
	case 2:
		return a + " OR * OR " + b
	case 3:
		return "-(" + a + " OR *)"
	case 4:
		return a + " AND (" + b + " OR * OR " + c + ")"
	case 5:
		return "* AND " + a
	case 6:
		return a + " AND *"
	case 7:
		return a + " * " + b
	case 8:
		return "-(* " + a + ")"
	case 9:
		return "(" + a + " OR *) " + b
	case 10:
		return "-* OR " + a
	case 11:
		return a + " OR (* " + b + ")"
	case 12:
		return "(" + a + " *) OR " + b
	case 13:
		return "-(-* OR " + a + ")"
	case 14:
		return "-(" + a + " OR (" + b + " *))"
	}
	return a + " (" + b + " OR -*) " + c
}

func c06Star(o *hx.Out, r *hx.Rng, n int) error {
	res, in := c06Result(r, n)
	q := c06StarExpr(r, c06Candidates(res))
	if r.Chance(0.15) {
		q = r.Pick([]string{"goos:plan9 OR *", "-(.unit:B/op OR *)", "k:v AND (x:y OR * OR z:w)", "* OR .unit:B/op", ".unit:B/op OR * OR goos:linux", "-(goos:linux OR *)", "* *", "* OR *", "-(* OR *)", ".unit:sec/op AND *", "-(.unit:sec/op *)"})
	}
	return c06FilterOn(o, res, in, q, "star")
}

// ---- (C06-b) measurements that share a base unit but were written differently,
// judged by .unit terms that tell the spellings apart; in ONE result and across
// results by one Filter ----

var c06Spell = [][2]string{{"sec/op", "ns/op"}, {"sec/op", ""}, {"sec/op", "sec/op"}, {"sec/op", "us/op"}, {"ns/op", ""}, {"B/op", ""}, {"B/op", "MB/op"}, {"ns/op", "ns/op"}}

func c06SpellResult(r *hx.Rng, n int) (*benchfmt.Result, c06Input) {
	name := r.Pick([]string{"Fib", "Fib/k=1-8", "X"})
	res := &benchfmt.Result{Name: benchfmt.Name(name), Iters: 7}
	in := c06Input{Name: name}
	if r.Chance(0.5) {
		res.SetConfig("goos", "linux")
		in.Config = append(in.Config, [3]string{"goos", "linux", "file"})
	}
	// mostly the sec/op family, so that the same base unit meets itself
	k := r.Range(2, 5)
	for i := 0; i < n; i++ {
		u := c06Spell[r.Intn(k)]
		if r.Chance(0.1) {
			u = c06Spell[r.Intn(len(c06Spell))]
		}
		res.Values = append(res.Values, benchfmt.Value{Value: float64(i), Unit: u[0], OrigValue: float64(i), OrigUnit: u[1]})
		in.Units = append(in.Units, u)
	}
	return res, in
}

func c06SpellExpr(r *hx.Rng) string {
	t := func() string {
		neg := r.Pick([]string{"", "", "-"})
		switch r.Intn(6) {
		case 0:
			return neg + ".unit:" + r.Pick([]string{"ns/op", "sec/op", "us/op", "B/op", "MB/op", `""`})
		case 1:
			return neg + ".unit:" + strconv.Quote(r.Pick([]string{"ns/op", "sec/op", "us/op"}))
		case 2:
			return neg + ".unit:" + r.Pick([]string{"/^ns/", "/^sec/", "/s[/]op$/", "/^[nu]s/", "/^$/", "/B/"})
		case 3:
			return neg + ".unit:(" + r.Pick([]string{"ns/op", "us/op", "/^ns/"}) + " OR " + r.Pick([]string{"us/op", "B/op", `"sec/op"`}) + ")"
		case 4:
			return r.Pick([]string{"*", "-*", "goos:linux", "-goos:linux", ".name:Fib"})
		}
		return neg + "(" + ".unit:" + r.Pick([]string{"ns/op", "sec/op"}) + r.Pick([]string{" ", " OR ", " AND "}) + "-.unit:" + r.Pick([]string{"us/op", "ns/op", "sec/op"}) + ")"
	}
	n := r.Range(1, 3)
	s := t()
	for i := 1; i < n; i++ {
		s += r.Pick([]string{" ", " OR ", " AND ", " OR "}) + t()
	}
	return s
}

func c06SpellOne(o *hx.Out, r *hx.Rng, n int) error {
	res, in := c06SpellResult(r, n)
	q := c06SpellExpr(r)
	spell := map[[2]string]bool{}
	for _, u := range in.Units {
		if u[0] == "sec/op" {
			spell[u] = true
		}
	}
	o.Count(fmt.Sprintf("spell-one spellings-of-sec/op-in-result=%d", len(spell)))
	return c06FilterOn(o, res, in, q, "spell-one")
}

func c06SpellSeq(o *hx.Out, r *hx.Rng, nA, nB int) error {
	A, inA := c06SpellResult(r, nA)
	B, inB := c06SpellResult(r, nB)
	q := c06SpellExpr(r)
	if !strings.Contains(q, ".unit") {
		q = ".unit:ns/op OR " + q
	}
	return c06SeqOn(o, r, A, inA, B, inB, q, "spell/")
}

// ---- histories on ONE Filter and ONE ProjectionParser: Parse / ParseWithUnit
// calls that FAIL in a later field after an earlier field carried a fixed value
// list, with Match / Apply of further results and later successful Parse calls
// through the same Filter ----

type c06HistStep struct {
	Op     string      `json:"op"` // Parse, ParseWithUnit, Match, Apply
	Proj   string      `json:"projection,omitempty"`
	Failed bool        `json:"failed,omitempty"`
	Name   string      `json:"name,omitempty"`
	Config [][3]string `json:"config,omitempty"`
	Units  [][2]string `json:"units,omitempty"`
}
type c06HistInput struct {
	Kind   string        `json:"kind"` // history
	Filter string        `json:"filter"`
	Steps  []c06HistStep `json:"steps"`
}

// fixed fields that tell the pool of c06HistResult apart (.fullname lists
// too: the history keeps inside the parser's contract, see c06Hist), other valid fields, and fields
// that are rejected for a SEMANTIC reason only after the fields before them
// have been processed
var c06HistFixed = []string{"/size@(4k)", "/size@(8k 16k)", "/k@(1)", "/k@(2 3)", ".name@(Fib)", ".name@(X Sort)", "goos@(linux)", "goos@(darwin plan9)",
	"/gomaxprocs@(2)", "pkg@(nosuch)", `goarch@("")`, "/k@(zz)", `"a b"@("x y")`,
	".fullname@(Sort/size=4k Sort/size=8k Fib/k=3-2)", ".fullname@(Sort Fib X)", `.fullname@("*" Sort-8 Sort/gomaxprocs=2)`, ".fullname@(Fib/k=1 X/k=2 X/k=1 Fib/size=4k)"}
var c06HistPlain = []string{"/k", ".name", "goos", "pkg", ".config", ".fullname", "/size@alpha", "/gomaxprocs@num", "goarch@first"}
var c06HistBad = []string{".name@nosuchorder", ".unit", ".config@(a b)", "goos@fixed", "/k@bogus", ".unit@alpha", `""`, "pkg@Alpha", ".config@fixed", ".fullname@nosuchorder"}

func c06HistResult(r *hx.Rng, n int) (*benchfmt.Result, c06Input) {
	res, in := c06Result(r, n)
	if r.Chance(0.6) {
		name := r.Pick([]string{"Sort/size=4k/gomaxprocs=2", "Sort/size=8k", "Sort/size=4k", "Fib/k=1/size=4k", "X/k=2/size=16k", "Fib/k=3-2", "Sort/size=4k-8", "X/size=2k/k=1"})
		res.Name = benchfmt.Name(name)
		in.Name = name
	}
	return res, in
}

func c06Hist(o *hx.Out, r *hx.Rng, directed int) (err error) {
	defer func() {
		if p := recover(); p != nil {
			err = fmt.Errorf("PANIC-INPUT history: %v", p)
		}
	}()
	// the pool of results the Filter keeps being used on
	var pool []*benchfmt.Result
	var pin []c06Input
	for i := r.Range(2, 4); i > 0; i-- {
		res, in := c06HistResult(r, []int{1, 2, 3, 5, 33}[r.Intn(5)])
		pool, pin = append(pool, res), append(pin, in)
	}
	q := "*"
	full := directed == 3 // the .fullname family: random apart from its prologue
	if full {
		directed = -1
	}
	if directed < 0 && r.Chance(0.5) {
		var cands []string
		for _, res := range pool {
			cands = append(cands, c06Candidates(res)...)
		}
		q = c06Expr(r, r.Range(0, 2), cands)
	}
	flt, ferr := benchproc.NewFilter(q)
	if ferr != nil {
		return fmt.Errorf("generated filter %q rejected: %v", q, ferr)
	}
	var pp benchproc.ProjectionParser
	in := c06HistInput{Kind: "history", Filter: q}
	var steps []hx.Sx
	var rt []hx.Sx
	for _, res := range pool {
		rt = append(rt, c06ReTableList(q, res)...)
	}
	sep := func() string { return r.Pick([]string{" ", ",", ", ", "  "}) }
	// The parser's contract (projection.go: the .fullname extractor is
	// "constructed when the first Result is processed", from the keys of ALL
	// Parse calls): once a fixed list on .fullname was parsed (armed) and a
	// result went through the Filter since (frozen), no SUCCESSFUL Parse may
	// add a sub-name key or .name.  Failed calls are unrestricted.
	armed, frozen := false, false
	parseProj := parse.ParseProjection // the closure below shadows the package name
	subKeys := func(pe string) (sub, fixedFull bool) {
		fs, err := parseProj(pe)
		if err != nil {
			return false, false
		}
		for _, f := range fs {
			if f.Key == ".name" || strings.HasPrefix(f.Key, "/") {
				sub = true
			}
			if f.Key == ".fullname" && f.Order == "fixed" {
				fixedFull = true
			}
		}
		return
	}
	accepted := func(pe string) bool {
		f2, _ := benchproc.NewFilter("*")
		var p2 benchproc.ProjectionParser
		_, e := p2.Parse(pe, f2)
		return e == nil
	}
	parse := func(pe string, withUnit bool) bool {
		sub, fixedFull := subKeys(pe)
		if frozen && sub && accepted(pe) {
			o.Count("history:skipped-Parse-outside-the-parser-contract")
			return false
		}
		var perr error
		op := "Parse"
		if withUnit {
			op = "ParseWithUnit"
			_, _, perr = pp.ParseWithUnit(pe, flt)
		} else {
			_, perr = pp.Parse(pe, flt)
		}
		steps = append(steps, hx.L(hx.I(0), hx.S(pe), hx.Bool(withUnit), hx.Bool(perr == nil)))
		in.Steps = append(in.Steps, c06HistStep{Op: op, Proj: pe, Failed: perr != nil})
		if perr == nil && fixedFull {
			armed = true
			o.Count("class:history:fixed-list-on-.fullname-parsed")
		}
		return perr == nil
	}
	use := func(k int) error {
		frozen = frozen || armed
		res, rin := pool[k], pin[k]
		n := len(res.Values)
		name, cfgs, units := c06ResSx(res)
		if r.Chance(0.6) {
			m, merr := flt.Match(res)
			if merr != nil {
				return merr
			}
			matched, _ := c06Matched(m, n)
			steps = append(steps, hx.L(hx.I(1), name, cfgs, units, matched, hx.Bool(m.All()), hx.Bool(m.Any())))
			in.Steps = append(in.Steps, c06HistStep{Op: "Match", Name: rin.Name, Config: rin.Config, Units: rin.Units})
			return nil
		}
		app := c06Clone(res)
		ret, aerr := flt.Apply(app)
		if aerr != nil {
			return aerr
		}
		var rem []hx.Sx
		for _, v := range app.Values {
			rem = append(rem, hx.I(int(v.Value)))
		}
		steps = append(steps, hx.L(hx.I(2), name, cfgs, units, hx.List(rem), hx.Bool(ret)))
		in.Steps = append(in.Steps, c06HistStep{Op: "Apply", Name: rin.Name, Config: rin.Config, Units: rin.Units})
		return nil
	}
	useAll := func() error {
		for k := range pool {
			if err := use(k); err != nil {
				return err
			}
		}
		return nil
	}
	// would the fixed field fx drop a pool result the Filter keeps now?
	excludes := func(fx string) bool {
		f2, _ := benchproc.NewFilter("*")
		var p2 benchproc.ProjectionParser
		if _, e := p2.Parse(fx, f2); e != nil {
			return false
		}
		for _, res := range pool {
			m0, _ := flt.Match(res)
			m2, _ := f2.Match(res)
			if m0.Any() && !m2.Any() {
				return true
			}
		}
		return false
	}
	failing := func() (string, bool) {
		var fx string
		for try := 0; ; try++ {
			fx = c06HistFixed[r.Intn(len(c06HistFixed))]
			if try >= 8 || excludes(fx) {
				break
			}
		}
		bad := c06HistBad[r.Intn(len(c06HistBad))]
		switch directed {
		case 0:
			fx, bad = "/size@(4k)", ".name@nosuchorder"
		case 1:
			fx, bad = "/size@(4k)", ".unit"
		case 2:
			fx, bad = "/size@(4k)", ".config@(a b)"
		}
		pe := fx
		switch {
		case directed == 0 || directed == 2:
			pe = fx + " " + bad
		case directed == 1:
			pe = fx + "," + bad
		default:
			if r.Chance(0.3) { // a valid field first
				pe = c06HistPlain[r.Intn(len(c06HistPlain))] + sep() + pe
			}
			if r.Chance(0.3) { // two fixed lists before the failure
				pe += sep() + c06HistFixed[r.Intn(len(c06HistFixed))]
			}
			if r.Chance(0.2) {
				pe += sep() + c06HistPlain[r.Intn(len(c06HistPlain))]
			}
			pe += sep() + bad
			if r.Chance(0.2) { // more after the failing field
				pe += sep() + c06HistFixed[r.Intn(len(c06HistFixed))]
			}
		}
		return pe, excludes(fx)
	}
	good1 := func() string {
		pe := c06HistPlain[r.Intn(len(c06HistPlain))]
		if r.Chance(0.6) {
			pe = c06HistFixed[r.Intn(len(c06HistFixed))]
		}
		if r.Chance(0.3) {
			pe += sep() + c06HistPlain[r.Intn(len(c06HistPlain))]
		}
		return pe
	}
	good := func() string {
		pe := good1()
		for try := 0; frozen && try < 20; try++ {
			if sub, _ := subKeys(pe); !sub {
				break
			}
			pe = good1()
		}
		return pe
	}
	if full {
		// prologue, all of it BEFORE the first result: 1-2 Parse calls that fail
		// AFTER fields with sub-name keys / .name, possibly a successful one with
		// such keys, and a fixed list on .fullname - in any order.  The list is
		// chosen among the pool's names as written, as projected under the keys
		// of the SUCCESSFUL calls, and as they would be projected if the failed
		// calls' keys counted too.
		subPieces := []string{"/size", "/size@(4k)", "/k", ".name", ".name@(Sort Fib X)", "/gomaxprocs", "/size@alpha", "/k@(1 2 3)", "/size@(4k 8k 16k 2k)"}
		var calls []string
		var failKeys, okKeys []string
		keysOf := func(pe string) []string {
			var ks []string
			fs, _ := parseProj(pe)
			for _, f := range fs {
				ks = append(ks, f.Key)
			}
			return ks
		}
		for i := r.Range(1, 2); i > 0; i-- {
			pe := subPieces[r.Intn(len(subPieces))]
			if r.Chance(0.4) {
				pe += sep() + subPieces[r.Intn(len(subPieces))]
			}
			pe += sep() + r.Pick([]string{".unit", ".name@nosuchorder", ".config@(a b)", "goos@fixed", "/k@bogus"})
			failKeys = append(failKeys, keysOf(pe)...)
			calls = append(calls, pe)
		}
		if r.Chance(0.5) {
			pe := subPieces[r.Intn(len(subPieces))]
			okKeys = keysOf(pe)
			calls = append(calls, pe)
		}
		var list []string
		for k := range pool {
			name := pin[k].Name
			switch r.Intn(4) {
			case 0:
				list = append(list, name)
			case 1, 2:
				list = append(list, c06Deleted(name, okKeys))
			default:
				list = append(list, c06Deleted(name, append(append([]string{}, okKeys...), failKeys...)))
			}
		}
		for i := range list {
			list[i] = strconv.Quote(list[i])
		}
		fullPe := ".fullname@(" + strings.Join(list, " ") + ")"
		if r.Chance(0.3) {
			fullPe += sep() + r.Pick([]string{"goos", "pkg@alpha", ".config"})
		}
		at := r.Intn(len(calls) + 1)
		calls = append(calls[:at], append([]string{fullPe}, calls[at:]...)...)
		for _, pe := range calls {
			parse(pe, r.Chance(0.2))
		}
		o.Count("class:history:failed-Parse-with-sub-name-keys-next-to-a-fixed-list-on-.fullname")
		if err := useAll(); err != nil {
			return err
		}
	}
	if directed < 0 && r.Chance(0.4) {
		if !parse(good(), r.Chance(0.3)) {
			o.Count("history:generated-good-projection-rejected")
		}
	}
	if r.Chance(0.5) {
		if err := use(r.Intn(len(pool))); err != nil {
			return err
		}
	}
	nontrivial := false
	nfail := 1
	if directed < 0 {
		nfail = r.Range(1, 3)
	}
	for j := 0; j < nfail; j++ {
		pe, ex := failing()
		if parse(pe, directed < 0 && r.Chance(0.4)) {
			o.Count("history:projection-meant-to-fail-accepted")
		} else {
			o.Count("class:history:Parse-fails-in-a-later-field-after-a-fixed-list,Filter-used-again")
			if ex {
				nontrivial = true
				o.Count("class:history:...and-that-list-alone-would-drop-a-result-the-Filter-keeps")
			}
		}
		if err := useAll(); err != nil {
			return err
		}
		if r.Chance(0.6) { // a later successful Parse through the same Filter
			if parse(good(), r.Chance(0.3)) {
				o.Count("class:history:later-successful-Parse-on-the-same-Filter")
			}
			if err := useAll(); err != nil {
				return err
			}
		}
	}
	o.Count(fmt.Sprintf("history:steps=%d..%d", len(steps)/4*4, len(steps)/4*4+3))
	o.Add(hx.L(hx.I(4), hx.S(q), c07Oracle(q), hx.List(rt), hx.List(steps)), in,
		"H"+q+"\x00"+fmt.Sprint(in.Steps), nontrivial, "history")
	return nil
}

func genC06(o *hx.Out, r *hx.Rng, tier string, replay string) error {
	o.Rule = "sequences on ONE Filter: Match(A), then Match/Apply of another result B (other units, other n), then A's (and B's) Match consulted (Test all i, All, Any, Match.Apply) and judged on that result alone; " + "filter expressions generated from the grammar (terms key:value / key:(v OR v) / -term / (expr) / *, AND by juxtaposition or keyword, OR; keys .name .fullname /k /gomaxprocs file keys quoted keys .unit; values literal, quoted, regexp) up to depth 5, evaluated on results with n in {1,2,31,32,33,63,64,65,130} measurements with base and written units; fixed-list projections (1-3 Parse calls on one parser, incl. .fullname next to /k) wrapping such filters; fixed-order: a fixed list on .fullname together with every non-empty subset of {/size, .name, /gomaxprocs} in EVERY field order (the list first, in the middle, last), cut at random into 1-4 Parse calls on one parser, on names carrying those keys and the -N suffix; star: * as a direct operand of OR and of AND next to .unit and whole-result operands, negated and nested (16 templates + fixed texts); spell-one / spell: results whose measurements share the base unit sec/op but were written ns/op, us/op, sec/op or not rescaled, judged by .unit terms (bare, quoted, regexp, value list, negated) that tell the spellings apart, in one result and by one Filter across two results; history: ONE Filter and ONE ProjectionParser, Parse / ParseWithUnit calls that FAIL for a semantic reason in a later field (.name@nosuchorder, .unit, .config@(a b), key@fixed, unknown orders, empty key) after earlier fields carried fixed value lists (/size@(4k) .name@nosuchorder; /size@(4k),.unit; 1-2 fixed lists, valid fields before and between), then Match / Apply of 2-4 results through the SAME Filter, later successful Parse calls (with and without fixed lists) and further failing ones, every Match/Apply judged by (fixed lists of the SUCCESSFUL Parse calls so far) and (expression). collide: two literal terms in one filter with different (key, value) pairs whose concatenation key+s+value coincides (s one of : = empty space | ,), as configuration keys set through the API and as sub-name keys, on results where the two terms hold different truth values, under OR / AND / negation templates. non-trivial = some but not all measurements match (filters)"
	ns := []int{1, 2, 31, 32, 33, 63, 64, 65, 130}
	per := 110
	perFixed := 60
	if tier == "thorough" {
		per, perFixed = 1500, 800
	}
	for _, n := range ns {
		for i := 0; i < per; i++ {
			if err := c06Filter(o, r, n, r.Range(0, 5)); err != nil {
				return err
			}
		}
	}
	seqN := []int{1, 2, 31, 32, 33, 63, 64, 65, 130}
	perSeq := 40
	if tier == "thorough" {
		perSeq = 600
	}
	for _, nA := range seqN {
		for i := 0; i < perSeq; i++ {
			nB := seqN[r.Intn(len(seqN))]
			if r.Chance(0.3) {
				nB = nA
			}
			if err := c06Seq(o, r, nA, nB); err != nil {
				return err
			}
		}
	}
	for _, n := range []int{1, 2, 33} {
		for i := 0; i < perFixed; i++ {
			if err := c06Fixed(o, r, n); err != nil {
				return err
			}
		}
	}
	// gap classes: separate generator, so that the streams above keep their cases
	g := r.Split()
	reps, perStar, perSpell := 3, 45, 40
	if tier == "thorough" {
		reps, perStar, perSpell = 30, 600, 500
	}
	if err := c06Order(o, g, reps); err != nil {
		return err
	}
	// histories with failing Parse calls (own stream)
	h := r.Split()
	// results without measurements (own stream, split last)
	em := r.Split()
	// regexp terms that are an anchored literal, on values that contain the literal (own stream)
	an := r.Split()
	nEmpty := 120
	if tier == "thorough" {
		nEmpty = 2000
	}
	for i := 0; i < nEmpty; i++ {
		if err := c06Empty(o, em); err != nil {
			return err
		}
	}
	nhist := 400
	if tier == "thorough" {
		nhist = 8000
	}
	for d := 0; d < 3; d++ {
		for i := 0; i < 6; i++ {
			if err := c06Hist(o, h, d); err != nil {
				return err
			}
		}
	}
	for i := 0; i < nhist; i++ {
		if err := c06Hist(o, h, -1); err != nil {
			return err
		}
	}
	hf := h.Split()
	for i := 0; i < nhist/2; i++ {
		if err := c06Hist(o, hf, 3); err != nil {
			return err
		}
	}
	if err := c06AnchorFixed(o); err != nil {
		return err
	}
	perAnchor := 70
	if tier == "thorough" {
		perAnchor = 1000
	}
	for _, n := range []int{1, 2, 3, 5, 33, 65} {
		for i := 0; i < perAnchor; i++ {
			if err := c06AnchorOne(o, an, n); err != nil {
				return err
			}
		}
	}
	for _, n := range ns {
		for i := 0; i < perStar; i++ {
			if err := c06Star(o, g, n); err != nil {
				return err
			}
		}
		for i := 0; i < perSpell; i++ {
			if err := c06SpellOne(o, g, n); err != nil {
				return err
			}
		}
		for i := 0; i < perSpell/2; i++ {
			if err := c06SpellSeq(o, g, n, ns[g.Intn(len(ns))]); err != nil {
				return err
			}
		}
	}
	if err := c06Mask(o, r.Split(), tier); err != nil { // c06mask.go: distinct units at the mask's word boundaries (own stream)
		return err
	}
	return c06Collide(o, r.Split(), tier) // c06collide.go: two literal terms whose key+sep+value concatenations coincide (own stream, last)
}
