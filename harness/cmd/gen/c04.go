package main

import (
	"fmt"
	"io"
	"math"
	"math/big"
	"regexp"
	"strconv"
	"strings"
	"unicode"
	"unicode/utf8"

	"golang.org/x/perf/benchfmt"
	"golang.org/x/perf/benchmath"
	"golang.org/x/perf/benchproc"
	"golang.org/x/perf/benchunit"
	bt "golang.org/x/perf/cmd/benchstat/verifbridge"
	"verifharness/internal/hx"
)

func init() { gens["C04"] = genC04 }

type c04Input struct {
	Unit    string   `json:"unit"`  // Go-quoted
	Value   string   `json:"value"` // as written on the benchmark line
	Bits    string   `json:"value_bits"`
	Unit2   string   `json:"unit2,omitempty"`
	Val2    string   `json:"val2,omitempty"`
	Lookups []string `json:"lookups,omitempty"`
	Better  string   `json:"better,omitempty"` // "Unit <unit> better=<better> assume=<assume>", then GetBetter / GetAssumption
	Assume  string   `json:"assume,omitempty"`
	ABLook  []string `json:"better_assume_lookups,omitempty"`
}

// unicodeRanges lists the maximal rune ranges on which f holds.
func unicodeRanges(f func(rune) bool) []hx.Sx {
	var out []hx.Sx
	in, lo := false, 0
	for r := 0; r <= unicode.MaxRune; r++ {
		b := f(rune(r))
		if b && !in {
			in, lo = true, r
		} else if !b && in {
			in = false
			out = append(out, hx.L(hx.I(lo), hx.I(r-1)))
		}
	}
	if in {
		out = append(out, hx.L(hx.I(lo), hx.I(unicode.MaxRune)))
	}
	return out
}

func c04Fieldable(u string) bool {
	if u == "" {
		return false
	}
	for _, r := range u {
		if unicode.IsSpace(r) {
			return false
		}
	}
	return true
}

func c04FmtFloat(v float64) string {
	switch {
	case math.IsNaN(v):
		return "NaN"
	case math.IsInf(v, 1):
		return "+Inf"
	case math.IsInf(v, -1):
		return "-Inf"
	}
	return strconv.FormatFloat(v, 'g', -1, 64)
}

type c04Rec struct {
	kind int
	meta *benchfmt.UnitMetadata
}

func c04Meta(m *benchfmt.UnitMetadata) hx.Sx {
	if m == nil {
		return hx.L()
	}
	return hx.L(hx.L(hx.S(m.Unit), hx.S(m.OrigUnit), hx.S(m.Value)))
}


// ---------- the known finding C04_scale_factor_out_of_range: tag from the input ----------

// c04Scales lists, in token order, the decimal exponent (-9 for "ns", +6 for
// "MB") of every normalisable numerator token of u.  Own tokeniser (the unit
// grammar of the property), not benchunit's.
func c04Scales(u string) (sc []int) {
	denom := false
	start := 0
	flush := func(tok string) {
		if denom {
			return
		}
		switch tok {
		case "ns":
			sc = append(sc, -9)
		case "MB":
			sc = append(sc, 6)
		}
	}
	for i := 0; i < len(u); {
		r, w := utf8.DecodeRuneInString(u[i:])
		if r == '*' || r == '/' || r == '-' || unicode.IsSpace(r) {
			flush(u[start:i])
			if r == '*' {
				denom = false
			} else if r == '/' {
				denom = true
			}
			start = i + w
		}
		i += w
	}
	flush(u[start:])
	return sc
}

func c04Decomp(x float64) (*big.Int, int) {
	b := math.Float64bits(math.Abs(x))
	e := int(b >> 52 & 0x7ff)
	f := b & (1<<52 - 1)
	if e == 0 {
		return new(big.Int).SetUint64(f), -1074
	}
	return new(big.Int).SetUint64(f | 1<<52), e - 1075
}

// a*2^ea <= b*2^eb
func c04LeScaled(a *big.Int, ea int, b *big.Int, eb int) bool {
	e0 := ea
	if eb < e0 {
		e0 = eb
	}
	x := new(big.Int).Lsh(a, uint(ea-e0))
	y := new(big.Int).Lsh(b, uint(eb-e0))
	return x.Cmp(y) <= 0
}

// c04ScaledOK: is got an acceptable binary64 report of the real number
// v * 10^E (n components)?  The same acceptance as Model/UnitsSpec.v scaled_ok
// (used only to decide the TAG of an input; the verdict is Coq's).
func c04ScaledOK(n, E int, v, got float64) bool {
	switch {
	case math.IsNaN(v):
		return math.IsNaN(got)
	case v == 0 || math.IsInf(v, 0):
		return math.Float64bits(got) == math.Float64bits(v)
	}
	if math.IsNaN(got) || math.Signbit(got) != math.Signbit(v) {
		return false
	}
	K := big.NewInt(int64(2 * (n + 1)))
	pow10 := func(k int) *big.Int {
		if k < 0 {
			k = 0
		}
		return new(big.Int).Exp(big.NewInt(10), big.NewInt(int64(k)), nil)
	}
	P, B := pow10(E), pow10(-E)
	m, e := c04Decomp(v)
	mP := new(big.Int).Mul(m, P)
	switch {
	case got == 0:
		return c04LeScaled(mP, e, new(big.Int).Mul(K, B), -1074)
	case math.IsInf(got, 0):
		t := new(big.Int).Sub(new(big.Int).Lsh(big.NewInt(1), 53), K)
		return c04LeScaled(t.Mul(t, B), 971, mP, e)
	}
	m2, e2 := c04Decomp(got)
	e0 := e
	if e2 < e0 {
		e0 = e2
	}
	G := new(big.Int).Lsh(m2, uint(e2-e0))
	G.Mul(G, B)
	X := new(big.Int).Lsh(mP, uint(e-e0))
	d := new(big.Int).Sub(G, X)
	d.Abs(d)
	lim := new(big.Int).Lsh(K, uint(e2-e0))
	lim.Mul(lim, B)
	return d.Cmp(lim) <= 0
}

const c04FindingTag = "c04_factor_out_of_range"

// c04Deviates simulates the mechanism of the known finding on the INPUT
// (u, v): tidy.go accumulates ONE binary64 factor in token order (/1e9 per
// "ns", *1e6 per "MB"); the deviation occurs iff that number leaves the
// normal range on the way AND the product of v with it is not an acceptable
// report of the real product v * 10^E.
func c04Deviates(u string, v float64) bool {
	sc := c04Scales(u)
	f, E, left := 1.0, 0, false
	for _, s := range sc {
		if s < 0 {
			f /= 1e9
		} else {
			f *= 1e6
		}
		E += s
		if f == 0 || math.IsInf(f, 0) || f < 0x1p-1022 {
			left = true
		}
	}
	return left && !c04ScaledOK(len(sc), E, v, v*f)
}

// c04One runs the real code on one (unit, value) pair.
func c04One(o *hx.Out, r *hx.Rng, u string, v float64, tags ...string) (err error) {
	defer func() {
		if p := recover(); p != nil {
			err = fmt.Errorf("PANIC-INPUT unit=%q value=%v: %v", u, v, p)
		}
	}()
	in := c04Input{Unit: strconv.Quote(u), Value: c04FmtFloat(v), Bits: fmt.Sprintf("%#x", math.Float64bits(v))}
	tv, tu := benchunit.Tidy(v, u)
	tv2, tu2 := benchunit.Tidy(tv, tu)

	rd, md, fl, ab := hx.L(), hx.L(), []hx.Sx{}, hx.L()
	if c04Fieldable(u) {
		// the reader on "BenchmarkX 1 <v> <u>"
		text := "BenchmarkX 1 " + c04FmtFloat(v) + " " + u + "\n"
		rdr := benchfmt.NewReader(strings.NewReader(text), "f")
		var res *benchfmt.Result
		n := 0
		for rdr.Scan() {
			n++
			if x, ok := rdr.Result().(*benchfmt.Result); ok {
				res = x.Clone()
			}
		}
		if n != 1 || res == nil || rdr.Err() != nil {
			return fmt.Errorf("reader did not deliver one result for %q", text)
		}
		var vals []hx.Sx
		for _, x := range res.Values {
			vals = append(vals, hx.L(hx.F64(x.Value), hx.S(x.Unit), hx.F64(x.OrigValue), hx.S(x.OrigUnit)))
		}
		// the value the reader parsed is the case's value (number parsing is C03's)
		pv := res.Values[0].Value
		if res.Values[0].OrigUnit != "" {
			pv = res.Values[0].OrigValue
		}
		if math.Float64bits(pv) != math.Float64bits(v) && !(math.IsNaN(pv) && math.IsNaN(v)) {
			return fmt.Errorf("value %v did not survive formatting (%v)", v, pv)
		}
		rd = hx.L(hx.List(vals))

		// .unit filters on that result
		lits := []string{u, tu, u + "x", "sec/op", "ns/op"}
		for _, lit := range lits {
			f, ferr := benchproc.NewFilter(".unit:" + strconv.Quote(lit))
			if ferr != nil {
				o.Count("filter-unparsable")
				continue
			}
			m, merr := f.Match(res)
			if merr != nil {
				return merr
			}
			fl = append(fl, hx.L(hx.S(lit), hx.Bool(m.Test(0))))
		}

		// unit metadata: two lines, then lookups
		others := []string{u, tu, u + "x", "ns/op", "sec/op", "MB/s", "B/s", "x" + u}
		u2 := others[r.Intn(len(others))]
		if !c04Fieldable(u2) {
			u2 = u
		}
		val2 := []string{"lower", "higher"}[r.Intn(2)]
		in.Unit2, in.Val2 = strconv.Quote(u2), val2
		mtext := "Unit " + u + " better=lower\nUnit " + u2 + " better=" + val2 + "\n"
		mr := benchfmt.NewReader(strings.NewReader(mtext), "f")
		var recs []hx.Sx
		for mr.Scan() {
			switch x := mr.Result().(type) {
			case *benchfmt.UnitMetadata:
				if x.Key != "better" {
					return fmt.Errorf("unexpected metadata key %q", x.Key)
				}
				recs = append(recs, hx.L(hx.I(0), c04Meta(x)))
			case *benchfmt.SyntaxError:
				recs = append(recs, hx.L(hx.I(1), hx.L()))
			default:
				return fmt.Errorf("unexpected record %T", x)
			}
		}
		var gets []hx.Sx
		for _, x := range []string{u, tu, u2, u + "x", "ns/op", "sec/op"} {
			in.Lookups = append(in.Lookups, strconv.Quote(x))
			gets = append(gets, hx.L(hx.S(x), c04Meta(mr.Units().Get(x, "better"))))
		}
		md = hx.L(hx.L(hx.S(u2), hx.S(val2), hx.List(recs), hx.List(gets)))

		// GetBetter / GetAssumption: "Unit u better=.. assume=.." through a fresh
		// reader; every looked-up unit also on an EMPTY map (built-in defaults)
		bval := []string{"higher", "lower", "higher", "lower", "sideways"}[r.Intn(5)]
		aval := []string{"exact", "exact", "nothing", "normal"}[r.Intn(4)]
		in.Better, in.Assume = bval, aval
		ar := benchfmt.NewReader(strings.NewReader("Unit "+u+" better="+bval+" assume="+aval+"\n"), "f")
		nmeta := 0
		for ar.Scan() {
			if _, ok := ar.Result().(*benchfmt.UnitMetadata); ok {
				nmeta++
			}
		}
		if nmeta != 2 {
			return fmt.Errorf("unit line for %q delivered %d metadata records", u, nmeta)
		}
		var empty benchfmt.UnitMetadataMap
		var es []hx.Sx
		for _, x := range []string{u, tu, u + "x", "ns/op", "sec/op", "MB/s", "B/s", "MB/op", "B/op", "allocs/op", "x-ns/op"} {
			in.ABLook = append(in.ABLook, strconv.Quote(x))
			es = append(es, hx.L(hx.S(x), hx.I(empty.GetBetter(x)), hx.I(ar.Units().GetBetter(x)),
				hx.Bool(ar.Units().GetAssumption(x) == benchmath.Assumption(benchmath.AssumeExact))))
		}
		ab = hx.L(hx.L(hx.S(bval), hx.S(aval), hx.List(es)))
	}
	c := hx.L(hx.I(1), hx.S(u), hx.F64(v), hx.L(hx.F64(tv), hx.S(tu)), hx.L(hx.F64(tv2), hx.S(tu2)), rd, md, hx.List(fl), ab)
	rew := tu != u
	switch {
	case rew && c04Fieldable(u):
		o.Count("rewritten,through-reader")
	case rew:
		o.Count("rewritten,tidy-only")
	case c04Fieldable(u):
		o.Count("unchanged,through-reader")
	default:
		o.Count("unchanged,tidy-only")
	}
	switch {
	case v == 0:
		o.Count("value=zero")
		tags = append(tags, "value-zero")
	case math.IsInf(v, 0):
		o.Count("value=inf")
		tags = append(tags, "value-inf")
	case math.IsNaN(v):
		o.Count("value=nan")
	case math.Abs(v) < 2.3e-308:
		o.Count("value=subnormal")
	default:
		o.Count("value=finite")
	}
	if rew {
		tags = append(tags, "unit-rewritten")
	}
	if c04Deviates(u, v) {
		o.Count("class:factor-leaves-normal-range:product-is-not-the-scaled-value")
		tags = append(tags, c04FindingTag)
	}
	o.Add(c, in, u+"\x00"+in.Bits, rew, tags...)
	return nil
}

type c04SeqInput struct {
	Kind    string   `json:"kind"`
	Text    string   `json:"text"` // Go-quoted
	Filter  string   `json:"filter"`
	Lookups []string `json:"lookups"`
}

type c04SeqLine struct {
	unit bool // a "Unit u better=val" line
	u    string
	val  string
	us   []string  // bench line: units
	vs   []float64 // bench line: values
}

// c04Seq reads a whole text through ONE Reader (one unit table) and judges
// every result with ONE Filter (Match, then Apply), in order.
func c04Seq(o *hx.Out, lit string, lines []c04SeqLine, lookups []string, tags ...string) (err error) {
	return c04SeqF(o, []c04Term{{Lit: lit}}, false, lines, lookups, tags...)
}

// c04Term is one member of a .unit term: a literal or a regexp.
type c04Term struct {
	Lit string
	Re  string
}

func (t c04Term) String() string {
	if t.Re != "" {
		return "/" + t.Re + "/"
	}
	return strconv.Quote(t.Lit)
}

// c04SeqF: like c04Seq with the filter ".unit:" + one term, or
// ".unit:(t1 OR t2 ...)" (list), terms being literals and regexps.  The case
// carries regexp.MatchString for every (pattern, unit) the evaluator can ask.
func c04SeqF(o *hx.Out, terms []c04Term, list bool, lines []c04SeqLine, lookups []string, tags ...string) (err error) {
	var lit string
	general := list || len(terms) != 1 || terms[0].Re != ""
	if !general {
		lit = terms[0].Lit
	} else {
		var ts []string
		for _, t := range terms {
			ts = append(ts, t.String())
		}
		lit = strings.Join(ts, " OR ")
	}
	defer func() {
		if p := recover(); p != nil {
			err = fmt.Errorf("PANIC-INPUT seq filter=%q: %v", lit, p)
		}
	}()
	var sb strings.Builder
	for _, l := range lines {
		if l.unit {
			sb.WriteString("Unit " + l.u + " better=" + l.val + "\n")
			continue
		}
		sb.WriteString("BenchmarkX 1")
		for i := range l.us {
			sb.WriteString(" " + c04FmtFloat(l.vs[i]) + " " + l.us[i])
		}
		sb.WriteString("\n")
	}
	text := sb.String()
	query := ".unit:" + strconv.Quote(lit)
	if general {
		query = ".unit:(" + lit + ")"
		if !list {
			query = ".unit:" + lit
		}
	}
	flt, ferr := benchproc.NewFilter(query)
	if ferr != nil {
		o.Count("filter-unparsable")
		return nil
	}
	cands := map[string]bool{}
	var candList []string
	cand := func(u string) {
		if !cands[u] {
			cands[u] = true
			candList = append(candList, u)
		}
	}
	dev := false
	items := make([]hx.Sx, len(lines))
	recs := make([][]hx.Sx, len(lines))
	seen := make([]bool, len(lines))
	rdr := benchfmt.NewReader(strings.NewReader(text), "f")
	for rdr.Scan() {
		rec := rdr.Result()
		_, ln := rec.Pos()
		if ln < 1 || ln > len(lines) {
			return fmt.Errorf("record at line %d of %q", ln, text)
		}
		l := lines[ln-1]
		switch x := rec.(type) {
		case *benchfmt.Result:
			if l.unit || len(x.Values) != len(l.us) || seen[ln-1] {
				return fmt.Errorf("unexpected result at line %d of %q", ln, text)
			}
			seen[ln-1] = true
			var wr, mb, after []hx.Sx
			for i, v := range x.Values {
				pv := v.Value
				if v.OrigUnit != "" {
					pv = v.OrigValue
				}
				wr = append(wr, hx.L(hx.S(l.us[i]), hx.F64(pv)))
				if !dev && c04Deviates(l.us[i], pv) {
					dev = true
					tags = append(tags, c04FindingTag)
				}
				_, tu := benchunit.Tidy(1, l.us[i])
				cand(l.us[i])
				cand(tu)
				cand(v.Unit)
				cand(v.OrigUnit)
			}
			m, merr := flt.Match(x)
			if merr != nil {
				return merr
			}
			for i := range x.Values {
				mb = append(mb, hx.Bool(m.Test(i)))
			}
			kept := m.Apply(x)
			for _, v := range x.Values {
				after = append(after, hx.L(hx.F64(v.Value), hx.S(v.Unit), hx.F64(v.OrigValue), hx.S(v.OrigUnit)))
			}
			items[ln-1] = hx.L(hx.I(0), hx.List(wr), hx.List(mb), hx.Bool(kept), hx.List(after))
		case *benchfmt.UnitMetadata:
			recs[ln-1] = append(recs[ln-1], hx.L(hx.I(0), c04Meta(x)))
		case *benchfmt.SyntaxError:
			recs[ln-1] = append(recs[ln-1], hx.L(hx.I(1), hx.L()))
		}
	}
	for i, l := range lines {
		if l.unit {
			items[i] = hx.L(hx.I(1), hx.S(l.u), hx.S(l.val), hx.List(recs[i]))
		} else if !seen[i] {
			return fmt.Errorf("no result for line %d of %q", i+1, text)
		}
	}
	var gets []hx.Sx
	for _, x := range lookups {
		gets = append(gets, hx.L(hx.S(x), c04Meta(rdr.Units().Get(x, "better"))))
	}
	var q []string
	for _, x := range lookups {
		q = append(q, strconv.Quote(x))
	}
	o.Count(fmt.Sprintf("sequence:lines=%d", len(lines)))
	if !general {
		o.Add(hx.L(hx.I(2), hx.S(lit), hx.List(items), hx.List(gets)),
			c04SeqInput{Kind: "sequence", Text: strconv.Quote(text), Filter: query, Lookups: q},
			"seq\x00"+lit+"\x00"+text, true, append(tags, "sequence")...)
		return nil
	}
	var tx, orc []hx.Sx
	for _, t := range terms {
		if t.Re == "" {
			tx = append(tx, hx.L(hx.I(0), hx.S(t.Lit)))
			continue
		}
		tx = append(tx, hx.L(hx.I(1), hx.S(t.Re)))
		re, e := regexp.Compile(t.Re)
		if e != nil {
			return e
		}
		for _, u := range candList {
			orc = append(orc, hx.L(hx.S(t.Re), hx.S(u), hx.Bool(re.MatchString(u))))
		}
	}
	o.Add(hx.L(hx.I(3), hx.List(tx), hx.List(orc), hx.List(items), hx.List(gets)),
		c04SeqInput{Kind: "sequence", Text: strconv.Quote(text), Filter: query, Lookups: q},
		"seqf\x00"+query+"\x00"+text, true, append(tags, "sequence", "filter-terms")...)
	return nil
}

// c04GenSeqF: result lines of 2-4 measurements judged by .unit regexps and
// literal lists chosen so that, in ONE line, one measurement is named only by
// its written unit, another by its base unit, others not at all.
func c04GenSeqF(o *hx.Out, r *hx.Rng, n int) error {
	units := []string{"ns/op", "sec/op", "B/op", "MB/s", "B/s", "allocs/op", "ns", "sec", "MB", "B", "widgets", "op/ns", "MB*ns/op", "x-ns", "nsx/op", "Åns/op"}
	res := []string{`^(ns|B).op$`, `^(MB|sec)`, `ns|allocs`, `^sec|^MB`, `[/]op$`, `^B`, `^ns[/]op$`, `op$`, `^(sec|MB)[/](op|s)$`, `.`, `^$`,
		`(?i)NS`, `s$`, `^(ns|MB)`, `^(sec|B)([/]|$)`, `^[a-z]+[/]op$`, `^.?B`, `ns`, `MB`, `sec.op|MB.s`, `^(ns.op|B.s)$`}
	lists := [][]c04Term{
		{{Lit: "ns/op"}, {Lit: "B/op"}}, {{Lit: "sec/op"}, {Lit: "MB/s"}}, {{Lit: "ns/op"}, {Re: `^B`}}, {{Re: `^ns`}, {Lit: "B/s"}},
		{{Lit: "MB/s"}, {Lit: "sec/op"}, {Lit: "allocs/op"}}, {{Lit: "widgets"}}, {{Re: `^sec`}, {Re: `^MB`}}, {{Lit: "ns"}, {Lit: "B"}},
	}
	line := func(us ...string) c04SeqLine {
		l := c04SeqLine{us: us}
		for range us {
			l.vs = append(l.vs, c04Value(r))
		}
		return l
	}
	mixed := func(terms []c04Term, us []string) {
		// does the line have a measurement named only as written and another named by its base unit?
		onlyWritten, byBase := false, false
		for _, u := range us {
			_, tu := benchunit.Tidy(1, u)
			mw, mb := false, false
			for _, t := range terms {
				if t.Re != "" {
					re := regexp.MustCompile(t.Re)
					mw = mw || re.MatchString(u)
					mb = mb || re.MatchString(tu)
				} else {
					mw = mw || t.Lit == u
					mb = mb || t.Lit == tu
				}
			}
			if tu != u && mw && !mb {
				onlyWritten = true
			}
			if mb {
				byBase = true
			}
		}
		if onlyWritten && byBase {
			o.Count("class:filter-terms:one-line-matches-one-by-written-only-and-one-by-base")
		}
	}
	lookups := []string{"ns/op", "sec/op", "B/op"}
	// directed: the documented example and its relatives
	directed := []struct {
		terms []c04Term
		list  bool
		us    []string
	}{
		{[]c04Term{{Re: `^(ns|B).op$`}}, false, []string{"ns/op", "B/op"}},
		{[]c04Term{{Re: `^(ns|B).op$`}}, false, []string{"B/op", "ns/op", "allocs/op"}},
		{[]c04Term{{Lit: "ns/op"}, {Lit: "B/op"}}, true, []string{"ns/op", "B/op"}},
		{[]c04Term{{Lit: "ns/op"}, {Lit: "B/op"}}, true, []string{"allocs/op", "B/op", "ns/op", "MB/s"}},
		{[]c04Term{{Re: `^(MB|sec)`}}, false, []string{"MB/s", "ns/op"}},
		{[]c04Term{{Re: `^(MB|sec)`}}, false, []string{"ns/op", "MB/s", "sec", "B/s"}},
		{[]c04Term{{Lit: "sec/op"}, {Lit: "MB/s"}}, true, []string{"ns/op", "MB/s"}},
		{[]c04Term{{Re: `ns|allocs`}}, false, []string{"ns/op", "allocs/op", "B/op"}},
		{[]c04Term{{Lit: "ns/op"}, {Re: `^B`}}, true, []string{"ns/op", "MB/s", "B/op"}},
	}
	for _, d := range directed {
		mixed(d.terms, d.us)
		if err := c04SeqF(o, d.terms, d.list, []c04SeqLine{line(d.us...), line(d.us[len(d.us)-1], d.us[0])}, lookups, "directed"); err != nil {
			return err
		}
	}
	for i := 0; i < n; i++ {
		var terms []c04Term
		list := false
		switch r.Intn(3) {
		case 0:
			terms, list = lists[r.Intn(len(lists))], true
		case 1:
			list = true
			for j := 0; j < r.Range(1, 3); j++ {
				if r.Bool() {
					terms = append(terms, c04Term{Lit: units[r.Intn(len(units))]})
				} else {
					terms = append(terms, c04Term{Re: res[r.Intn(len(res))]})
				}
			}
		default:
			terms = []c04Term{{Re: res[r.Intn(len(res))]}}
		}
		var lines []c04SeqLine
		for j := 0; j < r.Range(1, 3); j++ {
			var us []string
			for k := 0; k < r.Range(2, 4); k++ {
				us = append(us, units[r.Intn(10)+r.Intn(2)*r.Intn(len(units)-9)])
			}
			mixed(terms, us)
			if r.Chance(0.2) {
				lines = append(lines, c04SeqLine{unit: true, u: us[0], val: []string{"lower", "higher"}[r.Intn(2)]})
			}
			lines = append(lines, line(us...))
		}
		if err := c04SeqF(o, terms, list, lines, lookups, "random"); err != nil {
			return err
		}
	}
	return nil
}

// ---------- texts LONGER than the line scanner's buffer ----------

// c04ChunkReader hands out at most n bytes per Read.
type c04ChunkReader struct {
	s string
	n int
}

func (c *c04ChunkReader) Read(p []byte) (int, error) {
	if len(c.s) == 0 {
		return 0, io.EOF
	}
	k := c.n
	if k > len(p) {
		k = len(p)
	}
	if k > len(c.s) {
		k = len(c.s)
	}
	copy(p, c.s[:k])
	c.s = c.s[k:]
	return k, nil
}

type c04LongInput struct {
	Kind    string   `json:"kind"` // long-text
	Text    string   `json:"text"` // Go-quoted
	Bytes   int      `json:"bytes"`
	Chunk   int      `json:"read_chunk"` // 0: the whole text is available to every Read
	Filter  string   `json:"filter"`
	Lookups []string `json:"lookups"`
}

// c04LongLine is one line of a long text, as written.
type c04LongLine struct {
	text string // the line without "\n"
	unit bool   // a "Unit u better=val" line
	u    string
	val  string
	us   []string
	vs   []float64
}

// c04Long reads a text longer than bufio.Scanner's 4096-byte buffer through
// ONE Reader and ONE Filter.  Every record is observed when delivered, and the
// caller's retained copies (Result.Clone before and after Apply, the
// *UnitMetadata pointers) are read AGAIN after the whole text was scanned.
func c04Long(o *hx.Out, lit string, lines []c04LongLine, chunk int, lookups []string, tags ...string) (err error) {
	defer func() {
		if p := recover(); p != nil {
			err = fmt.Errorf("PANIC-INPUT long text filter=%q: %v", lit, p)
		}
	}()
	var sb strings.Builder
	for _, l := range lines {
		sb.WriteString(l.text + "\n")
	}
	text := sb.String()
	query := ".unit:" + strconv.Quote(lit)
	flt, ferr := benchproc.NewFilter(query)
	if ferr != nil {
		o.Count("filter-unparsable")
		return nil
	}
	type kept struct {
		full, after *benchfmt.Result
		wr, mb      []hx.Sx
		kept        bool
	}
	results := make([]*kept, len(lines))
	metas := make([][]*benchfmt.UnitMetadata, len(lines)) // nil entry = syntax error
	items := make([]hx.Sx, len(lines))
	recs := make([][]hx.Sx, len(lines))
	var src io.Reader = strings.NewReader(text)
	if chunk > 0 {
		src = &c04ChunkReader{text, chunk}
	}
	rdr := benchfmt.NewReader(src, "f")
	for rdr.Scan() {
		rec := rdr.Result()
		_, ln := rec.Pos()
		if ln < 1 || ln > len(lines) {
			return fmt.Errorf("record at line %d of long text", ln)
		}
		l := lines[ln-1]
		switch x := rec.(type) {
		case *benchfmt.Result:
			if l.unit || len(x.Values) != len(l.us) || results[ln-1] != nil {
				return fmt.Errorf("unexpected result at line %d (%q)", ln, l.text)
			}
			k := &kept{full: x.Clone()}
			for i := range x.Values {
				k.wr = append(k.wr, hx.L(hx.S(l.us[i]), hx.F64(l.vs[i])))
			}
			m, merr := flt.Match(x)
			if merr != nil {
				return merr
			}
			for i := range x.Values {
				k.mb = append(k.mb, hx.Bool(m.Test(i)))
			}
			k.kept = m.Apply(x)
			var after []hx.Sx
			for _, v := range x.Values {
				after = append(after, hx.L(hx.F64(v.Value), hx.S(v.Unit), hx.F64(v.OrigValue), hx.S(v.OrigUnit)))
			}
			k.after = x.Clone()
			results[ln-1] = k
			items[ln-1] = hx.L(hx.I(0), hx.List(k.wr), hx.List(k.mb), hx.Bool(k.kept), hx.List(after))
		case *benchfmt.UnitMetadata:
			if x.Key != "better" {
				return fmt.Errorf("unexpected metadata key %q", x.Key)
			}
			recs[ln-1] = append(recs[ln-1], hx.L(hx.I(0), c04Meta(x)))
			metas[ln-1] = append(metas[ln-1], x)
		case *benchfmt.SyntaxError:
			recs[ln-1] = append(recs[ln-1], hx.L(hx.I(1), hx.L()))
			metas[ln-1] = append(metas[ln-1], nil)
		}
	}
	if rdr.Err() != nil {
		return rdr.Err()
	}
	// the retained copies, read after everything was scanned
	itemsLate := make([]hx.Sx, len(lines))
	var fullLate []hx.Sx
	for i, l := range lines {
		if l.unit {
			items[i] = hx.L(hx.I(1), hx.S(l.u), hx.S(l.val), hx.List(recs[i]))
			var late []hx.Sx
			for _, m := range metas[i] {
				if m == nil {
					late = append(late, hx.L(hx.I(1), hx.L()))
				} else {
					late = append(late, hx.L(hx.I(0), c04Meta(m)))
				}
			}
			itemsLate[i] = hx.L(hx.I(1), hx.S(l.u), hx.S(l.val), hx.List(late))
			continue
		}
		k := results[i]
		if k == nil {
			return fmt.Errorf("no result for line %d (%q)", i+1, l.text)
		}
		var full, after []hx.Sx
		for _, v := range k.full.Values {
			full = append(full, hx.L(hx.F64(v.Value), hx.S(v.Unit), hx.F64(v.OrigValue), hx.S(v.OrigUnit)))
		}
		for _, v := range k.after.Values {
			after = append(after, hx.L(hx.F64(v.Value), hx.S(v.Unit), hx.F64(v.OrigValue), hx.S(v.OrigUnit)))
		}
		fullLate = append(fullLate, hx.List(full))
		itemsLate[i] = hx.L(hx.I(0), hx.List(k.wr), hx.List(k.mb), hx.Bool(k.kept), hx.List(after))
	}
	var gets []hx.Sx
	var q []string
	for _, x := range lookups {
		gets = append(gets, hx.L(hx.S(x), c04Meta(rdr.Units().Get(x, "better"))))
		q = append(q, strconv.Quote(x))
	}
	o.Count(fmt.Sprintf("long-text:buffer-refills=%d", (len(text)-1)/4096))
	o.Add(hx.L(hx.I(5), hx.S(lit), hx.List(items), hx.List(itemsLate), hx.List(fullLate), hx.List(gets)),
		c04LongInput{Kind: "long-text", Text: strconv.Quote(text), Bytes: len(text), Chunk: chunk, Filter: query, Lookups: q},
		"long\x00"+lit+"\x00"+fmt.Sprint(chunk)+"\x00"+text, true, append(tags, "long-text")...)
	return nil
}

// c04LongFams: units of EQUAL written length (trailing blanks are field
// separators, so "B/op " occupies the bytes of "ns/op"); each family mixes
// units that are rewritten (ns.., MB..) with units that pass through.
var c04LongFams = [][]string{
	{"ns/op", "us/op", "ms/op", "B/op ", "MB/s ", "MB/op", "ks/op", "B/s  ", "nS/op", "ns-op", "ns/oq"},
	{"MB/s", "B/op", "ns/s", "us/s", "kB/s", "MB/t", "ns*s", "GB/s"},
	{"ns", "MB", "us", "kB", "B ", "s ", "ms"},
	{"sec/op", "ns/ops", "MB/sec", "B/sec ", "us/ops", "ns/op ", "MB/s  ", "allocs"},
	{"allocs/op", "ns/widget", "MB/widget", "sec/op   ", "B/op     ", "us/widget"},
	{"MB*ns/op", "kB*us/op", "B*sec/op", "ns/op   ", "MB/s-xns"},
}

// c04GenLong: lines of ONE constant length L (so that, after the scanner's
// buffer is refilled, line k of the refilled part lies on the bytes of line k
// of the text); a long run with one unit u0 crossing the 4096-byte boundary,
// then lines whose unit field holds a DIFFERENT unit of EQUAL length at the
// same offset, and further lines of u0 (and of the other units) after them.
func c04GenLong(o *hx.Out, r *hx.Rng, n int) error {
	vals := []float64{1, 3, 0, 123.5, 1e9, 1e-9, 1e6, -1, math.Inf(1), math.NaN(), 250, 42, 0.5, 7e300}
	trim := func(u string) string { return strings.TrimRight(u, " ") }
	one := func(i int, directed bool) error {
		fam := c04LongFams[0]
		if !directed || i >= 6 {
			fam = c04LongFams[r.Intn(len(c04LongFams))]
			if r.Chance(0.4) {
				fam = c04LongFams[0]
			}
		}
		u0 := fam[0]
		if !directed && r.Chance(0.5) {
			u0 = fam[r.Intn(len(fam))]
		}
		L := 32
		if !directed || i >= 3 {
			L = []int{32, 32, 32, 16 + len(u0) + 8, 64, 40, 33, 37, 50, 100, 128, 47}[r.Intn(12)]
		}
		nv := 1 // measurements per line
		if !directed && r.Chance(0.2) {
			nv = 2
		}
		min := len("BenchmarkX 1") + nv*(1+8+1+len(u0)) + 1
		if L < min {
			L = min + r.Intn(4)
		}
		// one bench line of exactly L bytes (incl. "\n"): the name is padded
		bench := func(us []string) c04LongLine {
			l := c04LongLine{}
			var tail strings.Builder
			for _, u := range us {
				v := vals[r.Intn(len(vals))]
				if r.Chance(0.4) {
					v = float64(r.Intn(100000)) / 8
				}
				if len(c04FmtFloat(v)) > 8 {
					v = 1
				}
				tail.WriteString(" " + c04FmtFloat(v) + " " + u)
				l.us = append(l.us, trim(u))
				l.vs = append(l.vs, v)
			}
			pad := L - 1 - len("Benchmark") - len(" 1") - tail.Len()
			l.text = "Benchmark" + strings.Repeat("X", pad) + " 1" + tail.String()
			return l
		}
		unitLine := func(u, val string) c04LongLine {
			t := "Unit " + u + " better=" + val
			if len(t) < L-1 {
				t += strings.Repeat(" ", L-1-len(t))
			}
			return c04LongLine{text: t, unit: true, u: trim(u), val: val}
		}
		alt := func() string {
			for {
				if a := fam[r.Intn(len(fam))]; a != u0 {
					return a
				}
			}
		}
		same := func() []string {
			us := make([]string, nv)
			for j := range us {
				us[j] = u0
			}
			return us
		}
		var lines []c04LongLine
		if !directed && r.Chance(0.3) {
			lines = append(lines, unitLine(u0, "lower"))
		}
		// the run crossing the buffer boundary
		n1 := (4096+L-1)/L + r.Range(0, 3) - len(lines)
		if directed && i < 3 {
			n1 = 130
		}
		blocks := (directed && i >= 6) || (!directed && r.Chance(0.25))
		exact := blocks && (directed || r.Chance(0.5))
		if exact {
			// the run ends exactly with the last line that fits the first buffer
			n1 = 4096/L - len(lines)
			o.Count("class:long-text:run-ends-exactly-at-the-buffer-boundary")
		}
		for j := 0; j < n1; j++ {
			us := same()
			if !directed && !exact && r.Chance(0.02) { // a few other units already before the refill
				us[r.Intn(nv)] = alt()
			}
			lines = append(lines, bench(us))
		}
		// after the refill
		tail := r.Range(3, 40)
		if r.Chance(0.15) {
			tail = r.Range(4096/L, 2*4096/L+10) // a second refill
		}
		nalt := 0
		if blocks {
			// whole blocks of ONE other unit (each up to more than a buffer long), then u0 again
			o.Count("class:long-text:blocks-of-one-other-unit-longer-than-half-a-buffer")
			tail = 0
			for b := r.Range(1, 3); b > 0; b-- {
				a := alt()
				nb := r.Range(4096/L/2, 4096/L+5)
				if exact {
					nb = r.Range(4096/L+1, 4096/L+5)
				}
				for j := nb; j > 0; j-- {
					us := same()
					us[r.Intn(nv)] = a
					lines = append(lines, bench(us))
					nalt++
				}
				for j := r.Range(1, 4096/L+5); j > 0 && b > 1; j-- {
					lines = append(lines, bench(same()))
				}
			}
		}
		for j := 0; j < tail; j++ {
			us := same()
			if (j == 0 && (directed || r.Chance(0.4))) || r.Chance(0.25) {
				us[r.Intn(nv)] = alt()
				nalt++
			}
			lines = append(lines, bench(us))
			if !directed && r.Chance(0.03) {
				lines = append(lines, unitLine(fam[r.Intn(len(fam))], []string{"lower", "higher"}[r.Intn(2)]))
			}
		}
		if nalt == 0 {
			us := same()
			us[0] = alt()
			lines = append(lines, bench(us))
		}
		for j := r.Range(1, 4); j > 0; j-- { // further lines after it
			lines = append(lines, bench(same()))
		}
		chunk := 0
		if !directed && r.Chance(0.3) {
			chunk = []int{1, 7, 32, 100, 1000, 4096, L, 2 * L}[r.Intn(8)]
		}
		_, b0 := benchunit.Tidy(1, trim(u0))
		a := trim(alt())
		_, ba := benchunit.Tidy(1, a)
		lit := []string{trim(u0), b0, a, ba}[r.Intn(4)]
		o.Count("class:long-text:run-of-one-unit-crosses-4096-then-equal-length-other-unit-at-same-offset-then-more-lines")
		if b0 == trim(u0) {
			o.Count("class:long-text:run-unit-passes-through")
		} else {
			o.Count("class:long-text:run-unit-is-rewritten")
		}
		if chunk > 0 {
			o.Count("class:long-text:reads-in-chunks")
		}
		tag := "random"
		if directed {
			tag = "directed"
		}
		return c04Long(o, lit, lines, chunk, []string{trim(u0), b0, a, ba, "B/op"}, tag)
	}
	for i := 0; i < 8; i++ {
		if err := one(i, true); err != nil {
			return err
		}
	}
	for i := 0; i < n; i++ {
		if err := one(i, false); err != nil {
			return err
		}
	}
	return nil
}

// ---------- benchunit.Tidy called directly, in order, in this process ----------

type c04TidyCall struct {
	Unit  string `json:"unit"` // Go-quoted
	Value string `json:"value"`
}
type c04TidySeqInput struct {
	Kind  string        `json:"kind"` // tidy-sequence
	Calls []c04TidyCall `json:"calls"`
}

// c04TidySeq calls benchunit.Tidy on the units in order (the memo table of
// tidy.go is process-wide: what an earlier call left behind is part of the input).
func c04TidySeq(o *hx.Out, r *hx.Rng, us []string, tags ...string) (err error) {
	defer func() {
		if p := recover(); p != nil {
			err = fmt.Errorf("PANIC-INPUT tidy sequence %q: %v", us, p)
		}
	}()
	in := c04TidySeqInput{Kind: "tidy-sequence"}
	dev := false
	var calls []hx.Sx
	for _, u := range us {
		v := c04Value(r)
		if r.Chance(0.5) {
			v = float64(1 + r.Intn(1000))
		}
		tv, tu := benchunit.Tidy(v, u)
		if !dev && c04Deviates(u, v) {
			dev = true
			tags = append(tags, c04FindingTag)
		}
		calls = append(calls, hx.L(hx.S(u), hx.F64(v), hx.L(hx.F64(tv), hx.S(tu))))
		in.Calls = append(in.Calls, c04TidyCall{Unit: strconv.Quote(u), Value: c04FmtFloat(v)})
	}
	o.Count(fmt.Sprintf("tidy-sequence:calls=%d", len(us)))
	o.Add(hx.L(hx.I(4), hx.List(calls)), in, "tidyseq\x00"+strings.Join(us, "\x00")+fmt.Sprint(in.Calls), true, append(tags, "tidy-sequence")...)
	return nil
}

// c04GenTidySeqs: (a) a unit whose base form still contains ns / MB (in a
// denominator, or inside another word), tidied first, then its base form, in
// every order and repeated; made fresh to the memo table by a unique
// denominator token; (b) units in which ns / MB follows a non-ASCII letter
// whose UTF-8 encoding ends in 0x85 or 0xA0, and ns / MB after multi-byte
// white space.
func c04GenTidySeqs(o *hx.Out, r *hx.Rng, n int) error {
	pairs := [][2]string{{"ns/ns", "sec/ns"}, {"MB/MB-x", "B/MB-x"}, {"ns/turns", "sec/turns"}, {"MB/ns", "B/ns"}, {"ns-xns", "sec-xns"},
		{"ns/op/MB", "sec/op/MB"}, {"MB*ns/MB", "B*sec/MB"}, {"ns nsx", "sec nsx"}, {"MB-MBps", "B-MBps"}, {"ns/MB*ns", "sec/MB*sec"},
		{"turns*ns", "turns*sec"}, {"ns\u2003ns/ns", "sec\u2003sec/ns"}}
	id := 0
	fresh := func(p [2]string) [2]string {
		id++
		sfx := fmt.Sprintf("/q%d", id)
		return [2]string{p[0] + sfx, p[1] + sfx}
	}
	orders := [][]int{{0, 1}, {1, 0}, {0, 1, 0, 1}, {0, 0, 1}, {1, 1, 0, 1}}
	seq := func(p [2]string, order []int, tags ...string) error {
		var us []string
		for _, k := range order {
			us = append(us, p[k])
		}
		if order[0] == 0 {
			o.Count("class:tidy-sequence:unit-then-its-base-form-still-containing-ns/MB")
		} else {
			o.Count("class:tidy-sequence:base-form-then-unit")
		}
		return c04TidySeq(o, r, us, tags...)
	}
	// the bare forms first: nothing in this process has tidied them yet
	for _, p := range pairs {
		if err := seq(p, []int{0, 1}, "directed"); err != nil {
			return err
		}
	}
	for _, p := range pairs {
		for _, order := range orders {
			if err := seq(fresh(p), order, "directed"); err != nil {
				return err
			}
		}
	}
	// (b) bytes 0x85 / 0xA0 directly before ns / MB
	letters := []string{"Å", "à", "ą", "Š", "ḅ", "req\u00e0", "\u0145", "\u4e85", "\u5ea0"} // C3 85, C3 A0, C4 85, C5 A0, E1 B8 85, ..., C5 85, E4 BA 85, E5 BA A0
	spaces := []string{"\u2003", "\u00a0", "\u0085", "\u2005", "\u3000", "\u1680"}
	for _, l := range letters {
		for _, t := range []string{"ns", "MB"} {
			for _, tail := range []string{"", "/op", "/s", "*x", " y"} {
				id++
				if err := c04TidySeq(o, r, []string{l + t + tail, "x" + l + t + tail, fmt.Sprintf("q%d-%s%s%s", id, l, t, tail)}, "directed", "byte-85-A0-before-token"); err != nil {
					return err
				}
				o.Count("class:tidy-sequence:ns/MB-after-letter-ending-in-0x85/0xA0")
			}
		}
	}
	for _, sp := range spaces {
		for _, t := range []string{"ns", "MB"} {
			id++
			if err := c04TidySeq(o, r, []string{"x" + sp + t + "/op", t + sp + t, fmt.Sprintf("q%d%s%s", id, sp, t), "x/y" + sp + t}, "directed", "token-after-unicode-space"); err != nil {
				return err
			}
			o.Count("class:tidy-sequence:ns/MB-after-multibyte-space")
		}
	}
	// random: fresh units from the grammar, each followed (or preceded) by its base form as the real Tidy reports it
	for i := 0; i < n; i++ {
		var sb strings.Builder
		k := r.Range(2, 5)
		for j := 0; j < k; j++ {
			if j > 0 {
				sb.WriteString(c04Sep[r.Intn(8)])
			}
			switch r.Intn(4) {
			case 0:
				sb.WriteString(letters[r.Intn(len(letters))] + []string{"ns", "MB"}[r.Intn(2)])
			case 1:
				sb.WriteString(c04Comp[r.Intn(len(c04Comp))])
			default:
				sb.WriteString(c04Comp[r.Intn(5)])
			}
		}
		id++
		u := sb.String() + fmt.Sprintf("/q%d", id)
		if r.Chance(0.5) {
			// the base form first: computed on a sibling (same unit, different unique token)
			_, tsib := benchunit.Tidy(1, sb.String()+fmt.Sprintf("/q%ds", id))
			base := strings.TrimSuffix(tsib, "s")
			o.Count("class:tidy-sequence:base-form-then-unit")
			if err := c04TidySeq(o, r, []string{base, u, base}, "random"); err != nil {
				return err
			}
			continue
		}
		_, tu := benchunit.Tidy(1, u)
		o.Count("class:tidy-sequence:unit-then-its-base-form-still-containing-ns/MB")
		if err := c04TidySeq(o, r, []string{u, tu, u, tu}[:r.Range(2, 4)], "random"); err != nil {
			return err
		}
	}
	return nil
}

// c04GenMany: units with MORE THAN FOUR normalisable numerator components
// (5-8 quick, up to 12 thorough ns / MB tokens in the numerator), mixed with
// other words, "-suffix" parts, denominators (incl. ns / MB in a denominator,
// which stay) and "*" switching back to the numerator.  The base form and the
// number of rewritten tokens are known BY CONSTRUCTION (not asked of the real
// Tidy).  Each unit goes (a) through Tidy twice + the reader + metadata +
// .unit filters (c04One), (b) through ONE reader together with the same metric
// written in base units, judged by a .unit filter naming either spelling
// (c04Seq), (c) through direct Tidy calls unit / base / unit (c04TidySeq).
func c04GenMany(o *hx.Out, r *hx.Rng, n int, kmax int) error {
	words := []string{"x", "op", "B", "sec", "s", "bytes", "xns", "nsx", "MBps", "turns", "allocs", "nsMB", "NS", "mb", "Åns"}
	id := 0
	build := func(k int, fieldable bool) (u, base string, got int) {
		var su, sb strings.Builder
		denom := false
		first := true
		sep := func(s string) {
			su.WriteString(s)
			sb.WriteString(s)
			switch s[len(s)-1] {
			case '*':
				denom = false
			case '/':
				denom = true
			}
		}
		tok := func(t string) {
			su.WriteString(t)
			if !denom && t == "ns" {
				sb.WriteString("sec")
				got++
			} else if !denom && t == "MB" {
				sb.WriteString("B")
				got++
			} else {
				sb.WriteString(t)
			}
			first = false
		}
		numSep := func() {
			if first {
				return
			}
			switch {
			case denom:
				sep("*")
			case !fieldable && r.Chance(0.1):
				sep(" ")
			case r.Chance(0.3):
				sep("-")
			default:
				sep("*")
			}
		}
		for got < k {
			switch x := r.Intn(10); {
			case x < 6: // a normalisable numerator component
				numSep()
				tok([]string{"ns", "MB"}[r.Intn(2)])
			case x < 7: // another word in the numerator
				numSep()
				tok(words[r.Intn(len(words))])
			case x < 8: // a -suffix part on what precedes
				if first {
					continue
				}
				sep("-")
				tok(words[r.Intn(len(words))])
			default: // a denominator (op, or ns / MB which must stay), possibly with -suffix
				if first {
					continue
				}
				sep("/")
				tok([]string{"op", "s", "ns", "MB", "x"}[r.Intn(5)])
				if r.Chance(0.3) {
					sep("-")
					tok([]string{"x", "ns", "MB"}[r.Intn(3)])
				}
			}
		}
		// tail: -suffix and/or denominator
		if r.Chance(0.5) {
			sep("-")
			tok(words[r.Intn(len(words))])
		}
		if r.Chance(0.7) {
			sep("/")
			tok([]string{"op", "s", "ns", "MB"}[r.Intn(4)])
		}
		// unique (memo-fresh) denominator token
		id++
		q := fmt.Sprintf("q%d", id)
		if denom {
			sep("-")
		} else {
			sep("/")
		}
		tok(q)
		return su.String(), sb.String(), got
	}
	vals := []float64{1, 3, 123.5, 1e9, 1e-9, 1e6, -1, 1e300, 2.5e-300}
	one := func(u, base string, k int) error {
		o.Count(fmt.Sprintf("class:many-components:rewritten-numerator-tokens=%d", k))
		v := vals[r.Intn(len(vals))]
		if r.Chance(0.3) {
			v = c04Value(r)
		}
		fieldable := c04Fieldable(u)
		switch r.Intn(3) {
		case 0:
			if err := c04TidySeq(o, r, []string{u, base, u}, "many-components"); err != nil {
				return err
			}
			fallthrough
		case 1:
			if err := c04One(o, r, u, v, "many-components"); err != nil {
				return err
			}
		default:
			if !fieldable {
				return c04One(o, r, u, v, "many-components")
			}
			// the same metric written pre-scaled and in base units through ONE reader
			order := [][]int{{0, 1}, {1, 0}, {0, 1, 0}, {1, 0, 1}}[r.Intn(4)]
			fam := []string{u, base}
			var lines []c04SeqLine
			for _, j := range order {
				l := c04SeqLine{us: []string{fam[j]}, vs: []float64{v}}
				if r.Chance(0.4) {
					l.us = append(l.us, []string{"B/op", "allocs/op", fam[1-j]}[r.Intn(3)])
					l.vs = append(l.vs, c04Value(r))
				}
				lines = append(lines, l)
				if r.Chance(0.3) {
					lines = append(lines, c04SeqLine{unit: true, u: fam[r.Intn(2)], val: []string{"lower", "higher"}[r.Intn(2)]})
				}
			}
			o.Count("class:many-components:written-and-base-spelling-through-one-reader")
			if err := c04Seq(o, fam[r.Intn(2)], lines, []string{u, base, "B/op"}, "many-components"); err != nil {
				return err
			}
		}
		return nil
	}
	// directed: the plain products
	for k := 5; k <= kmax; k++ {
		for _, j := range []string{"*", "-"} {
			for _, t := range [][2]string{{"ns", "sec"}, {"MB", "B"}} {
				u := strings.Repeat(t[0]+j, k-1) + t[0]
				b := strings.Repeat(t[1]+j, k-1) + t[1]
				if err := one(u, b, k); err != nil {
					return err
				}
				if err := one(u+"-x/op", b+"-x/op", k); err != nil {
					return err
				}
			}
		}
	}
	for _, d := range []struct {
		u, b string
		k    int
	}{{"ns*ns*MB*ns*MB-x/op", "sec*sec*B*sec*B-x/op", 5}, {"ns/ns*ns*MB-MB*x*ns-ns/MB", "sec/ns*sec*B-B*x*sec-sec/MB", 6},
		{"MB*ns*MB*ns*MB*ns/op", "B*sec*B*sec*B*sec/op", 6}, {"x-ns-ns-ns-ns-ns", "x-sec-sec-sec-sec-sec", 5}} {
		for rep := 0; rep < 3; rep++ {
			if err := one(d.u, d.b, d.k); err != nil {
				return err
			}
		}
	}
	for i := 0; i < n; i++ {
		u, base, k := build(r.Range(5, kmax), r.Chance(0.85))
		if err := one(u, base, k); err != nil {
			return err
		}
	}
	return nil
}


// c04GenExtreme: units with SO MANY normalisable numerator components that the
// scale 10^(6 #MB - 9 #ns) - or a prefix of it, in token order - is outside
// the binary64 range (35+ "ns": 1e-315 is subnormal, 36+: 0; 52+ "MB": +Inf),
// next to units just below those counts and units in which ns and MB
// alternate so that every prefix stays in range.  Values: every special value
// (0, -0, +/-Inf, NaN, subnormals, max) and finite ones whose real product is
// representable although the scale is not (5e-324 * 1e312, 1e300 * 1e-324).
// Each unit through Tidy twice + reader + metadata + filters (c04One); some
// through ONE reader next to the base spelling (c04Seq) and through direct
// Tidy calls (c04TidySeq).
func c04GenExtreme(o *hx.Out, r *hx.Rng, n int) error {
	vals := append([]float64{}, c04Special...)
	vals = append(vals, 1e-320, -1e-320, 1e-300, -1e300, 4.9e-310, 1e308, 1e-9, 0.001, 7, -2.5)
	join := func(toks []string, fieldable bool) (u, base string) {
		var su, sb strings.Builder
		for i, t := range toks {
			if i > 0 {
				sp := "*"
				switch {
				case r.Chance(0.25):
					sp = "-"
				case !fieldable && r.Chance(0.05):
					sp = " "
				}
				su.WriteString(sp)
				sb.WriteString(sp)
			}
			su.WriteString(t)
			switch t {
			case "ns":
				sb.WriteString("sec")
			case "MB":
				sb.WriteString("B")
			default:
				sb.WriteString(t)
			}
		}
		tail := []string{"", "/op", "/ns", "-x/MB", "/s-ns"}[r.Intn(5)]
		return su.String() + tail, sb.String() + tail
	}
	rep := func(t string, k int) []string {
		out := make([]string, k)
		for i := range out {
			out[i] = t
		}
		return out
	}
	one := func(u, base string, v float64) error {
		sc := c04Scales(u)
		E := 0
		for _, x := range sc {
			E += x
		}
		switch {
		case E < -323:
			o.Count("class:extreme:scale-below-binary64-range")
		case E < -307:
			o.Count("class:extreme:scale-subnormal")
		case E > 308:
			o.Count("class:extreme:scale-above-binary64-range")
		default:
			o.Count("class:extreme:scale-in-range")
		}
		switch r.Intn(6) {
		case 0:
			if c04Fieldable(u) {
				lines := []c04SeqLine{{us: []string{u}, vs: []float64{v}}, {us: []string{base, u}, vs: []float64{c04Value(r), v}}}
				if err := c04Seq(o, []string{u, base}[r.Intn(2)], lines, []string{u, base}, "extreme"); err != nil {
					return err
				}
			}
		case 1:
			if err := c04TidySeq(o, r, []string{u, base, u}, "extreme"); err != nil {
				return err
			}
		}
		return c04One(o, r, u, v, "extreme")
	}
	// directed: plain products around the thresholds, every value
	for _, d := range []struct {
		t string
		k int
	}{{"ns", 33}, {"ns", 34}, {"ns", 35}, {"ns", 36}, {"ns", 41}, {"MB", 50}, {"MB", 51}, {"MB", 52}, {"MB", 53}, {"MB", 60}} {
		u, base := join(rep(d.t, d.k), true)
		for _, v := range vals {
			if err := one(u, base, v); err != nil {
				return err
			}
		}
	}
	// the scale leaves the range on the way and the real product does not: all ns first, then all MB (and the reverse)
	for _, d := range [][2]int{{36, 54}, {40, 60}, {36, 10}, {2, 53}} {
		for _, nsFirst := range []bool{true, false} {
			toks := append(rep("ns", d[0]), rep("MB", d[1])...)
			if !nsFirst {
				toks = append(rep("MB", d[1]), rep("ns", d[0])...)
			}
			u, base := join(toks, true)
			for i := 0; i < 6; i++ {
				if err := one(u, base, vals[r.Intn(len(vals))]); err != nil {
					return err
				}
			}
		}
	}
	for i := 0; i < n; i++ {
		var toks []string
		kns, kmb := 0, 0
		switch r.Intn(4) {
		case 0:
			kns = r.Range(30, 45)
		case 1:
			kmb = r.Range(45, 62)
		case 2:
			kns, kmb = r.Range(30, 45), r.Range(1, 60)
		default:
			kns, kmb = r.Range(1, 40), r.Range(45, 62)
		}
		toks = append(rep("ns", kns), rep("MB", kmb)...)
		switch r.Intn(3) {
		case 0: // interleaved: prefixes stay closer to 1
			for a := len(toks) - 1; a > 0; a-- {
				b := r.Intn(a + 1)
				toks[a], toks[b] = toks[b], toks[a]
			}
		case 1: // MB first
			toks = append(rep("MB", kmb), rep("ns", kns)...)
		}
		for j := r.Intn(4); j > 0; j-- { // other words in between
			k := r.Intn(len(toks) + 1)
			toks = append(toks[:k], append([]string{[]string{"x", "nsx", "MBps", "sec", "B", "Åns"}[r.Intn(6)]}, toks[k:]...)...)
		}
		u, base := join(toks, r.Chance(0.9))
		v := vals[r.Intn(len(vals))]
		if r.Chance(0.3) {
			v = c04Value(r)
		}
		if err := one(u, base, v); err != nil {
			return err
		}
	}
	return nil
}


// ---------- benchstat tables: one table per metric, under its base unit ----------

type c04TabInput struct {
	Kind string `json:"kind"` // benchstat-tables
	Text string `json:"text"` // Go-quoted
}

// c04Tab reads the text through ONE Reader and feeds every result to
// benchstat's table builder (table by .config + unit, row by .fullname, column
// by .file); observed: per table its unit, whether its assumption is
// AssumeExact, and the number of values in its cells.
func c04Tab(o *hx.Out, lines []c04SeqLine, tags ...string) (err error) {
	defer func() {
		if p := recover(); p != nil {
			err = fmt.Errorf("PANIC-INPUT benchstat tables: %v", p)
		}
	}()
	var sb strings.Builder
	var items []hx.Sx
	for _, l := range lines {
		if l.unit {
			sb.WriteString("Unit " + l.u + " assume=" + l.val + "\n")
			items = append(items, hx.L(hx.I(1), hx.S(l.u), hx.S(l.val)))
			continue
		}
		sb.WriteString("BenchmarkX 1")
		var wr []hx.Sx
		for i := range l.us {
			sb.WriteString(" " + c04FmtFloat(l.vs[i]) + " " + l.us[i])
			wr = append(wr, hx.L(hx.S(l.us[i]), hx.F64(l.vs[i])))
		}
		sb.WriteString("\n")
		items = append(items, hx.L(hx.I(0), hx.List(wr)))
	}
	text := sb.String()
	filter, err := benchproc.NewFilter("*")
	if err != nil {
		return err
	}
	var parser benchproc.ProjectionParser
	tableBy, _, err := parser.ParseWithUnit(".config", filter)
	if err != nil {
		return err
	}
	rowBy, err := parser.Parse(".fullname", filter)
	if err != nil {
		return err
	}
	colBy, err := parser.Parse(".file", filter)
	if err != nil {
		return err
	}
	stat := bt.NewBuilder(tableBy, rowBy, colBy, parser.Residue())
	rdr := benchfmt.NewReader(strings.NewReader(text), "f")
	nres := 0
	for rdr.Scan() {
		if res, ok := rdr.Result().(*benchfmt.Result); ok {
			nres++
			stat.Add(res)
		}
	}
	thr := benchmath.DefaultThresholds
	tabs := stat.ToTables(bt.TableOpts{Confidence: 0.95, Thresholds: &thr, Units: rdr.Units()})
	var ts []hx.Sx
	for _, t := range tabs.Tables {
		n := 0
		for _, c := range t.Cells {
			n += len(c.Sample.Values)
		}
		ts = append(ts, hx.L(hx.S(t.Unit), hx.Bool(t.Assumption == benchmath.Assumption(benchmath.AssumeExact)), hx.I(n)))
	}
	o.Count(fmt.Sprintf("benchstat-tables:tables=%d", len(tabs.Tables)))
	o.Add(hx.L(hx.I(6), hx.List(items), hx.List(ts)), c04TabInput{Kind: "benchstat-tables", Text: strconv.Quote(text)},
		"tab\x00"+text, true, append(tags, "benchstat-tables")...)
	return nil
}

// c04GenTab: results of one metric written pre-scaled and in base units (and
// bystanders), values incl. 0, -0 and +/-Inf, with "Unit .. assume=.." lines
// naming either spelling, before or after the results.
func c04GenTab(o *hx.Out, r *hx.Rng, n int) error {
	fams := [][]string{{"ns/op", "sec/op"}, {"MB/s", "B/s"}, {"ns", "sec"}, {"MB*ns/op", "B*sec/op"}, {"x-ns", "x-sec"},
		{"ns/ns", "sec/ns"}, {"MB/op", "B/op"}, {"MB", "B"}, {"ns*ns*ns*ns*ns/op", "sec*sec*sec*sec*sec/op"}}
	other := []string{"B/op", "allocs/op", "op/ns", "nsx", "widgets", "sec/op"}
	vals := []float64{0, math.Copysign(0, -1), math.Inf(1), math.Inf(-1), 1, 3, 1e9, 1e-9, 123.5, 5e-324, 1e300, 250}
	for i := 0; i < n; i++ {
		fam := fams[i%len(fams)]
		var lines []c04SeqLine
		unitLine := func() {
			u := fam[r.Intn(2)]
			if r.Chance(0.2) {
				u = other[r.Intn(len(other))]
			}
			lines = append(lines, c04SeqLine{unit: true, u: u, val: []string{"exact", "exact", "nothing"}[r.Intn(3)]})
		}
		if r.Chance(0.5) {
			unitLine()
		}
		for j := r.Range(2, 5); j > 0; j-- {
			l := c04SeqLine{}
			for k := r.Range(1, 3); k > 0; k-- {
				u := fam[r.Intn(2)]
				if r.Chance(0.25) {
					u = other[r.Intn(len(other))]
				}
				dup := false
				for _, x := range l.us { // one line does not carry one written unit twice
					dup = dup || x == u
				}
				if dup {
					continue
				}
				l.us = append(l.us, u)
				l.vs = append(l.vs, vals[r.Intn(len(vals))])
			}
			lines = append(lines, l)
			if r.Chance(0.25) {
				unitLine()
			}
		}
		if err := c04Tab(o, lines); err != nil {
			return err
		}
	}
	return nil
}

// c04GenSeq builds sequences of 2-4 results of one metric written differently
// (and bystanders), with unit lines in between, for every choice of filter literal.
func c04GenSeq(o *hx.Out, r *hx.Rng, n int) error {
	fams := [][]string{{"ns/op", "sec/op"}, {"MB/s", "B/s"}, {"ns", "sec"}, {"MB*ns/op", "B*sec/op"}, {"x-ns", "x-sec"},
		{"ns/ns", "sec/ns"}, {"é/op", "é/op"}, {"MB", "B"}, {"ns/op\xff", "sec/op\xff"}}
	other := []string{"B/op", "allocs/op", "op/ns", "nsx", "sec/opx", "widgets"}
	one := func(fam []string, order []int, lit string, withUnits bool) error {
		var lines []c04SeqLine
		for _, k := range order {
			l := c04SeqLine{}
			nv := r.Range(1, 3)
			for j := 0; j < nv; j++ {
				u := fam[k]
				if j > 0 {
					switch r.Intn(3) {
					case 0:
						u = fam[1-k]
					case 1:
						u = other[r.Intn(len(other))]
					}
				}
				l.us = append(l.us, u)
				l.vs = append(l.vs, c04Value(r))
			}
			if r.Chance(0.3) { // the family unit not in first position
				l.us[0], l.us[len(l.us)-1] = l.us[len(l.us)-1], l.us[0]
			}
			if withUnits && r.Chance(0.5) {
				lines = append(lines, c04SeqLine{unit: true, u: fam[r.Intn(2)], val: []string{"lower", "higher"}[r.Intn(2)]})
			}
			lines = append(lines, l)
		}
		if withUnits {
			lines = append(lines, c04SeqLine{unit: true, u: fam[r.Intn(2)], val: "lower"})
		}
		return c04Seq(o, lit, lines, []string{fam[0], fam[1], other[0], fam[0] + "x"})
	}
	// the two orders of every family, filter naming the written and the base unit
	for _, fam := range fams {
		for _, order := range [][]int{{1, 0}, {0, 1}, {1, 0, 1}, {0, 1, 0, 1}, {0, 0}, {1, 1}} {
			for _, lit := range []string{fam[0], fam[1], other[0]} {
				if err := one(fam, order, lit, false); err != nil {
					return err
				}
			}
		}
	}
	for i := 0; i < n; i++ {
		fam := fams[r.Intn(len(fams))]
		if r.Chance(0.3) { // a family from the unit grammar
			u := c04Comp[r.Intn(5)] + []string{"/", "*", "-"}[r.Intn(3)] + c04Comp[r.Intn(8)]
			_, tu := benchunit.Tidy(1, u)
			fam = []string{u, tu}
		}
		order := make([]int, r.Range(2, 4))
		for j := range order {
			order[j] = r.Intn(2)
		}
		lit := fam[r.Intn(2)]
		if r.Chance(0.15) {
			lit = other[r.Intn(len(other))]
		}
		if err := one(fam, order, lit, r.Chance(0.6)); err != nil {
			return err
		}
	}
	return nil
}

var c04Special = []float64{0, math.Copysign(0, -1), math.Inf(1), math.Inf(-1), math.NaN(), 1, -1, 1e9, 1e-9, 123.5,
	5e-324, 2.2250738585072014e-308, math.MaxFloat64, 1e300, 3, 1e6}

func c04Value(r *hx.Rng) float64 {
	switch r.Intn(3) {
	case 0:
		return c04Special[r.Intn(len(c04Special))]
	case 1:
		return math.Float64frombits(r.U64())
	}
	return float64(r.Intn(100000)) / 8
}

var c04Comp = []string{"ns", "MB", "B", "sec", "op", "s", "bytes", "xns", "nsx", "MBps", "µs", "é", "nsMB", "n", "M", "Åns", "àMB", "ąns", "turns",
	"", "\xff", "\xe2\x80", "\xc2", "ns\xe2", "\xf0\x9f\x98\x80", "allocs", "MBB", "NS", "mb"}
var c04Sep = []string{"/", "*", "-", " ", "\t", "\u00a0", "\u2028", "\u3000", "\u0085", "\v", "//", "*/", "/*", "\u1680", "\n", "\u200b", "\u2003"}

func genC04(o *hx.Out, r *hx.Rng, tier string, replay string) error {
	o.Rule = "units built from components {ns MB B sec op s bytes xns nsx MBps µs é nsMB '' invalid-UTF-8 …} joined by / * - and ASCII/Unicode white space (exhaustive over a small alphabet up to a bound, then random longer ones, plus the fast-path literals and near misses), each with values from {0,-0,±Inf,NaN,subnormal,max,…} and random bit patterns; observed: benchunit.Tidy (twice), benchfmt.Reader Values, UnitMetadataMap.Get, .unit filters; plus sequences of 2-4 results of one metric written under its written and its base unit in every order (with unit lines in between) read through ONE Reader and judged by ONE Filter (Match then Apply), each result independently; the same with .unit regexps and value lists (.unit:/re/, .unit:(a OR /re/ ...)) on lines of 2-4 measurements where one measurement is named only by its written unit and another by its base unit (regexp.MatchString recorded per (pattern, unit)); and benchunit.Tidy called directly in order within this process, first of all (empty memo table): a unit whose base form still contains ns/MB and then that base form (every order, repeated; fresh units through a unique denominator token), units with ns/MB directly after a letter whose UTF-8 encoding ends in 0x85/0xA0, and ns/MB after multi-byte white space; and units with MORE THAN FOUR normalisable numerator components (5-8, thorough 5-12 ns/MB numerator tokens mixed with other words, -suffix parts, denominators incl. ns/MB that must stay; base form known by construction), each through Tidy twice + reader + metadata + filters, through ONE reader next to the same metric written in base units, and through direct Tidy calls unit/base/unit; and texts LONGER than the line scanner's 4096-byte buffer (lines of one constant length L, a run of 4096/L+ lines of one unit crossing the boundary, then lines with a different unit of EQUAL written length in the same field position - e.g. ns/op then us/op, ms/op, 'B/op ' - and further lines after; whole-text and chunked io.Readers; 1-2 measurements per line; Unit lines) through ONE Reader and ONE Filter, every record judged when delivered AND the caller's retained copies (Result.Clone before/after Apply, *UnitMetadata) re-read after the whole text was scanned.; and units whose scale 10^(6#MB-9#ns), or a prefix of it in token order, is outside the binary64 range (30-45 ns, 45-62 MB numerator components around the thresholds 35/36 ns and 52 MB; sequential, interleaved, mixed) with every special value and finite values whose real product is representable (tag c04_factor_out_of_range decided from the input: simulation of the accumulated factor + exact comparison with the real product); GetBetter on an empty map and GetBetter/GetAssumption after 'Unit u better=.. assume=..' for u, its base unit and the units with built-in defaults (ns/op sec/op MB/s B/s MB/op B/op allocs/op); benchstat's tables (unit, assumption, number of values) over results of one metric written under both units with 'Unit .. assume=' lines naming either. non-trivial = the unit is rewritten; distinct by (unit, value bits); CONCURRENT (case kind 7, tag concurrent): batches of 4-6 fresh units (every second one of 1500-3500 components, 10-25 KB; normalised tokens first / last / at both ends / only in the denominator or inside words; at most three numerator ns/MB tokens) met by 8-16 goroutines released by one spin barrier per round, goroutine g delayed by g x {0, 40, 300, 3000} spin iterations, all on the SAME unseen unit (in every second batch on two unseen units at a time), most through benchunit.Tidy, every 3rd/4th through its own benchfmt.Reader, each asking a second time at once; every batch run in cmd/c04race as processes of its own, plain at GOMAXPROCS 4, 8, 16 and built with -race at 4, 8; the case lists every distinct answer any caller got per unit, whether a process died / a caller panicked, and whether the race detector reported"
	// table case: the rune class and float constants the model is evaluated with
	o.Add(hx.L(hx.I(0), hx.List(unicodeRanges(unicode.IsSpace)), hx.F64(1e-9), hx.F64(1e6), hx.F64(1e9)),
		map[string]string{"kind": "tables"}, "tables", false)

	// direct Tidy sequences first: the memo table of tidy.go is still empty
	ntseq := 300
	if tier == "thorough" {
		ntseq = 8000
	}
	if err := c04GenTidySeqs(o, r, ntseq); err != nil {
		return err
	}
	// units with more than four normalisable numerator components
	nmany, kmax := 400, 8
	if tier == "thorough" {
		nmany, kmax = 10000, 12
	}
	if err := c04GenMany(o, r, nmany, kmax); err != nil {
		return err
	}
	// units whose scale (or a prefix of it) is outside the binary64 range
	next := 250
	if tier == "thorough" {
		next = 6000
	}
	if err := c04GenExtreme(o, r.Split(), next); err != nil {
		return err
	}

	// literals of the fast paths and near misses, every special value
	lits := []string{"Åns/op", "reqàns/op", "ąMB/s", "Šns", "x\u2003ns", "ns\u2003MB/s", "Å", "àMB*ns",
		"ns/op", "MB/s", "B/op", "allocs/op", "ns", "MB", "sec/op", "B/s", "ns/op ", "MB/s/ns", "ns/ns", "MB*ns",
		"op/ns", "ns-MB", "ns*MB/MB*ns", "Mns", "nsMB", "", "-", "/", "*", " ", "ns op", "/ns", "*ns", "//ns", "/*ns", "ns/", "ns\xff", "\xffns",
		"ns MB", "x/ns ns", "ns/op\r"}
	for _, u := range lits {
		for _, v := range c04Special {
			if err := c04One(o, r, u, v, "literal"); err != nil {
				return err
			}
		}
	}
	// exhaustive: alternating components and separators over a small alphabet
	ecomp := []string{"ns", "MB", "x", ""}
	esep := []string{"/", "*", "-", " "}
	depth := 3
	if tier == "thorough" {
		depth = 4
	}
	var rec func(prefix string, d int) error
	rec = func(prefix string, d int) error {
		for _, c := range ecomp {
			u := prefix + c
			if err := c04One(o, r, u, c04Value(r), "exhaustive"); err != nil {
				return err
			}
			if d < depth {
				for _, s := range esep {
					if err := rec(u+s, d+1); err != nil {
						return err
					}
				}
			}
		}
		return nil
	}
	if err := rec("", 1); err != nil {
		return err
	}
	o.Extra["exhaustive_components"] = depth
	// sequences through one Reader / one unit table / one Filter
	nseq := 600
	if tier == "thorough" {
		nseq = 15000
	}
	if err := c04GenSeq(o, r, nseq); err != nil {
		return err
	}
	if err := c04GenSeqF(o, r, nseq); err != nil {
		return err
	}
	// benchstat tables over one metric written under both units
	ntab := 150
	if tier == "thorough" {
		ntab = 4000
	}
	if err := c04GenTab(o, r.Split(), ntab); err != nil {
		return err
	}
	// texts longer than the scanner's buffer (own stream: the cases before and after keep their inputs)
	nlong := 40
	if tier == "thorough" {
		nlong = 600
	}
	if err := c04GenLong(o, r.Split(), nlong); err != nil {
		return err
	}
	// random
	n := 2500
	if tier == "thorough" {
		n = 60000
	}
	for i := 0; i < n; i++ {
		var sb strings.Builder
		k := r.Range(1, 6)
		for j := 0; j < k; j++ {
			if j > 0 || r.Chance(0.1) {
				sb.WriteString(c04Sep[r.Intn(len(c04Sep))])
			}
			if r.Chance(0.6) {
				sb.WriteString(c04Comp[r.Intn(5)]) // favour ns MB B sec op
			} else {
				sb.WriteString(c04Comp[r.Intn(len(c04Comp))])
			}
		}
		if r.Chance(0.05) {
			sb.WriteString(c04Sep[r.Intn(len(c04Sep))])
		}
		u := sb.String()
		if r.Chance(0.03) { // hostile: random bytes
			b := make([]byte, r.Range(1, 8))
			for j := range b {
				b[j] = byte(r.Intn(256))
			}
			u = string(b)
		}
		if err := c04One(o, r, u, c04Value(r), "random"); err != nil {
			return err
		}
	}
	// concurrent callers (own stream, split last; processes of their own)
	nconc := 6
	if tier == "thorough" {
		nconc = 40
	}
	if err := c04GenConcurrent(o, r.Split(), nconc); err != nil {
		return err
	}
	return nil
}
