package main

import (
	"fmt"
	"math"
	"math/big"
	"os"
	"strconv"
	"unicode"

	"golang.org/x/perf/benchunit"
	"verifharness/internal/hx"
)

func init() { gens["C10"] = genC10 }

// Case kinds (first element of the case term):
//
//	0 tables   (0 cls (((b (prec factor prefix) (prec factor prefix)) (strAt strBelow)) ...))   change points of v -> CommonScale([v], cls), read back through behaviour, with Scale() of the value at and just below each
//	1 common   (1 cls (vals...) scalerOpt (strs...) scaleStrOpt sameAsMin)  CommonScale + Format of every value
//	2 format   (2 prec factor prefix v ((qbits shortest)...) out)          Scaler.Format with an arbitrary Scaler (incl. NoOpScaler)
//	3 classof  (3 unit cls)
//	5 history  (5 (step ...))   calls made one after the other in one process, see c10hist.go
//	4 rows     (4 ((unit text ((sameAsMin (centre?...)) ...)) ...))        real benchtab tables: ToText's text and the centres of every row (c16gaps.go)
type c10Input struct {
	Kind   string   `json:"kind"`
	Class  int      `json:"class,omitempty"`
	Vals   []string `json:"vals,omitempty"` // hex bit patterns
	Floats []string `json:"floats,omitempty"`
	Prec   int      `json:"prec,omitempty"`
	Factor string   `json:"factor,omitempty"`
	Prefix string   `json:"prefix,omitempty"`
	Unit   string   `json:"unit,omitempty"`
	Note   string   `json:"note,omitempty"`
}

type c10Scaler struct {
	ok     bool // false: CommonScale panicked
	prec   int
	factor uint64
	prefix string
}

func c10Common(vals []float64, cls int) (s c10Scaler, sc benchunit.Scaler) {
	defer func() {
		if r := recover(); r != nil {
			s = c10Scaler{ok: false}
		}
	}()
	sc = benchunit.CommonScale(vals, benchunit.Class(cls))
	return c10Scaler{true, sc.Prec, math.Float64bits(sc.Factor), sc.Prefix}, sc
}

func c10Norm(b uint64) uint64 {
	if f := math.Float64frombits(b); f != f {
		return 0x7ff8000000000001
	}
	return b
}

func (s c10Scaler) sx() hx.Sx {
	if !s.ok {
		return hx.L()
	}
	return hx.L(hx.L(hx.I(s.prec), hx.U(c10Norm(s.factor)), hx.S(s.prefix)))
}

func c10Hex(f float64) string { return fmt.Sprintf("%016x", math.Float64bits(f)) }

// change points of the scale chosen for a single positive value, found through
// the public API only.
func c10ChangePoints(cls int) []uint64 {
	at := func(b uint64) c10Scaler {
		s, _ := c10Common([]float64{math.Float64frombits(b)}, cls)
		return s
	}
	var grid []uint64
	grid = append(grid, 1)
	for e := uint64(1); e <= 2046; e++ {
		grid = append(grid, e<<52)
	}
	grid = append(grid, 0x7fefffffffffffff, 0x7ff0000000000000)
	var out []uint64
	var rec func(lo, hi uint64, slo, shi c10Scaler)
	rec = func(lo, hi uint64, slo, shi c10Scaler) {
		if slo == shi {
			return
		}
		if hi == lo+1 {
			out = append(out, hi)
			return
		}
		mid := lo + (hi-lo)/2
		sm := at(mid)
		rec(lo, mid, slo, sm)
		rec(mid, hi, sm, shi)
	}
	for i := 0; i+1 < len(grid); i++ {
		rec(grid[i], grid[i+1], at(grid[i]), at(grid[i+1]))
	}
	return out
}

// thresholds by the documented recipe, computed by the harness with strconv
// directly (not through the code under test): sweep centres that do not move
// when the implementation's tables do.
func c10RecipeThresholds(cls int) []float64 {
	var ts []float64
	if cls == 0 {
		for exp := 12; exp >= -9; exp -= 3 {
			for _, m := range []string{"99.995", "9.9995", ".99995"} {
				t, _ := strconv.ParseFloat(fmt.Sprintf("%se%d", m, exp), 64)
				ts = append(ts, t)
			}
		}
		ts = append(ts, 999.95e12)
		for exp := -1; exp > -9; exp-- {
			t, _ := strconv.ParseFloat(fmt.Sprintf("9.9995e%d", exp), 64)
			ts = append(ts, t*1e-9)
		}
		ts = append(ts, 1e-17)
	} else {
		for exp := 40; exp >= 0; exp -= 10 {
			for _, m := range []float64{99.995, 9.9995, .99995, 999.95, 1023.95, 1024, 1000} {
				ts = append(ts, m*math.Pow(2, float64(exp)))
			}
		}
		for exp := -1; exp > -9; exp-- {
			t, _ := strconv.ParseFloat(fmt.Sprintf("9.9995e%d", exp), 64)
			ts = append(ts, t)
		}
		ts = append(ts, 1e-8)
	}
	return ts
}

// ---- known findings, recognised from the input alone ----
//
// The harness works out, without the code under test, the scale of the least
// non-zero magnitude by the documented recipe (thresholds = ParseFloat of the
// printed boundary; below the smallest prefix the quotient against the sigfigs
// thresholds) and then simulates the mechanism of the finding on every value:
// the decimal strconv prints for the binary64 quotient v / Factor, compared in
// exact arithmetic (math/big) with the value.

// c10SpecScale: precision and exponent (power of ten resp. two) of the scale of
// min > 0, finite.
func c10SpecScale(min float64, cls int) (prec, exp int) {
	if cls == 0 {
		for exp = 12; exp >= -9; exp -= 3 {
			for i, m := range []string{"99.995", "9.9995", ".99995"} {
				t, _ := strconv.ParseFloat(fmt.Sprintf("%se%d", m, exp), 64)
				if min >= t {
					return i + 1, exp
				}
			}
		}
		exp = -9
	} else {
		for exp = 40; exp >= 0; exp -= 10 {
			for i, m := range []float64{0x1.8ffae147ae148p6, 0x1.3ffbe76c8b439p3, 0x1.fff972474538fp-1} {
				if min >= math.Ldexp(m, exp) {
					return i + 1, exp
				}
			}
		}
		exp = 0
	}
	val := min / c10Factor(cls, exp)
	for i := 0; i < 8; i++ {
		t, _ := strconv.ParseFloat(fmt.Sprintf("9.9995e%d", -1-i), 64)
		if val >= t || i == 7 {
			return i + 3, exp
		}
	}
	panic("unreachable")
}

func c10Factor(cls, exp int) float64 {
	if cls == 0 {
		return math.Pow(10, float64(exp))
	}
	return math.Ldexp(1, exp)
}

// the exact factor 10^exp resp. 2^exp
func c10ExactFactor(cls, exp int) *big.Rat {
	base := int64(10)
	if cls != 0 {
		base = 2
	}
	n := exp
	if n < 0 {
		n = -n
	}
	pw := new(big.Int).Exp(big.NewInt(base), big.NewInt(int64(n)), nil)
	if exp < 0 {
		return new(big.Rat).SetFrac(big.NewInt(1), pw)
	}
	return new(big.Rat).SetInt(pw)
}

// c10QuotientRounded: known finding C10_quotient_rounded_before_printing. Some
// finite value of vals, scaled with the scale of the least non-zero magnitude,
// has a finite binary64 quotient v / Factor whose prec-digit decimal, times the
// exact factor, is more than half a unit of the last digit away from v.
func c10QuotientRounded(vals []float64, cls int) bool {
	if cls != 0 && cls != 1 {
		return false
	}
	min := 0.0
	for _, v := range vals {
		if v != v {
			return false
		}
		if a := math.Abs(v); a != 0 && (min == 0 || a < min) {
			min = a
		}
	}
	if min == 0 || math.IsInf(min, 0) {
		return false
	}
	prec, exp := c10SpecScale(min, cls)
	f := c10Factor(cls, exp)
	F := c10ExactFactor(cls, exp)
	half := new(big.Rat).SetFrac(big.NewInt(1), new(big.Int).Mul(big.NewInt(2), new(big.Int).Exp(big.NewInt(10), big.NewInt(int64(prec)), nil)))
	half.Mul(half, F)
	for _, v := range vals {
		q := v / f
		if math.IsInf(v, 0) || math.IsInf(q, 0) {
			continue
		}
		printed, ok := new(big.Rat).SetString(strconv.FormatFloat(q, 'f', prec, 64))
		if !ok {
			continue
		}
		d := printed.Mul(printed, F)
		d.Sub(d, new(big.Rat).SetFloat64(v))
		if d.Abs(d).Cmp(half) > 0 {
			return true
		}
	}
	return false
}

// tokens of a unit in its numerator, by the documented grammar: separators are
// '*', '/', '-' and white space; after '/' the denominator, after '*' the
// numerator again.
func c10NumeratorTokens(unit string) []string {
	var toks []string
	denom := false
	cur := ""
	flush := func() {
		if cur != "" && !denom {
			toks = append(toks, cur)
		}
		cur = ""
	}
	for _, c := range unit { // invalid UTF-8 ranges as U+FFFD, no separator
		switch {
		case c == '*':
			flush()
			denom = false
		case c == '/':
			flush()
			denom = true
		case c == '-' || unicode.IsSpace(c):
			flush()
		default:
			if c == unicode.ReplacementChar {
				cur += "\xff" // any non-token byte; only equality with ASCII tokens matters
			} else {
				cur += string(c)
			}
		}
	}
	flush()
	return toks
}

var c10ByteSpellings = func() map[string]bool {
	m := map[string]bool{"byte": true, "bytes": true, "Byte": true, "Bytes": true}
	for _, p := range []string{"", "k", "K", "M", "G", "T", "P", "E", "Ki", "Mi", "Gi", "Ti", "Pi", "Ei"} {
		m[p+"B"] = true
	}
	return m
}()

// c10ClassSpelling: known finding C10_classof_byte_spellings. The numerator has
// a token that names bytes, but none spelled B, MB or bytes.
func c10ClassSpelling(unit string) bool {
	wide, narrow := false, false
	for _, t := range c10NumeratorTokens(unit) {
		if c10ByteSpellings[t] {
			wide = true
		}
		if t == "B" || t == "MB" || t == "bytes" {
			narrow = true
		}
	}
	return wide && !narrow
}

func c10Scale(val float64, cls int) (s string, ok bool) {
	defer func() {
		if r := recover(); r != nil {
			ok = false
		}
	}()
	return benchunit.Scale(val, benchunit.Class(cls)), true
}

// one CommonScale case: the scale, every value formatted with it, Scale() for
// singletons, and whether the scale equals that of the least non-zero magnitude.
func c10CommonCase(o *hx.Out, vals []float64, cls int, note string, tags ...string) {
	s, sc := c10Common(vals, cls)
	var vs, strs []hx.Sx
	in := c10Input{Kind: "common", Class: cls, Note: note}
	hasNaN := false
	overflow := false
	min := 0.0
	for _, v := range vals {
		vs = append(vs, hx.F64(v))
		in.Vals = append(in.Vals, c10Hex(v))
		in.Floats = append(in.Floats, strconv.FormatFloat(v, 'g', -1, 64))
		if v != v {
			hasNaN = true
		}
		a := math.Abs(v)
		if a != 0 && (min == 0 || a < min) {
			min = a
		}
		if s.ok {
			strs = append(strs, hx.S(sc.Format(v)))
			if q := v / sc.Factor; math.IsInf(q, 0) && !math.IsInf(v, 0) {
				overflow = true
			}
		}
	}
	if overflow {
		// known finding: a finite value whose quotient by the shared sub-unit factor overflows prints as +Inf
		tags = append(tags, "C10_shared_scale_quotient_overflow")
	}
	if c10QuotientRounded(vals, cls) {
		// known finding: the decimal of the rounded binary64 quotient is more than half a unit off
		tags = append(tags, "C10_quotient_rounded_before_printing")
		o.Count("common:quotient-rounding-shows")
	}
	scaleStr := hx.L()
	if len(vals) == 1 {
		if str, ok := c10Scale(vals[0], cls); ok {
			scaleStr = hx.L(hx.S(str))
		}
	}
	same := true
	if !hasNaN {
		s1, _ := c10Common([]float64{min}, cls)
		same = s1 == s
	}
	coq := hx.L(hx.I(1), hx.I(cls), hx.List(vs), s.sx(), hx.List(strs), scaleStr, hx.Bool(same))
	key := fmt.Sprintf("c%d%v", cls, in.Vals)
	if hasNaN {
		tags = append(tags, "nan")
	}
	o.Count("kind=common")
	o.Count(fmt.Sprintf("common:n=%d", len(vals)))
	if s.ok {
		o.Count(fmt.Sprintf("common:cls=%d prec=%d prefix=%q", cls, s.prec, s.prefix))
	} else {
		o.Count("common:panic")
	}
	o.Add(coq, in, key, min != 0 && !math.IsInf(min, 0) && !hasNaN, tags...)
}

func c10FormatCase(o *hx.Out, prec int, factor float64, prefix string, v float64, note string) {
	sc := benchunit.Scaler{Prec: prec, Factor: factor, Prefix: prefix}
	out := sc.Format(v)
	q := v / factor
	var oracle []hx.Sx
	if prec < 0 {
		oracle = append(oracle, hx.L(hx.F64(q), hx.S(strconv.FormatFloat(q, 'f', -1, 64))))
	}
	in := c10Input{Kind: "format", Prec: prec, Factor: c10Hex(factor), Prefix: prefix,
		Vals: []string{c10Hex(v)}, Floats: []string{strconv.FormatFloat(v, 'g', -1, 64), strconv.FormatFloat(factor, 'g', -1, 64)}, Note: note}
	coq := hx.L(hx.I(2), hx.I(prec), hx.F64(factor), hx.S(prefix), hx.F64(v), hx.List(oracle), hx.S(out))
	o.Count("kind=format")
	if prec < 0 {
		o.Count("format:shortest")
	} else {
		o.Count(fmt.Sprintf("format:prec=%d", min(prec, 12)))
	}
	o.Add(coq, in, fmt.Sprintf("f%d/%s/%s/%s", prec, in.Factor, prefix, in.Vals[0]), q == q && !math.IsInf(q, 0) && q != 0)
}

func c10ClassCase(o *hx.Out, unit string) {
	c := benchunit.ClassOf(unit)
	in := c10Input{Kind: "classof", Unit: unit}
	coq := hx.L(hx.I(3), hx.S(unit), hx.I(int(c)))
	o.Count("kind=classof")
	o.Count(fmt.Sprintf("classof:%v", c))
	var tags []string
	if c10ClassSpelling(unit) {
		// known finding: bytes in the numerator spelled otherwise than B, MB, bytes
		tags = append(tags, "C10_classof_byte_spellings")
		o.Count("classof:bytes-spelled-otherwise")
	}
	o.Add(coq, in, "u"+unit, len(unit) > 0, tags...)
}

func c10Ulps(f float64, d int64) float64 {
	b := int64(math.Float64bits(f)) + d
	if b < 1 {
		b = 1
	}
	if b > 0x7fefffffffffffff {
		b = 0x7fefffffffffffff
	}
	return math.Float64frombits(uint64(b))
}

// a random positive magnitude, log-uniform over 1e-30 .. 1e30
func c10RandMag(r *hx.Rng) float64 {
	e := r.Float()*60 - 30
	return math.Pow(10, e) * (1 + r.Float())
}

var c10Specials = []float64{0, math.Copysign(0, -1), math.Inf(1), math.Inf(-1), math.NaN(), 5e-324, 2.2250738585072014e-308,
	math.MaxFloat64, 1, -1, 1000, 1024, 999.95, 0.99995, 1e-9, 1e-17, 1e-18, 1e15, 1e16, 1 << 50, 0.5, 0.001, 1e-8, 1e-10}

func c10AnyValue(r *hx.Rng, centres []float64) float64 {
	var v float64
	switch r.Intn(10) {
	case 0:
		v = c10Specials[r.Intn(len(c10Specials))]
	case 1, 2:
		v = c10Ulps(centres[r.Intn(len(centres))], int64(r.Intn(9))-4)
	case 3:
		v = float64(r.Intn(100000))
	case 4:
		v = float64(r.Intn(100000)) / 1000
	default:
		v = c10RandMag(r)
	}
	if r.Chance(0.25) {
		v = -v
	}
	return v
}

func genC10(o *hx.Out, r *hx.Rng, tier string, replay string) error {
	o.Rule = "CommonScale/Scale/Scaler.Format/ClassOf of golang.org/x/perf/benchunit through the public API: (0) the change points of v -> CommonScale([v]) per class found by bisection over bit patterns, (1) every float within +-64 (quick) / +-4096 (thorough) ulps of every observed change point and of every threshold of the documented recipe, random magnitudes 1e-30..1e30, tie-prone mantissas (x.x5, x.xx5, x.xxx5 exactly representable, times each prefix), multisets of 1-6 values incl. zeros, NaN, Inf, negative, bad Class; (2) Format with arbitrary Scalers incl. NoOpScaler with strconv's shortest output recorded as oracle; (3) ClassOf on unit strings assembled from tokens and ASCII/Unicode separators and invalid UTF-8; (4) the shared scale as cmd/benchstat's table renderer applies it (benchtab.Table.RowScaler / ToText on real tables built in process from generated files): rows whose least non-zero |centre| is negative, all-negative rows, rows mixing zero, negative and positive centres, decimal and binary units, 1-5 rows x 2-4 columns with missing cells - the centres printed in the text are read back and judged like (1); (5) HISTORIES of calls (c10hist.go), each run once in a process of its own that has not used the package before (cmd/c10proc) and once in the generator's process: Tidy(unit) and ClassOf(unit) on the same string in both orders for units with B / bytes / MB in the numerator whose text contains ns or MB elsewhere (B/ns, bytes/conns, B/txns, MB/s ...), controls with the bytes in the denominator, two units interleaved; process order - a Binary value below 1 (0.5, 0.0123, 0.00012344, the shared scale {3, 0.25, 0}, random magnitudes down to 1e-8) as the very first call or behind calls that must not matter, then a Decimal value, then again; a Decimal value below 1n before any Binary one; random mixed histories - every step judged by its own clause, inputs of the known findings avoided. non-trivial = a non-zero finite magnitude / non-empty unit; distinct by input"
	thorough := tier == "thorough"

	// (0) tables, read back through behaviour
	centres := map[int][]float64{}
	for cls := 0; cls <= 1; cls++ {
		cps := c10ChangePoints(cls)
		var rows []hx.Sx
		var hexs []string
		for _, b := range cps {
			sa, _ := c10Common([]float64{math.Float64frombits(b)}, cls)
			sb, _ := c10Common([]float64{math.Float64frombits(b - 1)}, cls)
			strOpt := func(v float64) hx.Sx {
				if str, ok := c10Scale(v, cls); ok {
					return hx.L(hx.S(str))
				}
				return hx.L()
			}
			rows = append(rows, hx.L(hx.L(hx.U(b), sa.sx(), sb.sx()),
				hx.L(strOpt(math.Float64frombits(b)), strOpt(math.Float64frombits(b-1)))))
			hexs = append(hexs, fmt.Sprintf("%016x", b))
			centres[cls] = append(centres[cls], math.Float64frombits(b))
		}
		o.Count("kind=tables")
		o.Extra[fmt.Sprintf("change_points_class%d", cls)] = len(cps)
		var ttags []string
		for _, b := range cps {
			// a change point next to a decimal tie of the scale below it can itself show the
			// rounding of the quotient (Decimal: 9.9995e-16 prints as 0.0000009999n)
			if c10QuotientRounded([]float64{math.Float64frombits(b)}, cls) || c10QuotientRounded([]float64{math.Float64frombits(b - 1)}, cls) {
				ttags = []string{"C10_quotient_rounded_before_printing"}
			}
		}
		o.Add(hx.L(hx.I(0), hx.I(cls), hx.List(rows)), c10Input{Kind: "tables", Class: cls, Vals: hexs}, fmt.Sprintf("tables%d", cls), true, ttags...)
		centres[cls] = append(centres[cls], c10RecipeThresholds(cls)...)
	}

	// (1a) ulp sweeps
	w := int64(64)
	if thorough {
		w = 4096
	}
	for cls := 0; cls <= 1; cls++ {
		seen := map[uint64]bool{}
		for _, c := range centres[cls] {
			for d := -w; d <= w; d++ {
				v := c10Ulps(c, d)
				if seen[math.Float64bits(v)] {
					continue
				}
				seen[math.Float64bits(v)] = true
				if d%7 == 3 {
					v = -v
				}
				c10CommonCase(o, []float64{v}, cls, "sweep")
			}
		}
	}
	o.Extra["ulp_window"] = w

	// (1b) random magnitudes, specials
	nrand := 1500
	if thorough {
		nrand = 60000
	}
	for i := 0; i < nrand; i++ {
		v := c10RandMag(r)
		if r.Chance(0.2) {
			v = -v
		}
		c10CommonCase(o, []float64{v}, r.Intn(2), "random")
	}
	for _, v := range c10Specials {
		for cls := 0; cls <= 2; cls++ {
			c10CommonCase(o, []float64{v}, cls, "special")
		}
	}
	// extremes of the exponent range
	for i := 0; i < 200; i++ {
		e := r.Range(-1074, 1023)
		v := math.Ldexp(1+r.Float(), e)
		c10CommonCase(o, []float64{v}, r.Intn(2), "wide")
	}

	// (1c) tie-prone mantissas: t = k + j/2^s with a decimal expansion ending in 5 right after the printed digits
	ties := 0
	ntie := 40
	if thorough {
		ntie = 600
	}
	for cls := 0; cls <= 1; cls++ {
		var facs []float64
		if cls == 0 {
			facs = []float64{1e12, 1e9, 1e6, 1e3, 1, 1e-3, 1e-6, 1e-9}
		} else {
			facs = []float64{1 << 40, 1 << 30, 1 << 20, 1 << 10, 1}
		}
		for _, f := range facs {
			for i := 0; i < ntie; i++ {
				var m float64
				switch r.Intn(3) {
				case 0: // 100.0 .. 999.9 at prec 1: x.x5 needs quarter steps
					m = float64(r.Range(100, 999)) + float64(2*r.Intn(5))/10 // not exact, then snap:
					m = math.Floor(m) + []float64{0.25, 0.75}[r.Intn(2)]
				case 1: // 10.00 .. 99.99 at prec 2: x.xx5 = eighths
					m = float64(r.Range(10, 99)) + []float64{0.125, 0.375, 0.625, 0.875}[r.Intn(4)]
				default: // 1.000 .. 9.999 at prec 3: x.xxx5 = sixteenths
					m = float64(r.Range(1, 9)) + float64(2*r.Intn(8)+1)/16
				}
				v := m * f
				c10CommonCase(o, []float64{v}, cls, "tie")
				ties++
			}
		}
	}
	o.Extra["tie_cases"] = ties

	// (1d) multisets
	nms := 800
	if thorough {
		nms = 20000
	}
	for i := 0; i < nms; i++ {
		cls := r.Intn(2)
		if r.Chance(0.02) {
			cls = 2 + r.Intn(2)
		}
		n := r.Range(1, 6)
		if r.Chance(0.03) {
			n = 0
		}
		c := centres[cls%2]
		var vals []float64
		base := c10AnyValue(r, c)
		for j := 0; j < n; j++ {
			switch r.Intn(4) {
			case 0:
				vals = append(vals, base*(1+r.Float()*10))
			case 1:
				vals = append(vals, base)
			default:
				vals = append(vals, c10AnyValue(r, c))
			}
		}
		c10CommonCase(o, vals, cls, "multiset")
	}
	// a huge finite value sharing a sub-unit scale with a tiny one (known finding
	// C10_shared_scale_quotient_overflow: the quotient v/Factor overflows, "+Infn")
	for _, big := range []float64{1e305, -1e305, math.MaxFloat64, 2e299} {
		c10CommonCase(o, []float64{1e-9, big}, 0, "overflow")
		c10CommonCase(o, []float64{big, 3e-7, 1}, 0, "overflow")
	}
	// just below the overflow: still exact to half a unit
	c10CommonCase(o, []float64{1e-9, 1e299}, 0, "near-overflow")
	c10CommonCase(o, []float64{1e-9, -1.7e299}, 0, "near-overflow")

	// the classes below draw from a stream of their own, so that the cases of the
	// older classes stay what they were for a seed
	rq := hx.NewRng(r.Seed() ^ 0x5851f42d4c957f2d)
	// (1c') decimal near-ties: the binary64 next to x.xxx5 / xx.xx5 / xxx.x5 times
	// every prefix, +-2 ulps.  Under m, micro, n the rounding of the quotient shows on
	// some of them (known finding C10_quotient_rounded_before_printing); under
	// k M G T, no prefix and the binary prefixes never (controls).
	nnear := 60
	if thorough {
		nnear = 1500
	}
	for cls := 0; cls <= 1; cls++ {
		exps := []int{12, 9, 6, 3, 0, -3, -6, -9}
		if cls == 1 {
			exps = []int{40, 30, 20, 10, 0}
		}
		for _, e := range exps {
			for i := 0; i < nnear; i++ {
				n := rq.Range(1000, 9999)
				p := rq.Intn(3)
				m := (float64(n)*10 + 5) / math.Pow(10, float64(4-p))
				v := c10Ulps(m*c10Factor(cls, e), int64(rq.Intn(5))-2)
				if rq.Chance(0.2) {
					v = -v
				}
				c10CommonCase(o, []float64{v}, cls, "near-tie")
			}
		}
	}
	// the auditor's witnesses
	for _, v := range []float64{0.10105, 0.010005, 0.10025, 0.010045, 0.0010085, 0.10125} {
		c10CommonCase(o, []float64{v}, 0, "near-tie-witness")
	}
	// (1c'') long mantissas under a shared scale: the least magnitude fixes a
	// prefix, another value is 1e0 .. 1e22 times larger, so that more digits are
	// printed than a binary64 quotient holds (same known finding under every
	// decimal prefix but none; never under binary prefixes)
	nlong := 25
	if thorough {
		nlong = 600
	}
	for cls := 0; cls <= 1; cls++ {
		exps := []int{12, 9, 6, 3, 0, -3, -6, -9}
		if cls == 1 {
			exps = []int{40, 30, 20, 10, 0}
		}
		for _, e := range exps {
			for i := 0; i < nlong; i++ {
				mn := (1 + 8*rq.Float()) * c10Factor(cls, e) * []float64{1, 10, 100}[rq.Intn(3)]
				big := mn * math.Pow(10, rq.Float()*22)
				vals := []float64{mn, big}
				if rq.Chance(0.3) {
					vals = []float64{-big, 0, mn}
				}
				c10CommonCase(o, vals, cls, "long-mantissa")
			}
		}
	}

	// NaN in every position of a multiset (the property is about finite magnitudes;
	// corr_ok ties the code to the model: a NaN counts only as the first non-zero value)
	nan := math.NaN()
	for cls := 0; cls <= 1; cls++ {
		for _, vals := range [][]float64{{5, nan}, {nan, 5}, {0, nan, 3}, {0, 3, nan}, {-2, nan, 0, 7e-7}, {nan, nan}, {0, nan}, {2048, -nan, 1e9}} {
			c10CommonCase(o, vals, cls, "nan-position")
		}
	}
	// zeros and negative values in every position (a shared scale ignores sign and zeros)
	for cls := 0; cls <= 1; cls++ {
		for _, vals := range [][]float64{{0, 5, -3}, {-3, 0, 5}, {5, -3, 0}, {-1e-7, 0, 0, 2}, {0, 0, -4096}, {-2e6, -3e3, -5}} {
			c10CommonCase(o, vals, cls, "zero-negative-position")
		}
	}

	// (2) arbitrary scalers
	nf := 900
	if thorough {
		nf = 30000
	}
	facs := []float64{1, 1000, 1e-3, 1e-9, 1e12, 1024, 1 << 40, 3, 0.1, 7e22, 1e-300, -1000, 0, math.Inf(1), math.NaN()}
	for i := 0; i < nf; i++ {
		prec := r.Range(-1, 12)
		if r.Chance(0.3) {
			prec = -1
		}
		f := facs[r.Intn(len(facs))]
		if r.Chance(0.4) {
			f = 1
		}
		v := c10AnyValue(r, centres[0])
		if r.Chance(0.2) {
			v = math.Ldexp(1+r.Float(), r.Range(-1074, 1023))
		}
		if r.Chance(0.1) {
			v = float64(r.Intn(1<<20)) / float64(int(1)<<uint(r.Intn(12))) * f // exact ties on dyadic grids
		}
		c10FormatCase(o, prec, f, r.Pick([]string{"", "k", "Mi", "µ", "x y"}), v, "format")
	}
	for _, v := range append([]float64{0.1, 0.3, 1.5, 1e21, 1e22, 1e23, 1e-7, 123456789, 1e300, 4.9e-324, 0.1 + 0.2, 100, 1e15, 1e16, 1e17}, c10Specials...) {
		out := benchunit.NoOpScaler.Format(v)
		_ = out
		c10FormatCase(o, benchunit.NoOpScaler.Prec, benchunit.NoOpScaler.Factor, benchunit.NoOpScaler.Prefix, v, "noop")
		c10FormatCase(o, benchunit.NoOpScaler.Prec, benchunit.NoOpScaler.Factor, benchunit.NoOpScaler.Prefix, -v, "noop")
	}

	// (3) ClassOf
	toks := []string{"B", "MB", "bytes", "ns", "op", "s", "sec", "KB", "b", "Bytes", "BB", "B2", "GB", "byte", "allocs", "é", "\xff", "\xe2\x80", "\xc2", "B\xc2", "\xe2\x80B",
		// other spellings of bytes (known finding C10_classof_byte_spellings when alone in the numerator) and near misses
		"kB", "TB", "PB", "EB", "KiB", "MiB", "GiB", "TiB", "PiB", "EiB", "Byte", "kb", "Kib", "MBs", "iB", "mB", "BYTES"}
	seps := []string{"/", "*", "-", " ", "\t", "\n", "\v", "\f", "\r", "\u0085", "\u00a0", "\u1680", "\u2000", "\u2003", "\u2007", "\u200a",
		"\u2028", "\u2029", "\u202f", "\u205f", "\u3000",
		// not separators: zero-width space, Mongolian vowel separator, micro sign, hyphen U+2010, soft hyphen, U+200B..D, bare continuation bytes
		"\u200b", "\u180e", "\u00b5", "\u2010", "\u00ad", "\u200c", "\u1681", "\u2027", "\u202e", "\u3001", "_", ".", "\x85", "\xa0", "\xe2\x80", "\xe1\x9a",
		"//", "/*", "*/", "- /", "/ -", "* "}
	c10ClassCase(o, "")
	for _, t := range toks {
		c10ClassCase(o, t)
		for _, s := range seps {
			c10ClassCase(o, s+t)
			c10ClassCase(o, t+s)
			c10ClassCase(o, "x"+s+t)
			c10ClassCase(o, t+s+"x")
		}
	}
	for _, a := range []string{"B", "ns", "MB", "x"} {
		for _, s1 := range []string{"/", "*", "-", " ", " "} {
			for _, b := range []string{"B", "s", "bytes"} {
				for _, s2 := range []string{"/", "*", "-", " "} {
					for _, c := range []string{"B", "op", "MB"} {
						c10ClassCase(o, a+s1+b+s2+c)
					}
				}
			}
		}
	}
	nu := 600
	if thorough {
		nu = 20000
	}
	for i := 0; i < nu; i++ {
		n := r.Range(1, 6)
		u := ""
		if r.Chance(0.3) {
			u = seps[r.Intn(len(seps))]
		}
		for j := 0; j < n; j++ {
			u += toks[r.Intn(len(toks))]
			if j+1 < n || r.Chance(0.3) {
				u += seps[r.Intn(len(seps))]
				if r.Chance(0.2) {
					u += seps[r.Intn(len(seps))]
				}
			}
		}
		c10ClassCase(o, u)
	}
	// (4) the shared scale through the table renderer (c16gaps.go): real benchtab
	// tables with negative / mixed-sign rows, the centres printed by Table.ToText
	dir, err := os.MkdirTemp(os.Getenv("VERIF_WORK"), "c10rows")
	if err != nil {
		return err
	}
	defer os.RemoveAll(dir)
	if err := c16GenRowScale(o, r, tier, dir, 4, false); err != nil {
		return err
	}
	// rows of a real table on which the rounding of the quotient shows (known finding
	// C10_quotient_rounded_before_printing): 0.10105 sec prints as 101.0m; a row that
	// shares the scale of 4940.7 prints 7.335123946664616e17 with the quotient's digits
	fl0 := bsFlags{alpha: -1, confidence: -1}
	for _, w := range []struct{ unit, a, b string }{
		{"sec/op", "0.10105", "0.10125"},
		{"sec/op", "0.010005", "0.5"},
		{"widgets", "4940.706476680601", "7.335123946664616e17"},
		{"B/op", "4940.706476680601", "7.335123946664616e17"}, // binary prefixes: exact, not tagged
	} {
		var in bsInput
		for f, val := range []string{w.a, w.b} {
			in.Files = append(in.Files, bsFile{Name: fmt.Sprintf("f%d.txt", f), Label: []string{"old", "new"}[f],
				Content: fmt.Sprintf("BenchmarkR0 1 %s %s\nBenchmarkR0 1 %s %s\n", val, w.unit, val, w.unit)})
		}
		in.Flags = fl0.args()
		if _, err := c16RunRowScale(o, dir, in, fl0, 4, "quotient-rounding-witness"); err != nil {
			return err
		}
	}
	// (5) histories of calls in a fresh process and in this one (c10hist.go); a
	// stream of their own
	if err := c10GenHist(o, hx.NewRng(r.Seed()^0x2545f4914f6cdd1d), tier); err != nil {
		return err
	}
	return nil
}
