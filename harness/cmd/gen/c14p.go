package main

// C14, second kind of case: the composed benchstat model (Model/Pipeline.v).
// The harness sends the FLAG STRINGS and the FILE TEXTS together with what the
// real code produced from them:
//   - the real cmd/benchstat binary: its -format csv output parsed back
//     (tables, header lines, units, column and row labels, which cells exist,
//     each cell's centre), its error class, the syntax errors on stderr;
//   - benchtab.Tables observed in process (keys with field names, samples,
//     warnings), whose csv/text rendering must equal the binary's bytes.
// The model recomputes everything from the texts and flags alone.

import (
	"bytes"
	"encoding/csv"
	"fmt"
	"os"
	"path/filepath"
	"regexp"
	"sort"
	"strconv"
	"strings"

	"golang.org/x/perf/benchfmt"
	"golang.org/x/perf/benchmath"
	parse "golang.org/x/perf/benchproc/verifbridge"
	bt "golang.org/x/perf/cmd/benchstat/verifbridge"
	"verifharness/internal/hx"
)

type ppFlags struct {
	Filter string `json:"filter"`
	Table  string `json:"table"`
	Row    string `json:"row"`
	Col    string `json:"col"`
	Ignore string `json:"ignore"`
}

type ppInput struct {
	Files []bsFile `json:"files"`
	Flags ppFlags  `json:"flags"`
}

func (f ppFlags) args() []string {
	return []string{"-filter", f.Filter, "-table", f.Table, "-row", f.Row, "-col", f.Col, "-ignore", f.Ignore}
}

// ---------- file texts ----------

var ppUnits = []string{"ns/op", "B/op", "allocs/op", "MB/s", "sec/op", "ns/GC", "widgets", "MB*ns/op", "kB/s", "B/s", "ns"}

type ppShape struct {
	benches []string
	units   []string
}

func ppNames(r *hx.Rng) []string {
	n := r.Range(1, 5)
	var pool []string
	for i := 0; i < n; i++ {
		s := r.Pick([]string{"Fib", "Sort", "Enc", "Dec", "Hash"})
		if r.Chance(0.5) {
			s += "/n=" + r.Pick([]string{"1", "10", "1k", "2Ki", "x"})
		}
		if r.Chance(0.35) {
			s += "/fmt=" + r.Pick([]string{"json", "gob"})
		}
		if r.Chance(0.3) {
			// a sub-name key that has another key (/n, projected or ignored by the flag grid) as a proper prefix
			s += "/nodes=" + r.Pick([]string{"2", "3"})
		}
		if r.Chance(0.1) {
			s += "/plain"
		}
		if r.Chance(0.6) {
			s += "-" + r.Pick([]string{"4", "8", "16"})
		}
		pool = append(pool, s)
	}
	return pool
}

func ppValue(r *hx.Rng, base float64, unit string) string {
	v := base * (1 + float64(r.Intn(9)-4)*0.01)
	switch r.Intn(14) {
	case 0:
		v = 0
	case 1, 2:
		v = base
	case 3:
		v = float64(int(v))
	case 4:
		return strconv.FormatFloat(v, 'e', 3, 64)
	case 5:
		return fmt.Sprintf("%d", int(base))
	case 6:
		// values that are not positive finite numbers: the summary row's warnings, "?" deltas, NaN in a compared cell
		if r.Chance(0.35) {
			return r.Pick([]string{"NaN", "+Inf", "-Inf", "-3", "inf", "0", "1e300", "-2.5"})
		}
	}
	if unit == "allocs/op" || unit == "B/op" {
		return fmt.Sprintf("%d", int(base/10)+r.Intn(3))
	}
	return strconv.FormatFloat(v, 'g', -1, 64)
}

func ppConfigLine(r *hx.Rng, b *strings.Builder) {
	switch r.Intn(8) {
	case 0, 1:
		fmt.Fprintf(b, "goos: %s\n", r.Pick([]string{"linux", "darwin"}))
	case 2:
		fmt.Fprintf(b, "goarch: %s\n", r.Pick([]string{"amd64", "arm64"}))
	case 3:
		fmt.Fprintf(b, "pkg: p%d\n", r.Intn(2))
	case 4:
		fmt.Fprintf(b, "note: run%d\n", r.Intn(3))
	case 5:
		// an empty value removes the key
		fmt.Fprintf(b, "%s:\n", r.Pick([]string{"note", "pkg", "goarch"}))
	case 6:
		fmt.Fprintf(b, "cpu: Fast CPU @ %dGHz\n", r.Range(2, 3))
	case 7:
		fmt.Fprintf(b, "note:\t run%d\n", r.Intn(2))
	}
}

func ppMalformedLine(r *hx.Rng, sh *ppShape) string {
	name := "Benchmark" + r.Pick(sh.benches)
	switch r.Intn(10) {
	case 0:
		return name + "\n" // bare name: skipped
	case 1:
		return name + " many\n" // bad iterations
	case 2:
		return name + " 10\n" // no measurements
	case 3:
		return name + " 10 12\n" // missing unit
	case 4:
		return name + " 10 abc ns/op\n" // bad measurement
	case 5:
		return "Unit\n"
	case 6:
		return "Unit ns/op assume\n"
	case 7:
		return "some unrelated line\n"
	case 8:
		return "PASS\nok  \tpkg\t1.2s\n"
	default:
		return name + " 10 1 ns/op 2\n"
	}
}

func ppFileText(r *hx.Rng, sh *ppShape, hostile bool) string {
	var b strings.Builder
	nblocks := r.Range(1, 3)
	for blk := 0; blk < nblocks; blk++ {
		nc := r.Range(0, 4)
		for i := 0; i < nc; i++ {
			ppConfigLine(r, &b)
		}
		if r.Chance(0.25) {
			fmt.Fprintf(&b, "Unit %s assume=%s\n", r.Pick(sh.units), r.Pick([]string{"exact", "nothing", "exact"}))
		}
		if r.Chance(0.1) {
			fmt.Fprintf(&b, "Unit %s better=%s assume=exact\n", r.Pick(sh.units), r.Pick([]string{"higher", "lower"}))
		}
		if r.Chance(0.5) {
			b.WriteString("\n")
		}
		// a schedule of benchmark lines: repeated and interleaved
		nl := r.Range(1, 10)
		if r.Chance(0.15) {
			nl = r.Range(11, 24)
		}
		base := map[string]float64{}
		for i := 0; i < nl; i++ {
			name := r.Pick(sh.benches)
			if r.Chance(0.6) && i > 0 {
				// stay on a small set so cells get several values
				name = sh.benches[r.Intn(min(2, len(sh.benches)))]
			}
			if _, ok := base[name]; !ok {
				base[name] = float64(r.Range(1, 5000))
			}
			fmt.Fprintf(&b, "Benchmark%s %d", name, r.Range(1, 1000))
			wrote := 0
			for _, u := range sh.units {
				if r.Chance(0.15) && wrote > 0 {
					continue
				}
				sep := " "
				if r.Chance(0.1) {
					sep = "\t"
				}
				fmt.Fprintf(&b, "%s%s %s", sep, ppValue(r, base[name], u), u)
				wrote++
			}
			if hostile && r.Chance(0.1) {
				b.WriteString("\r")
			}
			b.WriteString("\n")
			if r.Chance(0.08) {
				ppConfigLine(r, &b) // configuration changing between results
			}
			if (hostile && r.Chance(0.25)) || r.Chance(0.04) {
				b.WriteString(ppMalformedLine(r, sh))
			}
		}
	}
	s := b.String()
	if hostile && r.Chance(0.3) {
		s = strings.TrimSuffix(s, "\n") // unterminated last line
	}
	return s
}

// ---------- flag grid ----------

var ppFilters = []string{
	"*", "*", "*",
	".unit:ns/op", ".unit:sec/op", ".unit:(ns/op OR B/op)", `.unit:/\/op$/`, "-.unit:B/op",
	"-.name:Fib", ".name:Fib OR .name:Sort", "goos:linux OR .name:Sort",
	"(goos:linux AND -pkg:p1) OR .name:/^S/", "goos:linux -goarch:arm64",
	".file:old", ".file:/f0/", "-.file:/f1/ .unit:/sec|B/",
	".fullname:/n=1/", `.fullname:"Fib/n=1-4"`, "/n:(1 OR 10)", "/n:1k OR /fmt:json", "/gomaxprocs:4", "-/gomaxprocs:/^1/",
	"-/fmt:json .unit:(ns/op OR B/op)", "note:run1", `-note:"" pkg:/p/`, `cpu:"Fast CPU @ 2GHz"`,
	"-(.name:Fib OR .name:Enc) AND -.unit:widgets", "-* OR .name:Dec",
}
var ppBadFilters = []string{"goos:", "(goos:linux", ".config:x", "goos:/(/", "a b", ":x", "goos:linux OR"}

var ppTables = []string{".config", ".config", ".config", "goos", "goos,pkg", ".config@alpha", "pkg@alpha,goos", ".file", "", ".name", "note goos", ".config,goarch@alpha"}
var ppRows = []string{".fullname", ".fullname", ".fullname", ".name", ".name,/n", ".fullname@alpha", "/n@num", "/n@(1 10 1k)", ".name@alpha /fmt", "pkg,.name", "/gomaxprocs@num,.name", ".fullname,/n@num"}
var ppCols = []string{".file", ".file", ".file", "/fmt", "goos", ".file,/fmt", "/fmt@(json gob)", "/gomaxprocs@num", "note", ".file@alpha", "goos@(linux darwin)", ".config", "/n", "/n,.file"}
var ppIgnores = []string{"", "", "", "note", ".file", "pkg,note", "/n", ".config", ".fullname", "goarch", "/gomaxprocs", "cpu note", "/n", "/n note", "note@(run1 run2)", "goos@(linux)", `note@("hw acceleration enabled" run1)`, "/fmt@(json)"}
var ppBadProjs = []string{".unit", "goos@bogus", ".config@(a b)", "/n@(", "goos@fixed", "@alpha", "a,,b"}

func ppGenFlags(r *hx.Rng) (ppFlags, string) {
	fl := ppFlags{Filter: "*", Table: ".config", Row: ".fullname", Col: ".file", Ignore: ""}
	kind := "ok"
	switch r.Intn(4) {
	case 0: // defaults with a filter
		fl.Filter = r.Pick(ppFilters)
	case 1: // one projection flag moved
		switch r.Intn(4) {
		case 0:
			fl.Table = r.Pick(ppTables)
		case 1:
			fl.Row = r.Pick(ppRows)
		case 2:
			fl.Col = r.Pick(ppCols)
		case 3:
			fl.Ignore = r.Pick(ppIgnores)
		}
	default: // everything moved
		fl.Filter = r.Pick(ppFilters)
		fl.Table = r.Pick(ppTables)
		fl.Row = r.Pick(ppRows)
		fl.Col = r.Pick(ppCols)
		fl.Ignore = r.Pick(ppIgnores)
	}
	if r.Chance(0.06) {
		kind = "bad-flag"
		switch r.Intn(5) {
		case 0:
			fl.Filter = r.Pick(ppBadFilters)
		case 1:
			fl.Table = r.Pick(ppBadProjs)
		case 2:
			fl.Row = r.Pick(ppBadProjs)
		case 3:
			fl.Col = r.Pick(ppBadProjs)
		case 4:
			fl.Ignore = r.Pick(ppBadProjs)
		}
	}
	return fl, kind
}

func ppGenInput(r *hx.Rng) (ppInput, string) {
	var in ppInput
	sh := &ppShape{benches: ppNames(r)}
	nunits := r.Range(1, 3)
	for len(sh.units) < nunits {
		u := r.Pick(ppUnits)
		if r.Chance(0.5) {
			u = r.Pick(ppUnits[:4])
		}
		dup := false
		for _, x := range sh.units {
			dup = dup || x == u
		}
		if !dup {
			sh.units = append(sh.units, u)
		}
	}
	hostile := r.Chance(0.2)
	nfiles := r.Range(1, 3)
	for i := 0; i < nfiles; i++ {
		f := bsFile{Name: fmt.Sprintf("f%d.txt", i), Content: ppFileText(r, sh, hostile)}
		if r.Chance(0.3) {
			f.Label = r.Pick([]string{"old", "new", "L"})
		}
		in.Files = append(in.Files, f)
	}
	if r.Chance(0.08) && nfiles >= 2 {
		in.Files[1].Name = in.Files[0].Name
		in.Files[1].Content = in.Files[0].Content
	}
	fl, kind := ppGenFlags(r)
	in.Flags = fl
	if hostile {
		kind += "+hostile"
	}
	return in, kind
}

// ---------- observing the real binary ----------

type ppCsvCell struct {
	row, col int
	centre   float64
	delta    string // the "vs base" field; "" = absent
}
type ppCsvTable struct {
	hdr    []string
	unit   string
	cols   [][]string // per column: the column fields' values
	rows   []string
	cells  []ppCsvCell
	sumrow string
	ratios []string // per column: the summary row's "vs base" field ("" = absent)
}

func ppStartCol(exp int) int {
	if exp == 0 {
		return 1
	}
	return 1 + 2 + (exp-1)*4
}

// ppParseCSV reads back what Tables.ToCSV printed. ok=false: not the expected shape.
func ppParseCSV(out string) (tabs []ppCsvTable, ok bool) {
	if out == "" {
		return nil, true
	}
	for _, chunk := range strings.Split(strings.TrimSuffix(out, "\n"), "\n\n") {
		rd := csv.NewReader(strings.NewReader(chunk))
		rd.FieldsPerRecord = -1
		recs, err := rd.ReadAll()
		if err != nil || len(recs) < 3 {
			return nil, false
		}
		var t ppCsvTable
		i := 0
		for i < len(recs) && len(recs[i]) == 1 {
			t.hdr = append(t.hdr, recs[i][0])
			i++
		}
		// column field rows, up to the unit row (x, unit, "CI", ...)
		var colrows [][]string
		for i < len(recs) && !(len(recs[i]) >= 3 && recs[i][0] == "" && recs[i][2] == "CI" && (len(recs[i])-3)%4 == 0) {
			if recs[i][0] != "" {
				return nil, false
			}
			colrows = append(colrows, recs[i])
			i++
		}
		if i >= len(recs) {
			return nil, false
		}
		unitRow := recs[i]
		i++
		t.unit = unitRow[1]
		ncols := (len(unitRow)-3)/4 + 1
		for c := 0; c < ncols; c++ {
			var vals []string
			for _, cr := range colrows {
				v := ""
				if ppStartCol(c) < len(cr) {
					v = cr[ppStartCol(c)]
				}
				vals = append(vals, v)
			}
			t.cols = append(t.cols, vals)
		}
		body := recs[i : len(recs)-1]
		t.sumrow = recs[len(recs)-1][0]
		for ri, rec := range body {
			t.rows = append(t.rows, rec[0])
			for c := 0; c < ncols; c++ {
				sc := ppStartCol(c)
				if sc < len(rec) && rec[sc] != "" {
					v, err := strconv.ParseFloat(rec[sc], 64)
					if err != nil {
						return nil, false
					}
					d := ""
					if c > 0 && sc+2 < len(rec) {
						d = rec[sc+2]
					}
					t.cells = append(t.cells, ppCsvCell{ri, c, v, d})
				}
			}
		}
		last := recs[len(recs)-1]
		for c := 0; c < ncols; c++ {
			q := ""
			if sc := ppStartCol(c); c > 0 && sc+2 < len(last) {
				q = last[sc+2]
			}
			t.ratios = append(t.ratios, q)
		}
		tabs = append(tabs, t)
	}
	return tabs, true
}

var ppErrLine = regexp.MustCompile(`^(.*):([0-9]+): `)

// ppStatus classifies the binary's "benchstat: ..." message: 0 none, 1 -filter,
// 2 a projection flag (which), 3 anything else (a file could not be read).
func ppStatus(stderr string) (status, which int, synerrs [][2]string) {
	for _, line := range strings.Split(stderr, "\n") {
		if line == "" {
			continue
		}
		if strings.HasPrefix(line, "benchstat: ") {
			msg := strings.TrimPrefix(line, "benchstat: ")
			switch {
			case strings.HasPrefix(msg, "parsing -filter:"):
				return 1, 0, synerrs
			case strings.HasPrefix(msg, "parsing -table:"):
				return 2, 0, synerrs
			case strings.HasPrefix(msg, "parsing -row:"):
				return 2, 1, synerrs
			case strings.HasPrefix(msg, "parsing -col:"):
				return 2, 2, synerrs
			case strings.HasPrefix(msg, "parsing -ignore:"):
				return 2, 3, synerrs
			}
			return 3, 0, synerrs
		}
		if m := ppErrLine.FindStringSubmatch(line); m != nil {
			synerrs = append(synerrs, [2]string{m[1], m[2]})
		}
	}
	return 0, 0, synerrs
}

// ---------- oracles ----------

// every string a regexp of the filter can be applied to (computed with the
// exported name API, not with the code under test)
func ppCandidates(in ppInput, dir string) []string {
	seen := map[string]bool{}
	var out []string
	add := func(s string) {
		if !seen[s] {
			seen[s] = true
			out = append(out, s)
		}
	}
	add("")
	for _, f := range in.Files {
		p := filepath.Join(dir, f.Name)
		add(p)
		add(f.Label)
		rd := benchfmt.NewReader(strings.NewReader(f.Content), p)
		for rd.Scan() {
			res, ok := rd.Result().(*benchfmt.Result)
			if !ok {
				continue
			}
			for _, c := range c06Candidates(res) {
				add(c)
			}
		}
	}
	// disambiguated labels of duplicate paths
	for i := 0; i < len(in.Files); i++ {
		for j := 0; j < len(in.Files); j++ {
			add(fmt.Sprintf("%s#%d", filepath.Join(dir, in.Files[i].Name), j))
		}
	}
	return out
}

func ppReTable(q string, cands []string) hx.Sx {
	f, err := parse.ParseFilter(q)
	if err != nil {
		return hx.L()
	}
	acc := map[string]*regexp.Regexp{}
	c06Regexps(f, acc)
	var keys []string
	for k := range acc {
		keys = append(keys, k)
	}
	sort.Strings(keys)
	var l []hx.Sx
	for _, k := range keys {
		re := regexp.MustCompile(k)
		for _, c := range cands {
			l = append(l, hx.L(hx.S(k), hx.S(c), hx.Bool(re.MatchString(c))))
		}
	}
	return hx.List(l)
}

func ppNamed(fields []string, get func(i int) string) hx.Sx {
	var l []hx.Sx
	for i, n := range fields {
		l = append(l, hx.L(hx.S(n), hx.S(get(i))))
	}
	return hx.List(l)
}

// ---------- one case ----------

func ppCase(o *hx.Out, exe, dir string, in ppInput, kind string) error {
	if err := writeBsFiles(dir, bsInput{Files: in.Files}); err != nil {
		return err
	}
	bin := bsInput{Files: in.Files, Flags: in.Flags.args()}
	if c14Hangs(exe, dir, bin) {
		o.Count("pipe:hang")
		o.Add(hx.L(hx.I(8)), in, "pipe:"+fmt.Sprint(in), true, "pipeline")
		return nil
	}
	csvOut, _, _ := runBinary(exe, dir, bin, "csv", nil)
	textOut, textErr, _ := runBinary(exe, dir, bin, "text", nil)
	status, which, synerrs := ppStatus(textErr)

	// flags and files as the model receives them
	fl := in.Flags
	flagsSx := hx.L(hx.S(fl.Filter), hx.S(fl.Table), hx.S(fl.Row), hx.S(fl.Col), hx.S(fl.Ignore))
	var filesSx []hx.Sx
	for _, f := range in.Files {
		p := filepath.Join(dir, f.Name)
		if f.Label != "" {
			p = f.Label + "=" + p
		}
		filesSx = append(filesSx, hx.L(hx.S(p), hx.S(f.Content)))
	}
	var reok []hx.Sx
	for _, q := range []string{fl.Filter, fl.Table, fl.Row, fl.Col, fl.Ignore} {
		reok = append(reok, c07Oracle(q))
	}
	retab := ppReTable(fl.Filter, ppCandidates(in, dir))
	var syn []hx.Sx
	for _, e := range synerrs {
		n, _ := strconv.Atoi(e[1])
		syn = append(syn, hx.L(hx.S(e[0]), hx.I(n)))
	}

	// the binary's csv
	csvTabs, csvOK := ppParseCSV(csvOut)
	var csvSx []hx.Sx
	for _, t := range csvTabs {
		var cols, cells []hx.Sx
		for _, c := range t.cols {
			cols = append(cols, hx.SList(c))
		}
		for _, c := range t.cells {
			cells = append(cells, hx.L(hx.I(c.row), hx.I(c.col), hx.F64(c.centre)))
		}
		csvSx = append(csvSx, hx.L(hx.SList(t.hdr), hx.S(t.unit), hx.List(cols), hx.SList(t.rows), hx.List(cells)))
	}

	// in-process tables
	run := runBenchstatInProc(dir, bsInput{Files: in.Files}, bsFlags{table: fl.Table, row: fl.Row, col: fl.Col,
		ignore: fl.Ignore, filter: fl.Filter, alpha: -1, confidence: -1, literal: true})
	var tabsSx, statsSx []hx.Sx
	statSx, sosumSx, socmpSx := hx.L(), hx.L(), hx.L()
	var tags = []string{"pipeline"}
	vals := map[string]bool{}
	csvAgree, textAgree := true, true
	ncells, nvary := 0, 0
	if run.err != nil {
		// the replica failed where the binary must have failed too
		if status == 0 {
			csvAgree, textAgree = false, false
		}
	} else {
		var wantCSV, wantCSVErr, wantText bytes.Buffer
		run.tables.ToCSV(&wantCSV, &wantCSVErr)
		run.tables.ToText(&wantText, false)
		csvAgree = csvOut == wantCSV.String()
		textAgree = textOut == wantText.String()
		tf := run.tableBy.FlattenedFields()
		rf := run.rowBy.FlattenedFields()
		cf := run.colBy.FlattenedFields()
		var tn, rn, cn []string
		for _, f := range tf {
			tn = append(tn, f.Name)
		}
		for _, f := range rf {
			rn = append(rn, f.Name)
		}
		for _, f := range cf {
			cn = append(cn, f.Name)
		}
		seenStat := map[string]bool{}
		for ti, t := range run.tables.Tables {
			tk := run.tables.Keys[ti]
			for _, f := range tf {
				vals[tk.Get(f)] = true
			}
			var rows, cols, cells, sums []hx.Sx
			ridx := map[interface{}]int{}
			cidx := map[interface{}]int{}
			for i, k := range t.Rows {
				k := k
				ridx[k] = i
				rows = append(rows, ppNamed(rn, func(j int) string { return k.Get(rf[j]) }))
				for _, f := range rf {
					vals[k.Get(f)] = true
				}
			}
			for i, k := range t.Cols {
				k := k
				cidx[k] = i
				cols = append(cols, ppNamed(cn, func(j int) string { return k.Get(cf[j]) }))
				for _, f := range cf {
					vals[k.Get(f)] = true
				}
			}
			type rc struct{ r, c int }
			var rcs []rc
			byrc := map[rc]*bt.TableCell{}
			for k, cell := range t.Cells {
				x := rc{ridx[k.Row], cidx[k.Col]}
				rcs = append(rcs, x)
				byrc[x] = cell
			}
			sort.Slice(rcs, func(i, j int) bool {
				if rcs[i].r != rcs[j].r {
					return rcs[i].r < rcs[j].r
				}
				return rcs[i].c < rcs[j].c
			})
			exact := t.Assumption == benchmath.AssumeExact
			for _, x := range rcs {
				cell := byrc[x]
				ncells++
				var vary []hx.Sx
				for _, w := range cell.Sample.Warnings {
					if s := w.Error(); strings.HasPrefix(s, "benchmarks vary in ") {
						nvary++
						for _, n := range strings.Split(strings.TrimPrefix(s, "benchmarks vary in "), ", ") {
							vary = append(vary, hx.S(n))
						}
					}
				}
				cells = append(cells, hx.L(hx.I(x.r), hx.I(x.c), bsF64s(cell.Sample.Values), hx.List(vary)))
				// the statistic, by a direct call on the sample
				th := run.thresholds
				s := benchmath.NewSample(append([]float64(nil), cell.Sample.Values...), &th)
				key := fmt.Sprint(exact, s.Values)
				if !seenStat[key] {
					seenStat[key] = true
					sm := t.Assumption.Summary(s, run.confidence)
					statsSx = append(statsSx, hx.L(hx.Bool(exact), bsF64s(s.Values), hx.F64(sm.Center)))
				}
			}
			for _, c := range t.Cols {
				sums = append(sums, hx.Bool(hasWarning(t.Summary[c].Warnings, "benchmark set differs")))
			}
			tabsSx = append(tabsSx, hx.L(ppNamed(tn, func(j int) string { return tk.Get(tf[j]) }), hx.S(t.Unit), hx.Bool(exact),
				hx.List(rows), hx.List(cols), hx.List(cells), hx.List(sums)))
		}
	}
	if !csvOK {
		csvAgree = false
	}
	if run.err == nil {
		statSx, sosumSx, socmpSx = c14Stat(run, csvTabs)
		if c14InfOrder(run) {
			tags = append(tags, "C14_geomean_inf_order")
			o.Count("pipe:inf-order")
		}
		c14CountClasses(o, run, "pipe:")
	}
	o.Count("pipe:" + kind)
	o.Count(fmt.Sprintf("pipe:status=%d", status))
	o.Count(fmt.Sprintf("pipe:tables=%d", min(len(tabsSx), 6)))
	o.Count(fmt.Sprintf("pipe:cells=%d", min(ncells/4*4, 40)))
	o.Count(fmt.Sprintf("pipe:synerrs=%d", min(len(synerrs), 5)))
	if nvary > 0 {
		o.Count("pipe:has-vary-warning")
	}
	c := hx.L(hx.I(7), flagsSx, hx.List(filesSx), hx.List(reok), retab, pxOracle(vals),
		hx.I(status), hx.I(which), hx.List(syn), hx.List(tabsSx), hx.List(statsSx), hx.List(csvSx),
		hx.Bool(csvAgree), hx.Bool(textAgree), statSx, sosumSx, socmpSx)
	o.Add(c, in, "pipe:"+fmt.Sprint(in), ncells >= 2, tags...)
	return nil
}

func genC14Pipeline(o *hx.Out, r *hx.Rng, tier string, exe string) error {
	n := 160
	if tier == "thorough" {
		n = 1600
	}
	work := os.Getenv("VERIF_WORK")
	if work == "" {
		work = os.TempDir()
	}
	dir := filepath.Join(work, "c14p")
	if err := os.MkdirAll(dir, 0o755); err != nil {
		return err
	}
	defer os.RemoveAll(dir)
	for i := 0; i < n; i++ {
		rr := r.Split()
		in, kind := ppGenInput(rr)
		if err := ppCase(o, exe, dir, in, kind); err != nil {
			return err
		}
	}
	// C02's file labels and C06's measurement masks as benchstat arguments (c14pgaps.go, own stream)
	if err := genC14PipelineGaps(o, r.Split(), tier, exe, dir); err != nil {
		return err
	}
	// one input with a long foreign line.  (Lines of 64 KiB and more are C02's business: since fix 260c688 the reader has
	// no line limit, while the shared Model/Reader.v this pipeline model is composed from keeps the old limit - its
	// theorems assume LinesShort; C02 judges long lines with Model/ReaderSpec.v.)
	long := ppInput{Files: []bsFile{{Name: "f0.txt", Content: "goos: linux\nBenchmarkFib 1 1 ns/op\n" + strings.Repeat("x", 60000) + "\nBenchmarkFib 1 2 ns/op\n"}},
		Flags: ppFlags{Filter: "*", Table: ".config", Row: ".fullname", Col: ".file"}}
	return ppCase(o, exe, dir, long, "long-line")
}
