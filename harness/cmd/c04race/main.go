// c04race runs one batch of concurrent unit normalisations (property C04):
// several goroutines, each calling benchunit.Tidy or scanning its own
// benchfmt.Reader, meet the same previously unseen units at overlapping times.
// The generator builds it plain and with -race and runs it with GOMAXPROCS >= 4;
// the race detector's report goes to stderr, the observed outcomes to stdout.
//
//	c04race batch.json > result.json
package main

import (
	"encoding/json"
	"fmt"
	"os"

	"verifharness/internal/c04conc"
)

func main() {
	if len(os.Args) != 2 {
		fmt.Fprintln(os.Stderr, "usage: c04race batch.json")
		os.Exit(2)
	}
	data, err := os.ReadFile(os.Args[1])
	if err != nil {
		fmt.Fprintln(os.Stderr, err)
		os.Exit(2)
	}
	var batches []c04conc.Batch
	if err := json.Unmarshal(data, &batches); err != nil {
		fmt.Fprintln(os.Stderr, err)
		os.Exit(2)
	}
	res := make([]c04conc.Result, len(batches))
	for i, b := range batches {
		res[i] = c04conc.Run(b)
	}
	out, _ := json.Marshal(res)
	os.Stdout.Write(out)
}
