// c10proc runs ONE scripted history of benchunit calls (property C10, case
// kind 5) in a process that has not used the package before: what a call
// returns must not depend on what the process did earlier.
//
//	c10proc script.json > result.json
package main

import (
	"encoding/json"
	"fmt"
	"os"

	"verifharness/internal/c10hist"
)

func main() {
	if len(os.Args) != 2 {
		fmt.Fprintln(os.Stderr, "usage: c10proc script.json")
		os.Exit(2)
	}
	data, err := os.ReadFile(os.Args[1])
	if err != nil {
		fmt.Fprintln(os.Stderr, err)
		os.Exit(2)
	}
	var steps []c10hist.Step
	if err := json.Unmarshal(data, &steps); err != nil {
		fmt.Fprintln(os.Stderr, err)
		os.Exit(2)
	}
	out, _ := json.Marshal(c10hist.Run(steps))
	os.Stdout.Write(out)
}
