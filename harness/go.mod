module verifharness

go 1.23.0

require (
	github.com/aclements/go-moremath v0.0.0-20210112150236-f10218a38794
	github.com/mattn/go-sqlite3 v1.14.14
	golang.org/x/perf v0.0.0
)

require (
	git.sr.ht/~sbinet/gg v0.3.1 // indirect
	github.com/aclements/go-gg v0.0.0-20170118225347-6dbb4e4fefb0 // indirect
	github.com/ajstarks/svgo v0.0.0-20211024235047-1546f124cd8b // indirect
	github.com/go-fonts/liberation v0.2.0 // indirect
	github.com/go-latex/latex v0.0.0-20210823091927-c0d11ff05a81 // indirect
	github.com/go-pdf/fpdf v0.6.0 // indirect
	github.com/golang/freetype v0.0.0-20170609003504-e2365dfdc4a0 // indirect
	github.com/gonum/blas v0.0.0-20181208220705-f22b278b28ac // indirect
	github.com/gonum/floats v0.0.0-20181209220543-c233463c7e82 // indirect
	github.com/gonum/internal v0.0.0-20181124074243-f884aa714029 // indirect
	github.com/gonum/lapack v0.0.0-20181123203213-e4cdc5a0bff9 // indirect
	github.com/gonum/matrix v0.0.0-20181209220409-c518dec07be9 // indirect
	github.com/google/safehtml v0.0.2 // indirect
	golang.org/x/image v0.26.0 // indirect
	golang.org/x/net v0.39.0 // indirect
	golang.org/x/text v0.24.0 // indirect
	gonum.org/v1/plot v0.10.1 // indirect
)

replace golang.org/x/perf => /repo
