module verifharness

go 1.23.0

require golang.org/x/perf v0.0.0

require github.com/aclements/go-moremath v0.0.0-20210112150236-f10218a38794 // indirect

replace golang.org/x/perf => /repo
