#!/usr/bin/env python3
"""seedregress.py [name-prefix ...]: re-run my checks against every kept seeded change (seeded/Cxx-*/patch.diff).

Each patch is applied to the worktree SEED_TARGET (a scratch worktree at /repo's HEAD; default /repo itself), the checks
recorded in its meta.json (my_checks) are run with VERIF_REPO pointing there, and the patch is undone.  Writes
seeded/<name>/regress.json = {"detected": bool, "checks": {...}} and prints one line per change.  Patches that no longer
apply to HEAD (the code they changed was repaired since) are reported as such and keep their earlier verdict.
"""
import glob, json, os, subprocess, sys

V = os.path.dirname(os.path.dirname(os.path.abspath(__file__)))
TARGET = os.environ.get("SEED_TARGET", "/repo")
ENV = dict(os.environ, GOFLAGS="-mod=mod", GOPROXY="off", GOSUMDB="off", GOTOOLCHAIN="local", VERIF_REPO=TARGET)


def sh(cmd, **kw):
    p = subprocess.run(cmd, env=ENV, stdout=subprocess.PIPE, stderr=subprocess.STDOUT, text=True, errors="replace", **kw)
    return p.returncode, p.stdout


def main():
    pref = sys.argv[1:]
    missed = []
    for d in sorted(glob.glob(os.path.join(V, "seeded", "C*"))):
        name = os.path.basename(d)
        if pref and not any(name.startswith(p) for p in pref):
            continue
        patch = os.path.join(d, "patch.diff")
        try:
            meta = json.load(open(os.path.join(d, "meta.json")))
        except Exception:
            meta = {}
        checks = list((meta.get("my_checks") or {}).keys()) if isinstance(meta.get("my_checks"), dict) else []
        if not checks:
            checks = [name[:3]]
        rc, out = sh(["git", "-C", TARGET, "apply", patch])
        if rc != 0:
            print(name, "does-not-apply (code changed since; earlier verdict kept)")
            continue
        res = {}
        try:
            for c in checks:
                rc, out = sh([os.path.join(V, "bin", "check"), c, "quick"], cwd=V, timeout=1800)
                last = [l for l in out.splitlines() if l.startswith(("VIOLATION", "OK"))]
                res[c] = {"exit": rc, "line": (last[-1] if last else out[-200:])[:300]}
                if rc == 1:
                    break
        finally:
            sh(["git", "-C", TARGET, "checkout", "--", "."])
        det = any(v["exit"] == 1 for v in res.values())
        json.dump({"detected": det, "checks": res}, open(os.path.join(d, "regress.json"), "w"), indent=1)
        print(name, "DETECTED" if det else "MISSED", {k: v["exit"] for k, v in res.items()}, flush=True)
        if not det:
            missed.append(name)
    print("missed:", missed)


if __name__ == "__main__":
    main()
