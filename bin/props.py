"""Per-property tables used by bin/check (trusted base, levels, notes)."""

CHECKER_CMD = ("make -C /verif/coq (coqc 8.16.1, full .vo build) ; Print Assumptions under every theorem of "
               "coq/Properties/<id>.v ; extracted model (coq/extract, ExtrOcamlBasic) run over cases.sx ; "
               "sample re-evaluated by vm_compute (crosscheck.v)")

GEN_TIMEOUT = {"quick": 600, "thorough": 3000}
MODEL_TIMEOUT = {"quick": 600, "thorough": 3000}

LEVEL = {}  # default "proof"

COMMON_TB = [
    "Coq 8.16.1 kernel and its vm_compute bytecode VM (no native_compute, no disabled checks, no Axiom/Admitted in /verif/coq)",
    "extraction (Require Extraction + ExtrOcamlBasic only: bool, option, list, prod, unit, sumbool mapped to OCaml types; N/Z/positive/nat/byte kept as extracted inductives), OCaml 4.13.1 compiler, coq/extract/driver.ml (s-expression reader; byte constructors by index, self-checked at start-up); a sample of every run is re-evaluated inside Coq and compared",
    "the Go harness (/verif/harness): generators, emission of inputs and observed outputs, and bin/check's reading of the results",
    "hand-written Gallina models are tied to /repo only by the correspondence run (differential), not by translation",
]

PER_TB = {
    "C05": ["modelled: benchfmt.Name.{Parts,Base,splitGomaxprocs}, benchproc extract.go; observed through Name methods, single-field projections (Key.Get) and literal filters"],
}

STD_AXIOMS = {
    # real-number axioms and classical logic of the standard library
    "ClassicalDedekindReals.sig_forall_dec", "ClassicalDedekindReals.sig_not_dec",
    "FunctionalExtensionality.functional_extensionality_dep", "Classical_Prop.classic",
    "functional_extensionality_dep", "sig_forall_dec", "sig_not_dec", "classic",
    "Eqdep.Eq_rect_eq.eq_rect_eq", "JMeq.JMeq_eq", "ProofIrrelevance.proof_irrelevance",
    "proof_irrelevance", "JMeq_eq", "eq_rect_eq", "Rdefinitions.Rabst", "Rdefinitions.Rrepr",
}


def axiom_allowed(a):
    return a in STD_AXIOMS or a.split(".")[-1] in {x.split(".")[-1] for x in STD_AXIOMS}


def trusted_base(pid):
    return COMMON_TB + PER_TB.get(pid, [])


ASSUME = {
    "C05": ["unicode-free: names are byte strings; no library behaviour is assumed"],
}


def assumptions(pid):
    return ASSUME.get(pid, []) + ["the generated inputs are a sample: the correspondence between model and /repo is tested, the theorems are proved"]


MODELLED_NOT_VERIFIED = {}
PROVED = {
    "C05": "all clauses: concatenation, shape and uniqueness of the decomposition, Base = Parts base, meaning of .name/.fullname//k//gomaxprocs/plain keys, fast path of the excluded full name",
}
TESTED_ONLY = {
    "C05": "that benchproc's projection/filter plumbing reaches these extractors (observed through Key.Get and Filter.Match)",
}
EXPLANATION = {}
EXTRA = {}
