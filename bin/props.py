"""Per-property tables used by bin/check (trusted base, levels, notes)."""

CHECKER_CMD = ("make -C /verif/coq (coqc 8.16.1, full .vo build) ; Print Assumptions under every theorem of "
               "coq/Properties/<id>.v ; extracted model (coq/extract, ExtrOcamlBasic) run over cases.sx ; "
               "sample re-evaluated by vm_compute (crosscheck.v)")

GEN_TIMEOUT = {"quick": 600, "thorough": 3000}
MODEL_TIMEOUT = {"quick": 600, "thorough": 3000}

LEVEL = {}  # default "proof"

COMMON_TB = [
    "Coq 8.16.1 kernel and its vm_compute bytecode VM (no native_compute, no disabled checks, no Axiom/Admitted in /verif/coq)",
    "extraction (Require Extraction + ExtrOcamlBasic only: bool, option, list, prod, unit, sumbool mapped to OCaml types; N/Z/positive/nat/byte kept as extracted inductives), OCaml 4.13.1 compiler, coq/extract/driver.ml (s-expression reader; byte constructors by index, self-checked at start-up); a sample of every run is re-evaluated inside Coq and compared",
    "the Go harness (/verif/harness): generators, emission of inputs and observed outputs, and bin/check's reading of the results",
    "hand-written Gallina models are tied to /repo only by the correspondence run (differential), not by translation",
]

PER_TB = {
    "C14": ["modelled: benchtab Builder.Add / ToTables / summarizeCol / NonSingularFields at the level of projected measurements (keys abstract, their sort order taken from the real benchproc.SortKeys as ranks; per-sample statistics taken from direct calls of benchmath on the harness's own grouping; geomean checked by exact rational bounds)",
            "cmd/benchstat/main.go's flag-to-projection wiring is replicated in the harness (40 lines) and tied to the real binary by byte-comparing its csv and text output with the in-process tables' rendering"],
    "C15": ["same model as C14 (Corr/RunC14.v ties it to the code); runtime part observed on the real binary: repeated runs across GOMAXPROCS 1,2,3,16, a -race build, repeated in-process runs, permuted benchmark lines",
            "Go's race detector (dynamic: only races on executed interleavings are seen)"],
    "C05": ["modelled: benchfmt.Name.{Parts,Base,splitGomaxprocs}, benchproc extract.go; observed through Name methods, single-field projections (Key.Get) and literal filters"],
}

STD_AXIOMS = {
    # real-number axioms and classical logic of the standard library
    "ClassicalDedekindReals.sig_forall_dec", "ClassicalDedekindReals.sig_not_dec",
    "FunctionalExtensionality.functional_extensionality_dep", "Classical_Prop.classic",
    "functional_extensionality_dep", "sig_forall_dec", "sig_not_dec", "classic",
    "Eqdep.Eq_rect_eq.eq_rect_eq", "JMeq.JMeq_eq", "ProofIrrelevance.proof_irrelevance",
    "proof_irrelevance", "JMeq_eq", "eq_rect_eq", "Rdefinitions.Rabst", "Rdefinitions.Rrepr",
}


def axiom_allowed(a):
    return a in STD_AXIOMS or a.split(".")[-1] in {x.split(".")[-1] for x in STD_AXIOMS}


def trusted_base(pid):
    return COMMON_TB + PER_TB.get(pid, [])


ASSUME = {
    "C14": ["key sort order (benchproc.SortKeys) is a strict total order on distinct keys (C09)", "benchmath summaries/comparisons are functions of the sorted sample (C13)"],
    "C15": ["sort orders are injective on distinct keys (C09)", "the race detector and the Go scheduler explore only some interleavings per run"],
    "C05": ["unicode-free: names are byte strings; no library behaviour is assumed"],
}


def assumptions(pid):
    return ASSUME.get(pid, []) + ["the generated inputs are a sample: the correspondence between model and /repo is tested, the theorems are proved"]


MODELLED_NOT_VERIFIED = {
    "C14": ["text/CSV rendering (C16)", "per-sample statistics (C11-C13)"],
    "C15": ["sync.WaitGroup/channel semantics, memory model (runtime)"],
}
PROVED = {
    "C14": "cells partition the measurements and each cell's sample is exactly its measurements once each (cell_sample_exact, cell_exists_iff); residue keys per cell exact; the vary-warning names exactly the differing residue fields (nonsingular_iff); rows/cols/tables are the present keys in sort order and the baseline is the first column (sorted_head_min); the benchmark-set warning is raised iff the row sets differ (set_warning_iff)",
    "C15": "ToTables' result is independent of the enumeration order of the Go maps of tables and cells (tables_indep_of_map_order) for every state Add can reach (build_wf); sorted key sequences do not depend on the initial arrangement; permuting input measurements permutes each cell's values only (line_perm_cell_invariant); slot-disjoint tasks commute under every schedule (tasks_commute)",
    "C05": "all clauses: concatenation, shape and uniqueness of the decomposition, Base = Parts base, meaning of .name/.fullname//k//gomaxprocs/plain keys, fast path of the excluded full name",
}
TESTED_ONLY = {
    "C14": "that centre/interval/delta/p/sample sizes equal what the unit's assumption yields (compared bit-for-bit with direct benchmath calls on the predicted samples); geomean values (exact rational 2^-30 relative bound); flag wiring of main.go (binary output compared byte-for-byte)",
    "C15": "data-race freedom and real goroutine interleavings (race-detector runs, GOMAXPROCS sweep, repeated runs: byte-identical output); that the real tasks touch only their own slot",
    "C05": "that benchproc's projection/filter plumbing reaches these extractors (observed through Key.Get and Filter.Match)",
}
EXPLANATION = {}
EXTRA = {}
