"""Per-property tables used by bin/check (trusted base, levels, notes); the
per-property texts live in bin/props.d/Cxx.json."""
import json, os, glob

_D = os.path.join(os.path.dirname(os.path.abspath(__file__)), "props.d")

CHECKER_CMD = ("make -C /verif/coq (coqc 8.16.1, full .vo build) ; Print Assumptions under every theorem of "
               "coq/Properties/<id>.v ; extracted model (coq/extract, ExtrOcamlBasic) run over cases.sx ; "
               "sample re-evaluated by vm_compute (crosscheck.v)")

GEN_TIMEOUT = {"quick": 900, "thorough": 3400}
MODEL_TIMEOUT = {"quick": 900, "thorough": 3400}

COMMON_TB = [
    "Coq 8.16.1 kernel and its vm_compute bytecode VM (no native_compute, no disabled checks, no Axiom/Admitted in /verif/coq)",
    "extraction (Require Extraction + ExtrOcamlBasic only: bool, option, list, prod, unit, sumbool mapped to OCaml types; N/Z/positive/nat/byte kept as extracted inductives), OCaml 4.13.1 compiler, coq/extract/driver.ml (s-expression reader; byte constructors by index, self-checked at start-up); a sample of every run is re-evaluated inside Coq and compared",
    "the Go harness (/verif/harness): generators, emission of inputs and observed outputs, and bin/check's reading of the results",
    "hand-written Gallina models are tied to /repo only by the correspondence run (differential), not by translation",
]

STD_AXIOMS = {
    # real-number axioms and classical logic of the standard library
    "ClassicalDedekindReals.sig_forall_dec", "ClassicalDedekindReals.sig_not_dec",
    "FunctionalExtensionality.functional_extensionality_dep", "Classical_Prop.classic",
    "Eqdep.Eq_rect_eq.eq_rect_eq", "JMeq.JMeq_eq", "ProofIrrelevance.proof_irrelevance",
    "Rdefinitions.Rabst", "Rdefinitions.Rrepr",
}


def axiom_allowed(a):
    return a.split(".")[-1] in {x.split(".")[-1] for x in STD_AXIOMS}


def _load(pid):
    p = os.path.join(_D, pid + ".json")
    if os.path.exists(p):
        return json.load(open(p))
    return {}


class _Tab(dict):
    def __init__(self, key, default):
        self.key, self.default = key, default

    def get(self, pid, default=None):
        v = _load(pid).get(self.key)
        return v if v not in (None, "", []) else (default if default is not None else self.default)


LEVEL = _Tab("level", "proof")
MODELLED_NOT_VERIFIED = _Tab("modelled_not_verified", [])
PROVED = _Tab("proved", "")
TESTED_ONLY = _Tab("tested_only", "")
EXPLANATION = _Tab("explanation", "")
EXTRA = {}


def trusted_base(pid):
    return COMMON_TB + list(_load(pid).get("per_tb", []))


def assumptions(pid):
    return list(_load(pid).get("assume", [])) + [
        "the generated inputs are a sample: the correspondence between model and /repo is tested, the theorems are proved"]


def claimed():
    out = {}
    for f in sorted(glob.glob(os.path.join(_D, "C*.json"))):
        d = json.load(open(f))
        if d.get("claimed"):
            out[os.path.basename(f)[:-5]] = d["claimed"]
    return out
