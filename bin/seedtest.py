#!/usr/bin/env python3
"""seedtest.py <seed-output-dir> <Cxx> <scratch-worktree>

For each mutation directory m* under <seed-output-dir> (patch.diff + demo + meta.json
written by an independent sub-agent):
  1. confirm in the scratch worktree: patch applies, `go build ./... && go test ./...`
     pass with it, the demo FAILS with it and PASSES without it;
  2. apply the patch to /repo, run `bin/check Cxx quick` (and any other listed
     checks), record the verdict, undo the patch;
  3. keep it as /verif/seeded/<Cxx>-<m>/ {patch.diff, demo, meta.json}.
"""
import json, os, re, shutil, subprocess, sys, glob

VERIF = os.path.dirname(os.path.dirname(os.path.abspath(__file__)))
# where the mutation is applied for MY checks: /repo itself, or (SEED_TARGET) a scratch worktree at /repo's HEAD
# that bin/check is pointed at with VERIF_REPO - used when other work must not see /repo change
TARGET = os.environ.get("SEED_TARGET", "/repo")
ENV = dict(os.environ, GOFLAGS="-mod=mod", GOPROXY="off", GOSUMDB="off", GOTOOLCHAIN="local")


def sh(cmd, cwd=None, timeout=1800):
    p = subprocess.run(cmd, cwd=cwd, env=ENV, shell=isinstance(cmd, str), timeout=timeout,
                       stdout=subprocess.PIPE, stderr=subprocess.STDOUT, text=True, errors="replace")
    return p.returncode, p.stdout


def find_placement(mdir, fname, wt):
    texts = []
    for f in glob.glob(os.path.join(mdir, "*")):
        if f.endswith((".json", ".txt", ".md")) or os.path.basename(f).upper().startswith("README"):
            try:
                texts.append(open(f, errors="replace").read())
            except Exception:
                pass
    blob = "\n".join(texts)
    for m in re.finditer(r"([A-Za-z0-9_./\-]*/)" + re.escape(fname), blob):
        d = m.group(1)
        d = d.replace(wt + "/", "")
        d = re.sub(r"^/tmp/seed/c\w+/", "", d)
        d = d.lstrip("./")
        if d and os.path.isdir(os.path.join(wt, d)):
            return d
    m = re.search(r"go test[^\n]*?\s(\./[A-Za-z0-9_/\-]+)", blob)
    if m:
        d = m.group(1)[2:].rstrip("/")
        if os.path.isdir(os.path.join(wt, d)):
            return d + "/"
    return None


def main():
    outdir, pid, wt = sys.argv[1], sys.argv[2], sys.argv[3]
    checks = sys.argv[4:] or [pid]
    results = []
    for mdir in sorted(glob.glob(os.path.join(outdir, "m*"))):
        name = os.path.basename(mdir)
        rec = {"mutation": name, "property": pid}
        try:
            meta = json.load(open(os.path.join(mdir, "meta.json")))
        except Exception as e:
            meta = {"error": "meta.json unreadable: %s" % e}
        patch = os.path.join(mdir, "patch.diff")
        demos = [f for f in glob.glob(os.path.join(mdir, "*.go"))]
        nested = []   # demo files stored under a tree mirroring the repository paths
        for root, _, fs in os.walk(mdir):
            for f in fs:
                if f.endswith(".go") and root != mdir:
                    rel = os.path.relpath(os.path.join(root, f), mdir)
                    parts = rel.split(os.sep)
                    if parts[0] in ("demo", "demos"):
                        parts = parts[1:]
                    nested.append((os.path.join(root, f), os.sep.join(parts)))
        sh("git checkout -- . && git clean -fdq", cwd=wt)
        ok = True
        # 1. confirmation in scratch worktree
        rc, out = sh(["git", "apply", patch], cwd=wt)
        if rc != 0:
            rec["confirm"] = "patch does not apply: " + out[-300:]; ok = False
        if ok:
            rc, out = sh("go build ./... && go test -vet=off -count=1 ./...", cwd=wt)
            rec["suite_with_patch"] = "pass" if rc == 0 else "FAIL"
            if rc != 0:
                rec["confirm"] = "suite fails with patch: " + out[-500:]; ok = False
        placed = []
        if ok:
            for src, rel in nested:
                if os.path.isdir(os.path.join(wt, os.path.dirname(rel))):
                    shutil.copyfile(src, os.path.join(wt, rel)); placed.append(rel)
                else:
                    rec["confirm"] = "cannot place nested demo " + rel; ok = False
        if ok:
            for d in demos:
                fname = os.path.basename(d)
                pl = find_placement(mdir, fname, wt)
                if pl is None:
                    rec["confirm"] = "cannot place demo " + fname; ok = False; break
                shutil.copyfile(d, os.path.join(wt, pl, fname))
                placed.append(os.path.join(pl, fname))
        demo_cmd = None
        if ok:
            pkgs = sorted({"./" + os.path.dirname(p) + "/" for p in placed})
            race = "-race " if "-race" in str(meta.get("demo_cmd", "")) else ""
            demo_cmd = "go test -vet=off -count=1 " + race + " ".join(pkgs)
            rc, out = sh(demo_cmd, cwd=wt)
            rec["demo_with_patch"] = "fails" if rc != 0 else "PASSES"
            if rc == 0:
                rec["confirm"] = "demo passes with patch"; ok = False
        if ok:
            sh(["git", "apply", "-R", patch], cwd=wt)
            rc, out = sh(demo_cmd, cwd=wt)
            rec["demo_without_patch"] = "passes" if rc == 0 else "FAILS"
            if rc != 0:
                rec["confirm"] = "demo fails without patch: " + out[-500:]; ok = False
        sh("git checkout -- . && git clean -fdq", cwd=wt)
        rec["confirmed"] = ok
        # 2. my checks against /repo with the patch
        if ok:
            # checks share /verif's harness/go.mod and build output: one at a time across parallel seedtest processes
            import fcntl
            lk = open("/var/tmp/seedtest.lock", "w"); fcntl.flock(lk, fcntl.LOCK_EX)
            rc, out = sh(["git", "-C", TARGET, "apply", patch])
            if rc != 0:
                rec["checks"] = "patch does not apply to HEAD: " + out[-300:]
            else:
                verdicts = {}
                try:
                    for c in checks:
                        ENV["VERIF_REPO"] = TARGET
                        rc, out = sh([os.path.join(VERIF, "bin", "check"), c, "quick"], cwd=VERIF, timeout=1800)
                        last = [l for l in out.splitlines() if l.startswith(("VIOLATION", "OK", "KNOWN"))]
                        verdicts[c] = {"exit": rc, "lines": last[-3:]}
                finally:
                    sh(["git", "-C", TARGET, "checkout", "--", "."])
                rec["checks"] = verdicts
                rec["detected"] = any(v["exit"] == 1 for v in verdicts.values())
            fcntl.flock(lk, fcntl.LOCK_UN); lk.close()
        # 3. keep
        if ok:
            dst = os.path.join(VERIF, "seeded", "%s-%s%s" % (pid, os.environ.get("SEED_ROUND", ""), name))
            os.makedirs(dst, exist_ok=True)
            shutil.copyfile(patch, os.path.join(dst, "patch.diff"))
            for d in demos:
                shutil.copyfile(d, os.path.join(dst, os.path.basename(d)))
            for src, rel in nested:
                shutil.copyfile(src, os.path.join(dst, rel.replace(os.sep, "__")))
            m2 = {"property": pid, "summary": meta.get("summary"), "needs": meta.get("needs"),
                  "files_changed": meta.get("files_changed"), "demo_files": placed, "demo_cmd": demo_cmd,
                  "confirmed_by_me": {"suite_with_patch": rec.get("suite_with_patch"),
                                      "demo_with_patch": rec.get("demo_with_patch"),
                                      "demo_without_patch": rec.get("demo_without_patch"),
                                      "how": "bin/seedtest.py in scratch worktree " + wt},
                  "my_checks": rec.get("checks"), "detected": rec.get("detected")}
            json.dump(m2, open(os.path.join(dst, "meta.json"), "w"), indent=1)
        results.append(rec)
        print(json.dumps({k: rec.get(k) for k in ("mutation", "confirmed", "detected", "confirm", "checks")}))
    return results


if __name__ == "__main__":
    main()
