#!/usr/bin/env python3
"""sx2coq.py cases.sx index  -> Gallina term (for debugging a case inside Coq)"""
import sys
def conv(s):
    out=[];i=0;n=len(s)
    def item():
        nonlocal i
        while s[i] in ' \t': i+=1
        if s[i]=='(':
            i+=1; items=[]
            while True:
                while s[i] in ' \t': i+=1
                if s[i]==')': i+=1; break
                items.append(item())
            return "SL ["+"; ".join(items)+"]"
        if s[i]=='#':
            j=i+1
            while j<n and s[j] in '0123456789abcdef': j+=1
            h=s[i+1:j]; i=j
            return 'SB (hx "%s")'%h
        j=i+1
        while j<n and s[j].isdigit(): j+=1
        z=s[i:j]; i=j
        return "SZ (%s)%%Z"%z
    return item()
lines=open(sys.argv[1]).read().split('\n')
print(conv(lines[int(sys.argv[2])].strip()))
