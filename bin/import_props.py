#!/usr/bin/env python3
"""import_props.py <builder verif dir> <Cxx>... : converts a builder's props.py / manifest_data.py entries into bin/props.d/Cxx.json"""
import sys, json, os, importlib.util
src = sys.argv[1]
def load(path, name):
    spec = importlib.util.spec_from_file_location(name, path)
    m = importlib.util.module_from_spec(spec)
    sys.path.insert(0, os.path.dirname(path))
    try:
        spec.loader.exec_module(m)
    finally:
        sys.path.pop(0)
    return m
P = load(os.path.join(src, "bin", "props.py"), "bprops")
try:
    M = load(os.path.join(src, "bin", "manifest_data.py"), "bmanifest")
    claimed = getattr(M, "CLAIMED", {})
except Exception as e:
    claimed = {}
for pid in sys.argv[2:]:
    def g(name, default):
        t = getattr(P, name, {})
        try:
            v = t.get(pid)
        except Exception:
            v = None
        return v if v is not None else default
    d = {"per_tb": g("PER_TB", []), "assume": g("ASSUME", []), "modelled_not_verified": g("MODELLED_NOT_VERIFIED", []),
         "proved": g("PROVED", ""), "tested_only": g("TESTED_ONLY", ""), "explanation": g("EXPLANATION", ""),
         "level": g("LEVEL", "proof") or "proof", "claimed": claimed.get(pid)}
    out = os.path.join("/verif/bin/props.d", pid + ".json")
    json.dump(d, open(out, "w"), indent=1)
    print(pid, "claimed" if d["claimed"] else "NO CLAIMED ENTRY", len(d["per_tb"]), "tb lines")
