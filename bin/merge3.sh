#!/bin/bash
# merge3.sh <tag> <file>...: bring a builder's version of each file into /verif with a 3-way merge against the
# commit the builders' copies were taken from (env BASE, default HEAD)
tag=$1; shift; BASE=${BASE:-HEAD}
for f in "$@"; do
  s=/root/scratch/$tag/verif/$f
  [ -f "$s" ] || { echo "MISSING $s"; continue; }
  if [ ! -f /verif/$f ]; then mkdir -p "$(dirname /verif/$f)"; cp "$s" /verif/$f; echo "new     $f"; continue; fi
  if cmp -s "$s" /verif/$f; then continue; fi
  if git -C /verif cat-file -e $BASE:$f 2>/dev/null; then git -C /verif show $BASE:$f > /tmp/m3.base; else : > /tmp/m3.base; fi
  if cmp -s /tmp/m3.base /verif/$f; then cp "$s" /verif/$f; echo "updated $f"; continue; fi
  if cmp -s /tmp/m3.base "$s"; then echo "kept    $f (builder did not change it)"; continue; fi
  cp /verif/$f /tmp/m3.ours
  if git merge-file -q /tmp/m3.ours /tmp/m3.base "$s"; then cp /tmp/m3.ours /verif/$f; echo "merged  $f"; else cp /tmp/m3.ours /verif/$f; echo "CONFLICT $f"; fi
done
