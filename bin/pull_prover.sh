#!/bin/bash
# pull_prover.sh <tag> <file>... : like pull_builder but from /root/scratch/<tag>
tag=$1; shift
for f in "$@"; do
  s=/root/scratch/$tag/verif/$f
  if [ -f "$s" ]; then if ! cmp -s "$s" "/verif/$f"; then mkdir -p "$(dirname /verif/$f)"; cp "$s" "/verif/$f" && echo "updated $f"; fi; else echo "MISSING $s"; fi
done
