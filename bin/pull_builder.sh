#!/bin/bash
# pull_builder.sh <tag> <file>... : copy the named files (relative to the verif root) from a builder's scratch copy
tag=$1; shift
for f in "$@"; do
  s=/root/scratch/$tag/verif/$f
  if [ -f "$s" ]; then if ! cmp -s "$s" "/verif/$f"; then mkdir -p "$(dirname /verif/$f)"; cp "$s" "/verif/$f" && echo "updated $f"; fi; else echo "MISSING $s"; fi
done
