#!/usr/bin/env python3
"""mergekf.py <tag>: merge a builder's known_findings.json into /verif's by id (3-way against BASE)."""
import json, subprocess, sys, os
tag = sys.argv[1]; base_rev = os.environ.get("BASE", "HEAD")
ours = json.load(open("/verif/known_findings.json"))
theirs = json.load(open("/root/scratch/%s/verif/known_findings.json" % tag))
base = json.loads(subprocess.run(["git", "-C", "/verif", "show", base_rev + ":known_findings.json"], stdout=subprocess.PIPE, text=True).stdout)
bid = {e["id"]: e for e in base}; oid = {e["id"]: i for i, e in enumerate(ours)}
for e in theirs:
    if e["id"] not in oid:
        ours.append(e); print("added  ", e["id"])
    elif e != bid.get(e["id"]) and ours[oid[e["id"]]] == bid.get(e["id"]):
        ours[oid[e["id"]]] = e; print("updated", e["id"])
    elif e != bid.get(e["id"]) and ours[oid[e["id"]]] != e:
        print("CONFLICT", e["id"])
json.dump(ours, open("/verif/known_findings.json", "w"), indent=1)
