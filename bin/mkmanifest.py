#!/usr/bin/env python3
"""Regenerates MANIFEST.json from the tables below (claimed properties, notes)."""
import json, os, sys
VERIF = os.path.dirname(os.path.dirname(os.path.abspath(__file__)))
sys.path.insert(0, os.path.join(VERIF, "bin"))
import manifest_data as D

props = [json.loads(l) for l in open(os.path.join(VERIF, "properties.jsonl"))]
checks, na = [], []
for p in props:
    pid = p["id"]
    if pid in D.CLAIMED:
        c = D.CLAIMED[pid]
        checks.append({
            "property_id": pid,
            "quick_cmd": "bin/check %s quick" % pid,
            "thorough_cmd": "bin/check %s thorough" % pid,
            "evidence_file": "evidence/%s.json" % pid,
            "replay_cmd_template": "bin/check %s --replay {path}" % pid,
            "engine": "coq-proof+correspondence",
            "level_claimed": {"category": c.get("category", "proof"), "text": c["text"], "design_ref": c["design_ref"]},
            "level_note": c["note"],
            "technique": c.get("technique", "Coq theorems over a hand-written Gallina model + differential correspondence of the extracted model against /repo"),
        })
    else:
        na.append({"property_id": pid, "reason": D.NOT_CLAIMED.get(pid, "model, theorems and correspondence not built yet; not claimed rather than stubbed")})
m = {
    "version": 1,
    "setup_cmd": "bin/setup",
    "hooks": {
        "guard": "verif",
        "enable": "go build -tags verif (harness module with replace golang.org/x/perf => /repo)",
        "baseline_off_cmd": "cd /repo && go build ./... && go test -vet=off -count=1 ./...",
        "source_commits": D.HOOK_COMMITS,
        "add_only": True,
    },
    "engines": [{
        "name": "coq-proof+correspondence", "path": "coq/ harness/ bin/check",
        "serves_properties": sorted(D.CLAIMED),
        "kind_free_text": "Coq 8.16.1 development (models, proofs, property theorems) + Go harness driving /repo + extracted OCaml model evaluating every case",
    }],
    "checks": checks,
    "notes": D.NOTES,
    "not_applicable": na,
}
json.dump(m, open(os.path.join(VERIF, "MANIFEST.json"), "w"), indent=1)
print("claimed:", sorted(D.CLAIMED))
