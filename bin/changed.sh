#!/bin/bash
# changed.sh <tag>: files a builder changed or added relative to the base copy (sources only)
tag=$1
cd /root/scratch/$tag/verif
find coq harness bin/props.d hooks bin/*.py known_findings.json -type f \( -name '*.v' -o -name '*.go' -o -name '*.json' -o -name '*.diff' -o -name '*.py' -o -name '*.txt' -o -name '*.ml' \) 2>/dev/null | grep -v "coq/_CoqProject\|Corr/Dispatch.v\|/\.\|coq/extract/model" | sort | while read f; do
  if [ ! -f /tmp/basecopy/$f ]; then echo "$f"; elif ! cmp -s $f /tmp/basecopy/$f; then echo "$f"; fi
done
