#!/bin/bash
# merge_builder.sh <tag>: copy a builder's NEW files into /verif and report
# differences in shared files for hand-merging.
set -e
tag=$1
src=/root/scratch/$tag/verif
cd /verif
echo "== new/changed files from $tag"
rsync -a -i --ignore-existing --exclude '*.vo' --exclude '*.vok' --exclude '*.vos' --exclude '*.glob' --exclude '.*.aux' \
  --exclude work --exclude .git --exclude 'coq/Makefile*' --exclude 'coq/.Makefile.d' --exclude '.lia.cache' \
  --exclude 'coq/extract/model.*' --exclude 'coq/extract/*.cm*' --exclude 'coq/extract/*.o' --exclude 'coq/extract/runmodel' \
  --exclude 'coq/extract/Extract.*' --exclude 'coq/extract/driver.ml' \
  --exclude coq/_CoqProject --exclude coq/Corr/Dispatch.v --exclude bin --exclude MANIFEST.json --exclude evidence \
  --exclude known_findings.json --exclude DESIGN.md --exclude BUILDING.md --exclude seeded --exclude harness/go.mod --exclude harness/go.sum \
  --exclude harness/internal/hx/hx.go --exclude coq/Base/Bytes.v --exclude coq/Base/Sx.v --exclude coq/Base/B64.v --exclude coq/Base/SxF.v \
  --exclude 'harness/cmd/gen/c05.go' --exclude 'harness/cmd/gen/c14.go' --exclude 'harness/cmd/gen/c15.go' --exclude 'harness/cmd/gen/main.go' \
  --exclude properties.jsonl --exclude '__pycache__' \
  $src/ /verif/ | grep -v '^\.d' || true
echo "== shared files that differ (hand-merge):"
for f in coq/_CoqProject coq/Corr/Dispatch.v bin/check bin/props.py bin/manifest_data.py known_findings.json harness/go.mod harness/internal/hx/hx.go coq/Base/Bytes.v coq/Base/Sx.v coq/Base/B64.v coq/Base/SxF.v coq/extract/Extract.v coq/extract/driver.ml harness/cmd/gen/main.go; do
  if ! diff -q $src/$f /verif/$f >/dev/null 2>&1; then echo "   $f"; fi
done
