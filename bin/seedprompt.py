#!/usr/bin/env python3
"""prints the prompt given to an independent mutation-seeding sub-agent (property text only)."""
import json, sys
pid, wd = sys.argv[1], sys.argv[2]
n = sys.argv[3] if len(sys.argv) > 3 else "3"
focus = sys.argv[4] if len(sys.argv) > 4 else ""
outdir = sys.argv[5] if len(sys.argv) > 5 else None
import glob, os
tried = []
for d in sorted(glob.glob('/verif/seeded/%s-*' % pid)):
    try:
        m = json.load(open(os.path.join(d, 'meta.json')))
        if m.get('summary'): tried.append(str(m['summary']).replace("\n", " ")[:400])
    except Exception:
        pass
if tried and outdir:
    focus += " The following ideas have ALREADY been tried by others - do not repeat them or close variants; look for different code paths, different clauses of the property, and different mechanisms (caching/aliasing between calls, boundary sizes, ordering of operations, error paths, rarely used options, interactions between two packages): " + " || ".join("(%d) %s" % (i + 1, t) for i, t in enumerate(tried))
for l in open('/verif/properties.jsonl'):
    p = json.loads(l)
    if p['id'] == pid:
        break
OUT = outdir or (wd + "/../out_" + pid + "_" + os.path.basename(wd))
print(f"""You are testing how well a semantic property of the Go repository golang/perf is protected. You have your own scratch git worktree of the repository at {wd} (work only there; do not touch /repo, /verif or any other directory; no network: `export GOFLAGS=-mod=mod GOPROXY=off GOSUMDB=off GOTOOLCHAIN=local` before every go command).

THE PROPERTY ({pid} — {p['title']}):
{p['statement']}
It is quantified: {p['quantifier']['text']}.
Code it is anchored in: {', '.join(p['anchors']['files'])}.

YOUR JOB: produce {n} DIFFERENT, independent changes (mutations) to the repository's non-test Go source, each of which BREAKS this property while the code still compiles and the repository's existing test suite still passes (`go build ./... && go test -vet=off -count=1 ./...` in the worktree — all packages must stay green; do not edit, add or delete any existing test or testdata file). Make them realistic — the kind of slip a maintainer could make in a refactor, optimisation or 'simplification' — and SUBTLE: each should need something specific to manifest (an unusual input, a particular multi-step sequence of operations, a boundary size, a particular interleaving or fault position, or two cooperating sites that each look fine alone), not something ordinary use would expose at once. {focus}

For each mutation i = 1..{n}:
 1. start from a clean worktree (`git -C {wd} checkout -- . && git -C {wd} clean -fdq`), make the change, confirm build + full test suite pass;
 2. write a demonstration — a small Go test file (new file, e.g. zz_demo_test.go in the relevant package) or small program — that FAILS with the change and PASSES without it, demonstrating a concrete violation of the property as stated above (not merely 'output changed');
 3. save into {OUT}/m<i>/ : `patch.diff` (output of `git diff` of the source change ONLY, without the demo), the demo file(s) with a note of the path where it must be placed, and `meta.json` with fields: property, summary (what was changed), needs (what it needs in order to manifest), demo_cmd (exact command to run the demo), files_changed;
 4. verify the claim end to end once more from clean: apply patch → suite passes, demo fails; revert patch → demo passes. Then clean the worktree again.
Finally reply with a short list: for each mutation its directory, one-line summary, and what it needs to manifest. Do not leave the worktree modified. NEVER use `git stash` (the stash is shared between all worktrees of this repository and other agents are working in sibling worktrees): to toggle a change use `git diff > p.diff`, `git apply -R p.diff`, `git apply p.diff`.""")
