#!/usr/bin/env python3
"""writes SEEDED.md: which checks catch which seeded changes (from seeded/*/meta.json)"""
import json, glob, os
VERIF = os.path.dirname(os.path.dirname(os.path.abspath(__file__)))
rows = []
benign = []
for d in sorted(glob.glob(os.path.join(VERIF, "seeded", "*"))):
    try:
        m = json.load(open(os.path.join(d, "meta.json")))
    except Exception:
        continue
    name = os.path.basename(d)
    if name.startswith("benign-"):
        fa = m.get("false_alarms") or []
        rd = os.path.join(d, "README.txt")
        summ = open(rd).read().replace("\n", " ").replace("|", "/")[:260] if os.path.exists(rd) else ""
        benign.append("| %s | %s | %s | %s |" % (name, ", ".join(m.get("files", [])), ", ".join(sorted(m.get("checks", {}))),
                                              ("**FALSE ALARM: " + ", ".join(fa) + "**") if fa else ("no alarm" if not m.get("error") else m["error"][:80])))
        continue
    checks = m.get("my_checks") or {}
    # the latest regression sweep (bin/seedregress.py) overrides the verdict recorded when the change was first tested
    try:
        rg = json.load(open(os.path.join(d, "regress.json")))
        if rg.get("checks"):
            checks = {c: {"exit": v.get("exit"), "lines": [v.get("line", "")]} for c, v in rg["checks"].items()}
    except Exception:
        pass
    if m.get("neutralised"):
        summ = (m.get("summary") or "").replace("\n", " ").replace("|", "/")[:257]
        rows.append("| %s | %s | %s | %s | %s |" % (name, summ, "", "n/a", "no longer a violation: " + m["neutralised"]))
        continue
    if isinstance(checks, dict):
        caught = [c for c, v in checks.items() if isinstance(v, dict) and v.get("exit") == 1]
        nf = [c for c, v in checks.items() if isinstance(v, dict) and any("no-failing-input-found" in l for l in v.get("lines", []))]
    else:
        caught, nf = [], []
    summ = (m.get("summary") or "").replace("\n", " ").replace("|", "/")
    needs = (m.get("needs") or "").replace("\n", " ").replace("|", "/")
    if len(summ) > 260: summ = summ[:257] + "..."
    if len(needs) > 200: needs = needs[:197] + "..."
    rows.append("| %s | %s | %s | %s | %s |" % (name, summ, needs, ", ".join(caught) or "**missed**",
                                             "without failing input: " + ", ".join(nf) if nf else ("with failing input" if caught else (m.get("note") or ""))))
with open(os.path.join(VERIF, "SEEDED.md"), "w") as f:
    f.write("# Seeded changes and the checks that catch them\n\n"
            "Each change was written by an independent sub-agent that saw only the property text, compiles, passes the\n"
            "existing test suite, and comes with a demonstration that fails with it and passes without it (confirmed by\n"
            "`bin/seedtest.py` in a scratch worktree). `patch.diff`, the demonstration and `meta.json` are under `seeded/<id>/`.\n\n"
            "| id | change | needs | caught by (quick) | how |\n|---|---|---|---|---|\n")
    f.write("\n".join(rows) + "\n")
    f.write("\n## Behaviour-preserving refactors (must NOT raise an alarm)\n\n"
            "Written by a sub-agent asked for harmless rewrites of the anchored code; each was applied to /repo and the quick\n"
            "checks of every property anchored in the touched packages were run (`bin/benigntest.py`).\n\n"
            "| id | files | checks run | verdict |\n|---|---|---|---|\n")
    f.write("\n".join(benign) + "\n")
print(len(rows), "rows")
