#!/usr/bin/env python3
"""benigntest.py <dir with b*/patch.diff>: applies each behaviour-preserving patch to /repo, runs the checks of the
properties anchored in the touched packages, undoes it; any VIOLATION is a false alarm. Writes seeded/benign-<b>/meta.json."""
import json, os, re, subprocess, sys, glob, shutil
V = os.path.dirname(os.path.dirname(os.path.abspath(__file__)))
MAP = [("benchfmt/internal/bytesconv", "C03 C02 C01"), ("benchfmt/", "C01 C02 C03 C04 C05 C14"), ("benchunit/", "C04 C10 C14 C16"),
       ("benchproc/internal/parse", "C07 C06 C08 C14"), ("benchproc/", "C05 C06 C07 C08 C09 C14 C15 C16"), ("benchmath/", "C13 C14"),
       ("internal/stats/", "C11 C12 C17"), ("benchstat/", "C17"), ("benchseries/", "C18"), ("cmd/benchstat/", "C14 C15 C16"),
       ("storage/", "C19 C20"), ("analysis/", "C19")]
TARGET = os.environ.get("SEED_TARGET", "/repo")   # a scratch worktree at /repo's HEAD when /repo itself must stay untouched
ENVV = dict(os.environ, VERIF_REPO=TARGET)
def sh(cmd, **kw):
    kw.setdefault("env", ENVV)
    p = subprocess.run(cmd, stdout=subprocess.PIPE, stderr=subprocess.STDOUT, text=True, **kw)
    return p.returncode, p.stdout
for d in sorted(glob.glob(os.path.join(sys.argv[1], "b*")), key=lambda x: int(re.sub(r"\D", "", os.path.basename(x)) or 0)):
    patch = os.path.join(d, "patch.diff")
    if not os.path.exists(patch):
        continue
    files = re.findall(r"^diff --git a/(\S+)", open(patch).read(), re.M)
    props = []
    for f in files:
        for pre, ps in MAP:
            if f.startswith(pre):
                for p in ps.split():
                    if p not in props: props.append(p)
                break
    rc, out = sh(["git", "-C", TARGET, "apply", patch])
    res = {"patch": os.path.basename(d), "files": files, "checks": {}}
    if rc != 0:
        res["error"] = "does not apply to /repo HEAD: " + out[-200:]
    else:
        try:
            for p in props:
                rc, out = sh([os.path.join(V, "bin", "check"), p, "quick"], cwd=V)
                last = [l for l in out.splitlines() if l.startswith(("VIOLATION", "OK"))]
                res["checks"][p] = {"exit": rc, "line": last[-1] if last else out[-200:]}
        finally:
            sh(["git", "-C", TARGET, "checkout", "--", "."])
    res["false_alarms"] = [p for p, v in res["checks"].items() if v["exit"] != 0]
    dst = os.path.join(V, "seeded", "benign-" + os.path.basename(d))
    os.makedirs(dst, exist_ok=True)
    shutil.copyfile(patch, os.path.join(dst, "patch.diff"))
    rd = os.path.join(d, "README.txt")
    if os.path.exists(rd): shutil.copyfile(rd, os.path.join(dst, "README.txt"))
    json.dump(res, open(os.path.join(dst, "meta.json"), "w"), indent=1)
    print(os.path.basename(d), files, "->", {p: v["exit"] for p, v in res["checks"].items()}, res.get("error", ""))
