import os, sys
sys.path.insert(0, os.path.dirname(os.path.abspath(__file__)))
import props
HOOK_COMMITS = ["9850a25", "e674b3d", "e82f959", "06f2025", "5b38d79", "eb77004", "e346888"]
NOTES = ("Every check: rebuilds the Coq development (make), rebuilds the harness against /repo's working tree with -tags verif, "
         "runs the implementation on generated inputs, evaluates the extracted Coq model and the specification predicates on every case. "
         "See DESIGN.md.")
NOT_CLAIMED = {}
CLAIMED = props.claimed()
