HOOK_COMMITS = []
NOTES = ("Every check: rebuilds the Coq development (make), rebuilds the harness against /repo's working tree with -tags verif, "
         "runs the implementation on generated inputs, evaluates the extracted Coq model and the specification predicates on every case. "
         "See DESIGN.md.")
NOT_CLAIMED = {}
CLAIMED = {
 "C14": {
  "text": "Theorems (Coq, all measurement sequences): Builder.Add puts each measurement in exactly one cell whose sample is exactly the measurements projected there; cells exist iff populated; residue keys per cell are exact and the vary-warning names exactly the differing fields; rows/columns/tables are the present keys in sort order with the first column as baseline; the benchmark-set warning is raised iff row sets differ. The model is tied to /repo by running cmd/benchstat's pipeline in process on generated file sets x flag grids, observing benchtab.Tables, and comparing with model and specification; per-cell statistics are compared with direct benchmath calls; the real binary's csv/text must equal the rendering of those tables.",
  "design_ref": "DESIGN.md 7.14",
  "note": "trusted: Coq kernel, extraction+OCaml, Go harness (replicates main.go's 40-line wiring, checked against the binary's bytes); statistics themselves are C11-C13's subject; key order is C09's",
 },
 "C15": {
  "text": "Partial by nature. Proved (Coq): the tables are independent of Go map enumeration order for every reachable builder state, sorted key sequences are arrangement-independent, permuting input lines only permutes each cell's values, slot-disjoint tasks commute under every schedule. Runtime part (data races, real interleavings) observed: byte-identical text and csv across repeated runs and GOMAXPROCS 1,2,3,16, a -race build on a subset, repeated in-process runs, and permuted benchmark lines leaving every cell's sample and summary unchanged.",
  "design_ref": "DESIGN.md 7.15",
  "note": "data-race freedom and sub-task interleavings cannot be exhibited by a pure model; the race detector sees only executed interleavings",
  "technique": "Coq theorems (map-order independence, commuting tasks) + differential runs of the real binary incl. race detector",
 },
 "C05": {
  "text": "Theorems (Coq, all byte strings and configurations): base ++ parts = name, the parts have exactly the documented shape and that decomposition is unique, Base() = Parts() base, and each filter/projection key means what the property says. The models are tied to /repo by running Name.Parts/Base, single-field projections and literal filters on exhaustive short names and random names and comparing with the extracted model.",
  "design_ref": "DESIGN.md 7.5",
  "note": "trusted: Coq kernel, extraction+OCaml, Go harness; hand-written model tied to the code by differential run only",
 },
}
