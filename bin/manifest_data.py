HOOK_COMMITS = []
NOTES = ("Every check: rebuilds the Coq development (make), rebuilds the harness against /repo's working tree with -tags verif, "
         "runs the implementation on generated inputs, evaluates the extracted Coq model and the specification predicates on every case. "
         "See DESIGN.md.")
NOT_CLAIMED = {}
CLAIMED = {
 "C05": {
  "text": "Theorems (Coq, all byte strings and configurations): base ++ parts = name, the parts have exactly the documented shape and that decomposition is unique, Base() = Parts() base, and each filter/projection key means what the property says. The models are tied to /repo by running Name.Parts/Base, single-field projections and literal filters on exhaustive short names and random names and comparing with the extracted model.",
  "design_ref": "DESIGN.md 7.5",
  "note": "trusted: Coq kernel, extraction+OCaml, Go harness; hand-written model tied to the code by differential run only",
 },
}
