#!/usr/bin/env python3
"""Generates the second table of certified reference points of C12
(coq/Proofs/DistRef.v, coq/Properties/C12ref2.v, coq/Model/DistRefTable.v,
harness/cmd/gen/c12reftab.go). Run once; the constants are only candidates
computed in double precision - the Coq lemmas (coq-interval) certify them.

 dist 0 = Student t (p1 = nu), dist 1 = normal (p1 = mu, p2 = sigma); fn 0 = PDF, 1 = CDF.
"""
import math, os
from fractions import Fraction as Fr

ROOT = os.path.join(os.path.dirname(os.path.abspath(__file__)), "..")

# ---- numerics (double precision, composite 20-point Gauss-Legendre) ----
def gl_nodes(n):
    xs, ws = [], []
    for i in range(n):
        x = math.cos(math.pi * (i + 0.75) / (n + 0.5))
        for _ in range(100):
            p0, p1 = 1.0, x
            for k in range(2, n + 1):
                p0, p1 = p1, ((2 * k - 1) * x * p1 - (k - 1) * p0) / k
            dp = n * (x * p1 - p0) / (x * x - 1)
            dx = p1 / dp
            x -= dx
            if abs(dx) < 1e-17: break
        xs.append(x); ws.append(2 / ((1 - x * x) * dp * dp))
    return xs, ws
GX, GW = gl_nodes(20)
def integrate(f, a, b, panels=64):
    s = 0.0
    h = (b - a) / panels
    for p in range(panels):
        lo = a + p * h
        s += math.fsum(w * f(lo + (x + 1) * h / 2) for x, w in zip(GX, GW)) * h / 2
    return s

def tconst(nu): return math.exp(math.lgamma((nu + 1) / 2) - math.lgamma(nu / 2)) / math.sqrt(nu * math.pi)
def tpdf(nu, x): return tconst(nu) * (1 + x * x / nu) ** (-(nu + 1) / 2)
def tcdf_half(nu, x): return integrate(lambda t: tpdf(nu, t), 0, x)
def npdf(mu, s, x): return math.exp(-((x - mu) / s) ** 2 / 2) / (s * math.sqrt(2 * math.pi))
def ncdf_half(mu, s, x): return integrate(lambda t: npdf(mu, s, t), mu, x)

# ---- Coq real expressions ----
def rq(q):
    q = Fr(q)
    if q < 0: return "(- %s)" % rq(-q)
    return str(q.numerator) if q.denominator == 1 else "(%d / %d)" % (q.numerator, q.denominator)
def dec15(v):  # candidate constant as a rational with denominator 10^15
    return Fr(round(v * 10 ** 15), 10 ** 15)
def rconst(q): return "%d / %d" % (q.numerator if q.denominator == 10**15 else q.numerator * (10**15 // q.denominator), 10 ** 15)

def t_int_expr(nu, var):
    """closed form of the density for integer nu: (ratio, Coq expression in var)"""
    num = den = 1
    k = nu - 1
    while k >= 1: num *= k; k -= 2
    k = nu - 2
    while k >= 1: den *= k; k -= 2
    g = math.gcd(num, den); num //= g; den //= g
    base = "(1 + %s*%s/%d)" % (var, var, nu)
    if nu % 2 == 0:   # c = num / (2 sqrt(nu) den); shape = 1/(base^(nu/2) sqrt(base))
        m = nu // 2
        return "%d / (%d * sqrt %d * (%s^%d * sqrt %s))" % (num, 2 * den, nu, base, m, base)
    m = (nu + 1) // 2
    return "%d / (%d * PI * sqrt %d * %s^%d)" % (num, den, nu, base, m)

def beta_h(nu4, var):
    """(1 - s^2)^(nu/2 - 1) for nu = nu4/4 with nu/2-1 = k/8... here nu = j + 1/2: exponent (2j-3)/4"""
    e4 = Fr(nu4, 4) / 2 - 1          # exponent
    q = e4 * 4
    assert q.denominator == 1 and q >= 0
    q = int(q)
    w = "(1 - %s*%s)" % (var, var)
    parts = []
    if q // 4: parts.append("%s^%d" % (w, q // 4))
    if (q % 4) // 2: parts.append("sqrt %s" % w)
    if q % 2: parts.append("sqrt (sqrt %s)" % w)
    return " * ".join(parts)

lemmas, theorems, table, gotab = [], [], [], []
def add_point(name, stmt, proof, dist, p1, p2, fn, x, c, comment=""):
    k = len(table)
    lemmas.append("Lemma %s : %s.\nProof. %s Qed.\n" % (name, stmt, proof))
    theorems.append("Theorem C12_%s : %s.\nProof. exact %s. Qed.\nPrint Assumptions C12_%s.\n" % (name, stmt, name, name))
    def qq(v): v = Fr(v); return "(%d # %d)%%Q" % (v.numerator, v.denominator)
    table.append("  (%d%%Z, %s, %s, %d%%Z, %s, %s)" % (dist, qq(p1), qq(p2), fn, qq(x), qq(c)))
    gotab.append("\t{%d, %r, %r, %d, %r}," % (dist, float(p1), float(p2), fn, float(x)))

EPS_CDF = "1 / 100000000000"        # 1e-11
EPS_PDF = "1 / 10000000000000"      # 1e-13
INTEG = "integral with (i_fuel 2000, i_prec 64)."
INTERV = "interval with (i_prec 80)."

# Student t, integer nu: CDF and PDF
for nu, xs in [(1, [Fr(1, 2), 3]), (2, [Fr(5, 4)]), (3, [Fr(1, 4), 2]), (5, [Fr(3, 4)]), (10, [Fr(3, 2)]),
               (30, [Fr(1, 2), Fr(9, 4)]), (100, [1, Fr(5, 2)]), (1000, [Fr(3, 4), 2])]:
    for x in xs:
        c = dec15(tcdf_half(nu, float(x)))
        stmt = "Rabs (RInt (fun t => %s) 0 %s - %s) <= %s" % (t_int_expr(nu, "t"), rq(x), rconst(c), EPS_CDF)
        add_point("dref_tcdf_%d_%d" % (nu, len(table)), stmt, INTEG, 0, nu, 0, 1, x, Fr(1, 2) + c)
        c = dec15(tpdf(nu, float(x)))
        stmt = "Rabs (%s - %s) <= %s" % (t_int_expr(nu, rq(x)), rconst(c), EPS_PDF)
        add_point("dref_tpdf_%d_%d" % (nu, len(table)), stmt, INTERV, 0, nu, 0, 0, x, c)
    # the mode
    c = dec15(tpdf(nu, 0.0))
    stmt = "Rabs (%s - %s) <= %s" % (t_int_expr(nu, "0"), rconst(c), EPS_PDF)
    add_point("dref_tpdf_%d_%d" % (nu, len(table)), stmt, INTERV, 0, nu, 0, 0, 0, c)

# Student t, nu = j + 1/2 (no closed-form constant): beta form
#   s = t / sqrt(nu + t^2):  f_nu(t) dt = h(s) ds / (2 B),  h(s) = (1 - s^2)^(nu/2 - 1),  B = int_0^1 h
#   F_nu(x) = 1/2 + int_0^u h / (2 B),  u = x / sqrt(nu + x^2);   f_nu(x) = (1 + x^2/nu)^(-(nu+1)/2) / (2 sqrt(nu) B)
beta_lemmas = []
for nu4, xs in [(10, [Fr(1, 2), 2]), (14, [Fr(5, 4)]), (30, [1, 3])]:
    nu = Fr(nu4, 4)
    tag = str(nu4)
    h = beta_h(nu4, "s")
    cB = 1 / (2 * tconst(float(nu)) * math.sqrt(float(nu)))
    B = dec15(cB)
    beta_lemmas.append("Lemma dref_beta_%s : Rabs (RInt (fun s => %s) 0 1 - %s) <= 1 / 1000000000000.\nProof. %s Qed.\n"
                       % (tag, h, rconst(B), INTEG))
    for x in xs:
        u = "(%s / sqrt (%s + %s*%s))" % (rq(x), rq(nu), rq(x), rq(x))
        half = tcdf_half(float(nu), float(x))
        I = dec15(half * 2 * cB)
        nm = "dref_tcdf_h%s_%d" % (tag, len(table))
        beta_lemmas.append("Lemma %s_num : Rabs (RInt (fun s => %s) 0 %s - %s) <= 1 / 1000000000000.\nProof. %s Qed.\n"
                           % (nm, h, u, rconst(I), INTEG))
        c = dec15(half)
        stmt = ("Rabs (RInt (fun s => %s) 0 %s / (2 * RInt (fun s => %s) 0 1) - %s) <= %s"
                % (h, u, h, rconst(c), EPS_CDF))
        proof = ("generalize %s_num dref_beta_%s.\n  set (I := RInt _ 0 %s). set (B := RInt _ 0 1). intros HI HB.\n"
                 "  apply Rabs_le_between' in HI. apply Rabs_le_between' in HB.\n  interval with (i_prec 80)."
                 % (nm, tag, u))
        add_point(nm, stmt, proof, 0, nu, 0, 1, x, Fr(1, 2) + c)
        # density
        e2 = (nu + 1) / 2                       # = k/4
        k = int(e2 * 4)
        base = "(1 + %s*%s/%s)" % (rq(x), rq(x), rq(nu))
        parts = []
        if k // 4: parts.append("%s^%d" % (base, k // 4))
        if (k % 4) // 2: parts.append("sqrt %s" % base)
        if k % 2: parts.append("sqrt (sqrt %s)" % base)
        shape = " * ".join(parts)
        c = dec15(tpdf(float(nu), float(x)))
        nm = "dref_tpdf_h%s_%d" % (tag, len(table))
        stmt = ("Rabs (/ (%s) / (2 * sqrt %s * RInt (fun s => %s) 0 1) - %s) <= %s"
                % (shape, rq(nu), h, rconst(c), "1 / 100000000000"))
        proof = ("generalize dref_beta_%s.\n  set (B := RInt _ 0 1). intros HB.\n"
                 "  apply Rabs_le_between' in HB.\n  interval with (i_prec 80)." % tag)
        add_point(nm, stmt, proof, 0, nu, 0, 0, x, c)

# normal distribution
for mu, sg, xs in [(0, 1, [Fr(1, 2), 1, 2, Fr(7, 2), Fr(-5, 4)]), (1, 2, [4, Fr(-1, 2)]), (-3, Fr(1, 2), [Fr(-13, 4)]),
                   (Fr(5, 2), Fr(3, 8), [Fr(23, 8)])]:
    dens = lambda var: "exp (- ((%s - %s) / %s)^2 / 2) / (%s * sqrt (2 * PI))" % (var, rq(mu), rq(sg), rq(sg))
    for x in xs:
        c = dec15(abs(ncdf_half(float(mu), float(sg), float(x))))
        lo, hi = (mu, x) if x >= mu else (x, mu)     # below the mean: CDF = 1/2 - int_x^mu
        stmt = "Rabs (RInt (fun t => %s) %s %s - %s) <= %s" % (dens("t"), rq(lo), rq(hi), rconst(c), EPS_CDF)
        add_point("dref_ncdf_%d" % len(table), stmt, INTEG, 1, mu, sg, 1, x, Fr(1, 2) + c if x >= mu else Fr(1, 2) - c)
        c = dec15(npdf(float(mu), float(sg), float(x)))
        stmt = "Rabs (%s - %s) <= %s" % (dens(rq(x)), rconst(c), EPS_PDF)
        add_point("dref_npdf_%d" % len(table), stmt, INTERV, 1, mu, sg, 0, x, c)

hdr = """(** %s - GENERATED by bin/gen_c12ref.py; do not edit.
    Second table of certified reference points of C12 (tests' oracle, not proofs about the code):
    Student-t CDF and PDF for nu in {1,2,3,5,10,30,100,1000} (closed-form density constants)
    and nu in {2.5, 3.5, 7.5} (beta form: with s = t/sqrt(nu+t^2), f_nu(t) dt = h(s) ds / (2B),
    h(s) = (1-s^2)^(nu/2-1), B = int_0^1 h; hence F_nu(x) = 1/2 + int_0^u h / (2B), u = x/sqrt(nu+x^2),
    f_nu(x) = (1+x^2/nu)^(-(nu+1)/2) / (2 sqrt(nu) B)); normal PDF and CDF (CDF = 1/2 + int_mu^x of the
    density, 1/2 - int_x^mu below the mean) for four (mu, sigma). Enclosures by coq-interval ([integral], [interval]). *)
"""
with open(os.path.join(ROOT, "coq/Proofs/DistRef.v"), "w") as f:
    f.write(hdr % "DistRef")
    f.write("From Coq Require Import Reals.\nFrom Interval Require Import Tactic.\nFrom Coquelicot Require Import Coquelicot.\nOpen Scope R_scope.\n\n")
    f.write("\n".join(beta_lemmas) + "\n")
    f.write("\n".join(lemmas))
with open(os.path.join(ROOT, "coq/Properties/C12ref2.v"), "w") as f:
    f.write(hdr % "C12 (continued)")
    f.write("From Coq Require Import Reals.\nFrom Coquelicot Require Import Coquelicot.\nFrom Perf Require Import Proofs.DistRef.\nOpen Scope R_scope.\n\n")
    f.write("\n".join(theorems))
with open(os.path.join(ROOT, "coq/Model/DistRefTable.v"), "w") as f:
    f.write("(** DistRefTable - GENERATED by bin/gen_c12ref.py: the constants certified in Proofs/DistRef.v:\n"
            "    (dist, p1, p2, fn, x, value): dist 0 = Student t (nu = p1), 1 = normal (mu = p1, sigma = p2);\n"
            "    fn 0 = PDF, 1 = CDF (value = 1/2 + the certified integral). *)\n"
            "From Coq Require Import ZArith QArith List.\nImport ListNotations.\n"
            "Definition dref_table : list (Z * Q * Q * Z * Q * Q) := [\n" + ";\n".join(table) + "\n].\n")
with open(os.path.join(ROOT, "harness/cmd/gen/c12reftab.go"), "w") as f:
    f.write("// Code generated by bin/gen_c12ref.py. DO NOT EDIT.\n\npackage main\n\n"
            "// c12DistRef: (dist, p1, p2, fn, x) of coq/Model/DistRefTable.v, same order.\n"
            "var c12DistRef = []struct {\n\tdist   int\n\tp1, p2 float64\n\tfn     int\n\tx      float64\n}{\n" + "\n".join(gotab) + "\n}\n")
print(len(table), "points")
