#!/bin/bash
# applyfix.sh <diff> <commit message file>: apply a repair to /repo, run gofmt/build/full test suite, commit as "fix: ..."
set -e
export GOFLAGS=-mod=mod GOPROXY=off GOSUMDB=off GOTOOLCHAIN=local
diff=$1; msg=$2
cd /repo
test -z "$(git status --porcelain)" || { echo "/repo not clean"; exit 1; }
git apply "$diff"
files=$(git diff --name-only)
bad=$(gofmt -l $(echo "$files" | grep '\.go$' || true) 2>/dev/null || true)
[ -z "$bad" ] || { echo "gofmt: $bad"; git checkout -- .; exit 1; }
if go build ./... && go build -tags verif ./... && go test -vet=off -count=1 ./... > /tmp/applyfix.log 2>&1; then
  git add $files; git commit -q -F "$msg"; git log --oneline | head -1
else
  tail -30 /tmp/applyfix.log; git checkout -- .; echo "FAILED: reverted"; exit 1
fi
