#!/usr/bin/env python3
import json, sys
prop, fid, commit, desc = sys.argv[1:5]
p = '/verif/known_findings.json'; d = json.load(open(p))
d = [e for e in d if e['id'] != fid]
d.append({"property": prop, "id": fid, "kind": "fixed", "commit": commit, "description": "fixed: property=%s %s %s" % (prop, commit, desc)})
json.dump(d, open(p, 'w'), indent=1)
