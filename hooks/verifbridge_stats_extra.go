//go:build verif

// Intended path: /repo/verifbridge/stats/extra.go (add-only, build tag verif).
package stats

import "golang.org/x/perf/internal/stats"

func MathBetaInc(x, a, b float64) float64 { return stats.VerifMathBetaInc(x, a, b) }
func Betacf(x, a, b float64) float64      { return stats.VerifBetacf(x, a, b) }
func MathBeta(a, b float64) float64       { return stats.VerifMathBeta(a, b) }
func Lgamma(x float64) float64            { return stats.VerifLgamma(x) }
func VecSum(xs []float64) float64         { return stats.VerifVecSum(xs) }
func BisectBool(f func(float64) bool, low, high, xtol float64) (float64, float64) {
	return stats.VerifBisectBool(f, low, high, xtol)
}
