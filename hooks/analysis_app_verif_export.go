//go:build verif

// Intended path: /repo/analysis/app/verif_export.go
// Exposes the unexported query builder and query-string splitter of the
// analysis front end to the verification harness (property C19). Add-only;
// with the tag off nothing changes.

package app

// VerifAddToQuery is addToQuery.
func VerifAddToQuery(query, add string) string { return addToQuery(query, add) }

// VerifParseQueryString is parseQueryString.
func VerifParseQueryString(q string) (string, []string) { return parseQueryString(q) }
