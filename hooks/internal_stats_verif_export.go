//go:build verif

// Intended path: /repo/internal/stats/verif_export.go (add-only, build tag verif).
// Thin exported wrappers of unexported helpers for the verification harness.
package stats

// VerifMathBetaInc is mathBetaInc (regularized incomplete beta I_x(a,b)).
func VerifMathBetaInc(x, a, b float64) float64 { return mathBetaInc(x, a, b) }

// VerifBetacf is betacf (continued fraction of the incomplete beta).
func VerifBetacf(x, a, b float64) float64 { return betacf(x, a, b) }

// VerifMathBeta is mathBeta (complete beta function).
func VerifMathBeta(a, b float64) float64 { return mathBeta(a, b) }

// VerifLgamma is lgamma.
func VerifLgamma(x float64) float64 { return lgamma(x) }

// VerifBisectBool is bisectBool.
func VerifBisectBool(f func(float64) bool, low, high, xtol float64) (x1, x2 float64) {
	return bisectBool(f, low, high, xtol)
}

// VerifVecSum is vecSum.
func VerifVecSum(xs []float64) float64 { return vecSum(xs) }
