//go:build verif

// Intended path: /repo/benchfmt/verifbridge/decimal.go
// (extends the existing bridge package; needs
// /repo/benchfmt/internal/bytesconv/decimal_verif_export.go =
// hooks/bytesconv_decimal_verif_export.go)
package verifbridge

import "golang.org/x/perf/benchfmt/internal/bytesconv"

type Decimal = bytesconv.VerifDecimal

func DecimalOp(v Decimal, op int, k int) Decimal   { return bytesconv.VerifDecimalOp(v, op, k) }
func DecimalRoundedInteger(v Decimal) uint64       { return bytesconv.VerifDecimalRoundedInteger(v) }
func DecimalAssign(u uint64) Decimal               { return bytesconv.VerifDecimalAssign(u) }
func DecimalSet(s []byte) (Decimal, bool)          { return bytesconv.VerifDecimalSet(s) }
func DecimalFloatBits(v Decimal) (uint64, bool)    { return bytesconv.VerifDecimalFloatBits(v) }
