//go:build verif

// OPTIONAL hook (not used by the current harness). Intended path in golang/perf:
//   benchunit/verif_export.go
// It would let harness/cmd/gen/c04.go observe the slow path of tidyUnit
// separately from its fast paths (theorem C04_fastpath_eq_slowpath is then
// tied to the code directly instead of only through benchunit.Tidy).
package benchunit

// VerifTidyUnitUncached exposes tidyUnitUncached (no fast paths, no cache).
func VerifTidyUnitUncached(unit string) (tidied string, factor float64) {
	return tidyUnitUncached(unit)
}
