//go:build verif

// Intended path: /repo/benchfmt/internal/bytesconv/decimal_verif_export.go
//
// Exposes the unexported multi-precision decimal (decimal.go) and floatBits
// (atof.go) to the verification bridge golang.org/x/perf/benchfmt/verifbridge,
// so that the harness can compare every operation of the transcription
// coq/Model/Decimal.v with the real code on the same decimal, not only the
// final bits of ParseFloat. Only built with -tags verif.
package bytesconv

// VerifDecimal is the observable state of a decimal: the digits d[0:nd] as
// text, the decimal point, the two flags.
type VerifDecimal struct {
	Digits string
	Dp     int
	Neg    bool
	Trunc  bool
}

func (v VerifDecimal) load() *decimal {
	var d decimal
	d.nd = copy(d.d[:], v.Digits)
	d.dp = v.Dp
	d.neg = v.Neg
	d.trunc = v.Trunc
	return &d
}

func verifStore(d *decimal) VerifDecimal {
	return VerifDecimal{Digits: string(d.d[:d.nd]), Dp: d.dp, Neg: d.neg, Trunc: d.trunc}
}

// VerifDecimalOp applies one operation of decimal.go:
//
//	0 leftShift(k)  1 rightShift(k)  2 Shift(k)  3 Round(k)  4 RoundDown(k)  5 RoundUp(k)
//
// (leftShift/rightShift need 0 <= k <= 60 as in the package).
func VerifDecimalOp(v VerifDecimal, op int, k int) VerifDecimal {
	d := v.load()
	switch op {
	case 0:
		leftShift(d, uint(k))
	case 1:
		rightShift(d, uint(k))
	case 2:
		d.Shift(k)
	case 3:
		d.Round(k)
	case 4:
		d.RoundDown(k)
	case 5:
		d.RoundUp(k)
	}
	return verifStore(d)
}

// VerifDecimalRoundedInteger is (*decimal).RoundedInteger.
func VerifDecimalRoundedInteger(v VerifDecimal) uint64 { return v.load().RoundedInteger() }

// VerifDecimalAssign is (*decimal).Assign on a zero decimal.
func VerifDecimalAssign(u uint64) VerifDecimal {
	var d decimal
	d.Assign(u)
	return verifStore(&d)
}

// VerifDecimalSet is (*decimal).set on a zero decimal.
func VerifDecimalSet(s []byte) (VerifDecimal, bool) {
	var d decimal
	ok := d.set(s)
	return verifStore(&d), ok
}

// VerifDecimalFloatBits is (*decimal).floatBits(&float64info).
func VerifDecimalFloatBits(v VerifDecimal) (uint64, bool) { return v.load().floatBits(&float64info) }
