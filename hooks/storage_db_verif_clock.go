//go:build verif

// Intended path: /repo/storage/db/verif_clock.go
// Lets the verification harness (property C20) choose the clock reading
// NewUpload derives the day of an upload ID from (the unexported package
// variable now, which export_test.go sets for the package's own tests only).
// Add-only; with the tag off nothing changes.

package db

import "time"

// VerifSetNow makes NewUpload read the clock through f and returns a function
// that restores the previous clock. Not safe for use concurrently with
// NewUpload: set it before the allocators start (f itself may be called
// concurrently).
func VerifSetNow(f func() time.Time) (restore func()) {
	old := now
	now = f
	return func() { now = old }
}
