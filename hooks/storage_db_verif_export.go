//go:build verif

// Intended path: /repo/storage/db/verif_export.go
// Lets the verification harness (property C20) put a fault-injecting
// driver.Connector under the storage database: it opens the *sql.DB itself
// (sql.OpenDB) and hands it over here. driverName only selects the SQL dialect
// ("sqlite3" or anything else for MySQL syntax), exactly as in OpenSQL.
// Add-only; with the tag off nothing changes.

package db

import "database/sql"

// VerifOpenWithDB is OpenSQL without the sql.Open call.
func VerifOpenWithDB(sqlDB *sql.DB, driverName string) (*DB, error) {
	d := &DB{sql: sqlDB, driverName: driverName}
	if err := d.createTables(driverName); err != nil {
		return nil, err
	}
	if err := d.prepareStatements(driverName); err != nil {
		return nil, err
	}
	return d, nil
}
