//go:build verif

// Intended path: /repo/benchseries/verif_export.go
// Thin, add-only wrappers around unexported helpers of package benchseries
// for the /verif correspondence harness (property C18). Compiled only with
// -tags verif; nothing changes without the tag.

package benchseries

import "math/rand"

// VerifPercentile is percentile (a must be sorted).
func VerifPercentile(a []float64, p float64) float64 { return percentile(a, p) }

// VerifMedian is median (a must be sorted and non-empty).
func VerifMedian(a []float64) float64 { return median(a) }

// VerifHash is (*Cell).hash of a cell holding exactly values.
func VerifHash(values []float64) int64 { return (&Cell{Values: values}).hash() }

// VerifSeed is the bootstrap seed withBootstrap derives from the two samples.
func VerifSeed(nu, de []float64) int64 {
	return (&Cell{Values: nu}).hash() * (&Cell{Values: de}).hash()
}

// VerifRatio runs ratio on copies of nu and de with a generator seeded as
// withBootstrap seeds it, and also returns the sorted bootstrap ratios.
func VerifRatio(nu, de []float64, confidence float64, n int) (center, low, high float64, ratios []float64) {
	cn := &Cell{Values: append([]float64(nil), nu...)}
	cd := &Cell{Values: append([]float64(nil), de...)}
	ratios = make([]float64, n, n)
	r := rand.New(rand.NewSource(cn.hash() * cd.hash()))
	center, low, high = ratio(cn, cd, confidence, r, ratios)
	return
}
