(** Transcription of the multi-precision decimal of bytesconv:
      benchfmt/internal/bytesconv/decimal.go   trim, Assign, rightShift, leftcheats,
                                               prefixIsLessThan, leftShift, Shift,
                                               shouldRoundUp, Round, RoundDown, RoundUp,
                                               RoundedInteger
      benchfmt/internal/bytesconv/atof.go      powtab, decimal.floatBits  (flt = float64info)
    following the code statement by statement on a 64-bit platform
    (uintSize = 64, maxShift = 60; [uint]/[uint64] arithmetic is [w64], i.e. mod 2^64).

    Representation. Go's [decimal] is { d [800]byte; nd, dp int; neg, trunc bool }.
    Here the digits are the slice d[0:nd] as a list of numbers 0..9 (most significant
    first), so nd = length; bytes beyond nd (stale in Go) do not exist in the model.
    The Go code reads them in exactly two situations, and in both the model answers
    [None] ("not tracked") instead of guessing:
      - leftShift ends with its write index w <> 0 (w > 0: the leading w bytes keep
        old content; w < 0: index out of range, a panic);
      - floatBits tests d.d[0] while nd = 0.
    [None] is also the answer when a loop's fuel runs out (k > 63 in the shifts, where
    the Go loops need not terminate) and for k outside the leftcheats table (a panic
    in Go).  Proofs/DecimalShift.v and Proofs/DecimalFloatBits.v show that none of
    this happens from floatBits.  A stored digit is the number [dig], not the byte
    [byte(dig+'0')]: the two agree as long as dig <= 9, which is an invariant.
    No proofs here. *)
From Perf Require Import Base.Bytes Base.B64 Base.DecSpec Model.Atoi Model.Atof.
Local Open Scope Z_scope.

(** machine words: [uint], [uint64] *)
Definition w64 (z : Z) : Z := Z.land z 0xFFFFFFFFFFFFFFFF.

Definition max_digits : Z := 800.      (* len(a.d) *)
Definition maxShift : Z := 60.         (* uintSize - 4 *)

Record decimal := mkDecimal {
  dc_d : list Z;        (* d[0:nd] *)
  dc_dp : Z;            (* decimal point *)
  dc_neg : bool;
  dc_trunc : bool       (* discarded nonzero digits beyond d[:nd] *)
}.
Definition dc_nd (a : decimal) : Z := Z.of_nat (length (dc_d a)).

(** ** trim: drop trailing zeros; an empty number has dp = 0 *)
Fixpoint trim_zeros (l : list Z) : list Z :=
  match l with
  | [] => []
  | x :: r => match trim_zeros r with
              | [] => if x =? 0 then [] else [x]
              | r' => x :: r'
              end
  end.

Definition trim (a : decimal) : decimal :=
  let l := trim_zeros (dc_d a) in
  mkDecimal l (match l with [] => 0 | _ => dc_dp a end) (dc_neg a) (dc_trunc a).

(** ** Assign *)
Fixpoint assign_digits (fuel : nat) (v : Z) (acc : list Z) : list Z :=
  match fuel with
  | O => acc
  | S f => if 0 <? v then let v1 := v / 10 in assign_digits f v1 (w64 (v - 10 * v1) :: acc) else acc
  end.

Definition assign (a : decimal) (v : Z) : decimal :=
  let l := assign_digits 24 v [] in                          (* var buf [24]byte *)
  trim (mkDecimal l (Z.of_nat (length l)) (dc_neg a) (dc_trunc a)).

(** ** rightShift (k <= maxShift) *)

(** "Pick up enough leading digits to cover first shift": the loop
    [for ; n>>k == 0; r++] while digits remain; returns the unread digits *)
Fixpoint rs_lead (k : Z) (l : list Z) (n r : Z) : list Z * Z * Z :=
  match l with
  | [] => ([], n, r)
  | c :: l' => if Z.shiftr n k =? 0 then rs_lead k l' (w64 (n * 10 + c)) (r + 1) else (l, n, r)
  end.

(** [for n>>k == 0 { n = n * 10; r++ }] *)
Fixpoint rs_pad (fuel : nat) (k n r : Z) : option (Z * Z) :=
  if negb (Z.shiftr n k =? 0) then Some (n, r)
  else match fuel with O => None | S f => rs_pad f k (w64 (n * 10)) (r + 1) end.

(** "Pick up a digit, put down a digit"; [out] is the written prefix, reversed *)
Fixpoint rs_main (k mask : Z) (l : list Z) (n : Z) (out : list Z) : Z * list Z :=
  match l with
  | [] => (n, out)
  | c :: l' =>
      let dig := Z.shiftr n k in
      let n := Z.land n mask in
      rs_main k mask l' (w64 (n * 10 + c)) (dig :: out)
  end.

(** "Put down extra digits"; [w] = number of digits written *)
Fixpoint rs_extra (fuel : nat) (k mask n w : Z) (out : list Z) (tr : bool) : option (list Z * bool) :=
  if n =? 0 then Some (out, tr)
  else match fuel with
       | O => None
       | S f =>
           let dig := Z.shiftr n k in
           let n := Z.land n mask in
           if w <? max_digits then rs_extra f k mask (w64 (n * 10)) (w + 1) (dig :: out) tr
           else rs_extra f k mask (w64 (n * 10)) w out (tr || (0 <? dig))
       end.

Definition rightShift (a : decimal) (k : Z) : option decimal :=
  let '(rest, n, r) := rs_lead k (dc_d a) 0 0 in
  let exhausted := match rest with [] => Z.shiftr n k =? 0 | _ => false end in
  if exhausted && (n =? 0) then
    (* a == 0: a.nd = 0; return *)
    Some (mkDecimal [] (dc_dp a) (dc_neg a) (dc_trunc a))
  else
    match (if exhausted then rs_pad 64 k n r else Some (n, r)) with
    | None => None
    | Some (n, r) =>
        let dp := dc_dp a - (r - 1) in
        let mask := w64 (w64 (Z.shiftl 1 k) - 1) in
        let '(n, out) := rs_main k mask rest n [] in
        match rs_extra 70 k mask n (Z.of_nat (length out)) out (dc_trunc a) with
        | None => None
        | Some (out, tr) => Some (trim (mkDecimal (rev out) dp (dc_neg a) tr))
        end
    end.

(** ** leftcheats *)
Definition digs (s : bytes) : list Z := map digit_val s.
Definition lc (delta : Z) (cutoff : bytes) : Z * list Z := (delta, digs cutoff).

Definition leftcheats : list (Z * list Z) := [
  lc 0 (bs "");
  lc 1 (bs "5");
  lc 1 (bs "25");
  lc 1 (bs "125");
  lc 2 (bs "625");
  lc 2 (bs "3125");
  lc 2 (bs "15625");
  lc 3 (bs "78125");
  lc 3 (bs "390625");
  lc 3 (bs "1953125");
  lc 4 (bs "9765625");
  lc 4 (bs "48828125");
  lc 4 (bs "244140625");
  lc 4 (bs "1220703125");
  lc 5 (bs "6103515625");
  lc 5 (bs "30517578125");
  lc 5 (bs "152587890625");
  lc 6 (bs "762939453125");
  lc 6 (bs "3814697265625");
  lc 6 (bs "19073486328125");
  lc 7 (bs "95367431640625");
  lc 7 (bs "476837158203125");
  lc 7 (bs "2384185791015625");
  lc 7 (bs "11920928955078125");
  lc 8 (bs "59604644775390625");
  lc 8 (bs "298023223876953125");
  lc 8 (bs "1490116119384765625");
  lc 9 (bs "7450580596923828125");
  lc 9 (bs "37252902984619140625");
  lc 9 (bs "186264514923095703125");
  lc 10 (bs "931322574615478515625");
  lc 10 (bs "4656612873077392578125");
  lc 10 (bs "23283064365386962890625");
  lc 10 (bs "116415321826934814453125");
  lc 11 (bs "582076609134674072265625");
  lc 11 (bs "2910383045673370361328125");
  lc 11 (bs "14551915228366851806640625");
  lc 12 (bs "72759576141834259033203125");
  lc 12 (bs "363797880709171295166015625");
  lc 12 (bs "1818989403545856475830078125");
  lc 13 (bs "9094947017729282379150390625");
  lc 13 (bs "45474735088646411895751953125");
  lc 13 (bs "227373675443232059478759765625");
  lc 13 (bs "1136868377216160297393798828125");
  lc 14 (bs "5684341886080801486968994140625");
  lc 14 (bs "28421709430404007434844970703125");
  lc 14 (bs "142108547152020037174224853515625");
  lc 15 (bs "710542735760100185871124267578125");
  lc 15 (bs "3552713678800500929355621337890625");
  lc 15 (bs "17763568394002504646778106689453125");
  lc 16 (bs "88817841970012523233890533447265625");
  lc 16 (bs "444089209850062616169452667236328125");
  lc 16 (bs "2220446049250313080847263336181640625");
  lc 16 (bs "11102230246251565404236316680908203125");
  lc 17 (bs "55511151231257827021181583404541015625");
  lc 17 (bs "277555756156289135105907917022705078125");
  lc 17 (bs "1387778780781445675529539585113525390625");
  lc 18 (bs "6938893903907228377647697925567626953125");
  lc 18 (bs "34694469519536141888238489627838134765625");
  lc 18 (bs "173472347597680709441192448139190673828125");
  lc 19 (bs "867361737988403547205962240695953369140625")
].

(** "Is the leading prefix of b lexicographically less than s?" *)
Fixpoint prefix_is_less_than (b s : list Z) {struct s} : bool :=
  match s with
  | [] => false
  | sc :: s' =>
      match b with
      | [] => true
      | bc :: b' => if bc =? sc then prefix_is_less_than b' s' else bc <? sc
      end
  end.

(** ** leftShift (k <= maxShift) *)

(** one "put down a digit" step at write index [w] (already decremented) *)
Definition ls_put (w rem : Z) (out : list Z) (tr : bool) : list Z * bool :=
  if w <? max_digits then (rem :: out, tr) else (out, tr || negb (rem =? 0)).

(** "Pick up a digit, put down a digit", from the last digit to the first;
    [rl] = the digits, least significant first; [out] = d[w:...] written so far *)
Fixpoint ls_main (k : Z) (rl : list Z) (n w : Z) (out : list Z) (tr : bool) : Z * Z * list Z * bool :=
  match rl with
  | [] => (n, w, out, tr)
  | c :: rl' =>
      let n := w64 (n + w64 (Z.shiftl c k)) in
      let quo := n / 10 in
      let rem := w64 (n - 10 * quo) in
      let w := w - 1 in
      let '(out, tr) := ls_put w rem out tr in
      ls_main k rl' quo w out tr
  end.

(** "Put down extra digits" *)
Fixpoint ls_extra (fuel : nat) (n w : Z) (out : list Z) (tr : bool) : option (Z * list Z * bool) :=
  if n =? 0 then Some (w, out, tr)
  else match fuel with
       | O => None
       | S f =>
           let quo := n / 10 in
           let rem := w64 (n - 10 * quo) in
           let w := w - 1 in
           let '(out, tr) := ls_put w rem out tr in
           ls_extra f quo w out tr
       end.

Definition leftShift (a : decimal) (k : Z) : option decimal :=
  if (k <? 0) || (maxShift <? k) then None else        (* leftcheats[k] *)
  let '(delta0, cutoff) := nth (Z.to_nat k) leftcheats (0, []) in
  let delta := if prefix_is_less_than (dc_d a) cutoff then delta0 - 1 else delta0 in
  let nd := dc_nd a in
  let '(n, w, out, tr) := ls_main k (rev (dc_d a)) 0 (nd + delta) [] (dc_trunc a) in
  match ls_extra 24 n w out tr with
  | None => None
  | Some (w, out, tr) =>
      if negb (w =? 0) then None          (* stale leading bytes (w > 0) or index out of range (w < 0) *)
      else Some (trim (mkDecimal out (dc_dp a + delta) (dc_neg a) tr))
           (* a.nd = min(nd+delta, 800) = length out *)
  end.

(** ** Shift *)
Fixpoint shift_left_loop (fuel : nat) (a : decimal) (k : Z) : option decimal :=
  if maxShift <? k then
    match fuel with
    | O => None
    | S f => match leftShift a maxShift with
             | Some a' => shift_left_loop f a' (k - maxShift)
             | None => None
             end
    end
  else leftShift a k.

(** [k] is the (positive) number of bits to shift right *)
Fixpoint shift_right_loop (fuel : nat) (a : decimal) (k : Z) : option decimal :=
  if maxShift <? k then
    match fuel with
    | O => None
    | S f => match rightShift a maxShift with
             | Some a' => shift_right_loop f a' (k - maxShift)
             | None => None
             end
    end
  else rightShift a k.

Definition shift (a : decimal) (k : Z) : option decimal :=
  if dc_nd a =? 0 then Some a
  else if 0 <? k then shift_left_loop (S (Z.to_nat (k / maxShift))) a k
  else if k <? 0 then shift_right_loop (S (Z.to_nat ((- k) / maxShift))) a (- k)
  else Some a.

(** ** rounding *)
Definition digit_at (l : list Z) (i : Z) : Z := nth (Z.to_nat i) l 0.

(** "If we chop a at nd digits, should we round up?" *)
Definition shouldRoundUp (a : decimal) (nd : Z) : bool :=
  if (nd <? 0) || (dc_nd a <=? nd) then false
  else if (digit_at (dc_d a) nd =? 5) && (nd + 1 =? dc_nd a) then
    if dc_trunc a then true
    else (0 <? nd) && negb ((digit_at (dc_d a) (nd - 1)) mod 2 =? 0)
  else 5 <=? digit_at (dc_d a) nd.

Definition roundDown (a : decimal) (nd : Z) : decimal :=
  if (nd <? 0) || (dc_nd a <=? nd) then a
  else trim (mkDecimal (firstn (Z.to_nat nd) (dc_d a)) (dc_dp a) (dc_neg a) (dc_trunc a)).

(** the loop [for i := nd-1; i >= 0; i--] over the kept digits, last first:
    [Some l] = the digits after the increment (cut after the incremented one),
    [None] = all nines *)
Fixpoint round_up_rev (rl : list Z) : option (list Z) :=
  match rl with
  | [] => None
  | c :: rl' => if c <? 9 then Some (rev ((c + 1) :: rl')) else round_up_rev rl'
  end.

Definition roundUp (a : decimal) (nd : Z) : decimal :=
  if (nd <? 0) || (dc_nd a <=? nd) then a
  else match round_up_rev (rev (firstn (Z.to_nat nd) (dc_d a))) with
       | Some l => mkDecimal l (dc_dp a) (dc_neg a) (dc_trunc a)
       | None => mkDecimal [1] (dc_dp a + 1) (dc_neg a) (dc_trunc a)
       end.

Definition round (a : decimal) (nd : Z) : decimal :=
  if (nd <? 0) || (dc_nd a <=? nd) then a
  else if shouldRoundUp a nd then roundUp a nd else roundDown a nd.

(** RoundedInteger: "Extract integer part, rounded appropriately.
    No guarantees about overflow." *)
Fixpoint ri_digits (l : list Z) (i dp n : Z) : Z * Z :=      (* for i < a.dp && i < a.nd *)
  match l with
  | [] => (n, i)
  | c :: l' => if i <? dp then ri_digits l' (i + 1) dp (w64 (n * 10 + c)) else (n, i)
  end.

Fixpoint ri_zeros (fuel : nat) (i dp n : Z) : Z :=            (* for ; i < a.dp; i++ { n *= 10 } *)
  match fuel with
  | O => n
  | S f => if i <? dp then ri_zeros f (i + 1) dp (w64 (n * 10)) else n
  end.

Definition roundedInteger (a : decimal) : Z :=
  if 20 <? dc_dp a then 0xFFFFFFFFFFFFFFFF
  else
    let '(n, i) := ri_digits (dc_d a) 0 (dc_dp a) 0 in
    let n := ri_zeros 20 i (dc_dp a) n in
    if shouldRoundUp a (dc_dp a) then w64 (n + 1) else n.

(** ** floatBits, flt = float64info = {mantbits 52, expbits 11, bias -1023} *)
Definition powtab : list Z := [1; 3; 6; 9; 13; 16; 19; 23; 26].
Definition flt_mantbits : Z := 52.
Definition flt_expbits : Z := 11.
Definition flt_bias : Z := -1023.

(** [if x >= len(powtab) { n = 27 } else { n = powtab[x] }], x >= 0 *)
Definition pow_step (x : Z) : Z :=
  if Z.of_nat (length powtab) <=? x then 27 else nth (Z.to_nat x) powtab 0.

(** [for d.dp > 0 { ...; d.Shift(-n); exp += n }] *)
Fixpoint fb_down (fuel : nat) (a : decimal) (exp : Z) : option (decimal * Z) :=
  if 0 <? dc_dp a then
    match fuel with
    | O => None
    | S f => let n := pow_step (dc_dp a) in
             match shift a (- n) with
             | Some a' => fb_down f a' (exp + n)
             | None => None
             end
    end
  else Some (a, exp).

(** [for d.dp < 0 || d.dp == 0 && d.d[0] < '5' { ...; d.Shift(n); exp -= n }] *)
Fixpoint fb_up (fuel : nat) (a : decimal) (exp : Z) : option (decimal * Z) :=
  let more : option bool :=
    if dc_dp a <? 0 then Some true
    else if dc_dp a =? 0 then
      match dc_d a with
      | d0 :: _ => Some (d0 <? 5)
      | [] => None                          (* d.d[0] beyond nd: not tracked *)
      end
    else Some false in
  match more with
  | None => None
  | Some false => Some (a, exp)
  | Some true =>
      match fuel with
      | O => None
      | S f => let n := pow_step (- dc_dp a) in
               match shift a n with
               | Some a' => fb_up f a' (exp - n)
               | None => None
               end
      end
  end.

(** "Assemble bits" *)
Definition fb_assemble (mant exp : Z) (neg : bool) : Z :=
  let bits := Z.land mant (w64 (Z.shiftl 1 flt_mantbits) - 1) in
  let bits := Z.lor bits (w64 (Z.shiftl (w64 (Z.land (exp - flt_bias) (Z.shiftl 1 flt_expbits - 1))) flt_mantbits)) in
  if neg then Z.lor bits (Z.shiftl (Z.shiftl 1 flt_mantbits) flt_expbits) else bits.

Definition fb_overflow (neg : bool) : Z * bool :=
  (fb_assemble 0 (Z.shiftl 1 flt_expbits - 1 + flt_bias) neg, true).

(** the loops are entered with dp in -330..310, one iteration at least halves or
    doubles the number: 2000 iterations are never reached (Proofs/DecimalFloatBits.v) *)
Definition fb_fuel : nat := 2000.

Definition floatBits (a : decimal) : option (Z * bool) :=
  let neg := dc_neg a in
  if dc_nd a =? 0 then Some (fb_assemble 0 flt_bias neg, false)
  else if 310 <? dc_dp a then Some (fb_overflow neg)
  else if dc_dp a <? -330 then Some (fb_assemble 0 flt_bias neg, false)
  else
    match fb_down fb_fuel a 0 with
    | None => None
    | Some (a, exp) =>
    match fb_up fb_fuel a exp with
    | None => None
    | Some (a, exp) =>
        let exp := exp - 1 in
        let step3 : option (decimal * Z) :=
          if exp <? flt_bias + 1 then
            let n := flt_bias + 1 - exp in
            match shift a (- n) with Some a' => Some (a', exp + n) | None => None end
          else Some (a, exp) in
        match step3 with
        | None => None
        | Some (a, exp) =>
            if Z.shiftl 1 flt_expbits - 1 <=? exp - flt_bias then Some (fb_overflow neg)
            else
              match shift a (1 + flt_mantbits) with
              | None => None
              | Some a =>
                  let mant := roundedInteger a in
                  let '(mant, exp, ovf) :=
                    if mant =? Z.shiftl 2 flt_mantbits then
                      (Z.shiftr mant 1, exp + 1, Z.shiftl 1 flt_expbits - 1 <=? exp + 1 - flt_bias)
                    else (mant, exp, false) in
                  if ovf then Some (fb_overflow neg)
                  else
                    let exp := if Z.land mant (Z.shiftl 1 flt_mantbits) =? 0 then flt_bias else exp in
                    Some (fb_assemble mant exp neg, false)
              end
        end
    end
    end.

(** ** the slow path of atof64 with the transcribed conversion *)
Definition decimal_of_dec (d : dec) : decimal :=
  mkDecimal (digs (rev (d_digs d))) (d_dp d) (d_neg d) (d_trunc d).

(** [None] of the transcription (never: see above) is reported as a NaN with
    [ErrOther], which no run of the real code produces *)
Definition dec_float_bits_code (d : dec) : fres :=
  match floatBits (decimal_of_dec d) with
  | Some (b, ovf) => (b64_of_bits b, if ovf then ErrRange else ErrNone)
  | None => (S754_nan, ErrOther)
  end.

(** atof64 / ParseFloat(s, 64) as in Model/Atof.v, the slow fall-back being the
    transcribed [floatBits] instead of its specification *)
Definition atof64_code (s : bytes) : fres :=
  match special s with
  | Some v => (v, ErrNone)
  | None =>
      let slow (_ : unit) : fres :=
        match dec_set s with
        | None => (b64_zero, ErrSyntax)
        | Some d => dec_float_bits_code d
        end in
      match read_float s with
      | Some r =>
          if r_hex r then atof_hex (r_mant r) (r_exp r) (r_neg r) (r_trunc r)
          else if r_trunc r then slow tt
          else match atof64exact (r_mant r) (r_exp r) (r_neg r) with
               | Some f => (f, ErrNone)
               | None => slow tt
               end
      | None => slow tt
      end
  end.

Definition parse_float_code (s : bytes) : fres :=
  if negb (underscoreOK s) then (b64_zero, ErrSyntax) else atof64_code s.

(** the slow conversion alone, on a text that reaches it *)
Definition slow_bits_code (s : bytes) : option fres :=
  match dec_set s with Some d => Some (dec_float_bits_code d) | None => None end.

Example decimal_examples :
  parse_float_code (bs "0.1") = (b64_of_bits 0x3FB999999999999A, ErrNone) /\
  slow_bits_code (bs "0.1") = Some (b64_of_bits 0x3FB999999999999A, ErrNone) /\
  slow_bits_code (bs "1.00000000000000011102230246251565404236316680908203125") = Some (b64_of_bits 0x3FF0000000000000, ErrNone) /\
  slow_bits_code (bs "1.00000000000000011102230246251565404236316680908203126") = Some (b64_of_bits 0x3FF0000000000001, ErrNone) /\
  slow_bits_code (bs "1.7976931348623158e308") = Some (b64_of_bits 0x7FEFFFFFFFFFFFFF, ErrNone) /\
  slow_bits_code (bs "1.797693134862315808e308") = Some (S754_infinity false, ErrRange) /\
  slow_bits_code (bs "-1e400") = Some (S754_infinity true, ErrRange) /\
  slow_bits_code (bs "4.9e-324") = Some (b64_of_bits 1, ErrNone) /\
  slow_bits_code (bs "2.4703282292062327e-324") = Some (b64_of_bits 0, ErrNone) /\
  slow_bits_code (bs "2.4703282292062328e-324") = Some (b64_of_bits 1, ErrNone) /\
  slow_bits_code (bs "-0") = Some (S754_zero true, ErrNone) /\
  slow_bits_code (bs "9007199254740993") = Some (b64_of_bits 0x4340000000000000, ErrNone) /\
  slow_bits_code (bs "2.2250738585072011e-308") = Some (b64_of_bits 0x000FFFFFFFFFFFFF, ErrNone) /\
  leftShift (mkDecimal [6;2;5] 0 false false) 4 = Some (mkDecimal [1] 2 false false) /\
  leftShift (mkDecimal [6;2;4;9] 0 false false) 4 = Some (mkDecimal [9;9;9;8;4] 1 false false) /\
  rightShift (mkDecimal [1] 1 false false) 4 = Some (mkDecimal [6;2;5] (-1) false false) /\
  roundedInteger (mkDecimal [2;5] 1 false false) = 2 /\
  roundedInteger (mkDecimal [2;5] 1 false true) = 3 /\
  roundedInteger (mkDecimal [3;5] 1 false false) = 4 /\
  round (mkDecimal [9;9;9;5] 2 false false) 3 = mkDecimal [1] 3 false false /\
  assign (mkDecimal [] 0 false false) 1234500 = mkDecimal [1;2;3;4;5] 7 false false.
Proof. vm_compute. repeat split. Qed.
