(** Model of benchfmt.Name: splitGomaxprocs, Parts, Base (benchfmt/result.go). *)
From Perf Require Import Base.Bytes.

Definition c_slash : byte := x2f.
Definition c_dash  : byte := x2d.
Definition c_eq    : byte := x3d.
Definition c_star  : byte := x2a.

Definition is_nil {A} (l : list A) : bool := match l with [] => true | _ => false end.

(** [gmp_scan r suffix]: the backwards loop of splitGomaxprocs. [r] is the
    not-yet-scanned prefix of the name, reversed; [suffix] what was scanned. *)
Fixpoint gmp_scan (r suffix : bytes) : option (bytes * bytes) :=
  match r with
  | [] => None
  | c :: r' =>
      if Byte.eqb c c_dash && negb (is_nil suffix) then Some (rev r', c :: suffix)
      else if is_digit c then gmp_scan r' (c :: suffix)
      else None
  end.

Definition split_gmp (n : bytes) : bytes * option bytes :=
  match gmp_scan (rev n) [] with
  | Some (p, g) => (p, Some g)
  | None => (n, None)
  end.

(** The '/'-splitting loop of Parts: returns first piece and the later pieces,
    each later piece beginning with its '/'. *)
Fixpoint split_slash (buf : bytes) : bytes * list bytes :=
  match buf with
  | [] => ([], [])
  | c :: r =>
      let '(p0, ps) := split_slash r in
      if Byte.eqb c c_slash then ([], (c :: p0) :: ps) else (c :: p0, ps)
  end.

Definition opt_list {A} (o : option A) : list A :=
  match o with Some x => [x] | None => [] end.

Definition parts (n : bytes) : bytes * list bytes :=
  let '(buf, g) := split_gmp n in
  let '(b, ps) := split_slash buf in
  (b, ps ++ opt_list g).

Definition base (n : bytes) : bytes :=
  match index_byte n c_slash with
  | Some i => firstn i n
  | None => fst (split_gmp n)
  end.

Definition full (n : bytes) : bytes := n.
