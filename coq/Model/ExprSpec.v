(** Declarative side of C07 for the two clauses the judge used to read off the
    code: which unquoted words the DOCUMENTATION promises to work, and what the
    property says about regexps.  Nothing here looks at the tokenizer.

    1. Unquoted words.  The package documentation benchproc/syntax gives

         bareWord = [^F][^R]*

       The harness reads the two character classes F and R from the
       documentation of the tree under test and hands them over as data
       ([docsyn]); a class may name single characters and the escape
       backslash-s, white space ([d_first_sp] / [d_rest_sp]).  "An unquoted
       word works whenever it contains none of the documented special
       characters": the word [w] is promised to work when its first character
       is in neither class and no later character is in R ([doc_bare]).  The
       two things the grammar itself takes away from words are kept out: the
       keywords AND / OR, and a value that starts with a slash (that is the
       production "/" regexp "/").

    2. Regexps.  The property asks that an unterminated regexp is rejected and
       that an accepted expression denotes what was written; it does not say
       how the end of a regexp is found among several candidate slashes.
       [re_unterminated s] holds for the texts [s] after an opening slash on
       which every reading agrees that no delimiter follows: [s] holds no slash
       at all, or every slash of [s] is escaped (an odd number of backslashes
       right in front of it) and [s] holds no backslash-Q (inside such a
       literal section a backslash is an ordinary character, so a reader that
       honours literal sections may see a delimiter there).  [re_delimited s e]
       says that the regexp value [e] is the text between its delimiters: [s]
       is [e], a slash, and something. *)
From Perf Require Import Base.Bytes Base.Rune Model.Unquote Model.Tok.

Record docsyn := mkDoc {
  d_first : list N;      (* characters named in the first class *)
  d_first_sp : bool;     (* the first class names white space *)
  d_rest : list N;       (* characters named in the second class *)
  d_rest_sp : bool       (* the second class names white space *)
}.

Section Bare.
Variable is_space : N -> bool.   (* what the documentation calls white space *)

Definition in_class (l : list N) (sp : bool) (r : N) : bool :=
  existsb (N.eqb r) l || (sp && is_space r).

(** special anywhere in a word / special at its beginning *)
Definition doc_special_rest (d : docsyn) (r : N) : bool := in_class (d_rest d) (d_rest_sp d) r.
Definition doc_special_first (d : docsyn) (r : N) : bool :=
  in_class (d_first d) (d_first_sp d) r || doc_special_rest d r.

(** the characters of [w] (runes as Go's range-over-string decodes them, an
    invalid byte being one character), none of them special; [skip] = bytes of
    the current character still to pass *)
Fixpoint doc_chars_ok (d : docsyn) (w : bytes) (skip : nat) (first : bool) : bool :=
  match w with
  | [] => true
  | _ :: w' =>
      match skip with
      | S k => doc_chars_ok d w' k first
      | O => let '(r, size) := decode_rune w in
             negb (if first then doc_special_first d r else doc_special_rest d r)
             && doc_chars_ok d w' (size - 1) false
      end
  end.

Definition doc_bare (d : docsyn) (value : bool) (w : bytes) : bool :=
  match w with
  | [] => false
  | c :: _ =>
      negb (value && Byte.eqb c c_fslash)
      && negb (beq w word_AND) && negb (beq w word_OR)
      && doc_chars_ok d w 0 true
  end.
End Bare.

(** the two classes as the documentation of golang/perf had them (only the
    blank ends a word) and as the repaired documentation has them *)
Definition doc_pinned : docsyn :=
  mkDoc [45; 42; 34; 40; 41; 58; 64; 44]%N false [32; 40; 41; 58; 64; 44]%N false.
Definition doc_repaired : docsyn :=
  mkDoc [45; 42; 34; 40; 41; 58; 64; 44]%N true [40; 41; 58; 64; 44]%N true.

(** ** regexps *)

(** backslashes at the head of a list; applied to a reversed prefix: the run of
    backslashes right in front of a position *)
Fixpoint lead_bslashes (l : bytes) : nat :=
  match l with
  | c :: l' => if Byte.eqb c c_bslash then S (lead_bslashes l') else O
  | [] => O
  end.

Definition escaped_at (s : bytes) (i : nat) : bool :=
  Nat.odd (lead_bslashes (rev (firstn i s))).

Definition is_slash_at (s : bytes) (i : nat) : bool :=
  match nth_error s i with Some c => Byte.eqb c c_fslash | None => false end.

Definition every_slash_escaped (s : bytes) : bool :=
  forallb (fun i => negb (is_slash_at s i) || escaped_at s i) (seq 0 (length s)).

(** a backslash directly followed by Q *)
Fixpoint has_literal_section (s : bytes) : bool :=
  match s with
  | c :: ((d :: _) as s') => (Byte.eqb c c_bslash && Byte.eqb d x51) || has_literal_section s'
  | _ => false
  end.

Definition re_unterminated (s : bytes) : bool :=
  negb (existsb (Byte.eqb c_fslash) s)
  || (negb (has_literal_section s) && every_slash_escaped s).

Definition re_delimited (s e : bytes) : bool :=
  beq (firstn (length e) s) e && is_slash_at s (length e).
