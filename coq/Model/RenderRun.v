(** A whole benchstat run: Tables.ToText / Tables.ToCSV (builder.go printTables)
    on top of Model/Render.v.

    Part C (model): the table-key header lines printTables hands to [hdr]
            ("name: value" for every non-.unit field of the table key when it is
            the first table or the value differs from the previous table's,
            INCLUDING a change to the empty value), the item stream
            (blank separator, header lines, table) of a run.
    Part D (specification predicate on OBSERVED renderings of a run, reading
            only the two outputs, the warning stream and what the in-process
            Tables report: table keys and the abstract tables):
            - both renderings consist of one chunk per table, separated by blank
              lines / blank records (every output line of the CSV is one
              spreadsheet row);
            - the table key reconstructed from the header lines accumulated over
              the preceding chunks equals the reported key (text AND CSV);
            - each table's text agrees with its CSV records cell by cell, the
              warnings of the stream being looked up at the spreadsheet row the
              record REALLY has in the whole CSV output (Render.text_csv_ok
              with start = observed position);
            - every warning line references a cell of some table; for every
              warning the Tables report there is a line naming exactly the CSV
              cell that holds the value the warning belongs to, and no others;
            - footnote numbers of a text table are pairwise distinct. *)
From Perf Require Import Base.Bytes Model.Runes Model.TextTab Model.KeyHeader Model.Render.
Local Open Scope nat_scope.

(* ------------------------------------------------------------------ *)
(** * Part C: printTables *)

Definition unit_field : bytes := bs ".unit".

(** header lines printed before a table whose key has the values [key] (one per
    flattened field of the table projection, [fields] = their names); [prev] =
    the previous table's key, [first] = prevKey.IsZero() *)
Fixpoint key_lines (first : bool) (fields : list bytes) (prev key : list bytes) : list bytes :=
  match fields, key with
  | f :: fs, v :: vs =>
      let pv := match prev with p :: _ => p | [] => [] end in
      let rest := key_lines first fs (tl prev) vs in
      if beq f unit_field then rest
      else if first || negb (beq v pv) then (f ++ bs ": " ++ v) :: rest else rest
  | _, _ => []
  end.

(** per table: the header lines printed before it (without the blank separator) *)
Fixpoint run_hdrs (first : bool) (fields : list bytes) (prev : list bytes) (keys : list (list bytes)) : list (list bytes) :=
  match keys with
  | [] => []
  | k :: r => key_lines first fields prev k :: run_hdrs false fields k r
  end.

(** the input of Render.csv_tables_model for a run *)
Definition run_tabs (fields : list bytes) (tabs : list (list bytes * rtable)) : list (list bytes * rtable) :=
  combine (run_hdrs true fields [] (map fst tabs)) (map snd tabs).

(* ------------------------------------------------------------------ *)
(** * Part D: the observed renderings of a run *)

(** split at separator elements; always at least one chunk *)
Fixpoint split_at {A} (is_sep : A -> bool) (cur : list A) (l : list A) : list (list A) :=
  match l with
  | [] => [rev cur]
  | x :: r => if is_sep x then rev cur :: split_at is_sep [] r else split_at is_sep (x :: cur) r
  end.

Definition blank_rec (r : list bytes) : bool := match r with [] | [[]] => true | _ => false end.

(** 1-based position of the first element of every chunk in the unsplit list *)
Fixpoint chunk_starts {A} (pos : nat) (chunks : list (list A)) : list nat :=
  match chunks with
  | [] => []
  | c :: r => pos :: chunk_starts (pos + length c + 1) r
  end.

(** "name: value" *)
Fixpoint parse_hdr_go (name : bytes) (l : bytes) : option (bytes * bytes) :=
  match l with
  | c :: ((s :: v) as r) => if Byte.eqb c x3a && Byte.eqb s sp then Some (rev name, v) else parse_hdr_go (c :: name) r
  | _ => None
  end.
Definition parse_hdr (l : bytes) : option (bytes * bytes) := parse_hdr_go [] l.

(** the reader's heading state: last value printed per name; never printed = unset = empty *)
Definition hdr_set (st : list (bytes * bytes)) (h : bytes * bytes) : list (bytes * bytes) :=
  h :: filter (fun e => negb (beq (fst e) (fst h))) st.
Definition hdr_get (st : list (bytes * bytes)) (name : bytes) : bytes :=
  match find (fun e => beq (fst e) name) st with Some e => snd e | None => [] end.

(** [key] is exactly what a reader holds after the header lines [hs] on top of
    state [st]: every printed name is a (non-.unit) field of the table key, and
    every such field's accumulated value is the key's value. Returns the new state. *)
Definition key_shown (fields : list bytes) (key : list bytes) (st : list (bytes * bytes)) (hs : list bytes)
  : option (list (bytes * bytes)) :=
  match omap' parse_hdr hs with
  | None => None
  | Some ps =>
      let st' := fold_left hdr_set ps st in
      if forallb (fun p => negb (beq (fst p) unit_field) && existsb (beq (fst p)) fields) ps
         && (length key =? length fields)
         && forallb (fun '(f, v) => beq f unit_field || beq (hdr_get st' f) v) (combine fields key)
      then Some st' else None
  end.

Definition key_unit (fields key : list bytes) : option bytes :=
  match find (fun '(f, _) => beq f unit_field) (combine fields key) with Some (_, v) => Some v | None => None end.

(** one observed table chunk: text lines and CSV records, the CSV chunk starting at spreadsheet row [cstart] *)
Definition text_head (lines : list bytes) : nat := count_prefix (fun l => negb (ends_bar (runes l))) lines.
Definition csv_head (recs : list (list bytes)) : nat := count_prefix (fun r => length r <=? 1) recs.

Definition join_nl (lines : list bytes) : bytes := flat_map (fun l => l ++ [x0a]) lines.

(** footnote list of a table text (same segmentation as Render.text_csv_ok) *)
Definition table_foot (relax : bool) (tlines : list bytes) (nrecs : nat) : option (list (nat * bytes)) :=
  let rl := map runes tlines in
  let nhdr := count_prefix ends_bar rl in
  let nrows := nrecs - nhdr - 1 in
  let ntab := nhdr + nrows + (if (if relax then 1 <? nrows else true) then 1 else 0) in
  omap' parse_footer (skipn ntab rl).

Fixpoint nodupb (l : list nat) : bool :=
  match l with [] => true | x :: r => negb (existsb (Nat.eqb x) r) && nodupb r end.

(** a located table of the run: first spreadsheet row, its records *)
Record tblock := mkTB { tb_start : nat; tb_recs : list (list bytes); tb_abs : rtable }.

(** warnings the in-process table reports: (record offset within the table,
    CSV column, the value that cell must hold, message) *)
Definition exp_cell_warns (off : nat) (cells : list (option rcell)) : list (nat * nat * bytes * bytes) :=
  flat_map (fun '(e, oc) =>
      match oc with
      | None => []
      | Some c =>
          map (fun m => (off, csv_start e, rc_csv c, m)) (rc_swarn c ++ rc_mwarn c)
          ++ match (if e =? 0 then None else rc_cmp c) with
             | Some cm => map (fun m => (off, csv_start e + 2, cm_delta cm, m)) (cm_warn cm)
             | None => []
             end
      end) (combine (seq 0 (length cells)) cells).
Definition exp_sum_warns (off : nat) (sums : list (option rsum)) : list (nat * nat * bytes * bytes) :=
  flat_map (fun '(e, os) =>
      match os with
      | None => []
      | Some s => map (fun m => (off, csv_start e, (if rs_has s then rs_csv s else []), m)) (rs_warn s)
      end) (combine (seq 0 (length sums)) sums).
Definition exp_warns (t : rtable) : list (nat * nat * bytes * bytes) :=
  let nh := S (rt_nf t) in
  flat_map (fun '(i, (_, cells)) => exp_cell_warns (nh + i) cells) (combine (seq 0 (length (rt_rows t))) (rt_rows t))
  ++ exp_sum_warns (nh + length (rt_rows t)) (rt_sums t).

Definition wl_eqb (w : bytes * nat * bytes) (ref : bytes) (row : nat) (msg : bytes) : bool :=
  let '(r, n, m) := w in beq r ref && (n =? row) && beq m msg.

(** every reported warning has its line, naming the cell where the value really is *)
Definition block_warns_shown (ws : list (bytes * nat * bytes)) (b : tblock) : bool :=
  forallb (fun '(off, col, val, msg) =>
      beq (field (nth off (tb_recs b) []) col) val
      && existsb (fun w => wl_eqb w (sheet_col col) (tb_start b + off) msg) ws) (exp_warns (tb_abs b)).
(** every line of the stream is a reported warning of the cell it names *)
Definition wline_reported (blocks : list tblock) (w : bytes * nat * bytes) : bool :=
  let '(ref, row, msg) := w in
  existsb (fun b =>
      (tb_start b <=? row) && (row <? tb_start b + length (tb_recs b))
      && existsb (fun '(off, col, _, m) => (tb_start b + off =? row) && beq (sheet_col col) ref && beq m msg)
                 (exp_warns (tb_abs b))) blocks.

Definition in_block (b : tblock) (w : bytes * nat * bytes) : bool :=
  let row := snd (fst w) in (tb_start b <=? row) && (row <? tb_start b + length (tb_recs b)).

(** the chunks of one table *)
Fixpoint run_chunks_ok (relax : bool) (fields : list bytes) (tabs : list (list bytes * rtable))
         (tchunks : list (list bytes)) (cchunks : list (list (list bytes))) (cstarts : list nat)
         (st_t st_c : list (bytes * bytes)) (wraw : list bytes) : option (list tblock) :=
  match tabs, tchunks, cchunks, cstarts with
  | [], [], [], _ => Some []
  | (key, abs) :: tabs', tc :: tchunks', cr :: cchunks', cs :: cstarts' =>
      let nt := text_head tc in
      let nc := csv_head cr in
      let tlines := skipn nt tc in
      let trecs := skipn nc cr in
      let start := cs + nc in
      match key_shown fields key st_t (firstn nt tc), key_shown fields key st_c (firstn nc (map (fun r => nth 0 r []) cr)) with
      | Some st_t', Some st_c' =>
          let b := mkTB start trecs abs in
          let mine := filter (fun raw => match parse_wline raw with Some w => in_block b w | None => false end) wraw in
          let nhdr := count_prefix ends_bar (map runes tlines) in
          if text_csv_ok_gen relax start (join_nl tlines) trecs (join_nl mine)
             && match key_unit fields key with
                | Some u => beq u (field (nth (nhdr - 1) trecs []) 1)
                | None => true
                end
             && match table_foot relax tlines (length trecs) with
                | Some foot => nodupb (map fst foot)
                | None => false
                end
          then option_map (cons b) (run_chunks_ok relax fields tabs' tchunks' cchunks' cstarts' st_t' st_c' wraw)
          else None
      | _, _ => None
      end
  | _, _, _, _ => None
  end.

Definition run_ok_gen (relax : bool) (fields : list bytes) (tabs : list (list bytes * rtable))
           (text : bytes) (recs : list (list bytes)) (warns : bytes) : bool :=
  match tabs with
  | [] => knil recs && knil (split_nl [] text) && knil (split_nl [] warns)
  | _ =>
      let tchunks := split_at (fun l : bytes => knil l) [] (split_nl [] text) in
      let cchunks := split_at blank_rec [] recs in
      let wraw := split_nl [] warns in
      match omap' parse_wline wraw, run_chunks_ok relax fields tabs tchunks cchunks (chunk_starts 1 cchunks) [] [] wraw with
      | Some ws, Some blocks =>
          forallb (block_warns_shown ws) blocks
          && forallb (wline_reported blocks) ws
          && (length ws =? fold_left (fun a b => a + length (exp_warns (tb_abs b))) blocks 0)
      | _, _ => false
      end
  end.

(** [run_ok]: what the property says; [run_ok_gen true]: the same, except that a
    table of fewer than two rows may lack, in the text, the summary record the
    CSV has (known finding C16_csv_summary_one_row) *)
Definition run_ok := run_ok_gen false.
