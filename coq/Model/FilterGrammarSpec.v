(** The DOCUMENTED grammar of filter expressions and the tree it gives a text
    - independent of the recursive-descent parser of
    benchproc/internal/parse/filter.go and of its model Model/FilterParse.v.

    "go doc golang.org/x/perf/benchproc/syntax", Precise syntax:

        expr     = andExpr {"OR" andExpr}
        andExpr  = match {"AND"? match}
        match    = "(" expr ")"
                 | "-" match
                 | "*"
                 | key ":" value
                 | key ":" "(" value {"OR" value} ")"

    and its meaning: "x y ... - Match if x, y, etc. all match.  x AND y - Same
    as x y.  x OR y - Match if x or y match.  -x - Match if x does not match.
    (...) - Subexpression.  key:(val1 OR val2 OR ...) - Short-hand for
    key:val1 OR key:val2.  * - Match everything."

    So AND (juxtaposition) binds tighter than OR because an OR-operand is an
    andExpr, and '-' applies to ONE match.  The relations below are that
    grammar, production by production, each with the tree it denotes: several
    operands of OR / AND give [FOr] / [FAnd] of the operands' trees, a single
    operand is its own tree, '*' is the empty conjunction, a value list is the
    disjunction of its key:value terms.  No production looks ahead, none has a
    priority over another: which of them apply is decided only by the whole
    text having to be derived ([derives]).

    Lexical layer: [rd v q] reads ONE token of the text [q] with the tokenizer
    of Model/Tok.v (C07's subject; [v] = the position is a value position, where
    /regexp/ is a token) and fails if the tokenizer reports an error. *)
From Perf Require Import Base.Bytes Base.Rune Model.Unquote Model.Tok Model.FilterAst.

Section Grammar.
Variable is_space : N -> bool.
Variable re_ok : bytes -> bool.
Variable n0 : nat.                      (* length of the whole text: offsets *)

Definition rd (v : bool) (q : bytes) : option (tok * bytes) :=
  let '(t, rest, _, e) := next is_space re_ok n0 v q None in
  match e with None => Some (t, rest) | Some _ => None end.

Definition is_op (c : byte) (t : tok) : bool := kind_eqb_op (t_kind t) c.
Definition is_or (t : tok) : bool := match t_kind t with KOr => true | _ => false end.
Definition is_and (t : tok) : bool := match t_kind t with KAnd => true | _ => false end.
Definition is_eof (t : tok) : bool := match t_kind t with KEOF => true | _ => false end.

(** key:value - an exact match, or a regular expression match for /regexp/ *)
Definition val_tree (off : nat) (key : bytes) (v : tok) : filter :=
  match t_kind v with
  | KRegexp => FMatch key (MRe (t_text v)) off
  | _ => FMatch key (MLit (t_text v)) off
  end.

(** one operand is its own tree; several are combined *)
Definition combine_with (c : list filter -> filter) (ts : list filter) : filter :=
  match ts with [t] => t | _ => c ts end.

Inductive g_expr : bytes -> filter -> bytes -> Prop :=
| G_expr : forall q ts q', g_ors q ts q' -> g_expr q (combine_with FOr ts) q'
(** andExpr {"OR" andExpr} *)
with g_ors : bytes -> list filter -> bytes -> Prop :=
| G_ors1 : forall q t q', g_and q t q' -> g_ors q [t] q'
| G_orsS : forall q t q1 o q2 ts q',
    g_and q t q1 -> rd false q1 = Some (o, q2) -> is_or o = true -> g_ors q2 ts q' ->
    g_ors q (t :: ts) q'
with g_and : bytes -> filter -> bytes -> Prop :=
| G_and : forall q ts q', g_ms q ts q' -> g_and q (combine_with FAnd ts) q'
(** match {"AND"? match} *)
with g_ms : bytes -> list filter -> bytes -> Prop :=
| G_ms1 : forall q t q', g_match q t q' -> g_ms q [t] q'
| G_msJ : forall q t q1 ts q', g_match q t q1 -> g_ms q1 ts q' -> g_ms q (t :: ts) q'
| G_msA : forall q t q1 o q2 ts q',
    g_match q t q1 -> rd false q1 = Some (o, q2) -> is_and o = true -> g_ms q2 ts q' ->
    g_ms q (t :: ts) q'
with g_match : bytes -> filter -> bytes -> Prop :=
| G_par : forall q o q1 f q2 c q',
    rd false q = Some (o, q1) -> is_op c_lpar o = true -> g_expr q1 f q2 ->
    rd false q2 = Some (c, q') -> is_op c_rpar c = true -> g_match q f q'
| G_not : forall q o q1 f q',
    rd false q = Some (o, q1) -> is_op c_minus o = true -> g_match q1 f q' -> g_match q (FNot f) q'
| G_star : forall q o q',
    rd false q = Some (o, q') -> is_op c_aster o = true -> g_match q (FAnd []) q'
| G_kv : forall q k q1 c q2 v q',
    rd false q = Some (k, q1) -> is_word (t_kind k) = true ->
    rd false q1 = Some (c, q2) -> is_op c_colon c = true ->
    rd true q2 = Some (v, q') -> is_value (t_kind v) = true ->
    g_match q (val_tree (t_off k) (t_text k) v) q'
| G_kvs : forall q k q1 c q2 p q3 ms q',
    rd false q = Some (k, q1) -> is_word (t_kind k) = true ->
    rd false q1 = Some (c, q2) -> is_op c_colon c = true ->
    rd true q2 = Some (p, q3) -> is_op c_lpar p = true ->
    g_vals (t_off k) (t_text k) q3 ms q' -> g_match q (FOr ms) q'
(** value {"OR" value} ")" *)
with g_vals : nat -> bytes -> bytes -> list filter -> bytes -> Prop :=
| G_vals1 : forall off key q v q1 c q',
    rd true q = Some (v, q1) -> is_value (t_kind v) = true ->
    rd true q1 = Some (c, q') -> is_op c_rpar c = true ->
    g_vals off key q [val_tree off key v] q'
| G_valsS : forall off key q v q1 o q2 ms q',
    rd true q = Some (v, q1) -> is_value (t_kind v) = true ->
    rd true q1 = Some (o, q2) -> is_or o = true -> g_vals off key q2 ms q' ->
    g_vals off key q (val_tree off key v :: ms) q'.

(** the text [q] as a whole is an expr with tree [f] *)
Definition derives (q : bytes) (f : filter) : Prop :=
  exists q' t r, g_expr q f q' /\ rd false q' = Some (t, r) /\ is_eof t = true.

(** ** recogniser: all ways of deriving a GIVEN tree from a prefix of the text
    (list of the remaining texts), the grammar read production by production;
    [n] bounds the depth of the derivation *)
Definition after (v : bool) (p : tok -> bool) (q : bytes) : list bytes :=
  match rd v q with Some (t, q') => if p t then [q'] else [] | None => [] end.

Fixpoint r_expr (n : nat) (f : filter) (q : bytes) {struct n} : list bytes :=
  match n with
  | O => []
  | S m =>
      r_ors m [f] q
      ++ match f with FOr ((_ :: _ :: _) as ts) => r_ors m ts q | _ => [] end
  end
with r_ors (n : nat) (ts : list filter) (q : bytes) {struct n} : list bytes :=
  match n with
  | O => []
  | S m =>
      match ts with
      | [] => []
      | [t] => r_and m t q
      | t :: ts' => flat_map (fun q1 => flat_map (r_ors m ts') (after false is_or q1)) (r_and m t q)
      end
  end
with r_and (n : nat) (f : filter) (q : bytes) {struct n} : list bytes :=
  match n with
  | O => []
  | S m =>
      r_ms m [f] q
      ++ match f with FAnd ((_ :: _ :: _) as ts) => r_ms m ts q | _ => [] end
  end
with r_ms (n : nat) (ts : list filter) (q : bytes) {struct n} : list bytes :=
  match n with
  | O => []
  | S m =>
      match ts with
      | [] => []
      | [t] => r_match m t q
      | t :: ts' =>
          flat_map (fun q1 => r_ms m ts' q1 ++ flat_map (r_ms m ts') (after false is_and q1))
                   (r_match m t q)
      end
  end
with r_match (n : nat) (f : filter) (q : bytes) {struct n} : list bytes :=
  match n with
  | O => []
  | S m =>
      (* "(" expr ")" *)
      flat_map (fun q1 => flat_map (after false (is_op c_rpar)) (r_expr m f q1)) (after false (is_op c_lpar) q)
      (* "-" match *)
      ++ match f with FNot g => flat_map (r_match m g) (after false (is_op c_minus) q) | _ => [] end
      (* "*" *)
      ++ match f with FAnd [] => after false (is_op c_aster) q | _ => [] end
      (* key ":" value  and  key ":" "(" value {"OR" value} ")" *)
      ++ match rd false q with
         | Some (k, q1) =>
             if is_word (t_kind k) then
               flat_map (fun q2 =>
                 match rd true q2 with
                 | Some (v, q3) =>
                     (if is_value (t_kind v) && filter_eqb f (val_tree (t_off k) (t_text k) v) then [q3] else [])
                     ++ (if is_op c_lpar v
                         then match f with FOr ms => r_vals m (t_off k) (t_text k) ms q3 | _ => [] end
                         else [])
                 | None => []
                 end) (after false (is_op c_colon) q1)
             else []
         | None => []
         end
  end
with r_vals (n : nat) (off : nat) (key : bytes) (ms : list filter) (q : bytes) {struct n} : list bytes :=
  match n with
  | O => []
  | S m =>
      match ms with
      | [] => []
      | mt :: ms' =>
          match rd true q with
          | Some (v, q1) =>
              if is_value (t_kind v) && filter_eqb mt (val_tree off key v) then
                match ms' with
                | [] => after true (is_op c_rpar) q1
                | _ => flat_map (r_vals m off key ms') (after true is_or q1)
                end
              else []
          | None => []
          end
      end
  end.

Definition at_end (q : bytes) : bool :=
  match after false is_eof q with [] => false | _ => true end.

End Grammar.

(** [f] is a tree the documented grammar gives the whole text [q] *)
Definition grammar_fuel (q : bytes) : nat := 8 * length q + 16.
Definition grammar_ok (is_space : N -> bool) (re_ok : bytes -> bool) (q : bytes) (f : filter) : bool :=
  existsb (at_end is_space re_ok (length q))
          (r_expr is_space re_ok (length q) (grammar_fuel q) f q).
