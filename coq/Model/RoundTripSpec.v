(** What the Go benchmark FORMAT can carry, stated on the records (declarative:
    nothing here runs the writer or the reader).  Used by the judge of C01.

    The property demands that every record written comes back unchanged.  The
    line-oriented format cannot express some records that the API can build;
    each such class is a recorded known finding of C01, and the functions below
    say, per class, exactly what comes back instead (the judge [known_ok] of
    Corr/RunC01.v allows that and nothing else):

    - a file value is carried on one line after "key: ": what is read back is
      the part before the first LF, without one final CR, without leading
      blanks/tabs ([carried_value]); if nothing is left the key is absent;
    - the text after the first LF of a value stands on lines of its own
      ([value_rest_lines]); a line "key: value" among them sets that key
      ([injected_of_line]);
    - a file key that is not a key of the format ([key_expressible]) is not read;
    - a result with white space in its name or without measurements
      ([res_expressible]) is read back as a syntax error;
    - the length of the benchmark line as printed ([bench_line_len]) decides
      whether the reader's 64 KiB scanner can read it. *)
From Perf Require Import Base.Bytes Base.B64 Base.Utf8 Model.Name Model.Extract Model.Units Model.Reader.
Local Open Scope N_scope.

(** ** values *)
Fixpoint cut_lf (v : bytes) : bytes * option bytes :=
  match v with
  | [] => ([], None)
  | c :: v' => if Byte.eqb c x0a then ([], Some v')
               else let '(a, r) := cut_lf v' in (c :: a, r)
  end.

Definition drop_final_cr (s : bytes) : bytes :=
  match rev s with
  | c :: r => if Byte.eqb c x0d then rev r else s
  | [] => []
  end.

Fixpoint drop_blanks (v : bytes) : bytes :=
  match v with
  | c :: v' => if Byte.eqb c x20 || Byte.eqb c x09 then drop_blanks v' else v
  | [] => []
  end.

Definition carried_value (v : bytes) : bytes := drop_blanks (drop_final_cr (fst (cut_lf v))).

(** the format carries [v] as it is *)
Definition value_expressible (v : bytes) : bool := negb (is_nil v) && beq (carried_value v) v.

(** the lines after the first LF of a value (each without its final CR) *)
Fixpoint lines_fuel (n : nat) (s : bytes) : list bytes :=
  match n with
  | O => []
  | S n' => match cut_lf s with
            | (a, None) => [drop_final_cr a]
            | (a, Some r) => drop_final_cr a :: lines_fuel n' r
            end
  end.
Definition value_rest_lines (v : bytes) : list bytes :=
  match snd (cut_lf v) with
  | None => []
  | Some r => lines_fuel (S (length r)) r
  end.

(** what such a line does.  Decided conservatively from its text: a line
    without ':' that starts neither with "Benchmark" nor with "Unit" is no
    line of the format (inert); [a-z][a-z0-9]* ": " value sets a key; anything
    else is not judged ([LUnknown]: the relaxed judge then fails). *)
Inductive rest_line := LInert | LSets (k v : bytes) | LUnknown.

Definition is_lower_az (b : byte) : bool := (97 <=? bN b) && (bN b <=? 122).
Definition is_digit09 (b : byte) : bool := (48 <=? bN b) && (bN b <=? 57).
Definition simple_key (k : bytes) : bool :=
  match k with
  | [] => false
  | c :: k' => is_lower_az c && forallb (fun b => is_lower_az b || is_digit09 b) k'
  end.

Fixpoint cut_colon (l : bytes) : bytes * option bytes :=
  match l with
  | [] => ([], None)
  | c :: l' => if Byte.eqb c x3a then ([], Some l')
               else let '(a, r) := cut_colon l' in (c :: a, r)
  end.

Definition injected_of_line (l : bytes) : rest_line :=
  match cut_colon l with
  | (_, None) => if has_prefix l (bs "Benchmark") || has_prefix l (bs "Unit") then LUnknown else LInert
  | (k, Some r) =>
      match r with
      | c :: v => if simple_key k && Byte.eqb c x20 && value_expressible v then LSets k v else LUnknown
      | [] => LUnknown
      end
  end.

Section Spec.
Variables is_space is_lower is_upper : N -> bool.

(** ** keys: non-empty, first rune lower case, no white space, no upper case, no colon *)
Fixpoint key_runes_ok (l : list chunk) (first : bool) : bool :=
  match l with
  | [] => true
  | (r, _) :: l' =>
      (if first then is_lower r else true) && negb (is_space r || is_upper r)
      && negb (r =? 58) && key_runes_ok l' false
  end.
Definition key_expressible (k : bytes) : bool := negb (is_nil k) && key_runes_ok (runes k) true.

(** ** benchmark lines: the name is one field (possibly empty), at least one measurement *)
Definition name_expressible (n : bytes) : bool :=
  forallb (fun c : chunk => negb (fspace is_space (fst c))) (runes n).
Definition res_expressible {V} (name : bytes) (vals : list V) : bool :=
  name_expressible name && negb (is_nil vals).

(** ** the file configuration a reader holds after the lines "key: value" of [F]
    (file entries of one result, distinct keys) *)
Definition carried_cfg (F : list cfg) : list cfg :=
  flat_map (fun c =>
    if key_expressible (c_key c) then
      let v := carried_value (c_val c) in
      if is_nil v then [] else [mkCfg (c_key c) v true]
    else []) F.

End Spec.

(** ** the benchmark line as printed: "Benchmark" name " " iters, then " " value " " unit each *)
Definition bench_line_len (name iters : bytes) (fields : list (bytes * bytes)) : N :=
  9 + N.of_nat (length name) + 1 + N.of_nat (length iters)
  + fold_right (fun p acc => 2 + N.of_nat (length (fst p)) + N.of_nat (length (snd p)) + acc) 0 fields.
Definition line_too_long (n : N) : bool := max_token <=? n.
