(** Model of benchfmt/internal/bytesconv/atoi.go on a 64-bit platform
    (intSize = 64): lower, underscoreOK, ParseUint, ParseInt, Atoi.
    Follows the code as it exists: the byte-wise scanner state of underscoreOK,
    the cutoff / wrap-around tests of ParseUint (uint64 arithmetic is [mod 2^64]),
    the early range error, the 18-character fast path of Atoi. No proofs here. *)
From Perf Require Import Base.Bytes Base.B64 Base.DecSpec.
Local Open Scope Z_scope.

(** Go: func lower(c byte) byte { return c | ('x' - 'X') } *)
Definition lower (c : byte) : Z := Z.lor (bZ c) 32.

Definition u64 (z : Z) : Z := z mod 2^64.

(** ** underscoreOK *)
Inductive saw := SawStart | SawDigit | SawUnderscore | SawOther.   (* '^' '0' '_' '!' *)

Definition saw_is_digit (s : saw) : bool := match s with SawDigit => true | _ => false end.
Definition saw_is_us (s : saw) : bool := match s with SawUnderscore => true | _ => false end.

Definition code_is_dec_digit (c : byte) : bool := (48 <=? bZ c) && (bZ c <=? 57).
Definition code_is_hex_letter (c : byte) : bool := (97 <=? lower c) && (lower c <=? 102).

Fixpoint us_loop (hex : bool) (s : bytes) (sw : saw) : bool :=
  match s with
  | [] => negb (saw_is_us sw)
  | c :: r =>
      if code_is_dec_digit c || (hex && code_is_hex_letter c) then us_loop hex r SawDigit
      else if Byte.eqb c c_us then
        if saw_is_digit sw then us_loop hex r SawUnderscore else false
      else if saw_is_us sw then false
      else us_loop hex r SawOther
  end.

Definition strip_one_sign (s : bytes) : bytes :=
  match s with
  | c :: r => if Byte.eqb c c_minus || Byte.eqb c c_plus then r else s
  | [] => s
  end.

Definition underscoreOK (s : bytes) : bool :=
  let s := strip_one_sign s in
  match s with
  | z :: x :: r =>
      if Byte.eqb z c_zero && ((lower x =? 98) || (lower x =? 111) || (lower x =? 120))   (* b o x *)
      then us_loop (lower x =? 120) r SawDigit
      else us_loop false s SawStart
  | _ => us_loop false s SawStart
  end.

(** ** ParseUint *)
Inductive ires := IOk (n : Z) | IErr (v : Z) (k : num_err).

Definition ires_val (r : ires) : Z := match r with IOk n => n | IErr v _ => v end.
Definition ires_err (r : ires) : num_err := match r with IOk _ => ErrNone | IErr _ k => k end.
Definition ires_pair (r : ires) : Z * num_err := (ires_val r, ires_err r).

(** the digit loop; [n] is the uint64 accumulator *)
Fixpoint pu_loop (base : Z) (base0 : bool) (cutoff maxVal : Z) (s : bytes) (n : Z) : ires :=
  match s with
  | [] => IOk n
  | c :: r =>
      if Byte.eqb c c_us && base0 then pu_loop base base0 cutoff maxVal r n
      else
        let od := if code_is_dec_digit c then Some (bZ c - 48)
                  else if (97 <=? lower c) && (lower c <=? 122) then Some (lower c - 97 + 10)
                  else None in
        match od with
        | None => IErr 0 ErrSyntax
        | Some d =>
            if base mod 256 <=? d then IErr 0 ErrSyntax           (* d >= byte(base) *)
            else if cutoff <=? n then IErr maxVal ErrRange
            else
              let n' := u64 (n * base) in
              let n1 := u64 (n' + d) in
              if (n1 <? n') || (maxVal <? n1) then IErr maxVal ErrRange
              else pu_loop base base0 cutoff maxVal r n1
        end
  end.

Definition parse_uint (s : bytes) (base bitSize : Z) : ires :=
  match s with
  | [] => IErr 0 ErrSyntax
  | _ =>
    if negb (underscoreOK s) then IErr 0 ErrSyntax else
    let base0 := base =? 0 in
    let ob : option (Z * bytes) :=
      if (2 <=? base) && (base <=? 36) then Some (base, s)
      else if base =? 0 then
        match s with
        | z :: r1 =>
            if Byte.eqb z c_zero then
              match r1 with
              | x :: ((_ :: _) as r2) =>     (* len(s) >= 3 *)
                  if lower x =? 98 then Some (2, r2)
                  else if lower x =? 111 then Some (8, r2)
                  else if lower x =? 120 then Some (16, r2)
                  else Some (8, r1)
              | _ => Some (8, r1)
              end
            else Some (10, s)
        | [] => Some (10, s)
        end
      else None in
    match ob with
    | None => IErr 0 ErrOther                       (* invalid base *)
    | Some (b, t) =>
        let obs := if bitSize =? 0 then Some 64
                   else if (bitSize <? 0) || (64 <? bitSize) then None else Some bitSize in
        match obs with
        | None => IErr 0 ErrOther                   (* invalid bit size *)
        | Some bits =>
            let cutoff := max_uint64 / b + 1 in
            let maxVal := u64 (2 ^ bits) - 1 in
            let maxVal := if maxVal <? 0 then max_uint64 else maxVal in   (* uint64(1)<<64 - 1 wraps *)
            pu_loop b base0 cutoff maxVal t 0
        end
    end
  end.

(** ** ParseInt *)
Definition parse_int (s : bytes) (base bitSize : Z) : ires :=
  match s with
  | [] => IErr 0 ErrSyntax
  | c :: r =>
      let neg := Byte.eqb c c_minus in
      let t := if Byte.eqb c c_plus || neg then r else s in
      let ur := parse_uint t base bitSize in
      match ur with
      | IErr _ ErrSyntax => IErr 0 ErrSyntax
      | IErr _ ErrOther => IErr 0 ErrOther
      | _ =>
          let un := ires_val ur in
          let bits := if bitSize =? 0 then 64 else bitSize in
          let cutoff := 2 ^ (bits - 1) in
          if negb neg && (cutoff <=? un) then IErr (cutoff - 1) ErrRange
          else if neg && (cutoff <? un) then IErr (- cutoff) ErrRange
          else IOk (if neg then - un else un)
      end
  end.

(** ** Atoi *)
Fixpoint atoi_fast_loop (s : bytes) (n : Z) : option Z :=
  match s with
  | [] => Some n
  | ch :: r =>
      let d := (bZ ch - 48) mod 256 in              (* ch -= '0' on a byte *)
      if 9 <? d then None else atoi_fast_loop r (n * 10 + d)
  end.

Definition atoi (s : bytes) : ires :=
  let sLen := Z.of_nat (length s) in
  if (0 <? sLen) && (sLen <? 19) then
    match s with
    | [] => IErr 0 ErrSyntax
    | c0 :: r =>
        let signed := Byte.eqb c0 c_minus || Byte.eqb c0 c_plus in
        let t := if signed then r else s in
        match t with
        | [] => IErr 0 ErrSyntax
        | _ =>
            match atoi_fast_loop t 0 with
            | None => IErr 0 ErrSyntax
            | Some n => IOk (if Byte.eqb c0 c_minus then - n else n)
            end
        end
    end
  else parse_int s 10 0.
