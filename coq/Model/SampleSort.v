(** benchmath.NewSample sorts the measurements of a cell with sort.Float64s,
    whose order is  Float64Slice.Less(i, j) = x[i] < x[j] || (isNaN(x[i]) && !isNaN(x[j])):
    NaN sorts before every number, -Inf next, +Inf last. Model/StatsF.sort_f is
    the same sort for NaN-free input (Proofs/SampleSort.v, sort_go_nonnan); this
    file adds the NaN clause, which the benchstat cells meet when a measurement
    is "NaN" (benchfmt accepts NaN, Inf, +Inf, -Inf as values).

    [sort_go] is an insertion sort with Go's Less. sort.Float64s is not stable,
    but elements that Less does not separate are identical here (all NaNs are one
    NaN in this development; -0 vs +0 is excluded where it matters), so every
    correct sort returns the same list: Proofs/SampleSort.v, sort_go_canonical. *)
From Coq Require Import List Bool.
From Perf Require Import Base.B64.
Import ListNotations.

Definition go_less (x y : b64) : bool :=
  b64_lt x y || (b64_is_nan x && negb (b64_is_nan y)).

Fixpoint insert_go (x : b64) (l : list b64) : list b64 :=
  match l with
  | [] => [x]
  | y :: l' => if go_less y x then y :: insert_go x l' else x :: l
  end.
Definition sort_go (xs : list b64) : list b64 := fold_right insert_go [] xs.

(** the declarative reading ("NaN sorts first, the rest ascending"), as a checker:
    a run of NaNs, then NaN-free values in ascending order *)
Fixpoint drop_nans (l : list b64) : list b64 :=
  match l with
  | x :: l' => if b64_is_nan x then drop_nans l' else l
  | [] => []
  end.
Fixpoint ascending (l : list b64) : bool :=
  match l with
  | x :: ((y :: _) as l') => b64_le x y && ascending l'
  | _ => true
  end.
Definition nan_first_ascending (l : list b64) : bool :=
  let r := drop_nans l in forallb (fun x => negb (b64_is_nan x)) r && ascending r.

(** multiset equality by bit pattern (all NaNs identified) *)
Fixpoint remove_one (x : b64) (l : list b64) : option (list b64) :=
  match l with
  | [] => None
  | y :: l' => if b64_same x y then Some l'
               else match remove_one x l' with Some r => Some (y :: r) | None => None end
  end.
Fixpoint same_multiset (a b : list b64) : bool :=
  match a with
  | [] => match b with [] => true | _ => false end
  | x :: a' => match remove_one x b with Some b' => same_multiset a' b' | None => false end
  end.

(** the sample of a cell whose measurements arrived as [vals] *)
Definition is_sample_of (vals sample : list b64) : bool :=
  nan_first_ascending sample && same_multiset vals sample.
