(** The REPAIRED ProjectionParser.Parse (hooks/fix_c08_failed_parse_rollback.diff):
    a Parse / ParseWithUnit call that returns an error restores the parser's
    exclusions and group flags (configKeys, fullnameKeys, haveConfig,
    haveFullname) to what they were before the call, so an expression that
    yields no projection leaves no trace.

    Model/Projection.v (shared with C06, C09, C14) keeps the functions of the
    code as they are; this file only replaces the Parse step of the API-call
    driver: [step_tx] is [step] except that a failing OpParse returns the world
    unchanged. Every other call is [step] itself. *)
From Perf Require Import Base.Bytes Model.Name Model.Extract Model.Key Model.Projection.

Definition step_tx (w : world) (o : op) : world * out :=
  match o with
  | OpParse wu fs =>
      match (if wu then parse_with_unit else parse) (w_pp w) fs with
      | (pp', Some p) => (mkW pp' (w_projs w ++ [p]), OutParse true)
      | (_, None) => (w, OutParse false)          (* rollback *)
      end
  | _ => step w o
  end.

Fixpoint run_ops_tx (w : world) (ops : list op) : world * list out :=
  match ops with
  | [] => (w, [])
  | o :: ops' =>
      let '(w1, x) := step_tx w o in
      let '(w2, xs) := run_ops_tx w1 ops' in
      (w2, x :: xs)
  end.
