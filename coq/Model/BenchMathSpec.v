(** BenchMathSpec: declarative specifications used by C13, independent of the
    algorithms of benchmath / go-moremath, in exact arithmetic.

    - [perm_p]: the exact two-sided permutation p-value of the Mann-Whitney U
      statistic by plain enumeration of all ways to choose which n1 of the
      pooled values form the first sample; [perm_p_dp] the same number computed
      group by group (used for evaluation on larger samples; agreement with the
      enumeration is a bounded check, Proofs/BenchMath.v).
    - [coverage]: exact binomial coverage of an order-statistic interval for the
      median.
    - [need_samples]: least sample size with a finite median interval.
    - [is_mode]: most frequent value.
    No proofs in this file. *)
From Coq Require Import ZArith List Bool.
From Perf Require Import Base.B64 Model.StatsF Model.MoreMathU.
Import ListNotations.
Local Open Scope Z_scope.

(** ** exact rationals as (numerator, positive denominator) *)
Definition rat := (Z * Z)%type.
Definition rat_le (a b : rat) : bool := fst a * snd b <=? fst b * snd a.
Definition rat_eq (a b : rat) : bool := fst a * snd b =? fst b * snd a.
(** |a - b| <= 1/10^9 *)
Definition rat_close (a b : rat) : bool :=
  Z.abs (fst a * snd b - fst b * snd a) * 1000000000 <=? snd a * snd b.
(** |a - b| <= eps * max(|a|, |b|) + eps, eps = 1/10^9 *)
Definition rat_close_rel (a b : rat) : bool :=
  let d := Z.abs (fst a * snd b - fst b * snd a) in
  let m := Z.max (Z.abs (fst a * snd b)) (Z.abs (fst b * snd a)) in
  d * 1000000000 <=? m + snd a * snd b.

(** exact value of a finite binary64 *)
Definition rat_of_b64 (x : b64) : option rat :=
  match x with
  | S754_zero _ => Some (0, 1)
  | S754_finite s m e =>
      let z := if s then Zneg m else Zpos m in
      Some (if 0 <=? e then (z * 2 ^ e, 1) else (z, 2 ^ (- e)))
  | _ => None
  end.

(** ** exact permutation p-value of the U statistic *)

(** 2U of a first sample [c] against a second [r]: 2 per pair x > y, 1 per tie *)
Definition two_u (c r : list b64) : Z :=
  zsum (map (fun x => zsum (map (fun y => if b64_lt y x then 2 else if b64_eq x y then 1 else 0) r)) c).

(** all ways to pick [k] elements of [l] as the first sample (the rest being the second) *)
Fixpoint splits {A} (k : nat) (l : list A) : list (list A * list A) :=
  match k, l with
  | O, _ => [([], l)]
  | S _, [] => []
  | S k', x :: l' =>
      if Nat.ltb (length l) k then []      (* not enough elements left: no way (only prunes empty branches) *)
      else
        map (fun cr => (x :: fst cr, snd cr)) (splits k' l')
        ++ map (fun cr => (fst cr, x :: snd cr)) (splits k l')
  end.

Definition count_if {A} (f : A -> bool) (l : list A) : Z := zlen (filter f l).

(** min(1, 2 * min(P(U <= u), P(U >= u))) for the observed u, every assignment equally likely *)
Definition two_sided (le ge total : Z) : rat := (Z.min total (2 * Z.min le ge), total).

(** the pooled values are listed in ascending order (any listing of the pool
    gives the same counts; the sorted one makes the pool of (x1, x2) and of
    (x2, x1) the same list) *)
Definition split_us (k : nat) (pool : list b64) : list Z :=
  map (fun cr => two_u (fst cr) (snd cr)) (splits k pool).

Definition perm_p (x1 x2 : list b64) : rat :=
  let u := two_u x1 x2 in
  let us := split_us (length x1) (sort_f (x1 ++ x2)) in
  two_sided (count_if (fun v => v <=? u) us) (count_if (fun v => u <=? v) us) (zlen us).

(** the same by dynamic programming over the groups of equal pooled values:
    dist[n][u] = number of ways to choose n first-sample members among the
    groups seen so far with 2U = u *)
Fixpoint run_lengths (l : list b64) : list Z :=
  match l with
  | [] => []
  | x :: l' =>
      match run_lengths l' with
      | c :: cs =>
          match l' with
          | y :: _ => if b64_eq x y then (c + 1) :: cs else 1 :: c :: cs
          | [] => [1]
          end
      | [] => [1]
      end
  end.

Definition lscale (c : Z) (l : list Z) : list Z := map (Z.mul c) l.

(** one group of [t] equal values above [S] smaller pooled values *)
Definition dp_step (n1 S t : Z) (dist : list (list Z)) : list (list Z) :=
  map (fun n =>
         fold_left (fun acc r =>
                      let below := S - (n - r) in      (* second-sample values below this group *)
                      if below <? 0 then acc
                      else ladd acc (lscale (binom t r)
                                            (lshift (r * (2 * below + (t - r)))
                                                    (nth (Z.to_nat (n - r)) dist []))))
                   (zrange 0 (Z.min t n)) [])
      (zrange 0 n1).

Fixpoint dp_groups (n1 S : Z) (ts : list Z) (dist : list (list Z)) : list (list Z) :=
  match ts with
  | [] => dist
  | t :: ts' => dp_groups n1 (S + t) ts' (dp_step n1 S t dist)
  end.

Definition perm_p_dp (x1 x2 : list b64) : rat :=
  let n1 := zlen x1 in
  let u := two_u x1 x2 in
  let ts := run_lengths (sort_f (x1 ++ x2)) in
  let row := nth (Z.to_nat n1) (dp_groups n1 0 ts [[1]]) [] in
  let le := sum_firstn (u + 1) row in
  let ge := zsum (skipn (Z.to_nat u) row) in
  two_sided le ge (zsum row).

(** ** median interval by order statistics: exact binomial coverage.
    With K ~ Binomial(n, 1/2) the number of sample values below the population
    median, the band [l, r) of K is the interval (x_(l), x_(r)), x_(0) = -inf,
    x_(n+1) = +inf; its coverage is sum_{k=l}^{r-1} C(n,k) / 2^n. *)
Definition coverage (n l r : Z) : rat := (sum_range l (r - 1) (fun k => binom n k), 2 ^ n).

(** least n in 2..50 for which the band [1, n) has coverage >= conf, i.e.
    1 - 2/2^n >= conf; None = more than 50 *)
Fixpoint need_samples_go (fuel : nat) (n : Z) (conf : rat) : option Z :=
  match fuel with
  | O => None
  | S f => if rat_le conf (2 ^ n - 2, 2 ^ n) then Some n else need_samples_go f (n + 1) conf
  end.
Definition need_samples (conf : rat) : option Z := need_samples_go 49 2 conf.

(** ** exact model: most frequent value *)
Definition occurrences (v : b64) (xs : list b64) : Z := count_if (b64_eq v) xs.
Definition is_mode (v : b64) (xs : list b64) : bool :=
  (0 <? occurrences v xs) && forallb (fun w => occurrences w xs <=? occurrences v xs) xs.
Definition all_equal (xs : list b64) : bool :=
  match xs with [] => true | x :: _ => forallb (b64_eq x) xs end.

(** ** minimum p of the U-test with two samples of size n: 2 / C(2n, n) *)
Definition utest_min_p_spec (n : Z) : rat := (2, binom (2 * n) n).
