(** LegacySpec: the statistics property C17 speaks of, stated over EXACT
    rationals and independently of Model/Legacy.v and Model/StatsF.v (no
    binary64 operation of the code's algorithm is replayed here):

      quartiles   Hyndman-Fan R8 at 1/4 and 3/4 of the sorted sample
                  ([StatsQ.percentile_q], the textbook definition, with the
                  theorems of Proofs/StatsQ.v);
      fence       [Q1 - 3/2 (Q3 - Q1), Q3 + 3/2 (Q3 - Q1)];
      retained    the sample values inside the fence, in input order;
      mean        sum / n of the retained values ([StatsQ.mean_q]).

    The judge (Corr/RunC17.v) compares what the real code reported with these
    numbers under the STATED tolerances below (u = 2^-52 * max |x_i| over the
    finite sample values, N = sample size, n = number of retained values,
    tiny = 2^-1074):

      fence   (no tolerance when Q1 = Q3: the binary64 fence is then exact)
              a value at least  (32 + 16 N) u + (N+4) tiny'  inside the exact
              fence must be retained, one at least that far outside must be
              dropped; in between either is accepted (binary64 rounding of the
              quartile position, of the interpolation and of the fence can move
              the fence by that much and no more);
      mean    |reported - sum/n| <= (4 + n/2) u' + (n+4) tiny', u' over the
              retained values (the bound C12 states for the same recurrence);
      tiny'   = 2^E, E the least exponent of the sample's values (>= -1074).

    Infinite sample values: the sorted sample is (-Inf ... finite ... +Inf);
    a quartile is a rational number only if the order statistics it
    interpolates between are finite; otherwise the fence is undefined and
    nothing is demanded of the retained set.  With a defined (finite) fence an
    infinite value is outside it.  NaN samples are outside the assumptions. *)
From Coq Require Import ZArith QArith Qround List Bool.
From Perf Require Import Base.B64 Base.B64Q Model.StatsQ.
Import ListNotations.
Local Open Scope Q_scope.

Definition pow2Q (e : Z) : Q := Q_of_ZE 1 e.
Definition q_of_nat (n : nat) : Q := inject_Z (Z.of_nat n).
Definition zmax_abs (zs : list Z) : Z := fold_left (fun a z => Z.max a (Z.abs z)) zs 0%Z.

Definition is_pinf (x : b64) : bool := match x with S754_infinity false => true | _ => false end.
Definition is_ninf (x : b64) : bool := match x with S754_infinity true => true | _ => false end.

Section Sample.
  Variable vals : list b64.

  (** the finite values as integers: x_i = z_i * 2^E *)
  Definition sp_E : Z := min_exp vals.
  Definition sp_fin : list b64 := filter b64_is_finite vals.
  Definition sp_zs : list Z := map (scaled_int sp_E) sp_fin.
  Definition sp_sorted : list Q := sort_q (map inject_Z sp_zs).
  Definition sp_nneg : Z := Z.of_nat (length (filter is_ninf vals)).
  Definition sp_N : Z := Z.of_nat (length vals).

  (** the j-th order statistic (0-based) of the whole sample; None = infinite *)
  Definition order_stat (j : Z) : option Q :=
    let j' := (j - sp_nneg)%Z in
    if (j' <? 0)%Z then None
    else if (j' <? Z.of_nat (length sp_sorted))%Z then Some (nth_q sp_sorted j') else None.

  (** R8 at 0 < p < 1; for a sample without infinities this is
      [percentile_q sp_sorted p] ([quantile_x_finite] below) *)
  Definition quantile_x (p : Q) : option Q :=
    let n := r8_pos_q sp_N p in
    let k := Qfloor n in
    let frac := n - inject_Z k in
    if (k <=? 0)%Z then order_stat 0
    else if (sp_N <=? k)%Z then order_stat (sp_N - 1)
    else match order_stat (k - 1), order_stat k with
         | Some a, Some b => Some (a + frac * (b - a))
         | _, _ => None
         end.

  (** the fence in units of 2^E: Q1 - 3/2 IQR .. Q3 + 3/2 IQR *)
  Definition fence_x : option (Q * Q) :=
    match quantile_x (1 # 4), quantile_x (3 # 4) with
    | Some q1, Some q3 => Some (q1 - (3 # 2) * (q3 - q1), q3 + (3 # 2) * (q3 - q1))
    | _, _ => None
    end.

  Definition sp_u : Q := inject_Z (zmax_abs sp_zs) * pow2Q (-52).
  (** in units of 2^E; tiny = 2^(-1074-E) <= 1 is rounded up to 1 (one unit is at
      most the last bit of the sample value of least exponent), which keeps
      every denominator small.
      No tolerance when Q1 = Q3: the order statistics both quartiles
      interpolate between are then all equal (0 < frac < 1), so a + frac*(b-a)
      = a + 0 and the fence c - 1.5*0 .. c + 1.5*0 are exact in binary64: a
      value equal to c must be retained, any other dropped. *)
  Definition fence_tol : Q :=
    match quantile_x (1 # 4), quantile_x (3 # 4) with
    | Some q1, Some q3 =>
        if Qeq_bool q1 q3 then 0
        else (32 + 16 * inject_Z sp_N) * sp_u + (inject_Z sp_N + 4)
    | _, _ => 0
    end.

  Inductive verdict := MustKeep | MustDrop | Either.

  (** [band] = (lo + tol, hi - tol, lo - tol, hi + tol), computed once per sample *)
  Definition fence_band (lohi : Q * Q) : Q * Q * Q * Q :=
    let tol := fence_tol in
    (fst lohi + tol, snd lohi - tol, fst lohi - tol, snd lohi + tol).
  Definition fence_verdict (E : Z) (band : Q * Q * Q * Q) (v : b64) : verdict :=
    match b64_to_Q_scaled E v with
    | None => MustDrop                           (* an infinity is outside a finite fence *)
    | Some q =>
        let '(li, hi, lo, ho) := band in
        if Qle_bool li q && Qle_bool q hi then MustKeep
        else if negb (Qle_bool lo q) || negb (Qle_bool q ho) then MustDrop
        else Either
    end.

  (** [rv] is [vals] with exactly the values outside the fence deleted (a value
      in the tolerance band may go either way).  Greedy matching is complete:
      the verdict depends on the value only, so a retained value matched by a
      later equal sample value can as well be matched by the first one.
      (Written with [if], not [||]: vm_compute evaluates both arguments of a
      boolean operator.) *)
  Fixpoint retained_by (verd : b64 -> verdict) (vs rv : list b64) : bool :=
    match vs with
    | [] => match rv with [] => true | _ => false end
    | v :: vs' =>
        match verd v with
        | MustKeep => match rv with r :: rv' => if b64_same r v then retained_by verd vs' rv' else false | [] => false end
        | MustDrop => retained_by verd vs' rv
        | Either => match rv with
                    | r :: rv' => if b64_same r v then retained_by verd vs' rv' else retained_by verd vs' rv
                    | [] => retained_by verd vs' rv
                    end
        end
    end.

  (** [rv] is a subsequence of the sample (all that is demanded when the fence is undefined) *)
  Fixpoint subseq_b (vs rv : list b64) : bool :=
    match vs with
    | [] => match rv with [] => true | _ => false end
    | v :: vs' =>
        match rv with
        | [] => true
        | r :: rv' => if b64_same r v then subseq_b vs' rv' else subseq_b vs' rv
        end
    end.

  (** [relax]: the known finding's judge skips the fence (Corr/RunC17.v) *)
  Definition retained_spec (relax : bool) (rv : list b64) : bool :=
    match (if relax then None else fence_x) with
    | Some lohi =>
        let E := sp_E in
        let band := fence_band lohi in
        retained_by (fence_verdict E band) vals rv
    | None => subseq_b vals rv
    end.
End Sample.

(** ** the mean of the retained values *)
Definition mean_tol (rv : list b64) : Q :=
  let E := min_exp rv in
  let zs := map (scaled_int E) rv in
  let nq := q_of_nat (length rv) in
  (4 + nq / 2) * (inject_Z (zmax_abs zs) * pow2Q (-52)) + (nq + 4).

(** the exact mean, in units of 2^(min_exp rv) *)
Definition mean_x (rv : list b64) : Q :=
  mean_q (map (fun x => inject_Z (scaled_int (min_exp rv) x)) rv).

(** [rv] non-empty, without NaN:
      all finite        the reported mean is sum/n within [mean_tol];
      +Inf but no -Inf  the mean is +Inf (symmetrically -Inf);
      both infinities   no number is the mean: nothing demanded here (the hull
                        clause min <= mean <= max of the caller still applies) *)
Definition mean_value_spec (rv : list b64) (mean : b64) : bool :=
  if forallb b64_is_finite rv then
    match b64_to_Q_scaled (min_exp rv) mean with
    | Some m => Qclose m (mean_x rv) (mean_tol rv)
    | None => false
    end
  else
    match existsb is_pinf rv, existsb is_ninf rv with
    | true, false => is_pinf mean
    | false, true => is_ninf mean
    | _, _ => true
    end.

(** example: the sample 10 11 12 10 100 has Q1 = 10, Q3 = 124/3, fence
    [-37, 265/3] and drops 100; its retained mean is 43/4 *)
Example spec_example :
  let vals := map b64_of_Z [10; 11; 12; 10; 100]%Z in
  (match fence_x vals with
   | Some (lo, hi) => (Qeq_bool (lo * pow2Q (sp_E vals)) (-37 # 1), Qeq_bool (hi * pow2Q (sp_E vals)) (265 # 3))
   | None => (false, false) end,
   retained_spec vals false (map b64_of_Z [10; 11; 12; 10]%Z),
   retained_spec vals false (map b64_of_Z [10; 11; 12; 10; 100]%Z),
   retained_spec vals false (map b64_of_Z [10; 11; 12]%Z),
   retained_spec vals true (map b64_of_Z [10; 11; 12]%Z),
   mean_value_spec (map b64_of_Z [10; 11; 12; 10]%Z) (b64_of_ZE 43 (-2)),
   mean_value_spec (map b64_of_Z [10; 11; 12; 10]%Z) (b64_of_ZE 21 (-1)))
  = ((true, true), true, false, false, true, true, false).
Proof. vm_compute. reflexivity. Qed.
