(** C15: the arrangement of benchstat's tables, rows and columns, and which cell
    a cell is compared with - as a function of the SEQUENCE of projected
    measurements and the requested sort orders alone.

    A key is the list of the values of its projection's fields.  The stream is
    the list of keys in the order in which benchstat reads the measurements.

    * Specification (declarative; no sorting algorithm, no order map):
      [val_before] says when one value of a field comes before another:
        - first-observation order: its first occurrence in the stream precedes
          the other's first occurrence;
        - alpha: bytewise smaller;
        - a fixed list: it stands earlier in the list;
        - num: numbers before non-numbers, smaller numbers first, NaN after all
          other numbers; strings the numeric order cannot separate: bytewise.
      [key_before]: the first field in which two keys differ decides.
      [arranged]: an output sequence is the arrangement of a set of keys iff it
      holds exactly those keys and of any two the earlier one is [key_before]
      the later one.
    * Model of the code ([model_arrange]): the order map filled at first
      observation ([firsts]), Model/Sort.v's [val_less] over [ord_cmp] (the model
      of benchproc's [less] that C09 verifies), insertion sort.
    * Baselines ([base_col]): a cell is compared with the cell of its row in the
      FIRST column of its table (if it is not that column and that cell exists). *)
From Perf Require Import Base.Bytes Base.B64 Model.Projection Model.Sort.

Inductive ford :=
| FFirst
| FAlpha
| FFixed (l : list bytes)
| FNum (tbl : list (bytes * option b64)).   (* the value of every observed string under @num *)

Definition key := list bytes.
Definition key_eqb : key -> key -> bool := list_eqb beq.
Definition kmem (k : key) (l : list key) : bool := existsb (key_eqb k) l.

Fixpoint pos_of (v : bytes) (l : list bytes) : option nat :=
  match l with
  | [] => None
  | x :: l' => if beq x v then Some 0%nat else option_map S (pos_of v l')
  end.

(** ** specification *)

(** [a]'s first occurrence precedes [b]'s first occurrence *)
Definition observed_before (vals : list bytes) (a b : bytes) : bool :=
  match pos_of a vals, pos_of b vals with
  | Some i, Some j => Nat.ltb i j
  | _, _ => false
  end.

Fixpoint num_of (tbl : list (bytes * option b64)) (v : bytes) : option (option b64) :=
  match tbl with
  | [] => None
  | (k, x) :: tbl' => if beq k v then Some x else num_of tbl' v
  end.

Definition num_before (tbl : list (bytes * option b64)) (a b : bytes) : bool :=
  match num_of tbl a, num_of tbl b with
  | Some (Some x), Some (Some y) =>
      if b64_lt x y || (negb (b64_is_nan x) && b64_is_nan y) then true
      else if b64_lt y x || (b64_is_nan x && negb (b64_is_nan y)) then false
      else bltb a b
  | Some (Some _), Some None => true
  | Some None, Some (Some _) => false
  | Some None, Some None => bltb a b
  | _, _ => false
  end.

(** for two DIFFERENT values of one field *)
Definition val_before (o : ford) (vals : list bytes) (a b : bytes) : bool :=
  match o with
  | FFirst => observed_before vals a b
  | FAlpha => bltb a b
  | FFixed l => observed_before l a b
  | FNum tbl => num_before tbl a b
  end.

Definition field_vals (i : nat) (ks : list key) : list bytes := map (fun k => nth i k []) ks.

Fixpoint key_before_from (i : nat) (fs : list ford) (ks : list key) (a b : key) : bool :=
  match fs with
  | [] => false
  | o :: fs' =>
      let x := nth i a [] in
      let y := nth i b [] in
      if beq x y then key_before_from (S i) fs' ks a b
      else val_before o (field_vals i ks) x y
  end.
Definition key_before (fs : list ford) (ks : list key) : key -> key -> bool := key_before_from 0 fs ks.

Fixpoint all_pairs (lt : key -> key -> bool) (l : list key) : bool :=
  match l with
  | [] => true
  | x :: r => forallb (lt x) r && all_pairs lt r
  end.
Definition same_keys (a b : list key) : bool :=
  forallb (fun x => kmem x b) a && forallb (fun x => kmem x a) b.

(** [out] is the arrangement of the keys [members] of a dimension whose stream is [ks] *)
Definition arranged (fs : list ford) (ks : list key) (members out : list key) : bool :=
  all_pairs (key_before fs ks) out && same_keys out members.

(** ** the whole arrangement of one run *)
Definition entry := (key * key * key)%type.            (* table, row, column key of a measurement *)
Definition e_t (e : entry) : key := fst (fst e).
Definition e_r (e : entry) : key := snd (fst e).
Definition e_c (e : entry) : key := snd e.
Definition otable := (key * list key * list key)%type.   (* key, rows, columns as printed *)

Definition in_table (t : key) (s : list entry) : list entry := filter (fun e => key_eqb (e_t e) t) s.

Definition arrangement_spec_ok (ft fr fc : list ford) (s : list entry) (out : list otable) : bool :=
  arranged ft (map e_t s) (map e_t s) (map (fun o => fst (fst o)) out)
  && forallb (fun o => let '(t, rows, cols) := o in
                arranged fr (map e_r s) (map e_r (in_table t s)) rows
                && arranged fc (map e_c s) (map e_c (in_table t s)) cols) out.

(** ** model of the code *)
Definition firsts (l : list bytes) : list bytes :=
  fold_left (fun acc v => if mem v acc then acc else acc ++ [v]) l [].

Definition ordk_of (o : ford) : ordk :=
  match o with FFirst => OFirst | FAlpha => OAlpha | FFixed l => OFixed l | FNum _ => ONum end.
Definition pf_of (o : ford) (v : bytes) : option b64 :=
  match o with FNum tbl => match num_of tbl v with Some x => x | None => None end | _ => None end.
Definition no_pow (_ : bool) (_ : nat) : b64 := b64_one.

Fixpoint model_less_from (i : nat) (fs : list ford) (ks : list key) (a b : key) : bool :=
  match fs with
  | [] => false
  | o :: fs' =>
      let x := nth i a [] in
      let y := nth i b [] in
      if beq x y then model_less_from (S i) fs' ks a b
      else val_less (ord_cmp (pf_of o) no_pow (ordk_of o) (firsts (field_vals i ks))) x y
  end.
Definition model_less (fs : list ford) (ks : list key) : key -> key -> bool := model_less_from 0 fs ks.

Fixpoint kinsert (lt : key -> key -> bool) (x : key) (l : list key) : list key :=
  match l with
  | [] => [x]
  | y :: l' => if lt y x then y :: kinsert lt x l' else x :: l
  end.
Fixpoint kdedup (l : list key) : list key :=
  match l with
  | [] => []
  | x :: r => if kmem x r then kdedup r else x :: kdedup r
  end.
Definition model_arrange (fs : list ford) (ks members : list key) : list key :=
  fold_right (kinsert (model_less fs ks)) [] (kdedup members).

Definition arrangement_model (ft fr fc : list ford) (s : list entry) : list otable :=
  map (fun t => (t, model_arrange fr (map e_r s) (map e_r (in_table t s)),
                    model_arrange fc (map e_c s) (map e_c (in_table t s))))
      (model_arrange ft (map e_t s) (map e_t s)).

(** ** baselines *)
(** the first column of table [t]: the column key of [t] that is [key_before] every other one *)
Definition is_first_col (fc : list ford) (s : list entry) (t c : key) : bool :=
  kmem c (map e_c (in_table t s))
  && forallb (fun c' => key_eqb c' c || key_before fc (map e_c s) c c') (map e_c (in_table t s)).
Definition first_col (fc : list ford) (s : list entry) (t : key) : option key :=
  find (is_first_col fc s t) (map e_c (in_table t s)).
Definition has_cell (s : list entry) (t r c : key) : bool :=
  existsb (fun e => key_eqb (e_t e) t && key_eqb (e_r e) r && key_eqb (e_c e) c) s.
(** the column whose cell the cell (t, r, c) is compared with *)
Definition base_col (fc : list ford) (s : list entry) (t r c : key) : option key :=
  match first_col fc s t with
  | Some b => if key_eqb b c then None else if has_cell s t r b then Some b else None
  | None => None
  end.
