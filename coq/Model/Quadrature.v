(** Quadrature: composite Boole rule (closed Newton-Cotes, 5 points) over exact
    rationals, used to judge "the distribution functions agree with numerical
    integration of their densities" on the implementation's OBSERVED values:
    given f_0 .. f_N (N a multiple of 4) at the equidistant points a + i h,
      int_a^(a+N h) f  ~  (2 h / 45) sum over panels (7 f_0 + 32 f_1 + 12 f_2 + 32 f_3 + 7 f_4).
    The rule is exact for polynomials of degree <= 5 (Proofs/Quadrature.v); for a
    six times differentiable f the truncation error is at most
      (b - a) (2/945) h^6 max|f^(6)|       (classical; not proved here). *)
From Coq Require Import QArith List.
Import ListNotations.
Local Open Scope Q_scope.

Definition boole_panel (f0 f1 f2 f3 f4 : Q) : Q := 7 * f0 + 32 * f1 + 12 * f2 + 32 * f3 + 7 * f4.

(** weighted sum over consecutive panels sharing their end points; None unless
    the number of values is 4k+1 *)
Fixpoint boole_sum (l : list Q) : option Q :=
  match l with
  | [_] => Some 0
  | f0 :: ((f1 :: f2 :: f3 :: ((f4 :: _) as l')) as _) =>
      match boole_sum l' with
      | Some r => Some (boole_panel f0 f1 f2 f3 f4 + r)
      | None => None
      end
  | _ => None
  end.

Definition boole_integral (h : Q) (l : list Q) : option Q :=
  match boole_sum l with Some s => Some (2 * h / 45 * s) | None => None end.

Example boole_cubic :
  (* int_0^2 x^3 dx = 4 from 9 values, h = 1/4 *)
  match boole_integral (1 # 4) (map (fun i => let x := inject_Z i / 4 in x * x * x) [0;1;2;3;4;5;6;7;8]%Z) with
  | Some v => Qeq_bool v 4 | None => false end = true.
Proof. vm_compute. reflexivity. Qed.
