(** Model of benchfmt.Writer (writer.go) as repaired by commit 4949ccf (a
    previously written file key that turns internal is deleted in the output),
    the API edits of Result.Config used by tools, and the record loop of
    cmd/benchfilter (Files -> Filter -> Writer).  No proofs in this file.

    Writer.fileConfig (map) and Writer.order (keys in first-written order)
    always hold the same keys; they are one ordered association list [w_have].
    The walk [for i := 0; i < len(w.order); i++] with in-place deletion and
    [i--] visits every key of [order] once, in order, and drops the deleted
    ones: the structural recursion [walk].  [res.ConfigIndex] is the lookup in
    [res.Config] (keys there are distinct for every Result made by a Reader or
    by SetConfig).  [%v] of a float64 is the Section variable [fmt_g] (oracle:
    fmt.Sprintf("%v", x) recorded per case); [%d] is [print_Z]. *)
From Perf Require Import Base.Bytes Base.B64 Base.Utf8 Model.Name Model.Extract Model.Units Model.Reader Model.Files.

Definition print_Z (z : Z) : bytes :=
  match z with
  | Z0 => bs "0"
  | Zpos p => dec (Npos p)
  | Zneg p => x2d :: dec (Npos p)
  end.

Record wstate := mkWstate { w_first : bool; w_have : list cfg }.
Definition w_init : wstate := mkWstate true [].

(** the lines the writer emits, before rendering *)
Inductive wline :=
| WSet (k v : bytes)        (* "k: v" *)
| WDel (k : bytes)          (* "k:" *)
| WBlank
| WBench (r : result)
| WUnitL (u : umeta).

Definition same_cfg (h c : cfg) : bool := beq (c_val h) (c_val c) && Bool.eqb (c_file h) (c_file c).
Definition has_key (l : list cfg) (k : bytes) : bool :=
  match cfg_lookup l k with Some _ => true | None => false end.

(** the test at the top of writeResult *)
Definition needs_config (have res : list cfg) : bool :=
  negb (length have =? length res)%nat ||
  existsb (fun c => match cfg_lookup have (c_key c) with
                    | None => true
                    | Some h => negb (same_cfg h c)
                    end) res.

(** "Walk keys we know to find changes and deletions" *)
Fixpoint walk (have res : list cfg) : list wline * list cfg :=
  match have with
  | [] => ([], [])
  | h :: rest =>
      let '(ls, hv) := walk rest res in
      match cfg_lookup res (c_key h) with
      | None => (WDel (c_key h) :: ls, hv)                          (* key was deleted *)
      | Some c =>
          if same_cfg h c then (ls, h :: hv)                        (* value did not change *)
          else ((if c_file c then [WSet (c_key h) (c_val c)]
                 else if c_file h then [WDel (c_key h)]             (* file key turned internal *)
                 else []) ++ ls,
                mkCfg (c_key h) (c_val c) (c_file c) :: hv)
      end
  end.

(** "Find new keys", in res.Config order *)
Fixpoint new_keys (res have : list cfg) : list wline * list cfg :=
  match res with
  | [] => ([], have)
  | c :: res' =>
      if has_key have (c_key c) then new_keys res' have
      else let '(ls, hv) := new_keys res' (have ++ [mkCfg (c_key c) (c_val c) (c_file c)]) in
           ((if c_file c then [WSet (c_key c) (c_val c)] else []) ++ ls, hv)
  end.

Definition write_file_config (w : wstate) (res : list cfg) : list wline * list cfg :=
  let pre := if w_first w then [] else [WBlank] in    (* blank line after results *)
  let '(l1, hv1) := walk (w_have w) res in
  let '(l2, hv2) := if (length hv1 =? length res)%nat then ([], hv1) else new_keys res hv1 in
  (pre ++ l1 ++ l2 ++ [WBlank], hv2).

(** the pair a measurement is printed from *)
Definition written (v : value) : b64 * bytes :=
  if is_nil (v_ounit v) then (v_val v, v_unit v) else (v_oval v, v_ounit v).

Definition write_result (w : wstate) (r : result) : list wline * wstate :=
  let '(cl, hv) := if needs_config (w_have w) (r_cfg r) then write_file_config w (r_cfg r)
                   else ([], w_have w) in
  (cl ++ [WBench r], mkWstate false hv).

(** Writer.Write *)
Definition write_rec (w : wstate) (rec : record) : list wline * wstate :=
  match rec with
  | RRes r => write_result w r
  | RUnit u => ([WUnitL (up_meta u)], w)
  | RErr _ _ _ => ([], w)
  end.

Fixpoint write_all (w : wstate) (recs : list record) : list wline * wstate :=
  match recs with
  | [] => ([], w)
  | r :: recs' =>
      let '(l1, w1) := write_rec w r in
      let '(l2, w2) := write_all w1 recs' in (l1 ++ l2, w2)
  end.

(** " f1 f2 ..." *)
Definition join_sp (fs : list bytes) : bytes := concat (map (fun f => x20 :: f) fs).

Section Writer.
Variable fmt_g : b64 -> bytes.

Definition bench_fields (r : result) : list bytes :=
  print_Z (r_iters r) :: flat_map (fun v => let '(x, u) := written v in [fmt_g x; u]) (r_vals r).

(** Fprintf("Benchmark%s %d", ...) then " %v %s" per value *)
Definition render (l : wline) : bytes :=
  match l with
  | WSet k v => k ++ bs ": " ++ v
  | WDel k => k ++ bs ":"
  | WBlank => []
  | WBench r => bs "Benchmark" ++ r_name r ++ join_sp (bench_fields r)
  | WUnitL u => bs "Unit " ++ u_orig u ++ [x20] ++ u_key u ++ [x3d] ++ u_value u
  end.

(** the bytes: every line is terminated by a newline *)
Definition join_lines (ls : list bytes) : bytes := concat (map (fun l => l ++ [x0a]) ls).
Definition emit_lines (ls : list wline) : bytes := join_lines (map render ls).
Definition emit (recs : list record) : bytes := emit_lines (fst (write_all w_init recs)).

End Writer.

(** ** the writer before commit 4949ccf, kept for the record: the "value
    changed" branch printed nothing when a written file key turned internal *)
Fixpoint walk_old (have res : list cfg) : list wline * list cfg :=
  match have with
  | [] => ([], [])
  | h :: rest =>
      let '(ls, hv) := walk_old rest res in
      match cfg_lookup res (c_key h) with
      | None => (WDel (c_key h) :: ls, hv)
      | Some c =>
          if same_cfg h c then (ls, h :: hv)
          else ((if c_file c then [WSet (c_key h) (c_val c)] else []) ++ ls,
                mkCfg (c_key h) (c_val c) (c_file c) :: hv)
      end
  end.

Definition write_result_old (w : wstate) (r : result) : list wline * wstate :=
  let '(cl, hv) :=
    if needs_config (w_have w) (r_cfg r) then
      let pre := if w_first w then [] else [WBlank] in
      let '(l1, hv1) := walk_old (w_have w) (r_cfg r) in
      let '(l2, hv2) := if (length hv1 =? length (r_cfg r))%nat then ([], hv1) else new_keys (r_cfg r) hv1 in
      (pre ++ l1 ++ l2 ++ [WBlank], hv2)
    else ([], w_have w) in
  (cl ++ [WBench r], mkWstate false hv).

Fixpoint write_results_old (w : wstate) (rs : list result) : list wline :=
  match rs with
  | [] => []
  | r :: rs' => let '(l1, w1) := write_result_old w r in l1 ++ write_results_old w1 rs'
  end.

Definition emit_old (fmt_g : b64 -> bytes) (rs : list result) : bytes :=
  emit_lines fmt_g (write_results_old w_init rs).

(** ** API edits of a Result's configuration (Result.SetConfig and direct
    mutation of Config entries, which result.go allows for values and flags) *)
Inductive cedit :=
| ESet (k v : bytes)          (* res.SetConfig(k, v): v = "" deletes, otherwise the key becomes internal *)
| ESetFile (k v : bytes)      (* what a reader does for "k: v": like ESet, but marked file *)
| EFlip (k : bytes)           (* res.Config[i].File = !res.Config[i].File *)
| EValue (k v : bytes).       (* res.Config[i].Value = v in place *)

Definition edit_at (st : cstate) (k : bytes) (f : cfg -> cfg) : cstate :=
  match pos_find (cs_pos st) k with
  | Some p => match nth_error (cs_slots st) p with
              | Some c => mkCstate (set_nth p (f c) (cs_slots st)) (cs_len st) (cs_pos st)
              | None => st
              end
  | None => st
  end.

Definition apply_edit (st : cstate) (e : cedit) : cstate :=
  match e with
  | ESet k v => set_config st k v
  | ESetFile k v => file_config st k v
  | EFlip k => edit_at st k (fun c => mkCfg (c_key c) (c_val c) (negb (c_file c)))
  | EValue k v => edit_at st k (fun c => mkCfg (c_key c) v (c_file c))
  end.

(** the map meaning of the edits (the documented contract of SetConfig) *)
Definition apply_edit_map (m : cmap) (e : cedit) : cmap :=
  match e with
  | ESet k v => cm_set m k v false
  | ESetFile k v => cm_set m k v true
  | EFlip k => match cfg_lookup m k with
               | Some c => cm_put m k (c_val c) (negb (c_file c))
               | None => m
               end
  | EValue k v => match cfg_lookup m k with
                  | Some c => cm_put m k v (c_file c)
                  | None => m
                  end
  end.

(** ** cmd/benchfilter: for files.Scan() { SyntaxError: skip; Result: keep if
    the filter keeps it; writer.Write(rec) }.  [keep] is the filter applied to
    a result (for the query "*" it keeps everything unchanged). *)
Definition benchfilter_loop (fmt_g : b64 -> bytes) (keep : result -> option result) (recs : list record) : bytes :=
  emit fmt_g (flat_map (fun rec => match rec with
                                   | RErr _ _ _ => []
                                   | RRes r => match keep r with Some r' => [RRes r'] | None => [] end
                                   | RUnit u => [RUnit u]
                                   end) recs).
