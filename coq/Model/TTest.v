(** TTest: the four t-tests of internal/stats/ttest.go over binary64:
    decision logic (errors in the code's order), statistic and
    degrees-of-freedom formulas in the code's evaluation order, tail rule.
    The t distribution's CDF and math.Pow are oracle arguments. *)
From Coq Require Import ZArith List Bool.
From Perf Require Import Base.B64 Model.Beta Model.StatsF.
Import ListNotations.
Local Open Scope Z_scope.

(** LocationHypothesis: LocationLess = -1, LocationDiffers = 0, LocationGreater = 1 *)
Definition alt_less : Z := -1.
Definition alt_differs : Z := 0.
Definition alt_greater : Z := 1.

Inductive terr := ErrSampleSize | ErrZeroVariance | ErrMismatchedSamples.

(** a TTestSample as the tests see it: Weight(), Mean(), Variance() *)
Record tsample := mkTS { ts_n : b64; ts_mean : b64; ts_var : b64 }.

(** a stats.Sample with nil weights used as TTestSample *)
Definition tsample_of (xs : list b64) : tsample :=
  mkTS (weight_f xs) (mean_f xs) (variance_f xs).

Record tresult := mkTR { tr_n1 : option Z; tr_n2 : option Z; tr_t : b64; tr_dof : b64; tr_alt : Z; tr_p : b64 }.

Inductive tout := TOk (r : tresult) | TErr (e : terr) | TMiss | TPanic.

Section TTests.
  Variable tcdf_o : b64 -> b64 -> res b64.        (* dof, x -> TDist{dof}.CDF(x) *)
  Variable pow_o : b64 -> b64 -> option b64.      (* math.Pow *)

  Definition tout_of {A} (r : res A) (k : A -> tout) : tout :=
    match r with Val a => k a | Miss => TMiss | Panicked => TPanic end.

  (** the p-value rule of newTTestResult; an unknown hypothesis leaves p = 0 *)
  Definition p_value (t dof : b64) (alt : Z) : res b64 :=
    if alt =? alt_differs then
      res_map (fun c => b64_mul k_two (b64_sub b64_one c)) (tcdf_o dof (b64_abs t))
    else if alt =? alt_less then tcdf_o dof t
    else if alt =? alt_greater then res_map (fun c => b64_sub b64_one c) (tcdf_o dof t)
    else Val b64_zero.

  Definition new_result (n1 n2 : option Z) (t dof : b64) (alt : Z) : tout :=
    tout_of (p_value t dof alt) (fun p => TOk (mkTR n1 n2 t dof alt p)).

  (** TwoSampleTTest (pooled variance), as repaired by hooks/fix_c12_ttest_zero_dof.diff:
      no degrees of freedom (n1 + n2 <= 2) is a size error; the zero-variance
      decision is taken on the pooled variance the statistic divides by *)
  Definition two_sample_ttest (x1 x2 : tsample) (alt : Z) : tout :=
    let n1 := ts_n x1 in let n2 := ts_n x2 in
    if b64_eq n1 b64_zero || b64_eq n2 b64_zero || b64_le (b64_add n1 n2) k_two then TErr ErrSampleSize
    else
      let v1 := ts_var x1 in let v2 := ts_var x2 in
      let dof := b64_sub (b64_add n1 n2) k_two in
      let v12 := b64_div (b64_add (b64_mul (b64_sub n1 b64_one) v1) (b64_mul (b64_sub n2 b64_one) v2)) dof in
      if b64_eq v12 b64_zero then TErr ErrZeroVariance
      else
        let t := b64_div (b64_sub (ts_mean x1) (ts_mean x2))
                         (b64_sqrt (b64_mul v12 (b64_add (b64_div b64_one n1) (b64_div b64_one n2)))) in
        new_result (b64_to_int n1) (b64_to_int n2) t dof alt.

  (** TwoSampleWelchTTest *)
  Definition welch_ttest (x1 x2 : tsample) (alt : Z) : tout :=
    let n1 := ts_n x1 in let n2 := ts_n x2 in
    if b64_le n1 b64_one || b64_le n2 b64_one then TErr ErrSampleSize
    else
      let v1 := ts_var x1 in let v2 := ts_var x2 in
      if b64_eq v1 b64_zero && b64_eq v2 b64_zero then TErr ErrZeroVariance
      else
        let q1 := b64_div v1 n1 in let q2 := b64_div v2 n2 in
        let s2 := b64_add q1 q2 in
        match pow_o s2 k_two, pow_o q1 k_two, pow_o q2 k_two with
        | Some ps, Some p1, Some p2 =>
            let dof := b64_div ps (b64_add (b64_div p1 (b64_sub n1 b64_one)) (b64_div p2 (b64_sub n2 b64_one))) in
            let s := b64_sqrt s2 in
            let t := b64_div (b64_sub (ts_mean x1) (ts_mean x2)) s in
            new_result (b64_to_int n1) (b64_to_int n2) t dof alt
        | _, _, _ => TMiss
        end.

  (** PairedTTest *)
  Fixpoint diffs (x1 x2 : list b64) : list b64 :=
    match x1, x2 with
    | a :: x1', b :: x2' => b64_sub a b :: diffs x1' x2'
    | _, _ => []
    end.

  Definition paired_ttest (x1 x2 : list b64) (mu0 : b64) (alt : Z) : tout :=
    if negb (Nat.eqb (length x1) (length x2)) then TErr ErrMismatchedSamples
    else if Nat.leb (length x1) 1 then TErr ErrSampleSize
    else
      let n := Z.of_nat (length x1) in
      let dof := b64_of_Z (n - 1) in
      let d := diffs x1 x2 in
      let sd := stddev_f d in
      if b64_eq sd b64_zero then TErr ErrZeroVariance
      else
        let t := b64_div (b64_mul (b64_sub (mean_f d) mu0) (b64_sqrt (b64_of_Z n))) sd in
        new_result (Some n) (Some (Z.of_nat (length x2))) t dof alt.

  (** OneSampleTTest, as repaired by hooks/fix_c12_ttest_zero_dof.diff (n <= 1 is a size error) *)
  Definition one_sample_ttest (x : tsample) (mu0 : b64) (alt : Z) : tout :=
    let n := ts_n x in let v := ts_var x in
    if b64_le n b64_one then TErr ErrSampleSize
    else if b64_eq v b64_zero then TErr ErrZeroVariance
    else
      let dof := b64_sub n b64_one in
      let t := b64_div (b64_mul (b64_sub (ts_mean x) mu0) (b64_sqrt n)) (b64_sqrt v) in
      new_result (b64_to_int n) (Some 0) t dof alt.
End TTests.
