(** Model of storage/query.SplitWords (shell-style word splitting), of the
    analysis front end's query builder (analysis/app/compare.go addToQuery) and
    query-string splitter (analysis/app/parse.go parseQueryString), plus the
    UTF-8 decoding and the three Unicode classes the storage code consults
    (range-over-string, strings.IndexFunc, unicode.IsSpace/IsUpper/IsLower).
    No proofs here. *)
From Perf Require Import Base.Bytes.

Definition w_quote  : byte := x22.   (* double quote *)
Definition w_bslash : byte := x5c.   (* backslash *)
Definition w_space  : byte := x20.
Definition w_tab    : byte := x09.
Definition w_bar    : byte := x7c.   (* vertical bar *)

Definition is_blank (c : byte) : bool := Byte.eqb c w_space || Byte.eqb c w_tab.

(** ** SplitWords *)

(** [flush acc]: the word collected so far ([acc] is reversed); Go emits it
    only when [w > 0]. *)
Definition flush (acc : bytes) : list bytes :=
  match acc with [] => [] | _ => [rev acc] end.

(** The loop of SplitWords. [quoting] is the Go variable, [acc] the bytes
    [word[:w]] reversed. A backslash takes the next byte literally; at the end
    of the input it is dropped (the [r < len(q)] guards). *)
Fixpoint sw (q : bytes) (quoting : bool) (acc : bytes) : list bytes :=
  match q with
  | [] => flush acc
  | c :: q' =>
      if quoting then
        if Byte.eqb c w_quote then sw q' false acc
        else if Byte.eqb c w_bslash then
          match q' with
          | [] => flush acc
          | d :: q'' => sw q'' true (d :: acc)
          end
        else sw q' true (c :: acc)
      else if Byte.eqb c w_quote then sw q' true acc
      else if is_blank c then flush acc ++ sw q' false []
      else if Byte.eqb c w_bslash then
        match q' with
        | [] => flush acc
        | d :: q'' => sw q'' false (d :: acc)
        end
      else sw q' false (c :: acc)
  end.

Definition split_words (q : bytes) : list bytes := sw q false [].

(** ** addToQuery *)

(** strings.Replace(s, [c], [a;b], -1) for a single byte [c]. *)
Definition replace_byte (c : byte) (rep : bytes) (s : bytes) : bytes :=
  flat_map (fun x => if Byte.eqb x c then rep else [x]) s.

Definition needs_quote (c : byte) : bool :=
  is_blank c || Byte.eqb c w_bslash || Byte.eqb c w_quote.

(** the quoting step of addToQuery: two successive replacements, as in the code *)
Definition quote_word (add : bytes) : bytes :=
  if existsb needs_quote add then
    let a1 := replace_byte w_bslash [w_bslash; w_bslash] add in
    let a2 := replace_byte w_quote [w_bslash; w_quote] a1 in
    w_quote :: a2 ++ [w_quote]
  else add.

Definition add_to_query (query add : bytes) : bytes :=
  if existsb (Byte.eqb w_bar) query
  then quote_word add ++ [w_space] ++ query
  else quote_word add ++ [w_space; w_bar; w_space] ++ query.

(** join with single spaces (strings.Join(ws, " ")) *)
Fixpoint join_sp (ws : list bytes) : bytes :=
  match ws with
  | [] => []
  | [w] => w
  | w :: ws' => w ++ w_space :: join_sp ws'
  end.

(** ** UTF-8 decoding as done by [for i, c := range s] and strings.IndexFunc *)

Definition rune_error : N := 65533.   (* U+FFFD *)

Definition in_rng (lo hi : N) (b : byte) : bool := (lo <=? bN b)%N && (bN b <=? hi)%N.
Definition cont (b : byte) : N := (bN b - 128)%N.

(** [decode_rune b0 rest] = (rune, number of bytes consumed), for the input
    [b0 :: rest]. Invalid or short sequences give (U+FFFD, 1). *)
Definition decode_rune (b0 : byte) (rest : bytes) : N * nat :=
  let n0 := bN b0 in
  if (n0 <? 128)%N then (n0, 1)
  else if in_rng 194 223 b0 then
    match rest with
    | b1 :: _ => if in_rng 128 191 b1 then (((n0 - 192) * 64 + cont b1)%N, 2) else (rune_error, 1)
    | _ => (rune_error, 1)
    end
  else if in_rng 224 239 b0 then
    match rest with
    | b1 :: b2 :: _ =>
        let lo := if (n0 =? 224)%N then 160%N else 128%N in
        let hi := if (n0 =? 237)%N then 159%N else 191%N in
        if in_rng lo hi b1 && in_rng 128 191 b2
        then ((((n0 - 224) * 64 + cont b1) * 64 + cont b2)%N, 3) else (rune_error, 1)
    | _ => (rune_error, 1)
    end
  else if in_rng 240 244 b0 then
    match rest with
    | b1 :: b2 :: b3 :: _ =>
        let lo := if (n0 =? 240)%N then 144%N else 128%N in
        let hi := if (n0 =? 244)%N then 143%N else 191%N in
        if in_rng lo hi b1 && in_rng 128 191 b2 && in_rng 128 191 b3
        then (((((n0 - 240) * 64 + cont b1) * 64 + cont b2) * 64 + cont b3)%N, 4) else (rune_error, 1)
    | _ => (rune_error, 1)
    end
  else (rune_error, 1).

(** ** Unicode classes.
    [is_space_r] is the complete White_Space table of Go's unicode package.
    [is_upper_r]/[is_lower_r] are exact on U+0000..U+00FF, on the basic Greek
    and Cyrillic blocks and on every rune without case; other cased letters
    (Latin Extended, ...) are outside the domain on which the model is tied to
    the code (the generators stay inside it; see Corr/RunC19.v). *)
Definition rng (lo hi r : N) : bool := (lo <=? r)%N && (r <=? hi)%N.

Definition is_space_r (r : N) : bool :=
  rng 9 13 r || (r =? 32)%N || (r =? 133)%N || (r =? 160)%N || (r =? 5760)%N
  || rng 8192 8202 r || (r =? 8232)%N || (r =? 8233)%N || (r =? 8239)%N
  || (r =? 8287)%N || (r =? 12288)%N.

Definition is_upper_r (r : N) : bool :=
  rng 65 90 r || (rng 192 222 r && negb (r =? 215)%N)
  || (rng 913 939 r && negb (r =? 930)%N) || rng 1040 1071 r.

Definition is_lower_r (r : N) : bool :=
  rng 97 122 r || (r =? 181)%N || (rng 223 255 r && negb (r =? 247)%N)
  || rng 945 969 r || rng 1072 1103 r.

(** [index_rune f s]: strings.IndexFunc(s, f) — byte offset of the first rune
    satisfying [f], with the rune. Fuel = length of [s]. *)
Fixpoint index_rune_aux (f : N -> bool) (fuel : nat) (s : bytes) (off : nat) : option (nat * N) :=
  match fuel with
  | O => None
  | S fuel' =>
      match s with
      | [] => None
      | b0 :: rest =>
          let '(r, k) := decode_rune b0 rest in
          if f r then Some (off, r) else index_rune_aux f fuel' (skipn k s) (off + k)
      end
  end.

Definition index_rune (f : N -> bool) (s : bytes) : option (nat * N) :=
  index_rune_aux f (length s) s 0.

(** ** parseQueryString (analysis/app/parse.go): "prefix | a vs b" *)

(** The scanning loop. [cur] is the current word [q[:r]] reversed; words are
    cut at unquoted blanks; the literal words "|" (first time, while the prefix
    is still empty) and "vs" are separators. State: parts so far (reversed),
    prefix, queries (reversed). *)
Record pqs := mkPqs { pq_parts : list bytes; pq_prefix : bytes; pq_queries : list bytes }.

Definition pqs_word (st : pqs) (part : bytes) : pqs :=
  if beq part [w_bar] && beq (pq_prefix st) [] then
    mkPqs [] (join_sp (rev (pq_parts st))) (pq_queries st)
  else if beq part (bs "vs") then
    mkPqs [] (pq_prefix st) (join_sp (rev (pq_parts st)) :: pq_queries st)
  else mkPqs (part :: pq_parts st) (pq_prefix st) (pq_queries st).

Fixpoint pqs_scan (q : bytes) (quoting : bool) (cur : bytes) (st : pqs) : pqs * bytes :=
  match q with
  | [] => (st, rev cur)
  | c :: q' =>
      if quoting then
        if Byte.eqb c w_quote then pqs_scan q' false (c :: cur) st
        else if Byte.eqb c w_bslash then
          match q' with
          | [] => (st, rev (c :: cur))
          | d :: q'' => pqs_scan q'' true (d :: c :: cur) st
          end
        else pqs_scan q' true (c :: cur) st
      else if Byte.eqb c w_quote then pqs_scan q' true (c :: cur) st
      else if is_blank c then pqs_scan q' false [] (pqs_word st (rev cur))
      else if Byte.eqb c w_bslash then
        match q' with
        | [] => (st, rev (c :: cur))
        | d :: q'' => pqs_scan q'' false (d :: c :: cur) st
        end
      else pqs_scan q' false (c :: cur) st
  end.

Definition parse_query_string (q : bytes) : bytes * list bytes :=
  let '(st, last) := pqs_scan q false [] (mkPqs [] [] []) in
  let parts := match last with [] => pq_parts st | _ => last :: pq_parts st end in
  let queries := match parts with [] => pq_queries st | _ => join_sp (rev parts) :: pq_queries st end in
  (pq_prefix st, rev queries).
