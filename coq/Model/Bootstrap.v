(** Bootstrap: benchseries.go:721-796, 851-858 — the seed derived from the two
    samples ([Cell.hash], int64 arithmetic with wrap-around), resampling,
    [median], [percentile] and [ratio] in IEEE binary64 ([Base/B64.v]).

    [math/rand] is not modelled: the sequence of results of [r.Intn(l)] for the
    seed is recorded by the harness (calling math/rand directly with the seed the
    MODEL computes is not possible from Go, so the harness records the seed it
    used next to the stream and the model checks that it is the seed it
    computes itself) and REPLAYED here.

    [ratio] is modelled twice: as the code stands ([ratio_asis]) and with the
    repair of hooks/fix_c18_percentile.diff ([ratio]: the interval is clamped to
    contain its centre).  [percentile] is modelled as it stands; its
    interpolation [a[i]*(1-x) + a[i+1]*x] can leave [a[i], a[i+1]] by an ulp. *)
From Coq Require Import ZArith List Bool Lia.
From Perf Require Import Base.B64.
Import ListNotations.
Local Open Scope Z_scope.

(** ** int64 arithmetic *)
Definition wrap64 (z : Z) : Z := (z + 2^63) mod 2^64 - 2^63.

Definition rot : Z := 23.

(** one step of Cell.hash; [w] is math.Float64bits(v) as an unsigned number *)
Definition hash_step (x w : Z) : Z :=
  let xlow := Z.land (Z.shiftr x (64 - rot)) (2^rot - 1) in
  Z.lxor (Z.lxor (wrap64 (Z.shiftl x rot)) xlow) (wrap64 w).

Definition cell_hash (ws : list Z) : Z := fold_left hash_step ws 0.

(** rand.NewSource(c.Numerator.hash() * c.Denominator.hash()) *)
Definition bootstrap_seed (nu de : list Z) : Z := wrap64 (cell_hash nu * cell_hash de).

(** ** sorting binary64 values (sort.Float64s on NaN-free data) *)
Fixpoint insert_f (x : b64) (l : list b64) : list b64 :=
  match l with
  | [] => [x]
  | y :: l' => if b64_lt y x then y :: insert_f x l' else x :: l
  end.
Definition sort_small (l : list b64) : list b64 := fold_right insert_f [] l.

(** bottom-up merge sort for the N bootstrap ratios *)
Fixpoint merge_f (fuel : nat) (a b : list b64) : list b64 :=
  match fuel with
  | O => a ++ b
  | S f =>
      match a, b with
      | [], _ => b
      | _, [] => a
      | x :: a', y :: b' => if b64_lt y x then y :: merge_f f a b' else x :: merge_f f a' b
      end
  end.
Definition merge2 (a b : list b64) : list b64 := merge_f (length a + length b) a b.
Fixpoint merge_pairs (ls : list (list b64)) : list (list b64) :=
  match ls with
  | a :: b :: r => merge2 a b :: merge_pairs r
  | _ => ls
  end.
Fixpoint merge_all (fuel : nat) (ls : list (list b64)) : list b64 :=
  match fuel with
  | O => concat ls
  | S f =>
      match ls with
      | [] => []
      | [a] => a
      | _ => merge_all f (merge_pairs ls)
      end
  end.
Definition sort_f (l : list b64) : list b64 := merge_all (S (length l)) (map (fun x => [x]) l).

(** ** median, percentile *)
Definition nth_f (l : list b64) (i : nat) : b64 := nth i l S754_nan.
Definition b64_two : b64 := b64_of_Z 2.

Definition median (a : list b64) : b64 :=
  let l := length a in
  if Nat.odd l then nth_f a (l / 2)
  else b64_div (b64_add (nth_f a (l / 2)) (nth_f a (l / 2 - 1))) b64_two.

(** Go's int(f) for a finite f: truncation towards zero *)
Definition b64_trunc (f : b64) : option Z :=
  match f with
  | S754_zero _ => Some 0
  | S754_finite s m e =>
      let a := if 0 <=? e then Zpos m * 2 ^ e else Zpos m / 2 ^ (- e) in
      Some (if s then - a else a)
  | _ => None
  end.

(** [None]: the code indexes out of range (panic) or the argument is not finite *)
Definition percentile (a : list b64) (p : b64) : option b64 :=
  match a with
  | [] => Some S754_nan
  | a0 :: _ =>
      if b64_eq p b64_zero then Some a0
      else
        let n := length a in
        if b64_eq p b64_one then Some (nth_f a (n - 1))
        else
          let f := b64_mul (b64_of_Z (Z.of_nat n)) p in
          match b64_trunc f with
          | None => None
          | Some i =>
              if (i <? 0) || (Z.of_nat n <=? i) then None
              else
                let x := b64_sub f (b64_of_Z i) in
                let k := Z.to_nat i in
                let r := nth_f a k in
                if b64_gt x b64_zero && (k + 1 <? n)%nat then
                  Some (b64_add (b64_mul r (b64_sub b64_one x)) (b64_mul (nth_f a (k + 1)) x))
                else Some r
          end
  end.

(** ** resampling driven by the replayed Intn stream *)
Fixpoint take_stream (n : nat) (s : list Z) : option (list Z * list Z) :=
  match n with
  | O => Some ([], s)
  | S n' =>
      match s with
      | i :: s' => match take_stream n' s' with Some (a, r) => Some (i :: a, r) | None => None end
      | [] => None
      end
  end.

(** c.resampleInto(r, x) with len(x) = len(c.Values): the drawn values, sorted *)
Definition resample (vals : list b64) (s : list Z) : option (list b64 * list Z) :=
  match take_stream (length vals) s with
  | Some (idx, r) => Some (sort_small (map (fun i => nth_f vals (Z.to_nat i)) idx), r)
  | None => None
  end.

Definition one_ratio (rnu rde : list b64) : b64 :=
  let den := median rde in
  if b64_eq den b64_zero then
    let num := median rnu in
    if b64_ge num b64_zero then b64_add num b64_one else b64_sub num b64_one
  else b64_div (median rnu) den.

Fixpoint ratios_loop (n : nat) (nu de : list b64) (s : list Z) : option (list b64) :=
  match n with
  | O => Some []
  | S n' =>
      match resample nu s with
      | Some (rnu, s1) =>
          match resample de s1 with
          | Some (rde, s2) =>
              match ratios_loop n' nu de s2 with
              | Some rs => Some (one_ratio rnu rde :: rs)
              | None => None
              end
          | None => None
          end
      | None => None
      end
  end.

Record summary := mkSummary { s_center : b64; s_low : b64; s_high : b64 }.

(** the summary of a sorted ratio vector, as the code stands *)
Definition summarize_asis (confidence : b64) (sorted : list b64) : option summary :=
  let p := b64_div (b64_sub b64_one confidence) b64_two in
  match percentile sorted p, percentile sorted (b64_sub b64_one p) with
  | Some low, Some high => Some (mkSummary (median sorted) low high)
  | _, _ => None
  end.

(** repaired (hooks/fix_c18_percentile.diff): the interval contains its centre *)
Definition clamp_summary (s : summary) : summary :=
  let c := s_center s in
  mkSummary c (if b64_gt (s_low s) c then c else s_low s) (if b64_lt (s_high s) c then c else s_high s).

Definition summarize (confidence : b64) (sorted : list b64) : option summary :=
  option_map clamp_summary (summarize_asis confidence sorted).

(** ratio(nu, de, confidence, r, ratios) with len(ratios) = n.
    outer [None] = the replayed stream was too short (oracle miss);
    inner [None] = the code panics (index out of range in percentile) *)
Definition ratio_gen (summ : b64 -> list b64 -> option summary)
           (nu de : list b64) (confidence : b64) (n : nat) (stream : list Z)
  : option (list b64 * option summary) :=
  match ratios_loop n nu de stream with
  | Some rs => let sorted := sort_f rs in Some (sorted, summ confidence sorted)
  | None => None
  end.

Definition ratio := ratio_gen summarize.
Definition ratio_asis := ratio_gen summarize_asis.
