(** The RULE by which an upload's results are stored as records (C19:
    "consecutive results with identical labels are stored as one record"),
    written without reference to storage/db's batching: the maximal runs of
    consecutive results of an upload carrying the same label map and the same
    name-label map; one record per run, indexed under the labels of the run,
    content = the first result printed afresh followed by the bare lines of the
    others. Next to it, the counter of pending INSERT arguments of
    db.Upload.insertLabel, by which the exact condition under which the CODE
    (Model/StoreFmt.v insert_record) follows the rule is stated. No proofs. *)
From Perf Require Import Base.Bytes Model.Words Model.Query Model.StoreFmt.

(** identical labels: the same label map and the same name-label map (label
    maps are key-sorted association lists, so this is equality of maps) *)
Definition identical (a b : result) : bool :=
  labels_eqb (r_labels a) (r_labels b) && labels_eqb (r_namelabels a) (r_namelabels b).

(** the maximal runs of consecutive results with identical labels, in order *)
Fixpoint spec_runs (rs : list result) : list (list result) :=
  match rs with
  | [] => []
  | r :: rs' =>
      match spec_runs rs' with
      | (x :: g) :: gs => if identical r x then (r :: x :: g) :: gs else [r] :: (x :: g) :: gs
      | gs => [r] :: gs
      end
  end.

(** the record of one run *)
Definition record_of_run (g : list result) : list rec :=
  match g with
  | [] => []
  | r :: rest =>
      [mkRec (r_labels r) (r_namelabels r)
             (print_one [] r ++ concat (map (fun x => r_content x ++ [c_lf]) rest))]
  end.

Definition spec_records (rs : list result) : list rec := flat_map record_of_run (spec_runs rs).

(** the results of an upload by the format's rules: every benchmark line of
    every file, in order, with the labels in effect there (file [i] is read
    with the server's labels for part [i]) *)
Fixpoint upload_results (u : upload_in) (i : N) (fs : list ufile) : list result :=
  match fs with
  | [] => []
  | f :: fs' => read_with (file_meta u i f) (f_body f) ++ upload_results u (i + 1) fs'
  end.

Definition spec_upload_records (u : upload_in) : list rec :=
  spec_records (upload_results u 0 (u_files u)).

(** ** what the code does, and the counter that decides where it deviates *)

(** InsertRecord over the results of an upload, then Commit *)
Definition model_records (rs : list result) : list rec :=
  rev (i_recs (fold_left insert_record rs ins0)).

(** labels InsertRecord queues for the first result of a record *)
Definition nlabels (r : result) : nat := length (r_labels r) + length (r_namelabels r).

(** insertLabel's counter of pending arguments (4 per label; a flush is forced
    in front of a label when 990 or more are pending): queuing [k] labels with
    [pend] arguments pending — was a flush forced, and what is pending after *)
Fixpoint queue_labels (k : nat) (pend : N) : bool * N :=
  match k with
  | O => (false, pend)
  | S k' =>
      if (990 <=? pend)%N then (true, snd (queue_labels k' 4))
      else queue_labels k' (pend + 4)
  end.

(** ... in closed form: a flush is forced while queuing [k] labels iff the
    last of them finds 990 or more arguments pending *)
Definition flush_forced (k : nat) (pend : N) : bool :=
  match k with O => false | S k' => (990 <=? pend + 4 * N.of_nat k')%N end.

(** no forced flush falls on the first result of a run that has a follower:
    the runs are walked with the counter; only the first result of a run queues
    labels *)
Fixpoint no_split (gs : list (list result)) (pend : N) : bool :=
  match gs with
  | [] => true
  | [] :: gs' => no_split gs' pend
  | (r :: rest) :: gs' =>
      let '(fl, p) := queue_labels (nlabels r) pend in
      negb (fl && match rest with [] => false | _ => true end) && no_split gs' p
  end.
