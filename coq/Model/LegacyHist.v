(** LegacyHist: histories on ONE benchstat.Collection (benchstat/{data,table,text,html}.go).

    Go                                          model
    ------------------------------------------  -------------------------------
    c.AddConfig / c.AddFile / c.AddResults      [HAdd]    -> Legacy.add_config
    c.Tables()                                  [HTables] -> reports on the collection as it is
    FormatText / FormatCSV / FormatHTML(tables) [HFormat] -> read-only

    The collection of Model/Legacy.v keeps, per key, the Values only: with
    the REPAIRED computeStats (m.RValues is emptied before the retention loop,
    hooks/fix_c17_tables_twice.diff) RValues, Min, Mean and Max are functions
    of Values, so Tables() leaves nothing behind that a later call could see
    ([compute_stats_again]).  The code as it was before the repair appended to
    the RValues of the previous call: [compute_stats_old], kept here for the
    refutation theorem only.  No proofs in this file. *)
From Coq Require Import ZArith List Bool.
From Perf Require Import Base.Bytes Base.B64 Model.StatsF Model.Legacy.
Import ListNotations.
Local Open Scope Z_scope.

Inductive hop :=
| HAdd (cf : bytes * list result)
| HTables
| HFormat (kind : Z).   (** 0 FormatText, 1 FormatCSV, 2 FormatHTML *)

(** the effect of one operation on the collection *)
Definition hist_step (split : list bytes) (c : coll) (op : hop) : coll :=
  match op with
  | HAdd cf => add_config split c cf
  | HTables => c
  | HFormat _ => c
  end.

(** the collection every Tables() call of the history reports on, in call order *)
Fixpoint hist_reports (split : list bytes) (c : coll) (ops : list hop) : list coll :=
  match ops with
  | [] => []
  | op :: ops' =>
      let c' := hist_step split c op in
      match op with
      | HTables => c' :: hist_reports split c' ops'
      | _ => hist_reports split c' ops'
      end
  end.

Definition hist_final (split : list bytes) (c : coll) (ops : list hop) : coll :=
  fold_left (hist_step split) ops c.

(** specification vocabulary: the configurations added before each Tables()
    call (after the [acc] added earlier), in call order *)
Fixpoint adds_before_reports (acc : list (bytes * list result)) (ops : list hop)
  : list (list (bytes * list result)) :=
  match ops with
  | [] => []
  | HAdd cf :: ops' => adds_before_reports (acc ++ [cf]) ops'
  | HTables :: ops' => acc :: adds_before_reports acc ops'
  | HFormat _ :: ops' => adds_before_reports acc ops'
  end.

(** * computeStats on a Metrics that has been through computeStats before *)

(** repaired: m.RValues = nil, then the retention loop: a function of Unit and Values *)
Definition compute_stats_again (m : mstat) : mstat := compute_stats (m_unit m) (m_values m).

(** as it was: the retention loop appends to the RValues left by the previous call *)
Definition compute_stats_old (m : mstat) : mstat :=
  let lohi := fence (m_values m) in
  let rv := fold_left (fun acc v => if in_fence lohi v then acc ++ [v] else acc) (m_values m) (m_rvalues m) in
  let '(mn, mx) := bounds_f rv in
  mkMstat (m_unit m) (m_values m) rv mn (mean_f rv) mx.

(** a Metrics fresh from addMetrics with its Values appended *)
Definition fresh_mstat (unit : bytes) (vals : list b64) : mstat := mkMstat unit vals [] f_zero f_zero f_zero.

(** the configurations a history adds, in order *)
Fixpoint hist_adds (ops : list hop) : list (bytes * list result) :=
  match ops with
  | [] => []
  | HAdd cf :: ops' => cf :: hist_adds ops'
  | _ :: ops' => hist_adds ops'
  end.
