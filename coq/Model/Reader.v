(** Model of benchfmt.Reader (reader.go), the configuration slots of
    benchfmt.Result (result.go) and the unit-metadata table (units.go), as the
    code exists: line splitting of bufio.ScanLines (CR drop, final unterminated
    line, 64 KiB token limit), line classification in the code's order,
    parseKeyValueLine, splitField, parseBenchmarkLine with its error cases,
    parseUnitLine, in-place configuration with append / slot reuse /
    swap-delete and the configPos index.  Followed by the specification
    [linespec] (configuration as a map, no slots).  No proofs in this file.

    Library behaviour taken as Section variables: unicode.IsSpace/IsLower/
    IsUpper; bytesconv.Atoi and bytesconv.ParseFloat (owned by C03).
    Re-decoding a remainder of a line decodes the remaining runes (decoding is
    positionwise), so the line is decoded once into [runes]. *)
From Perf Require Import Base.Bytes Base.B64 Base.Utf8 Base.Unicode Model.Name Model.Extract Model.Units.
Local Open Scope N_scope.

Inductive errkind := EMissingIters | EBadIters | EMissingMeas | EBadMeas | EMissingUnit
                   | EUnitMissing | EUnitKV | EUnitConflict.

Record result := mkResult { r_cfg : list cfg; r_name : bytes; r_iters : Z; r_vals : list value;
                            r_file : bytes; r_line : Z }.
(** unit metadata with its position *)
Record umetap := mkUmetap { up_meta : umeta; up_file : bytes; up_line : Z }.
Inductive record := RRes (r : result) | RUnit (u : umetap) | RErr (file : bytes) (line : Z) (k : errkind).

(** ** bufio.Scanner with ScanLines *)
Definition max_token : N := 65536.
Inductive ltok := Line (b : bytes) | TooLong.

Definition x_lf : byte := x0a.
Definition x_cr : byte := x0d.

(** [cur] is the current raw line, reversed *)
Definition frev (l : bytes) : bytes := rev_append l [].     (* linear-time reversal *)

Definition finish_line (cur : bytes) : ltok :=
  if max_token <=? N.of_nat (length cur) then TooLong
  else match cur with
       | c :: r => if Byte.eqb c x_cr then Line (frev r) else Line (frev cur)
       | [] => Line []
       end.

Fixpoint split_lines_acc (s : bytes) (cur : bytes) : list ltok :=
  match s with
  | [] => match cur with [] => [] | _ => [finish_line cur] end
  | c :: s' => if Byte.eqb c x_lf then finish_line cur :: split_lines_acc s' []
               else split_lines_acc s' (c :: cur)
  end.
Definition split_lines (s : bytes) : list ltok := split_lines_acc s [].

(** ** Result.Config: slots, length, key index *)
Record cstate := mkCstate { cs_slots : list cfg; cs_len : nat; cs_pos : list (bytes * nat) }.

Definition pos_find (p : list (bytes * nat)) (k : bytes) : option nat :=
  match find (fun e => beq (fst e) k) p with Some e => Some (snd e) | None => None end.
Definition pos_del (p : list (bytes * nat)) (k : bytes) : list (bytes * nat) :=
  filter (fun e => negb (beq (fst e) k)) p.
Definition pos_set (p : list (bytes * nat)) (k : bytes) (i : nat) : list (bytes * nat) :=
  (k, i) :: pos_del p k.

Fixpoint set_nth {A} (n : nat) (x : A) (l : list A) : list A :=
  match l, n with
  | [], _ => []
  | _ :: l', O => x :: l'
  | y :: l', S n' => y :: set_nth n' x l'
  end.

Definition live (st : cstate) : list cfg := firstn (cs_len st) (cs_slots st).

(** ensureConfig followed by the caller's [cfg.Value = append(cfg.Value[:0], v...)] *)
Definition ensure_config (st : cstate) (k v : bytes) (file : bool) : cstate :=
  match pos_find (cs_pos st) k with
  | Some p =>
      match nth_error (cs_slots st) p with
      | Some old => mkCstate (set_nth p (mkCfg (c_key old) v file) (cs_slots st)) (cs_len st) (cs_pos st)
      | None => st
      end
  | None =>
      let n := cs_len st in
      mkCstate (if (n <? length (cs_slots st))%nat           (* len < cap: reuse the old slot *)
                then set_nth n (mkCfg k v file) (cs_slots st)
                else cs_slots st ++ [mkCfg k v file])
               (S n) (pos_set (cs_pos st) k n)
  end.

(** deleteConfig: swap with the last live slot, re-index it, shrink *)
Definition delete_config (st : cstate) (k : bytes) : cstate :=
  match pos_find (cs_pos st) k with
  | None => st
  | Some p =>
      let last := (cs_len st - 1)%nat in
      match nth_error (cs_slots st) p, nth_error (cs_slots st) last with
      | Some a, Some b =>
          mkCstate (set_nth last a (set_nth p b (cs_slots st))) last
                   (pos_del (pos_set (cs_pos st) (c_key b) p) k)
      | _, _ => st
      end
  end.

(** Result.SetConfig (internal) and the reader's file-configuration update *)
Definition set_config (st : cstate) (k v : bytes) : cstate :=
  if is_nil v then delete_config st k else ensure_config st k v false.
Definition file_config (st : cstate) (k v : bytes) : cstate :=
  if is_nil v then delete_config st k else ensure_config st k v true.

(** Reader.Reset: the slice is cut to length 0 (old slots stay behind it),
    the index is emptied, the initial labels are installed *)
Definition reset_config (st : cstate) (labels : list (bytes * bytes)) : cstate :=
  fold_left (fun s kv => set_config s (fst kv) (snd kv)) labels (mkCstate (cs_slots st) 0 []).

Definition cs_empty : cstate := mkCstate [] 0 [].

Section Reader.
Variables is_space is_lower is_upper : N -> bool.
Variable atoi : bytes -> option Z.
Variable parse_float : bytes -> option b64.

(** ** splitField: ASCII mask below RuneSelf, unicode.IsSpace above *)
Definition fspace (r : N) : bool := if r <? 128 then ascii_space r else is_space r.

Fixpoint take_field (l : list chunk) : list chunk * list chunk :=
  match l with
  | [] => ([], [])
  | c :: l' => if fspace (fst c) then ([], l)
               else let '(f, r) := take_field l' in (c :: f, r)
  end.
Fixpoint drop_space (l : list chunk) : list chunk :=
  match l with
  | c :: l' => if fspace (fst c) then drop_space l' else l
  | [] => []
  end.
Definition split_field (l : list chunk) : bytes * list chunk :=
  let '(f, r) := take_field l in (flat f, drop_space r).

(** the fields successive splitField calls deliver from a remainder *)
(** [cur]: the bytes of the field being read, reversed *)
Fixpoint fields_acc (l : list chunk) (cur : bytes) (inf : bool) : list bytes :=
  match l with
  | [] => if inf then [frev cur] else []
  | c :: l' =>
      if fspace (fst c) then (if inf then frev cur :: fields_acc l' [] false else fields_acc l' [] false)
      else fields_acc l' (rev_append (snd c) cur) true
  end.
Definition fields (l : list chunk) : list bytes := fields_acc l [] false.

(** ** atof: integer fast path, then bytesconv.ParseFloat *)
Definition max_fast : Z := ((9223372036854775807 - 10) / 10)%Z.
Fixpoint fast_int (x : bytes) (val : Z) : option Z :=
  match x with
  | [] => Some val
  | ch :: x' =>
      if is_digit ch then
        if (val >? max_fast)%Z then None
        else fast_int x' (val * 10 + (Z.of_N (bN ch) - 48))%Z
      else None
  end.
Definition atof (x : bytes) : option b64 :=
  match fast_int x 0%Z with
  | Some v => Some (b64_of_Z v)
  | None => parse_float x
  end.

(** ** parseBenchmarkLine (on the line after "Benchmark") *)
Inductive bench_out := BSkip | BErr (k : errkind) | BOk (name : bytes) (iters : Z) (vals : list value).

Fixpoint parse_vals (fs : list bytes) (acc : list value) : errkind + list value :=
  match fs with
  | [] => if is_nil acc then inl EMissingMeas else inr acc
  | f :: fs1 =>
      match atof f with
      | None => inl EBadMeas
      | Some v =>
          match fs1 with
          | [] => inl EMissingUnit
          | u :: fs2 => parse_vals fs2 (acc ++ [read_value is_space v u])
          end
      end
  end.

Definition parse_bench (line : bytes) : bench_out :=
  let l := runes line in
  let '(name, rest) := split_field l in
  if is_nil rest && (length name =? length line)%nat then BSkip
  else match fields rest with
       | [] => BErr EMissingIters
       | f :: fs =>
           match atoi f with
           | None => BErr EBadIters
           | Some iters =>
               match parse_vals fs [] with
               | inl k => BErr k
               | inr vals => BOk name iters vals
               end
           end
       end.

(** ** parseKeyValueLine *)
Fixpoint kv_scan (l : list chunk) (i : nat) : option nat :=
  match l with
  | [] => None
  | (r, b) :: l' =>
      if (i =? 0)%nat && negb (is_lower r) then None
      else if is_space r || is_upper r then None
      else if negb (i =? 0)%nat && (r =? 58) then Some i
      else kv_scan l' (length b + i)%nat
  end.

Fixpoint strip_blank (v : bytes) : bytes :=
  match v with
  | c :: v' => if Byte.eqb c x20 || Byte.eqb c x09 then strip_blank v' else v
  | [] => []
  end.

Definition parse_kv (line : bytes) : option (bytes * bytes) :=
  match kv_scan (runes line) 0 with
  | None => None
  | Some i =>
      let key := firstn i line in
      let val := skipn (S i) line in
      if is_nil val then Some (key, [])
      else let val' := strip_blank val in
           if (length val' <? length val)%nat then Some (key, val') else None
  end.

(** ** unit lines: "Unit" unit key=value... *)
Inductive unit_field := UFBad | UFKV (k v : bytes).
Definition parse_unit_field (f : bytes) : unit_field :=
  match index_byte f x3d with
  | Some (S e) => UFKV (firstn (S e) f) (skipn (S (S e)) f)
  | _ => UFBad                              (* eq <= 0 *)
  end.

(** ** classification, in the code's order *)
Inductive lclass :=
| LBench (o : bench_out)
| LUnit (fs : list bytes)        (* the fields after "Unit" *)
| LKV (k v : bytes)
| LOther.

Definition classify (line : bytes) : lclass :=
  if has_prefix line (bs "Benchmark") then LBench (parse_bench (skipn 9 line))
  else
    let unit_rest :=
      match line with
      | c :: _ =>
          if Byte.eqb c x55 then
            let '(f, rest) := split_field (runes line) in
            if beq f (bs "Unit") then Some rest else None
          else None
      | [] => None
      end in
    match unit_rest with
    | Some rest => LUnit (fields rest)
    | None =>
        match parse_kv line with
        | Some (k, v) => LKV k v
        | None => LOther
        end
    end.

(** ** the unit-metadata table (survives Reset) *)
Definition umap_find (m : list umetap) (tu key : bytes) : option umetap :=
  find (fun e => beq (u_unit (up_meta e)) tu && beq (u_key (up_meta e)) key) m.

(** the key=value loop of parseUnitLine: records queued, table extended *)
Fixpoint unit_fields (fname : bytes) (line : Z) (unit tu : bytes) (fs : list bytes)
         (m : list umetap) : list record * list umetap :=
  match fs with
  | [] => ([], m)
  | f :: fs' =>
      match parse_unit_field f with
      | UFBad => let '(rs, m') := unit_fields fname line unit tu fs' m in
                 (RErr fname line EUnitKV :: rs, m')
      | UFKV k v =>
          match umap_find m tu k with
          | Some have =>
              if beq (u_value (up_meta have)) v then unit_fields fname line unit tu fs' m
              else let '(rs, m') := unit_fields fname line unit tu fs' m in
                   (RErr fname line EUnitConflict :: rs, m')
          | None =>
              let e := mkUmetap (mkUmeta tu k unit v) fname line in
              let '(rs, m') := unit_fields fname line unit tu fs' (m ++ [e]) in
              (RUnit e :: rs, m')
          end
      end
  end.

Definition unit_line (fname : bytes) (line : Z) (fs : list bytes) (m : list umetap)
  : list record * list umetap :=
  match fs with
  | [] => ([RErr fname line EUnitMissing], m)
  | unit :: fs' => unit_fields fname line unit (snd (tidy is_space b64_one unit)) fs' m
  end.

(** ** Reader.Scan over the lines of one input *)
(** [rs_q]: the records queued by the current line and not yet delivered
    (r.q beyond r.qPos) *)
Record rstate := mkRstate { rs_cfg : cstate; rs_units : list umetap; rs_q : list record }.

(** one line: the records it queues and the new state *)
Definition step (fname : bytes) (n : Z) (st : rstate) (line : bytes) : list record * rstate :=
  match classify line with
  | LBench BSkip => ([], st)
  | LBench (BErr k) => ([RErr fname n k], st)
  | LBench (BOk name iters vals) =>
      ([RRes (mkResult (live (rs_cfg st)) name iters vals fname n)], st)
  | LUnit fs =>
      let '(rs, m) := unit_line fname n fs (rs_units st) in (rs, mkRstate (rs_cfg st) m (rs_q st))
  | LKV k v => ([], mkRstate (file_config (rs_cfg st) k v) (rs_units st) (rs_q st))
  | LOther => ([], st)
  end.

(** all lines, every queued record delivered: records, I/O error (with the
    line count reached), final state *)
Fixpoint read_lines (fname : bytes) (n : Z) (st : rstate) (ls : list ltok)
  : list record * option Z * rstate :=
  match ls with
  | [] => ([], None, st)
  | TooLong :: _ => ([], Some n, st)
  | Line b :: ls' =>
      let '(rs, st1) := step fname (n + 1) st b in
      let '(rs', e, st2) := read_lines fname (n + 1) st1 ls' in
      (rs ++ rs', e, st2)
  end.

(** ** one call of Scan.  The scanner position is (line count, remaining lines). *)
Definition set_q (st : rstate) (q : list record) : rstate := mkRstate (rs_cfg st) (rs_units st) q.

(** the loop [for len(r.q) == 0 && r.s.Scan()]: lines until one queues something *)
Fixpoint fill (fname : bytes) (n : Z) (st : rstate) (ls : list ltok)
  : option (record * list record) * option Z * Z * rstate * list ltok :=
  match ls with
  | [] => (None, None, n, st, [])
  | TooLong :: _ => (None, Some n, n, st, ls)       (* r.err stays set: later Scans fail the same way *)
  | Line b :: ls' =>
      let '(rs, st1) := step fname (n + 1) st b in
      match rs with
      | r :: q => (Some (r, q), None, (n + 1)%Z, st1, ls')
      | [] => fill fname (n + 1) st1 ls'
      end
  end.

Definition scan (fname : bytes) (n : Z) (st : rstate) (ls : list ltok)
  : option record * option Z * Z * rstate * list ltok :=
  match rs_q st with
  | r :: q => (Some r, None, n, set_q st q, ls)      (* pop the queue, no input consumed *)
  | [] =>
      match fill fname n st ls with
      | (Some (r, q), e, n', st', ls') => (Some r, e, n', set_q st' q, ls')
      | (None, e, n', st', ls') => (None, e, n', st', ls')
      end
  end.

(** [k] calls of Scan (stopping at the first that returns false) *)
Fixpoint scan_n (k : nat) (fname : bytes) (n : Z) (st : rstate) (ls : list ltok)
  : list record * option Z * rstate :=
  match k with
  | O => ([], None, st)
  | S k' =>
      match scan fname n st ls with
      | (Some r, _, n', st', ls') =>
          let '(rs, e, st2) := scan_n k' fname n' st' ls' in (r :: rs, e, st2)
      | (None, e, _, st', _) => ([], e, st')
      end
  end.

Definition file_name (fname : bytes) : bytes := if is_nil fname then bs "<unknown>" else fname.

(** Reader.Reset: configuration cut back and relabelled, unit table kept, the
    queue of the previous input wiped (whatever was still undelivered) *)
Definition reset (st : rstate) (labels : list (bytes * bytes)) : rstate :=
  mkRstate (reset_config (rs_cfg st) labels) (rs_units st) [].

(** Reset(input, fileName, labels...) then Scan to the end *)
Definition read_file (st : rstate) (fname : bytes) (labels : list (bytes * bytes)) (content : bytes)
  : list record * option Z * rstate :=
  read_lines (file_name fname) 0 (reset st labels) (split_lines content).

(** Reset(...) then only [k] calls of Scan: the caller abandons the input,
    possibly in the middle of the records of one line *)
Definition read_file_take (k : nat) (st : rstate) (fname : bytes) (labels : list (bytes * bytes))
           (content : bytes) : list record * option Z * rstate :=
  scan_n k (file_name fname) 0 (reset st labels) (split_lines content).

Definition rs_empty : rstate := mkRstate cs_empty [] [].

(** ** Specification: what the format prescribes, line by line.
    The configuration is a finite map key -> (value, file?) updated by the
    key/value lines ("latest value per key; an empty value removes the key");
    no slots, no index.  A result carries the map in effect at its line. *)
Definition cmap := list cfg.
Definition cm_del (m : cmap) (k : bytes) : cmap := filter (fun c => negb (beq (c_key c) k)) m.
Fixpoint cm_put (m : cmap) (k v : bytes) (file : bool) : cmap :=
  match m with
  | [] => [mkCfg k v file]
  | c :: m' => if beq (c_key c) k then mkCfg k v file :: m' else c :: cm_put m' k v file
  end.
Definition cm_set (m : cmap) (k v : bytes) (file : bool) : cmap :=
  if is_nil v then cm_del m k else cm_put m k v file.
Definition cm_labels (labels : list (bytes * bytes)) : cmap :=
  fold_left (fun m kv => cm_set m (fst kv) (snd kv) false) labels [].

Definition spec_step (fname : bytes) (n : Z) (m : cmap) (um : list umetap) (line : bytes)
  : list record * cmap * list umetap :=
  match classify line with
  | LBench BSkip => ([], m, um)
  | LBench (BErr k) => ([RErr fname n k], m, um)
  | LBench (BOk name iters vals) => ([RRes (mkResult m name iters vals fname n)], m, um)
  | LUnit fs => let '(rs, um') := unit_line fname n fs um in (rs, m, um')
  | LKV k v => ([], cm_set m k v true, um)
  | LOther => ([], m, um)
  end.

Fixpoint spec_lines (fname : bytes) (n : Z) (m : cmap) (um : list umetap) (ls : list ltok)
  : list record * option Z * list umetap :=
  match ls with
  | [] => ([], None, um)
  | TooLong :: _ => ([], Some n, um)
  | Line b :: ls' =>
      let '(rs, m1, um1) := spec_step fname (n + 1) m um b in
      let '(rs', e, um2) := spec_lines fname (n + 1) m1 um1 ls' in
      (rs ++ rs', e, um2)
  end.

(** the caller takes only the first [k] records: the lines up to the one that
    delivers the k-th record are in effect (their unit metadata is recorded) *)
Fixpoint spec_lines_take (fname : bytes) (n : Z) (m : cmap) (um : list umetap) (ls : list ltok) (k : nat)
  {struct ls} : list record * option Z * list umetap :=
  match k with
  | O => ([], None, um)
  | S _ =>
      match ls with
      | [] => ([], None, um)
      | TooLong :: _ => ([], Some n, um)
      | Line b :: ls' =>
          let '(rs, m1, um1) := spec_step fname (n + 1) m um b in
          if (k <=? length rs)%nat then (firstn k rs, None, um1)
          else let '(rs', e, um2) := spec_lines_take fname (n + 1) m1 um1 ls' (k - length rs) in
               (rs ++ rs', e, um2)
      end
  end.

Definition linespec_take (k : nat) (um : list umetap) (fname : bytes) (labels : list (bytes * bytes))
           (content : bytes) : list record * option Z * list umetap :=
  spec_lines_take (file_name fname) 0 (cm_labels labels) um (split_lines content) k.

Definition linespec (um : list umetap) (fname : bytes) (labels : list (bytes * bytes)) (content : bytes)
  : list record * option Z * list umetap :=
  spec_lines (file_name fname) 0 (cm_labels labels) um (split_lines content).

End Reader.

(** configurations as maps: same keys (each once), same value and flag per key *)
Definition cfg_eqb (a b : cfg) : bool :=
  beq (c_key a) (c_key b) && beq (c_val a) (c_val b) && Bool.eqb (c_file a) (c_file b).
Fixpoint nodup_keys (m : list cfg) : bool :=
  match m with
  | [] => true
  | c :: m' => negb (existsb (fun d => beq (c_key d) (c_key c)) m') && nodup_keys m'
  end.
Definition cfg_equivb (a b : list cfg) : bool :=
  (length a =? length b)%nat && nodup_keys a && nodup_keys b &&
  forallb (fun c => match cfg_lookup b (c_key c) with Some d => cfg_eqb c d | None => false end) a.
