(** Model of benchfmt.Files (files.go): labels, duplicate-path
    disambiguation, one reader Reset per file with the [.file] label, unit
    metadata carried across files, stop at the first open or I/O error.
    AllowStdin: [files_run_stdin] / [files_spec_stdin] below (the path "-" reads
    the standard input; with no paths at all the standard input is the only
    input). No proofs here. *)
From Perf Require Import Base.Bytes Base.B64 Base.Utf8 Base.Unicode Model.Name Model.Extract Model.Units Model.Reader.
Local Open Scope N_scope.

Record finput := mkFinput { fi_path : bytes; fi_label : bytes; fi_labeled : bool }.

(** decimal rendering of the disambiguation counter *)
Fixpoint dec_digits (fuel : nat) (n : N) (acc : bytes) : bytes :=
  match fuel with
  | O => acc
  | S f =>
      let d := match Byte.of_N (48 + n mod 10) with Some b => b | None => x30 end in
      if n <? 10 then d :: acc else dec_digits f (n / 10) (d :: acc)
  end.
Definition dec (n : N) : bytes := dec_digits (S (N.to_nat (N.log2 n))) n [].

Definition parse_path (allow_labels : bool) (p : bytes) : finput :=
  match (if allow_labels then index_byte p x3d else None) with
  | Some i => mkFinput (skipn (S i) p) (firstn i p) true
  | None => mkFinput p p false
  end.

(** pathCount / pathI as association lists *)
Definition cnt_get (m : list (bytes * N)) (k : bytes) : N :=
  match find (fun e => beq (fst e) k) m with Some e => snd e | None => 0 end.
Definition cnt_incr (m : list (bytes * N)) (k : bytes) : list (bytes * N) :=
  (k, cnt_get m k + 1) :: filter (fun e => negb (beq (fst e) k)) m.

Definition path_counts (ins : list finput) : list (bytes * N) :=
  fold_left (fun m i => if fi_labeled i then m else cnt_incr m (fi_path i)) ins [].

Fixpoint disambiguate (ins : list finput) (count pathI : list (bytes * N)) : list finput :=
  match ins with
  | [] => []
  | i :: ins' =>
      if fi_labeled i || (cnt_get count (fi_path i) =? 1) then i :: disambiguate ins' count pathI
      else mkFinput (fi_path i) (fi_path i ++ [x23] ++ dec (cnt_get pathI (fi_path i))) false
             :: disambiguate ins' count (cnt_incr pathI (fi_path i))
  end.

Definition files_inputs (allow_labels : bool) (paths : list bytes) : list finput :=
  let ins := map (parse_path allow_labels) paths in
  disambiguate ins (path_counts ins) [].

(** AllowStdin.  With no paths the code appends the input ("-", "-") itself and
    (since the repair "count the implicit stdin input") counts it like a path
    given explicitly, so Files{AllowStdin, Paths: []} reads what
    Files{AllowStdin, Paths: ["-"]} reads. *)
Definition dash : bytes := [x2d].
Definition stdin_paths (paths : list bytes) : list bytes :=
  match paths with [] => [dash] | _ => paths end.
(** the code before that repair: the implicit input is not counted, hence
    "disambiguated" although it is the only input *)
Definition files_inputs_nopaths_old : list finput :=
  disambiguate [mkFinput dash dash false] [] [].

Inductive ferr := FNone | FOpen | FIo (line : Z).

Definition fs_find (fs : list (bytes * bytes)) (p : bytes) : option bytes :=
  match find (fun e => beq (fst e) p) fs with Some e => Some (snd e) | None => None end.

Definition key_file : bytes := bs ".file".

Section Files.
Variables is_space is_lower is_upper : N -> bool.
Variable atoi : bytes -> option Z.
Variable parse_float : bytes -> option b64.

Notation read_file := (read_file is_space is_lower is_upper atoi parse_float).
Notation linespec := (linespec is_space is_lower is_upper atoi parse_float).

Fixpoint files_loop (fs : list (bytes * bytes)) (ins : list finput) (st : rstate)
  : list record * ferr * rstate :=
  match ins with
  | [] => ([], FNone, st)
  | i :: ins' =>
      match fs_find fs (fi_path i) with
      | None => ([], FOpen, st)
      | Some content =>
          let '(rs, e, st1) := read_file st (fi_path i) [(key_file, fi_label i)] content in
          match e with
          | Some n => (rs, FIo n, st1)
          | None => let '(rs', e', st2) := files_loop fs ins' st1 in (rs ++ rs', e', st2)
          end
      end
  end.

Definition files_run (fs : list (bytes * bytes)) (allow_labels : bool) (paths : list bytes)
  : list record * ferr * rstate :=
  files_loop fs (files_inputs allow_labels paths) rs_empty.

(** the standard input as the content of the path "-" (a file of that name is
    never opened when AllowStdin is set) *)
Definition with_stdin (stdin : bytes) (fs : list (bytes * bytes)) : list (bytes * bytes) :=
  (dash, stdin) :: filter (fun e => negb (beq (fst e) dash)) fs.
Definition files_run_stdin (fs : list (bytes * bytes)) (allow_labels : bool) (paths : list bytes) (stdin : bytes) :=
  files_run (with_stdin stdin fs) allow_labels (stdin_paths paths).

(** ** specification *)
(** the label of the i-th path: as given if labelled; the path itself if it is
    the only unlabelled occurrence; otherwise path#k, k = number of earlier
    unlabelled occurrences *)
Definition occurrences (ins : list finput) (p : bytes) : N :=
  N.of_nat (length (filter (fun i => negb (fi_labeled i) && beq (fi_path i) p) ins)).

Fixpoint spec_labels_from (all before rest : list finput) : list finput :=
  match rest with
  | [] => []
  | i :: rest' =>
      (if fi_labeled i then i
       else if occurrences all (fi_path i) =? 1 then i
       else mkFinput (fi_path i) (fi_path i ++ [x23] ++ dec (occurrences before (fi_path i))) false)
      :: spec_labels_from all (before ++ [i]) rest'
  end.
Definition spec_inputs (allow_labels : bool) (paths : list bytes) : list finput :=
  let ins := map (parse_path allow_labels) paths in spec_labels_from ins [] ins.

(** every file is read on its own from the bare label; only the unit
    metadata is threaded through *)
Fixpoint files_spec_loop (fs : list (bytes * bytes)) (ins : list finput) (um : list umetap)
  : list record * ferr * list umetap :=
  match ins with
  | [] => ([], FNone, um)
  | i :: ins' =>
      match fs_find fs (fi_path i) with
      | None => ([], FOpen, um)
      | Some content =>
          let '(rs, e, um1) := linespec um (fi_path i) [(key_file, fi_label i)] content in
          match e with
          | Some n => (rs, FIo n, um1)
          | None => let '(rs', e', um2) := files_spec_loop fs ins' um1 in (rs ++ rs', e', um2)
          end
      end
  end.
Definition files_spec (fs : list (bytes * bytes)) (allow_labels : bool) (paths : list bytes) :=
  files_spec_loop fs (spec_inputs allow_labels paths) [].

(** with AllowStdin: the inputs are the paths, or the standard input alone when
    there are none, labelled "-" (it is the only input, so nothing is
    disambiguated) *)
Definition spec_inputs_stdin (allow_labels : bool) (paths : list bytes) : list finput :=
  match paths with
  | [] => [mkFinput dash dash false]
  | _ => spec_inputs allow_labels paths
  end.
Definition files_spec_stdin (fs : list (bytes * bytes)) (allow_labels : bool) (paths : list bytes) (stdin : bytes) :=
  files_spec_loop (with_stdin stdin fs) (spec_inputs_stdin allow_labels paths) [].

End Files.
