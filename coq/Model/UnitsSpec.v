(** Declarative specification of what a reader must report for a written
    measurement (C04), stated WITHOUT running benchunit's evaluation order.

    The property: "each 'ns' or 'MB' component in the numerator of the written
    unit becomes 'sec' or 'B' and the value is scaled by 1e-9 or 1e6 per
    component, for every value including zero, infinities and NaN".

    For a unit whose numerator holds k "ns" and m "MB" tokens the scaled value
    of v is the REAL number v * 10^(6m - 9k).  A binary64 report of it is
    accepted iff
      - v NaN: it is NaN;  v = +/-0: it is that zero;  v = +/-Inf: that infinity
        (scaling by a positive power of ten fixes these);
      - v finite, non-zero: it has the sign of v and lies within
        [tol_ulps n] units in the last place OF THE REPORTED VALUE of the real
        product (n = k + m; one unit is 2^-1074 in the subnormal range), an
        infinity being accepted only if the real product is within that
        distance of 2^1024, a zero only if it is within that distance of 0.
    No evaluation order is prescribed: multiplying once by an accumulated
    factor, scaling per component, v/1e9 or v*1e-9 all satisfy it as long as
    nothing overflows or underflows on the way that the real product does not.

    No proofs in this file. *)
From Perf Require Import Base.Bytes Base.B64 Base.Utf8 Model.Units.
Local Open Scope Z_scope.

Definition scale_exp (s : scale) : Z := match s with ScNs => -9 | ScMB => 6 end.

(** the decimal exponent of the real scale factor *)
Definition exp10_of (ss : list scale) : Z := fold_right (fun s a => scale_exp s + a) 0 ss.

(** admitted error, in units in the last place of the reported value: every
    component may cost a rounding of the factor and an inexact constant
    (1e-9), the final product one more *)
Definition tol_ulps (n : Z) : Z := 2 * (n + 1).

(** a * 2^ea <= b * 2^eb  for a, b >= 0 *)
Definition le_scaled (a ea b eb : Z) : bool :=
  let e0 := Z.min ea eb in a * 2 ^ (ea - e0) <=? b * 2 ^ (eb - e0).

(** [got] is an acceptable binary64 report of the real number
    (-1)^s * m * 2^e * 10^E, with n components *)
Definition scaled_finite_ok (n E : Z) (s : bool) (m : positive) (e : Z) (got : b64) : bool :=
  let K := tol_ulps n in
  let P := 10 ^ Z.max E 0 in          (* X = m * 2^e * P / B *)
  let B := 10 ^ Z.max (- E) 0 in
  match got with
  | S754_nan => false
  | S754_zero s' =>
      (* X <= K * 2^-1074 *)
      Bool.eqb s s' && le_scaled (Zpos m * P) e (K * B) (-1074)
  | S754_infinity s' =>
      (* X >= 2^1024 - K * 2^971 *)
      Bool.eqb s s' && le_scaled ((2 ^ 53 - K) * B) 971 (Zpos m * P) e
  | S754_finite s' m' e' =>
      (* | m' * 2^e' - X | <= K * 2^e' *)
      Bool.eqb s s' && (-1074 <=? e') &&
      let e0 := Z.min e e' in
      let G := Zpos m' * 2 ^ (e' - e0) * B in
      let X := Zpos m * 2 ^ (e - e0) * P in
      Z.abs (G - X) <=? K * 2 ^ (e' - e0) * B
  end.

Definition scaled_ok (ss : list scale) (v got : b64) : bool :=
  match v with
  | S754_nan => b64_is_nan got
  | S754_zero _ | S754_infinity _ => b64_same got v
  | S754_finite s m e =>
      scaled_finite_ok (Z.of_nat (length ss)) (exp10_of ss) s m e got
  end.

(** the recorded deviation of benchunit.Tidy (known finding
    C04_scale_factor_out_of_range): the factor is accumulated as ONE binary64
    number, in token order; once that number has left the normal range
    (overflowed to +Inf, underflowed to 0 or into the subnormals) the product
    with the value is no longer the scaled value.  [factor_left_range ss f]
    simulates exactly that accumulation. *)
Definition b64_normal (f : b64) : bool :=
  match f with
  | S754_finite _ m _ => 2 ^ 52 <=? Zpos m      (* canonical: 53 significant bits *)
  | _ => false
  end.

Fixpoint factor_left_range (ss : list scale) (f : b64) : bool :=
  match ss with
  | [] => false
  | s :: r => let f' := apply_scale f s in negb (b64_normal f') || factor_left_range r f'
  end.

Section UnitsSpec.
Variable is_space : N -> bool.

(** the value clause.  [relax] = the judge of the known finding: additionally
    allowed is exactly the product with the accumulated factor when that
    factor left the normal range. *)
Definition value_ok (relax : bool) (v : b64) (u : bytes) (got : b64) : bool :=
  let ss := spec_scales is_space u in
  match ss with
  | [] => b64_same got v                      (* nothing to normalise: untouched *)
  | _ :: _ =>
      scaled_ok ss v got
      || (relax && factor_left_range ss b64_one
          && b64_same got (b64_mul v (fold_left apply_scale ss b64_one)))
  end.

(** one reported measurement (Value, Unit, OrigValue, OrigUnit) for the pair
    [v u] as written; [vj] is the value clause *)
Definition report_ok (vj : b64 -> bytes -> b64 -> bool) (v : b64) (u : bytes)
           (got : b64 * bytes * b64 * bytes) : bool :=
  let '(gv, gu, gov, gou) := got in
  let su := spec_unit is_space u in
  if beq su u
  then b64_same gv v && beq gu u && b64_same gov b64_zero && beq gou []
  else beq gu su && b64_same gov v && beq gou u && vj v u gv.

(** a [.unit] matcher [mt] names the measurement written [u] iff it names its
    base unit or its written unit *)
Definition named (mt : bytes -> bool) (u : bytes) : bool := mt (spec_unit is_space u) || mt u.

End UnitsSpec.
