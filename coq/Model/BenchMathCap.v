(** BenchMathCap: AssumeNothing.Compare with the repair hooks/fix_c13_cap_p_at_one.diff
    applied (C13, audit item 1).

    go-moremath's untied exact path of the U-test sums a float DP over the
    probabilities and doubles the sum without a cap, so an exact p of 1 comes
    out as 1 + 2^-52 ({2,3,5} vs {1,4,6}).  The property demands P in [0,1];
    the repair caps inside benchmath:

        cmp := Comparison{P: math.Min(res.P, 1), ...}

    and the rest of Compare (the "need >= n samples" warning) works on the
    capped value.  Model/BenchMath.v is shared and is not changed: the repaired
    function is [compare] over the U-test composed with the cap, which is the
    repaired Go code line by line. *)
From Coq Require Import ZArith List Bool.
From Perf Require Import Base.B64 Model.StatsF Model.BenchMath.
Import ListNotations.

(** math.Min(p, 1): NaN stays NaN, -Inf stays -Inf, otherwise the smaller *)
Definition min_one (p : b64) : b64 :=
  match p with
  | S754_nan => S754_nan
  | _ => if b64_lt p b64_one then p else b64_one
  end.

Definition cap_result (r : test_result) : test_result :=
  match r with
  | TOk p => TOk (min_one p)
  | _ => r
  end.

Definition compare_capped (utest_f welch_f : list b64 -> list b64 -> test_result)
           (a : assumption) (s1 s2 : sample) : option comparison :=
  compare (fun x1 x2 => cap_result (utest_f x1 x2)) welch_f a s1 s2.
