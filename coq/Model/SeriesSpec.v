(** SeriesSpec: a DECLARATIVE executable specification of the comparison series
    of a result set (what benchseries.Builder.Add + AllComparisonSeries must
    return), independent of the order in which results are added, of the order
    in which the Go maps are enumerated, and of the fold in Model/Series.v.

    Everything is said by filtering the result set:
      - the tables are the (unit, table) pairs of the results, sorted;
      - the benchmarks of a table are the .fullname values of its results, the
        series points are the normalised series stamps of its numerators;
      - the cell at (benchmark b, series point s) exists iff some numerator of
        the table has benchmark b and series point s; its date is the latest
        normalised experiment stamp among those numerators;
        DUPE_COMBINE: its numerator samples are the values of all of them, its
        denominator samples are the values of the denominators (same table and
        benchmark) of the experiments of those numerators;
        DUPE_REPLACE: only the numerators of the latest experiment count, and
        the denominators of that experiment;
      - the hash pair of a series point is (numerator hash, baseline hash of
        the trial) of a numerator at that point;
      - the outcome is the error iff some result's experiment stamp, or some
        numerator's series stamp, does not normalise.
    Sample lists are given sorted ([vsort]).

    Proofs/SeriesSpec.v proves that the model meets this specification for all
    well-formed result sets (series_meets_spec); Corr/RunC18.v tests the real
    code against it.  No proofs in this file. *)
From Perf Require Import Base.Bytes Base.Usort Model.Dates Model.Series.
Local Open Scope Z_scope.

Definition nser (r : res) : option bytes := normalize_date (r_ser r).
Definition ndate (r : res) : option bytes := normalize_date (r_exp r).
Definition same_table (r r' : res) : bool := beq (r_unit r) (r_unit r') && beq (r_table r) (r_table r').

(** ** well-formedness of the result set, executable (sound for [WFset]:
    Proofs/SeriesSpec.v, wfset_b_sound) *)
Definition wf_a (rs : list res) : bool :=
  forallb (fun r => forallb (fun r' =>
    negb (is_num r && is_num r' && beq (r_nh r) (r_nh r')) || beq (r_ser r) (r_ser r')) rs) rs.
(** the weaker form of [wf_a] the correspondence run gates on: a numerator
    hash has one series INSTANT (the stamps of its results are equal as texts,
    or normalise to the same string); sound for [WFset_norm]
    (Proofs/SeriesSpelling.v), under which the specification is still met *)
Definition wf_a_norm (rs : list res) : bool :=
  forallb (fun r => forallb (fun r' =>
    negb (is_num r && is_num r' && beq (r_nh r) (r_nh r'))
    || beq (r_ser r) (r_ser r')
    || match nser r, nser r' with Some a, Some b => beq a b | _, _ => false end) rs) rs.
Definition wf_c (rs : list res) : bool :=
  forallb (fun r => forallb (fun r' =>
    negb (is_den r && is_den r' && keqb (tkey r) (tkey r')) || beq (r_dh r) (r_dh r')) rs) rs.
Definition wf_b (rs : list res) : bool :=
  forallb (fun r => forallb (fun r' =>
    negb (is_num r && is_num r' && same_table r r'
          && match nser r, nser r' with Some a, Some b => beq a b | _, _ => false end)
    || (beq (r_nh r) (r_nh r') && beq (bh_of rs (tkey r)) (bh_of rs (tkey r')))) rs) rs.
Definition wf_d (rs : list res) : bool :=
  forallb (fun r => forallb (fun r' =>
    negb (is_num r && is_num r' && same_table r r' && beq (r_bench r) (r_bench r')
          && match nser r, nser r' with Some a, Some b => beq a b | _, _ => false end
          && match ndate r, ndate r' with Some a, Some b => beq a b | _, _ => false end)
    || beq (r_exp r) (r_exp r')) rs) rs.

(** ** declarative specification of the series of a result set (independent of
    insertion order and of the fold in the model) *)
Definition omap_filter {A B} (f : A -> option B) (l : list A) : list B :=
  flat_map (fun x => match f x with Some y => [y] | None => [] end) l.

Definition bmax (l : list bytes) : bytes := fold_left (fun a x => if bltb a x then x else a) l [].

Definition osome_eqb (o : option bytes) (s : bytes) : bool :=
  match o with Some x => beq x s | None => false end.

Definition spec_cell (combine : bool) (R : list res) (b s : bytes) : list ocell :=
  let N := filter (fun r => is_num r && beq (r_bench r) b && osome_eqb (nser r) s) R in
  match N with
  | [] => []
  | _ =>
      let dmax := bmax (omap_filter ndate N) in
      let dens e := map r_val (filter (fun r => is_den r && beq (r_bench r) b && beq (r_exp r) e) R) in
      if combine then
        [mkO b s dmax (vsort (map r_val N)) (vsort (flat_map dens (dedup beq [] (map r_exp N))))]
      else
        let Nw := filter (fun r => osome_eqb (ndate r) dmax) N in
        match Nw with
        | [] => []
        | w :: _ => [mkO b s dmax (vsort (map r_val Nw)) (vsort (dens (r_exp w)))]
        end
  end.

Definition spec_hp (R : list res) (s : bytes) : list (bytes * (bytes * bytes)) :=
  match filter (fun r => is_num r && osome_eqb (nser r) s) R with
  | r :: _ => [(s, (r_nh r, bh_of R (tkey r)))]
  | [] => []
  end.

Definition spec_table (combine : bool) (rs : list res) (ut : bytes * bytes) : series :=
  let R := filter (fun r => beq (r_unit r) (fst ut) && beq (r_table r) (snd ut)) rs in
  let bl := usort bcmp (map r_bench R) in
  let sl := usort bcmp (omap_filter nser (filter is_num R)) in
  mkSeries (ustring (fst ut) (snd ut)) bl sl (flat_map (spec_hp R) sl)
           (flat_map (fun b => flat_map (spec_cell combine R b) sl) bl).

(** the error outcome: some result's experiment stamp, or some numerator's
    series stamp, does not normalise *)
Definition spec_err (rs : list res) : bool :=
  existsb (fun r => match ndate r with None => true | Some _ => false end) rs
  || existsb (fun r => is_num r && match nser r with None => true | Some _ => false end) rs.

(** [None] = the error return *)
Definition spec_series (combine : bool) (rs : list res) : option (list series) :=
  if spec_err rs then None
  else Some (map (spec_table combine rs) (usort cmp2 (map (fun r => (r_unit r, r_table r)) rs))).

(** ** which measurements a cell of table (u, t) consists of (sample_membership)

    a numerator matches the cell iff it is a numerator of the table with the
    cell's benchmark whose normalised series stamp is the cell's series point
    and, under DUPE_REPLACE, whose normalised experiment stamp is the cell's date *)
Definition num_matches (combine : bool) (u t : bytes) (cell : ocell) (r : res) : bool :=
  is_num r && beq (r_unit r) u && beq (r_table r) t && beq (r_bench r) (oc_bench cell)
  && osome_eqb (nser r) (oc_ser cell)
  && (combine || osome_eqb (ndate r) (oc_date cell)).

(** a denominator matches iff it is a denominator of the table with the cell's
    benchmark whose experiment is the experiment of some matching numerator *)
Definition den_matches (combine : bool) (u t : bytes) (cell : ocell) (rs : list res) (r : res) : bool :=
  is_den r && beq (r_unit r) u && beq (r_table r) t && beq (r_bench r) (oc_bench cell)
  && existsb (fun n => num_matches combine u t cell n && beq (r_exp n) (r_exp r)) rs.
