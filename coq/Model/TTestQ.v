(** TTestQ: the textbook t-test formulas over exact rationals (specification).
    The statistic t = D / sqrt W is characterised without square roots by
    t^2 W = D^2 and sign t = sign D, where
      Welch       D = m1 - m2, W = s1^2/n1 + s2^2/n2,
                  nu = W^2 / ((s1^2/n1)^2/(n1-1) + (s2^2/n2)^2/(n2-1))
      pooled      D = m1 - m2, W = sp^2 (1/n1 + 1/n2),
                  sp^2 = ((n1-1) s1^2 + (n2-1) s2^2)/(n1+n2-2), nu = n1+n2-2
      one-sample  D = m - mu0, W = s^2/n, nu = n-1
      paired      the one-sample test of the differences x1_i - x2_i. *)
From Coq Require Import QArith List.
From Perf Require Import Model.StatsQ.
Import ListNotations.
Local Open Scope Q_scope.

Definition welch_w_q (v1 n1 v2 n2 : Q) : Q := v1 / n1 + v2 / n2.

(** Welch-Satterthwaite, in the order ttest.go computes it *)
Definition welch_dof_q (v1 n1 v2 n2 : Q) : Q :=
  let q1 := v1 / n1 in let q2 := v2 / n2 in
  (q1 + q2) * (q1 + q2) / (q1 * q1 / (n1 - 1) + q2 * q2 / (n2 - 1)).

(** ... and as usually printed: (s1^2/n1+s2^2/n2)^2 / (s1^4/(n1^2(n1-1)) + s2^4/(n2^2(n2-1))) *)
Definition welch_dof_textbook_q (v1 n1 v2 n2 : Q) : Q :=
  (v1 / n1 + v2 / n2) * (v1 / n1 + v2 / n2)
  / (v1 * v1 / (n1 * n1 * (n1 - 1)) + v2 * v2 / (n2 * n2 * (n2 - 1))).

Definition pooled_var_q (v1 n1 v2 n2 : Q) : Q := ((n1 - 1) * v1 + (n2 - 1) * v2) / (n1 + n2 - 2).
Definition pooled_w_q (v1 n1 v2 n2 : Q) : Q := pooled_var_q v1 n1 v2 n2 * (1 / n1 + 1 / n2).
Definition pooled_dof_q (n1 n2 : Q) : Q := n1 + n2 - 2.
Definition one_sample_w_q (v n : Q) : Q := v / n.
Definition one_sample_dof_q (n : Q) : Q := n - 1.

Fixpoint diffs_q (xs ys : list Q) : list Q :=
  match xs, ys with
  | x :: xs', y :: ys' => (x - y) :: diffs_q xs' ys'
  | _, _ => []
  end.
