(** Legacy: model of the legacy library golang.org/x/perf/benchstat
    (benchstat/{data,table,delta,sort}.go and the parts of scaler.go/text.go
    that reach a Table), exactly as coded.

    Go                                        model
    ----------------------------------------  ---------------------------------
    Collection.{AddConfig,AddFile,AddResults}  [add_config]
    Collection.addResult                       [result_records] + [add_value]
    Collection.makeGroup                       [make_group]
    Collection.addMetrics                      [add_metrics]
    Metrics.computeStats                       [compute_stats]
    Collection.Tables                          [tables]
    metricOf                                   [metric_of]
    addGeomean                                 [geomean_row]
    ByName / ByDelta / Reverse / Sort          [order_less] / [go_stable_sort]
    fmt.Sprintf("%+.2f%%"), ("%0.3f"), "%d"    [fmt_f] (= FmtFixed.fmt_fixed + sign rule), [dec_of_nat]
    toText / toCSV (labels, delta column)      [text_lines], [csv_lines]

    The old reader golang.org/x/perf/storage/benchfmt (line splitting, labels)
    is not modelled: a result arrives as the values the code reads from it
    (strings.Fields of Content, Atoi of the iteration field, ParseFloat of the
    value fields, the NameLabels/Labels entries of the SplitBy keys).
    The significance test is a parameter [dtest]; stats.GeoMean is StatsF's
    [geomean_f] over log/exp oracles. No proofs in this file. *)
From Coq Require Import ZArith List Bool Strings.String Strings.Byte.
From Perf Require Import Base.Bytes Base.Sx Base.B64 Base.FmtFixed Model.StatsF.
Import ListNotations.
Local Open Scope Z_scope.

(** * strings *)

Definition is_empty {A} (l : list A) : bool := match l with [] => true | _ => false end.

Definition has_suffix (s suf : bytes) : bool := has_prefix (rev s) (rev suf).
Definition trim_suffix (s suf : bytes) : bytes :=
  if has_suffix s suf then firstn (length s - length suf) s else s.

(** decimal digits of a natural number ("%d" of a non-negative int) *)
Definition dec_of_nat (n : nat) : bytes := dec_digits (Z.of_nat n).

(** * fmt's %.<p>f / %+.<p>f of a float64: strconv's exact fixed notation
    (Base/FmtFixed.v: the round-half-even decimal of the exact binary value),
    with fmt's sign rule: the '+' flag puts a '+' before everything that has
    no sign of its own (NaN included; strconv already writes "+Inf") *)
Definition fmt_f (plus : bool) (p : nat) (x : b64) : bytes :=
  (if plus && negb (b64_signbit x) && negb (b64_is_inf x) then [x2b] else []) ++ fmt_fixed x p.

(** * the collection *)

Record key := mkKey { k_config : bytes; k_group : bytes; k_bench : bytes; k_unit : bytes }.
Definition key_eqb (a b : key) : bool :=
  beq (k_config a) (k_config b) && beq (k_group a) (k_group b)
  && beq (k_bench a) (k_bench b) && beq (k_unit a) (k_unit b).

(** what addResult reads from one *benchfmt.Result *)
Record result := mkResult {
  r_namelabels : list bytes;   (** r.NameLabels[s] for s in SplitBy ("" if absent) *)
  r_labels : list bytes;       (** r.Labels[s] for s in SplitBy *)
  r_fields : list bytes;       (** strings.Fields(r.Content) *)
  r_iters : Z;                 (** strconv.Atoi(f[1]), 0 on error *)
  r_vals : list (option b64)   (** strconv.ParseFloat(f[i], 64), i = 2, 4, ... while i+2 <= len(f) *)
}.

Record coll := mkColl {
  c_configs : list bytes;
  c_groups : list bytes;
  c_units : list bytes;
  c_benchmarks : list (bytes * list bytes);     (** map[group][]benchmark *)
  c_metrics : list (key * list b64)             (** map[Key]*Metrics: Values in append order *)
}.
Definition empty_coll : coll := mkColl [] [] [] [] [].

Definition mem_b (x : bytes) (l : list bytes) : bool := existsb (beq x) l.
(** addString *)
Definition add_string (l : list bytes) (s : bytes) : list bytes :=
  if mem_b s l then l else l ++ [s].

Fixpoint assoc_b {A} (k : bytes) (l : list (bytes * A)) : option A :=
  match l with
  | [] => None
  | (k', v) :: l' => if beq k k' then Some v else assoc_b k l'
  end.
Fixpoint assoc_set_b {A} (k : bytes) (v : A) (l : list (bytes * A)) : list (bytes * A) :=
  match l with
  | [] => [(k, v)]
  | (k', v') :: l' => if beq k k' then (k, v) :: l' else (k', v') :: assoc_set_b k v l'
  end.
Definition benchmarks_of (c : coll) (g : bytes) : list bytes :=
  match assoc_b g (c_benchmarks c) with Some l => l | None => [] end.

Fixpoint find_metrics (k : key) (l : list (key * list b64)) : option (list b64) :=
  match l with
  | [] => None
  | (k', v) :: l' => if key_eqb k k' then Some v else find_metrics k l'
  end.
Fixpoint append_value (k : key) (x : b64) (l : list (key * list b64)) : list (key * list b64) :=
  match l with
  | [] => []
  | (k', v) :: l' => if key_eqb k k' then (k', v ++ [x]) :: l' else (k', v) :: append_value k x l'
  end.

(** addMetrics: the first sight of a key registers config, group, benchmark
    (under its group) and unit, each unless already present *)
Definition add_metrics (c : coll) (k : key) : coll :=
  match find_metrics k (c_metrics c) with
  | Some _ => c
  | None =>
      mkColl (add_string (c_configs c) (k_config k))
             (add_string (c_groups c) (k_group k))
             (add_string (c_units c) (k_unit k))
             (assoc_set_b (k_group k) (add_string (benchmarks_of c (k_group k)) (k_bench k)) (c_benchmarks c))
             (c_metrics c ++ [(k, [])])
  end.

(** m := c.addMetrics(key); m.Values = append(m.Values, val) *)
Definition add_value (c : coll) (kv : key * b64) : coll :=
  let c' := add_metrics c (fst kv) in
  mkColl (c_configs c') (c_groups c') (c_units c') (c_benchmarks c')
         (append_value (fst kv) (snd kv) (c_metrics c')).

(** makeGroup: "k:v" for every SplitBy key with a non-empty value (name label
    first, then file label), joined by single spaces *)
Definition c_colon : byte := x3a.
Definition c_space : byte := x20.
Fixpoint make_group_from (out : bytes) (split : list bytes) (nls ls : list bytes) : bytes :=
  match split, nls, ls with
  | s :: split', nl :: nls', l :: ls' =>
      let v := if is_empty nl then l else nl in
      let out' := if is_empty v then out
                  else (if is_empty out then out else out ++ [c_space]) ++ s ++ c_colon :: v in
      make_group_from out' split' nls' ls'
  | _, _, _ => out
  end.
Definition make_group (split : list bytes) (r : result) : bytes :=
  make_group_from [] split (r_namelabels r) (r_labels r).

(** the (unit, value) pairs of the line: f[i], f[i+1] for i = 2, 4, ... *)
Fixpoint value_pairs (fs : list bytes) (vals : list (option b64)) : list (bytes * b64) :=
  match fs, vals with
  | _ :: u :: fs', v :: vals' =>
      match v with
      | Some x => (u, x) :: value_pairs fs' vals'
      | None => value_pairs fs' vals'
      end
  | _, _ => []
  end.

Definition s_Benchmark : bytes := bs "Benchmark".

(** addResult as the list of (key, value) it feeds to addMetrics, in order *)
Definition result_records (split : list bytes) (config : bytes) (r : result) : list (key * b64) :=
  match r_fields r with
  | name :: _ :: f2 :: f3 :: rest =>
      if negb (has_prefix name s_Benchmark) then []
      else if r_iters r =? 0 then []
      else
        let bench := skipn (length s_Benchmark) name in
        let g := make_group split r in
        map (fun '(u, x) => (mkKey config g bench u, x)) (value_pairs (f2 :: f3 :: rest) (r_vals r))
  | _ => []
  end.

(** AddFile / AddConfig / AddResults: the config name is appended
    unconditionally, then every result is added *)
Definition config_records (split : list bytes) (cf : bytes * list result) : list (key * b64) :=
  concat (map (result_records split (fst cf)) (snd cf)).
Definition add_config (split : list bytes) (c : coll) (cf : bytes * list result) : coll :=
  let c0 := mkColl (c_configs c ++ [fst cf]) (c_groups c) (c_units c) (c_benchmarks c) (c_metrics c) in
  fold_left add_value (config_records split cf) c0.

Definition build (split : list bytes) (cfs : list (bytes * list result)) : coll :=
  fold_left (add_config split) cfs empty_coll.

(** * computeStats *)

Record mstat := mkMstat {
  m_unit : bytes;
  m_values : list b64;
  m_rvalues : list b64;
  m_min : b64;
  m_mean : b64;
  m_max : b64
}.
(** new(Metrics) *)
Definition empty_mstat : mstat := mkMstat [] [] [] f_zero f_zero f_zero.

Definition f_1_5 : b64 := b64_of_ZE 3 (-1).
Definition f_100 : b64 := b64_of_Z 100.

(** lo, hi := q1-1.5*(q3-q1), q3+1.5*(q3-q1) with R8 quartiles *)
Definition fence (vals : list b64) : b64 * b64 :=
  let q1 := percentile_f false vals f_quarter in
  let q3 := percentile_f false vals f_three_quarters in
  (b64_sub q1 (b64_mul f_1_5 (b64_sub q3 q1)), b64_add q3 (b64_mul f_1_5 (b64_sub q3 q1))).

Definition in_fence (lohi : b64 * b64) (v : b64) : bool := b64_le (fst lohi) v && b64_le v (snd lohi).

(** for _, value := range m.Values { if lo <= value && value <= hi { append } } *)
Definition retain (lohi : b64 * b64) (vals : list b64) : list b64 :=
  fold_left (fun acc v => if in_fence lohi v then acc ++ [v] else acc) vals [].

Definition compute_stats (unit : bytes) (vals : list b64) : mstat :=
  let rv := retain (fence vals) vals in
  let '(mn, mx) := bounds_f rv in
  mkMstat unit vals rv mn (mean_f rv) mx.

(** * metricOf *)
Definition metric_suffix : list (bytes * bytes) :=
  [(bs "ns/op", bs "time/op"); (bs "ns/GC", bs "time/GC"); (bs "B/op", bs "alloc/op"); (bs "MB/s", bs "speed")].
Definition c_dash : byte := x2d.

Fixpoint metric_of_suffix (unit : bytes) (tab : list (bytes * bytes)) : option bytes :=
  match tab with
  | [] => None
  | (s, suff) :: tab' =>
      if has_suffix unit (c_dash :: s)
      then Some (trim_suffix unit (c_dash :: s) ++ c_dash :: suff)
      else metric_of_suffix unit tab'
  end.

Definition metric_of (unit : bytes) : bytes :=
  match assoc_b unit metric_suffix with
  | Some s => s
  | None => match metric_of_suffix unit metric_suffix with Some s => s | None => unit end
  end.

Definition s_speed : bytes := bs "speed".

(** * rows and tables *)

Inductive terr :=
| ENone
| EStatsZeroVariance      (** == stats.ErrZeroVariance *)
| EStatsSampleSize        (** == stats.ErrSampleSize *)
| EStatsSamplesEqual      (** == stats.ErrSamplesEqual *)
| EOther (msg : bytes).   (** any other error, with its Error() text *)

Record row := mkRow {
  w_bench : bytes;
  w_group : bytes;
  w_metrics : list mstat;
  w_pct : b64;
  w_delta : bytes;
  w_note : bytes;
  w_change : Z
}.

Record table := mkTable {
  t_metric : bytes;
  t_oldnew : bool;
  t_configs : list bytes;
  t_groups : list bytes;
  t_rows : list row
}.

Definition f_m1 : b64 := b64_of_Z (-1).
Definition f_0_05 : b64 := b64_div (b64_of_Z 5) (b64_of_Z 100).   (* the constant 0.05 *)
Definition s_tilde : bytes := bs "~".
Definition c_pct : byte := x25.

(** ((new.Mean / old.Mean) - 1.0) * 100.0 *)
Definition pct_delta (oldm newm : b64) : b64 :=
  b64_mul (b64_sub (b64_div newm oldm) b64_one) f_100.
(** fmt.Sprintf("%+.2f%%", pct) *)
Definition fmt_delta (pct : b64) : bytes := fmt_f true 2 pct ++ [c_pct].
(** fmt.Sprintf("(p=%0.3f n=%d+%d)", pval, len(old.RValues), len(new.RValues)) *)
Definition fmt_pnote (p : b64) (n1 n2 : nat) : bytes :=
  bs "(p=" ++ fmt_f false 3 p ++ bs " n=" ++ dec_of_nat n1 ++ bs "+" ++ dec_of_nat n2 ++ bs ")".

Definition err_note (e : terr) : bytes :=
  match e with
  | ENone => []
  | EStatsZeroVariance => bs "(zero variance)"
  | EStatsSampleSize => bs "(too few samples)"
  | EStatsSamplesEqual => bs "(all equal)"
  | EOther msg => bs "(" ++ msg ++ bs ")"
  end.
Definition is_enone (e : terr) : bool := match e with ENone => true | _ => false end.

(** the effective alpha *)
Definition eff_alpha (alpha : b64) : b64 := if b64_eq alpha f_zero then f_0_05 else alpha.

(** the old/new part of a row: (PctDelta, Delta, Note, Change) *)
Definition delta_cells (metric : bytes) (alpha : b64) (pe : b64 * terr) (o n : mstat)
  : b64 * bytes * bytes * Z :=
  let '(pval, e) := pe in
  let '(pct, delta, change) :=
    if is_enone e && b64_lt pval alpha then
      if b64_eq (m_mean n) (m_mean o) then (f_zero, bs "0.00%", 0)
      else
        let pct := pct_delta (m_mean o) (m_mean n) in
        (* hooks/fix_c17_change_direction.diff: the direction is that of the
           means (new.Mean < old.Mean), not the sign of pct, which is the
           wrong way round for a negative old mean *)
        (pct, fmt_delta pct,
         if Bool.eqb (b64_lt (m_mean n) (m_mean o)) (negb (beq metric s_speed)) then 1 else -1)
    else (f_zero, s_tilde, 0) in
  let note := err_note e in
  let note := if is_empty note && negb (b64_eq pval f_m1)
              then fmt_pnote pval (length (m_rvalues o)) (length (m_rvalues n)) else note in
  (pct, delta, note, change).

(** ** orders *)
Inductive base_order := ByName | ByDelta.
(** an Order value: nil, or a base order under [n] applications of Reverse *)
Definition order := option (base_order * nat).

Definition delta_key (r : row) : b64 := b64_mul (b64_abs (w_pct r)) (b64_of_Z (w_change r)).
Definition base_less (o : base_order) (a b : row) : bool :=
  match o with
  | ByName => bltb (w_bench a) (w_bench b)
  | ByDelta => b64_lt (delta_key a) (delta_key b)
  end.
Fixpoint rev_less (n : nat) (less : row -> row -> bool) : row -> row -> bool :=
  match n with O => less | S n' => fun a b => rev_less n' less b a end.
Definition order_less (o : base_order * nat) : row -> row -> bool := rev_less (snd o) (base_less (fst o)).

(** sort.SliceStable on at most 20 elements is this insertion sort
    (insertionSort in sort/zsortfunc.go: element i sinks from the right while
    less(i, i-1)); on longer slices Go merges sorted blocks of 20, which gives
    the same result whenever [less] is a strict weak order. The sorted prefix
    is kept reversed. *)
Section Sort.
  Context {A : Type} (less : A -> A -> bool).
  Fixpoint sink (x : A) (rp : list A) : list A :=
    match rp with
    | [] => [x]
    | y :: rp' => if less x y then y :: sink x rp' else x :: rp
    end.
  Definition go_stable_sort (l : list A) : list A :=
    rev (fold_left (fun rp x => sink x rp) l []).
End Sort.

Section Tables.
  Variable dtest : mstat -> mstat -> b64 * terr.       (** the DeltaTest in force *)
  Variable log_o exp_o : b64 -> option b64.            (** math.Log / math.Exp oracles *)
  Variable alpha0 : b64.                               (** c.Alpha *)
  Variable ord : order.                                (** c.Order *)
  Variable add_geomean : bool.                         (** c.AddGeoMean *)
  Variable c : coll.

  Definition stat_of (k : key) : option mstat :=
    option_map (compute_stats (k_unit k)) (find_metrics k (c_metrics c)).

  Definition oldnew : bool := (length (c_configs c) =? 2)%nat.
  Definition alpha : b64 := eff_alpha alpha0.

  (** one (group, benchmark) of one unit; None = row omitted *)
  Definition make_row (unit g b : bytes) : option row :=
    let ms := map (fun cf => match stat_of (mkKey cf g b unit) with Some m => m | None => empty_mstat end)
                  (c_configs c) in
    let grp := if (1 <? length (c_groups c))%nat then g else [] in
    if oldnew then
      match stat_of (mkKey (nth 0 (c_configs c) []) g b unit),
            stat_of (mkKey (nth 1 (c_configs c) []) g b unit) with
      | Some o, Some n =>
          let '(pct, delta, note, change) := delta_cells (metric_of unit) alpha (dtest o n) o n in
          Some (mkRow b grp ms pct delta note change)
      | _, _ => None
      end
    else Some (mkRow b grp ms f_zero [] [] 0).

  (** all (group, benchmark) pairs in first-appearance order *)
  Definition all_benchmarks : list (bytes * bytes) :=
    concat (map (fun g => map (fun b => (g, b)) (benchmarks_of c g)) (c_groups c)).

  Fixpoint opt_rows (unit : bytes) (gbs : list (bytes * bytes)) : list row :=
    match gbs with
    | [] => []
    | (g, b) :: gbs' =>
        match make_row unit g b with
        | Some r => r :: opt_rows unit gbs'
        | None => opt_rows unit gbs'
        end
    end.

  Definition plain_rows (unit : bytes) : list row := opt_rows unit all_benchmarks.

  Definition sorted_rows (unit : bytes) : list row :=
    match ord with
    | None => plain_rows unit
    | Some o => go_stable_sort (order_less o) (plain_rows unit)
    end.

  (** the non-zero means of one config, in first-appearance order: addGeomean
      ranges over EVERY benchmark of the collection that has statistics for
      this unit and configuration, whether or not the table shows a row for it
      (an old-new table omits a benchmark that one configuration lacks) *)
  Definition nonzero_means (unit cf : bytes) : list b64 :=
    concat (map (fun '(g, b) =>
                   match stat_of (mkKey cf g b unit) with
                   | Some m => if b64_eq (m_mean m) f_zero then [] else [m_mean m]
                   | None => []
                   end) all_benchmarks).

  Definition s_geomean : bytes := bs "[Geo mean]".

  (** addGeomean: Some None = no row added; None = oracle table incomplete *)
  Definition geomean_row (unit : bytes) : option (option row) :=
    let per := map (nonzero_means unit) (c_configs c) in
    let max_count := fold_left (fun a l => Nat.max a (length l)) per O in
    do gms <- omap (fun means => match means with
                                 | [] => Some None
                                 | _ => option_map Some (geomean_f log_o exp_o means)
                                 end) per;
    let delta := oldnew && forallb (fun g => match g with Some _ => true | None => false end) gms in
    let ms := map (fun g => match g with
                            | Some gm => mkMstat unit [] [] f_zero gm f_zero
                            | None => empty_mstat
                            end) gms in
    if (max_count <=? 1)%nat then Some None
    else
      match delta, gms with
      | true, [Some g0; Some g1] =>
          let pct := pct_delta g0 g1 in
          Some (Some (mkRow s_geomean [] ms pct (fmt_delta pct) [] 0))
      | _, _ => Some (Some (mkRow s_geomean [] ms f_zero [] [] 0))
      end.

  (** one unit's table; Some None = no rows, table dropped *)
  Definition table_of (unit : bytes) : option (option table) :=
    let rows := sorted_rows unit in
    match rows with
    | [] => Some None
    | _ =>
        do extra <- (if add_geomean then geomean_row unit else Some None);
        let rows' := match extra with Some r => rows ++ [r] | None => rows end in
        Some (Some (mkTable (metric_of unit) oldnew (c_configs c) (c_groups c) rows'))
    end.

  Definition tables : option (list table) :=
    do ts <- omap table_of (c_units c);
    Some (concat (map (fun t => match t with Some t => [t] | None => [] end) ts)).
End Tables.

(** * what FormatText / FormatCSV show of a row: first cell and delta cell *)

(** the rows of toText/toCSV as (label, delta) pairs before trimming: header,
    then per row an optional group header and the row itself *)
Fixpoint body_lines (two : bool) (group : bytes) (rows : list row) : list (bytes * bytes) :=
  match rows with
  | [] => []
  | r :: rows' =>
      let hdr := if beq (w_group r) group then [] else [(w_group r, [])] in
      hdr ++ (w_bench r, if two then w_delta r else []) :: body_lines two (w_group r) rows'
  end.
Definition table_lines (t : table) : list (bytes * bytes) :=
  body_lines (length (t_configs t) =? 2)%nat [] (t_rows t).

(** * specification vocabulary (used by the theorems and by prop_ok) *)

(** first appearances, written without reference to addString: keep an element,
    delete its later copies *)
Fixpoint firsts (l : list bytes) : list bytes :=
  match l with
  | [] => []
  | x :: l' => x :: filter (fun y => negb (beq y x)) (firsts l')
  end.

(** the values recorded under a key, in input order *)
Definition values_of (recs : list (key * b64)) (k : key) : list b64 :=
  map snd (filter (fun r => key_eqb k (fst r)) recs).

(** every (key, value) the input carries, in input order *)
Definition all_records (split : list bytes) (cfs : list (bytes * list result)) : list (key * b64) :=
  concat (map (config_records split) cfs).

Definition benches_of_spec (recs : list (key * b64)) (g : bytes) : list bytes :=
  firsts (map (fun r => k_bench (fst r)) (filter (fun r => beq (k_group (fst r)) g) recs)).

(** the overflow guard of the incremental mean: no difference [x - m] formed
    while averaging overflows to an infinity (every other operation of a step
    is then finite as well, see Proofs/LegacyMean.v) *)
Fixpoint mean_no_overflow_loop (m : b64) (i : Z) (xs : list b64) : bool :=
  match xs with
  | [] => true
  | x :: xs' => b64_is_finite (b64_sub x m) && mean_no_overflow_loop (mean_step m i x) (i + 1) xs'
  end.
Definition mean_no_overflow (xs : list b64) : bool := mean_no_overflow_loop f_zero 0 xs.
