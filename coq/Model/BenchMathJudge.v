(** BenchMathJudge: the declarative judges of C13 for the clauses whose value is
    a binary64 computed by a numerical routine: "centre is the sample median",
    "the mean with its t interval", "equal to the exact permutation p-value".
    Everything is stated in exact rational arithmetic over the values of the
    floats, independently of the algorithms of benchmath / go-moremath, with
    tolerances RELATIVE to the natural scale of the quantity (never an absolute
    constant: a sample of magnitude 2^-300 is judged as tightly as one of
    magnitude 1).  No proofs in this file. *)
From Coq Require Import ZArith List Bool.
From Perf Require Import Base.Sx Base.B64 Model.StatsF Model.MoreMathU Model.BenchMathSpec.
Import ListNotations.
Local Open Scope Z_scope.

(** rationals (numerator, positive denominator) *)
Definition rat_abs (a : rat) : rat := (Z.abs (fst a), snd a).
Definition rat_add (a b : rat) : rat := (fst a * snd b + fst b * snd a, snd a * snd b).
Definition rat_sub (a b : rat) : rat := (fst a * snd b - fst b * snd a, snd a * snd b).
Definition rat_mul (a b : rat) : rat := (fst a * fst b, snd a * snd b).
Definition rat_sq (a : rat) : rat := rat_mul a a.
Definition rat_half (a : rat) : rat := (fst a, 2 * snd a).
Definition rat_max (a b : rat) : rat := if rat_le a b then b else a.
Definition rat_scale_z (a : rat) (num den : Z) : rat := (fst a * num, snd a * den).

(** |a - b| <= scale / 10^k *)
Definition rat_within (k : Z) (a b scale : rat) : bool :=
  rat_le (rat_scale_z (rat_abs (rat_sub a b)) (10 ^ k) 1) scale.

(** |a - b| <= max(|a|, |b|) / 10^k: purely relative; a = b = 0 passes, a = 0 <> b fails *)
Definition rat_rel (k : Z) (a b : rat) : bool := rat_within k a b (rat_max (rat_abs a) (rat_abs b)).

(** |a - b| <= max(|a|, |b|) / 10^k + 1 / 10^j *)
Definition rat_rel_abs (k j : Z) (a b : rat) : bool :=
  rat_rel k a b || rat_le (rat_scale_z (rat_abs (rat_sub a b)) (10 ^ j) 1) (1, 1).

(** ** centre = sample median (n >= 1 sorted values [xs]):
    the middle order statistic, or the midpoint of the two middle ones, to
    10^-12 of the larger of the two in magnitude *)
Definition median_ok (xs : list b64) (c : b64) : bool :=
  let n := zlen xs in
  match rat_of_b64 (nth_f xs ((n - 1) / 2)), rat_of_b64 (nth_f xs (n / 2)), rat_of_b64 c with
  | Some ql, Some qu, Some qc =>
      rat_within 12 qc (rat_half (rat_add ql qu)) (rat_max (rat_abs ql) (rat_abs qu))
  | _, _, _ => false
  end.

(** ** a sample of finite binary64 values as integers over one power of two:
    x_i = z_i * 2^e exactly (keeps the exact arithmetic below small: no products
    of 70 denominators) *)
Definition dy_of_b64 (x : b64) : option (Z * Z) :=
  match x with
  | S754_zero _ => Some (0, 0)
  | S754_finite s m e => Some (if s then Zneg m else Zpos m, e)
  | _ => None
  end.
Definition common_ints (xs : list b64) : option (list Z * Z) :=
  match omap dy_of_b64 xs with
  | Some ds =>
      let e := fold_left (fun m d => if fst d =? 0 then m else Z.min m (snd d)) ds 2000 in
      Some (map (fun d => if fst d =? 0 then 0 else fst d * 2 ^ (snd d - e)) ds, e)
  | None => None
  end.
(** z * 2^e as a rational *)
Definition rat_of_scaled (z e : Z) : rat := (z * 2 ^ (Z.max e 0), 2 ^ (Z.max (- e) 0)).

(** the exact mean  (sum z / n) * 2^e *)
Definition exact_mean (zs : list Z) (e : Z) : rat :=
  let m := rat_of_scaled (zsum zs) e in (fst m, snd m * zlen zs).
(** sum (x - mean)^2 = (n * sum z^2 - (sum z)^2) / n * 2^(2e) *)
Definition exact_sq_dev (zs : list Z) (e : Z) : rat :=
  let n := zlen zs in
  let s := zsum zs in
  let v := rat_of_scaled (n * zsum (map (fun z => z * z) zs) - s * s) (2 * e) in
  (fst v, snd v * n).
Definition max_abs (zs : list Z) (e : Z) : rat :=
  rat_of_scaled (fold_left (fun m z => Z.max m (Z.abs z)) zs 0) e.

(** ** centre = sample mean, to 10^-12 of the largest magnitude in the sample *)
Definition mean_ok (xs : list b64) (c : b64) : bool :=
  match common_ints xs, rat_of_b64 c with
  | Some (zs, e), Some qc => (1 <=? zlen zs) && rat_within 12 qc (exact_mean zs e) (max_abs zs e)
  | _, _ => false
  end.

(** ** the t interval of the normal model, n >= 2 values, level conf in (0,1).
    [alpha_o, tq]: the recorded oracle, tq = the alpha_o-quantile of Student's t
    with n - 1 degrees of freedom (a direct library call of the harness).
    Declaratively: alpha_o = (1 - conf)/2; the interval is symmetric about the
    centre; its half width W satisfies  W^2 = tq^2 * s^2 / n  with
    s^2 = sum (x - mean)^2 / (n - 1)  the unbiased sample variance -- i.e.
    W = |t quantile| * sd / sqrt n.  Tolerances: 10^-9 relative on W, and the
    float spacing at the ends, delta = (|centre| + W) / 10^15, on the ends. *)
Definition t_interval_ok (xs : list b64) (conf c lo hi alpha_o tq : b64) : bool :=
  let n := zlen xs in
  match common_ints xs, rat_of_b64 conf, rat_of_b64 c with
  | Some (zs, e), Some qconf, Some qc =>
      match rat_of_b64 lo, rat_of_b64 hi, rat_of_b64 alpha_o, rat_of_b64 tq with
      | Some qlo, Some qhi, Some qa, Some qt =>
          let a := rat_half (rat_sub (1, 1) qconf) in
          let W := rat_half (rat_sub qhi qlo) in
          let M := rat_half (rat_add qhi qlo) in
          let delta := rat_scale_z (rat_add (rat_abs qc) (rat_abs W)) 1 (10 ^ 15) in
          (* T = tq^2 * sum (x - mean)^2 / ((n - 1) * n) *)
          let T := rat_scale_z (rat_mul (rat_sq qt) (exact_sq_dev zs e)) 1 ((n - 1) * n) in
          let w_lo := rat_sub (rat_scale_z W (10 ^ 9 - 1) (10 ^ 9)) delta in
          let w_hi := rat_add (rat_scale_z W (10 ^ 9 + 1) (10 ^ 9)) delta in
          (2 <=? n)
          && rat_within 15 qa a a
          && rat_le (0, 1) W
          && rat_le (rat_abs (rat_sub M qc)) delta
          && (rat_le w_lo (0, 1) || rat_le (rat_sq w_lo) T)
          && rat_le T (rat_sq w_hi)
      | _, _, _, _ => false
      end
  | _, _, _ => false
  end.

(** ** reported p against the exact permutation p (> 0 always): 10^-9 relative *)
Definition p_is_spec (sp : rat) (p : b64) : bool :=
  match rat_of_b64 p with
  | Some q => rat_within 9 q sp (rat_abs sp)
  | None => false
  end.

(** ** two evaluations of the same p (metamorphic variants).
    [exact]: both come from an exact path (sums of positive terms): 10^-9
    relative.  Otherwise (normal approximation of the U-test, Welch's t: the
    value is formed as 2*(1 - CDF), an absolute rounding of the order of 2^-53
    is inherent): 10^-9 relative or 10^-14 absolute. *)
Definition p_same (exact : bool) (p q : b64) : bool :=
  match rat_of_b64 p, rat_of_b64 q with
  | Some a, Some b => if exact then rat_rel 9 a b else rat_rel_abs 9 14 a b
  | _, _ => false
  end.
