(** Model of benchproc/projection.go: ProjectionParser (Parse, ParseWithUnit,
    Residue, makeProjection) and Projection (addField/addGroup, Fields,
    FlattenedFields, Project, ProjectValues, populateRow, internRow).

    Abstractions, each one stated here because the theorems rest on them:
    - Parsing of the projection TEXT is C07's; the model starts from the parsed
      fields ([pspec]: key, order word, fixed list).
    - A [*Field] with idx >= 0 is identified with its idx (indexes are handed out
      sequentially and never reused); the per-field data lives in [p_fields], the
      tree ([p_top]) holds only indexes. Groups have no idx (Go: -1).
    - The closures in [Projection.project] are first-order [pitem]s; the [seen]
      map of the .config closure is the lookup by name among the group's own
      sub-fields (a sub-field is appended exactly when its key is put in [seen]).
    - [Projection.keys map[uint64][]*keyNode]: the maphash of a row only selects
      the bucket in which [equalRow] is then tried, and equal rows hash equally,
      so the model keeps ONE list of interned rows in creation order and looks a
      row up by [equal_row]. A Key is the position of its node in that list.
    - [Projection.interns] (string interning) is an allocation detail: dropped.
    - [Field.order map[string]int] is the list of values in insertion order
      (rank = position = the [len(order)] at insertion); Go's missing-key-is-0
      lookup is [obs_rank].
    - The filter produced for fixed orders is C06's and not modelled. *)
From Perf Require Import Base.Bytes Model.Name Model.Extract Model.Key.

(** ** parsed projection fields (parse.Field without offsets) *)
Record pspec := mkPS { ps_key : bytes; ps_order : bytes; ps_fixed : list bytes }.

Inductive ordk := OFirst | OAlpha | ONum | OFixed (l : list bytes).

(** [None] = makeProjection returns its error before it touches anything:
    unknown order name, or the order "fixed" without values (key@fixed,
    "nothing to match") *)
Definition order_of_spec (s : pspec) : option ordk :=
  if beq (ps_order s) (bs "fixed")
  then match ps_fixed s with [] => None | _ => Some (OFixed (ps_fixed s)) end
  else if beq (ps_order s) (bs "first") then Some OFirst
  else if beq (ps_order s) (bs "alpha") then Some OAlpha
  else if beq (ps_order s) (bs "num") then Some ONum
  else None.

Definition is_fixed (o : ordk) : bool := match o with OFixed _ => true | _ => false end.
(** does initField allocate an order map? *)
Definition tracks (o : ordk) : bool := match o with OFirst => true | _ => false end.

Definition key_config : bytes := bs ".config".
Definition key_unit : bytes := bs ".unit".

(** ** fields, tree, projection *)
(** [fi_src] is a ghost tag: which closure of [Projection.project] captured this
    field (the closure holds the *Field and its extractor). No function of the
    model reads it; it only lets the theorems name "the value that was extracted
    for this field". *)
Inductive fsrc := SKey (k : bytes) | SFull | SCfg | SUnit.
Record finfo := mkF { fi_name : bytes; fi_ord : ordk; fi_obs : list bytes; fi_src : fsrc }.

Inductive tnode := TLeaf (idx : nat) | TGroup (name : bytes) (subs : list nat).

Inductive pitem :=
| PConfig (g : nat) (ord : ordk)   (* g: position of the group in root.Sub *)
| PFull (idx : nat)
| PKey (key : bytes) (idx : nat).

Record projection := mkP {
  p_top : list tnode;           (* root.Sub *)
  p_fields : list finfo;        (* by idx; nFields = length *)
  p_unit : option nat;          (* unitField *)
  p_items : list pitem;         (* project closures *)
  p_row : row;                  (* row buffer *)
  p_keys : list row             (* interned keyNodes in creation order *)
}.

Definition new_projection : projection := mkP [] [] None [] [] [].

Definition nfields (p : projection) : nat := length (p_fields p).

(** addField(root, name) followed by the caller's initField *)
Definition add_top_field (p : projection) (name : bytes) (o : ordk) (src : fsrc) : projection * nat :=
  let idx := nfields p in
  (mkP (p_top p ++ [TLeaf idx]) (p_fields p ++ [mkF name o [] src]) (p_unit p) (p_items p)
       (p_row p ++ [[]]) (p_keys p), idx).

Definition add_group (p : projection) (name : bytes) : projection * nat :=
  (mkP (p_top p ++ [TGroup name []]) (p_fields p) (p_unit p) (p_items p) (p_row p) (p_keys p),
   length (p_top p)).

Fixpoint top_add_sub (top : list tnode) (g idx : nat) : list tnode :=
  match top, g with
  | [], _ => []
  | TGroup n s :: t, O => TGroup n (s ++ [idx]) :: t
  | x :: t, O => x :: t
  | x :: t, S g' => x :: top_add_sub t g' idx
  end.

(** addField(group, name) + initField for a .config sub-field *)
Definition add_sub_field (p : projection) (g : nat) (name : bytes) (o : ordk) : projection * nat :=
  let idx := nfields p in
  (mkP (top_add_sub (p_top p) g idx) (p_fields p ++ [mkF name o [] SCfg]) (p_unit p) (p_items p)
       (p_row p ++ [[]]) (p_keys p), idx).

Definition add_item (p : projection) (it : pitem) : projection :=
  mkP (p_top p) (p_fields p) (p_unit p) (p_items p ++ [it]) (p_row p) (p_keys p).

Definition set_unit (p : projection) (u : nat) : projection :=
  mkP (p_top p) (p_fields p) (Some u) (p_items p) (p_row p) (p_keys p).

(** Fields / FlattenedFields *)
Definition node_flat (t : tnode) : list nat :=
  match t with TLeaf i => [i] | TGroup _ s => s end.
Definition flat (p : projection) : list nat := concat (map node_flat (p_top p)).

Definition field_name (p : projection) (idx : nat) : bytes :=
  match nth_error (p_fields p) idx with Some f => fi_name f | None => [] end.

Definition group_subs (p : projection) (g : nat) : list nat :=
  match nth_error (p_top p) g with Some (TGroup _ s) => s | _ => [] end.

(** ** parser *)
Record parser := mkPP {
  pp_cfg : list bytes;              (* configKeys, a set *)
  pp_full : list bytes;             (* fullnameKeys *)
  pp_havecfg : bool;
  pp_havefull : bool;
  pp_fullext : option (list bytes)  (* fullExtractor: the exclude list it was built from *)
}.

Definition new_parser : parser := mkPP [] [] false false None.

Definition mem (k : bytes) (l : list bytes) : bool := existsb (beq k) l.

Definition is_fullname_key (k : bytes) : bool := beq k key_name || is_subname_key k.

(** makeProjection: [None] = a SyntaxError was returned; the parser keeps what
    was done to it before the error (as in the code). What it does to the parser
    ([mp_parser]) and to the projection under construction ([mp_proj]) do not
    depend on each other, so the model gives them as two functions. *)
Definition pp_set_havecfg (pp : parser) : parser :=
  mkPP (pp_cfg pp) (pp_full pp) true (pp_havefull pp) (pp_fullext pp).
Definition pp_set_havefull (pp : parser) : parser :=
  mkPP (pp_cfg pp) (pp_full pp) (pp_havecfg pp) true (pp_fullext pp).
Definition pp_add_full (pp : parser) (k : bytes) : parser :=
  mkPP (pp_cfg pp) (pp_full pp ++ [k]) (pp_havecfg pp) (pp_havefull pp) (pp_fullext pp).
Definition pp_add_cfg (pp : parser) (k : bytes) : parser :=
  mkPP (k :: pp_cfg pp) (pp_full pp) (pp_havecfg pp) (pp_havefull pp) (pp_fullext pp).

Definition mp_parser (pp : parser) (s : pspec) : parser :=
  match order_of_spec s with
  | None => pp
  | Some o =>
      let k := ps_key s in
      if beq k key_config then (if is_fixed o then pp else pp_set_havecfg pp)
      else if beq k key_fullname then pp_set_havefull pp
      else if beq k key_unit then pp
      else if is_fullname_key k then pp_add_full pp k   (* also for the empty key: recorded, then rejected *)
      else pp_add_cfg pp k
  end.

Definition mp_proj (p : projection) (s : pspec) : option projection :=
  match order_of_spec s with
  | None => None
  | Some o =>
      let k := ps_key s in
      if beq k key_config then
        if is_fixed o then None
        else let '(p1, g) := add_group p key_config in Some (add_item p1 (PConfig g o))
      else if beq k key_fullname then
        let '(p1, idx) := add_top_field p key_fullname o SFull in Some (add_item p1 (PFull idx))
      else if beq k key_unit then None
      else if is_nil k then None     (* newExtractor: "key must not be empty" *)
      else let '(p1, idx) := add_top_field p k o (SKey k) in Some (add_item p1 (PKey k idx))
  end.

Definition make_projection (pp : parser) (p : projection) (s : pspec)
  : parser * option projection := (mp_parser pp s, mp_proj p s).

Fixpoint make_all (pp : parser) (p : projection) (fs : list pspec) : parser * option projection :=
  match fs with
  | [] => (pp, Some p)
  | s :: fs' =>
      match make_projection pp p s with
      | (pp', Some p') => make_all pp' p' fs'
      | (pp', None) => (pp', None)
      end
  end.

(** Parse / ParseWithUnit *)
Definition parse (pp : parser) (fs : list pspec) : parser * option projection :=
  make_all pp new_projection fs.

Definition parse_with_unit (pp : parser) (fs : list pspec) : parser * option projection :=
  match parse pp fs with
  | (pp', Some p) => let '(p1, u) := add_top_field p key_unit OFirst SUnit in (pp', Some (set_unit p1 u))
  | r => r
  end.

(** Residue (note: it marks the groups as projected in the parser, as the code does) *)
Definition spec_first (k : bytes) : pspec := mkPS k (bs "first") [].

Definition residue_add (st : parser * projection) (k : bytes) : parser * projection :=
  match make_projection (fst st) (snd st) (spec_first k) with
  | (pp', Some s') => (pp', s')
  | (pp', None) => (pp', snd st)
  end.

Definition residue (pp : parser) : parser * projection :=
  let st1 := if pp_havecfg pp then (pp, new_projection)
             else residue_add (pp, new_projection) key_config in
  if pp_havefull (fst st1) then st1 else residue_add st1 key_fullname.

(** ** projecting *)
Record result := mkR { r_name : bytes; r_cfg : list cfg; r_units : list bytes }.

Fixpoint set_nth {A} (n : nat) (v : A) (l : list A) : list A :=
  match l, n with
  | [], _ => []
  | _ :: t, O => v :: t
  | x :: t, S n' => x :: set_nth n' v t
  end.

Definition set_row (p : projection) (idx : nat) (v : bytes) : projection :=
  mkP (p_top p) (p_fields p) (p_unit p) (p_items p) (set_nth idx v (p_row p)) (p_keys p).

Definition find_sub (p : projection) (g : nat) (k : bytes) : option nat :=
  find (fun idx => beq (field_name p idx) k) (group_subs p g).

(** body of the loop over r.Config in the .config closure *)
Definition config_step (ckeys : list bytes) (g : nat) (o : ordk) (p : projection) (c : cfg)
  : projection :=
  if negb (c_file c) then p
  else match find_sub p g (c_key c) with
       | Some idx => set_row p idx (c_val c)
       | None =>
           if mem (c_key c) ckeys then p
           else let '(p1, idx) := add_sub_field p g (c_key c) o in set_row p1 idx (c_val c)
       end.

(** the lazily built full-name extractor *)
Definition full_extract (pp : parser) (n : bytes) : parser * bytes :=
  match pp_fullext pp with
  | Some ex => (pp, extractor_fullname ex n)
  | None =>
      let ex := pp_full pp in
      (mkPP (pp_cfg pp) (pp_full pp) (pp_havecfg pp) (pp_havefull pp) (Some ex),
       extractor_fullname ex n)
  end.

Definition run_item (r : result) (st : parser * projection) (it : pitem) : parser * projection :=
  let '(pp, p) := st in
  match it with
  | PConfig g o => (pp, fold_left (config_step (pp_cfg pp) g o) (r_cfg r) p)
  | PFull idx => let '(pp', v) := full_extract pp (r_name r) in (pp', set_row p idx v)
  | PKey k idx => (pp, set_row p idx (extract k (r_name r) (r_cfg r)))
  end.

Definition clear_row (p : projection) : projection :=
  mkP (p_top p) (p_fields p) (p_unit p) (p_items p) (map (fun _ => []) (p_row p)) (p_keys p).

Definition populate (pp : parser) (p : projection) (r : result) : parser * projection :=
  fold_left (run_item r) (p_items p) (pp, clear_row p).

(** ** interning *)
Fixpoint find_index {A} (f : A -> bool) (l : list A) : option nat :=
  match l with
  | [] => None
  | x :: l' => if f x then Some 0 else option_map S (find_index f l')
  end.

Fixpoint upd_nth {A} (n : nat) (f : A -> A) (l : list A) : list A :=
  match l, n with
  | [], _ => []
  | x :: t, O => f x :: t
  | x :: t, S n' => x :: upd_nth n' f t
  end.

Definition observe (v : bytes) (f : finfo) : finfo :=
  if tracks (fi_ord f) && negb (mem v (fi_obs f))
  then mkF (fi_name f) (fi_ord f) (fi_obs f ++ [v]) (fi_src f) else f.

(** the loop over FlattenedFields in internRow (all flattened fields, the
    sub-fields of .config included) *)
Definition update_obs (fields : list finfo) (fl : list nat) (rw : row) : list finfo :=
  fold_left (fun fs idx => upd_nth idx (observe (vals_get rw idx)) fs) fl fields.

Definition intern_row (p : projection) : projection * nat :=
  let rw := trim (p_row p) in
  match find_index (equal_row rw) (p_keys p) with
  | Some k => (p, k)
  | None =>
      (mkP (p_top p) (update_obs (p_fields p) (flat p) rw) (p_unit p) (p_items p) (p_row p)
           (p_keys p ++ [rw]),
       length (p_keys p))
  end.

Definition project (pp : parser) (p : projection) (r : result) : parser * projection * nat :=
  let '(pp', p1) := populate pp p r in
  let '(p2, k) := intern_row p1 in
  (pp', p2, k).

Fixpoint intern_units (p : projection) (u : nat) (units : list bytes) : projection * list nat :=
  match units with
  | [] => (p, [])
  | un :: units' =>
      let '(p1, k) := intern_row (set_row p u un) in
      let '(p2, ks) := intern_units p1 u units' in
      (p2, k :: ks)
  end.

Definition project_values (pp : parser) (p : projection) (r : result)
  : parser * projection * list nat :=
  let '(pp', p1) := populate pp p r in
  match p_unit p1 with
  | None => let '(p2, k) := intern_row p1 in (pp', p2, map (fun _ => k) (r_units r))
  | Some u => let '(p2, ks) := intern_units p1 u (r_units r) in (pp', p2, ks)
  end.

(** ** keys *)
Definition key_vals (p : projection) (k : nat) : row := nth k (p_keys p) [].
Definition key_get (p : projection) (k idx : nat) : bytes := vals_get (key_vals p k) idx.

Definition flat_named (p : projection) : list (bytes * nat) :=
  map (fun idx => (field_name p idx, idx)) (flat p).

(** first-observation rank with Go's missing-key-is-0 map lookup *)
Definition obs_rank (obs : list bytes) (v : bytes) : nat :=
  match find_index (beq v) obs with Some i => i | None => 0 end.

(** ** one parser with its projections, driven by a stream of API calls *)
Record world := mkW { w_pp : parser; w_projs : list projection }.
Definition new_world : world := mkW new_parser [].

Inductive op :=
| OpParse (with_unit : bool) (fs : list pspec)
| OpResidue
| OpProject (pi : nat) (r : result)
| OpProjectValues (pi : nat) (r : result).

Inductive out := OutParse (ok : bool) | OutNone | OutKeys (ks : list nat).

Definition step (w : world) (o : op) : world * out :=
  match o with
  | OpParse wu fs =>
      match (if wu then parse_with_unit else parse) (w_pp w) fs with
      | (pp', Some p) => (mkW pp' (w_projs w ++ [p]), OutParse true)
      | (pp', None) => (mkW pp' (w_projs w), OutParse false)
      end
  | OpResidue =>
      let '(pp', p) := residue (w_pp w) in (mkW pp' (w_projs w ++ [p]), OutNone)
  | OpProject pi r =>
      match nth_error (w_projs w) pi with
      | Some p => let '(pp', p', k) := project (w_pp w) p r in
                  (mkW pp' (set_nth pi p' (w_projs w)), OutKeys [k])
      | None => (w, OutNone)
      end
  | OpProjectValues pi r =>
      match nth_error (w_projs w) pi with
      | Some p => let '(pp', p', ks) := project_values (w_pp w) p r in
                  (mkW pp' (set_nth pi p' (w_projs w)), OutKeys ks)
      | None => (w, OutNone)
      end
  end.

Fixpoint run_ops (w : world) (ops : list op) : world * list out :=
  match ops with
  | [] => (w, [])
  | o :: ops' =>
      let '(w1, x) := step w o in
      let '(w2, xs) := run_ops w1 ops' in
      (w2, x :: xs)
  end.
