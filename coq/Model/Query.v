(** Model of storage/db/query.go (parseWord, part.merge, the shapes of
    part.sql) and of parseQuery in storage/db/db.go, together with the
    declarative meaning of a query as a predicate on a stored record.
    No proofs here. *)
From Perf Require Import Base.Bytes Model.Words.

(** ** parts *)

(** Operators in the order of the Go constants (merge sorts by it):
    equals < ltgt < lt < gt. *)
Inductive op := OpEq | OpLtGt | OpLt | OpGt.

Definition op_rank (o : op) : N :=
  match o with OpEq => 0 | OpLtGt => 1 | OpLt => 2 | OpGt => 3 end.

Definition op_eqb (a b : op) : bool := (op_rank a =? op_rank b)%N.

Record part := mkPart { p_key : bytes; p_op : op; p_v : bytes; p_v2 : bytes }.

Definition c_colon : byte := x3a.
Definition c_lt : byte := x3c.
Definition c_gt : byte := x3e.

(** errors of query parsing, by kind *)
Inductive qerr := EMissingOp | EInvalidKey | EMissingValue.

(** parseWord: the first rune that is ':' '<' '>' , white space or upper case
    decides; only the three operator runes are accepted there. *)
Definition is_sep_r (r : N) : bool :=
  (r =? 58)%N || (r =? 62)%N || (r =? 60)%N || is_space_r r || is_upper_r r.

Definition parse_word (w : bytes) : part + qerr :=
  match index_rune is_sep_r w with
  | None => inr EMissingOp
  | Some (i, r) =>
      let key := firstn i w in
      let value := skipn (S i) w in
      if (r =? 58)%N then inl (mkPart key OpEq value [])
      else if (r =? 60)%N then inl (mkPart key OpLt value [])
      else if (r =? 62)%N then inl (mkPart key OpGt value [])
      else inr EInvalidKey
  end.

(** Go string comparison *)
Definition blt (a b : bytes) : bool := bltb a b.
Definition bgt (a b : bytes) : bool := bltb b a.
Definition ble (a b : bytes) : bool := negb (bltb b a).

(** the common tail of merge ("p.operator == ltgt") *)
Definition finish_ltgt (key v v2 : bytes) : option part :=
  if ble v v2 || beq v [] then None
  else if beq v2 [] then Some (mkPart key OpLt v [])
  else Some (mkPart key OpLtGt v v2).

(** merge after the operands have been ordered by operator rank;
    [None] is io.EOF (the conjunction can never match). *)
Definition merge_ordered (p p2 : part) : option part :=
  match p_op p, p_op p2 with
  | OpEq, OpEq => if beq (p_v p) (p_v p2) then Some p else None
  | OpEq, OpLt => if blt (p_v p) (p_v p2) then Some p else None
  | OpEq, OpGt => if bgt (p_v p) (p_v p2) then Some p else None
  | OpEq, OpLtGt => if blt (p_v p) (p_v p2) && bgt (p_v p) (p_v2 p2) then Some p else None
  | OpLtGt, OpLtGt =>
      let v := if blt (p_v p2) (p_v p) then p_v p2 else p_v p in
      let v2 := if bgt (p_v2 p2) (p_v2 p) then p_v2 p2 else p_v2 p in
      finish_ltgt (p_key p) v v2
  | OpLtGt, OpLt =>
      let v := if blt (p_v p2) (p_v p) then p_v p2 else p_v p in
      finish_ltgt (p_key p) v (p_v2 p)
  | OpLtGt, OpGt =>
      let v2 := if bgt (p_v p2) (p_v2 p) then p_v p2 else p_v2 p in
      finish_ltgt (p_key p) (p_v p) v2
  | OpLtGt, OpEq => finish_ltgt (p_key p) (p_v p) (p_v2 p)   (* unreachable once ordered *)
  | OpLt, OpLt => if blt (p_v p2) (p_v p) then Some p2 else Some p
  | OpLt, OpGt => finish_ltgt (p_key p) (p_v p) (p_v p2)
  | OpLt, _ => finish_ltgt (p_key p) (p_v p) (p_v2 p)         (* unreachable once ordered *)
  | OpGt, _ => if bgt (p_v p2) (p_v p) then Some p2 else Some p
  end.

Definition merge (p p2 : part) : option part :=
  if (op_rank (p_op p2) <? op_rank (p_op p))%N then merge_ordered p2 p else merge_ordered p p2.

(** folding a list of parts of one key, left to right as parseQuery does *)
Fixpoint merge_into (acc : part) (ps : list part) : option part :=
  match ps with
  | [] => Some acc
  | p :: ps' => match merge acc p with Some a => merge_into a ps' | None => None end
  end.

Definition merge_all (ps : list part) : option part :=
  match ps with [] => None | p :: ps' => merge_into p ps' end.

(** ** parseQuery *)

Inductive qres := QErr (e : qerr) | QEof | QOk (ps : list part).

Fixpoint assoc_get (k : bytes) (m : list part) : option part :=
  match m with
  | [] => None
  | p :: m' => if beq (p_key p) k then Some p else assoc_get k m'
  end.

Fixpoint assoc_set (p : part) (m : list part) : list part :=
  match m with
  | [] => [p]
  | x :: m' => if beq (p_key x) (p_key p) then p :: m' else x :: assoc_set p m'
  end.

(** the word loop: first parse error, or EOF at the first contradictory merge *)
Fixpoint parse_words (ws : list bytes) (m : list part) : qres :=
  match ws with
  | [] => QOk m
  | w :: ws' =>
      match parse_word w with
      | inr e => QErr e
      | inl p =>
          match assoc_get (p_key p) m with
          | None => parse_words ws' (m ++ [p])
          | Some old =>
              match merge old p with
              | None => QEof
              | Some np => parse_words ws' (assoc_set np m)
              end
          end
      end
  end.

(** sort.Strings on the (distinct) keys: insertion sort *)
Fixpoint insert_part (p : part) (l : list part) : list part :=
  match l with
  | [] => [p]
  | x :: l' => if bltb (p_key x) (p_key p) then x :: insert_part p l' else p :: l
  end.
Definition sort_parts (l : list part) : list part := fold_right insert_part [] l.

Definition key_upload : bytes := bs "upload".

(** part.sql() fails only for key:"" on an ordinary key *)
Definition sql_ok (p : part) : bool :=
  beq (p_key p) key_upload || negb (op_eqb (p_op p) OpEq && beq (p_v p) []).

Definition parse_query (q : bytes) : qres :=
  match parse_words (split_words q) [] with
  | QOk m =>
      let s := sort_parts m in
      if forallb sql_ok s then QOk s else QErr EMissingValue
  | r => r
  end.

(** ** meaning *)

(** Declarative meaning of one part on one label value: Go's bytewise string
    comparisons. This is what the property promises. *)
Definition holds (p : part) (v : bytes) : bool :=
  match p_op p with
  | OpEq => beq v (p_v p)
  | OpLt => blt v (p_v p)
  | OpGt => bgt v (p_v p)
  | OpLtGt => blt v (p_v p) && bgt v (p_v2 p)
  end.

Definition holds_opt (o : option part) (v : bytes) : bool :=
  match o with Some p => holds p v | None => false end.

(** The WHERE clause part.sql() generates for the value column, evaluated
    bytewise (SQLite BINARY collation on TEXT — trusted): identical to [holds]
    except that key>"" is simplified to "the label exists". *)
Definition sql_value_cond (p : part) (v : bytes) : bool :=
  match p_op p with
  | OpGt => if beq (p_v p) [] then true else bgt v (p_v p)
  | _ => holds p v
  end.

(** a stored record as the query layer sees it *)
Definition labels := list (bytes * bytes).

Fixpoint lookup (k : bytes) (l : labels) : option bytes :=
  match l with
  | [] => None
  | (k', v) :: l' => if beq k' k then Some v else lookup k l'
  end.

Record qrec := mkQrec { q_upload : bytes; q_labels : labels }.

(** the rows a part's subselect yields contain this record: for the key
    "upload" the Records.UploadID column is compared, otherwise the
    RecordLabels row with that Name *)
Definition part_selects (p : part) (r : qrec) : bool :=
  if beq (p_key p) key_upload then holds p (q_upload r)
  else match lookup (p_key p) (q_labels r) with
       | Some v => sql_value_cond p v
       | None => false
       end.

(** inner join of all subselects, left-joined with Records *)
Definition query_selects (ps : list part) (r : qrec) : bool := forallb (fun p => part_selects p r) ps.

(** the property's reading of a term: the record carries the label and the
    comparison holds; "upload" is an ordinary label (the server adds it) *)
Definition term_holds (p : part) (l : labels) : bool :=
  match lookup (p_key p) l with
  | Some v => holds p v
  | None => false
  end.

Definition terms_hold (ts : list part) (l : labels) : bool := forallb (fun t => term_holds t l) ts.

(** all terms of a query text, unmerged; None if some word is not a term *)
Fixpoint terms_of_words (ws : list bytes) : option (list part) :=
  match ws with
  | [] => Some []
  | w :: ws' =>
      match parse_word w, terms_of_words ws' with
      | inl p, Some ts => Some (p :: ts)
      | _, _ => None
      end
  end.

Definition query_terms (q : bytes) : option (list part) := terms_of_words (split_words q).

(** exact characterisation of a single part no non-empty value can satisfy *)
Definition c_nul : byte := x00.
Definition unsat_shape (p : part) : bool :=
  match p_op p with
  | OpEq => beq (p_v p) []
  | OpLt => beq (p_v p) [] || beq (p_v p) [c_nul]
  | OpGt => false
  | OpLtGt => ble (p_v p) (p_v2 p) || beq (p_v p) (p_v2 p ++ [c_nul])
  end.
