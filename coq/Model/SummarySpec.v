(** Declarative rule for benchstat's summary ("geomean") row and for the
    "vs base" delta of a cell, written from benchtab's documentation, not from
    summarizeCol's loop:

    - cmd/benchstat/main.go (package doc): "the last row of the table shows the
      geometric mean of each column";
    - benchtab.TableSummary: Summary "summarizes all of the TableCell.Summary
      values in this column", Ratio "summarizes all of the TableCell.Comparison
      values in this column" (the comparisons are those against the first
      column's cell of the same row);
    - the two documented warnings "summaries must be >0 to compute geomean" and
      "ratios must be >0 to compute geomean", and "benchmark set differs from
      baseline; geomeans may not be comparable";
    - cmd/benchstat/testdata/zero.txt + zero.stdout (pinned golden): a row
      whose two centres are equal has ratio 1 ("Ratio should be treated as 1",
      0/0 included); a non-equal centre over a zero baseline centre "should be
      treated as uncomputable": the column's ratio geomean is then shown as "?"
      without a ratios-warning (the zero baseline centre makes the BASELINE
      column carry "summaries must be >0", [uncomputable_base_warned] below);
    - benchmath.Comparison.FormatDelta's doc comment for the per-cell delta.

    Everything is stated over [cc r c], the centre of the cell at row [r] and
    column [c] when that cell exists. *)
From Perf Require Import Base.Bytes Base.B64 Model.BenchTab.

Definition positive (x : b64) : bool := b64_lt b64_zero x.   (* false for NaN *)

(** a geometric mean exists for a non-empty list of positive values *)
Definition all_pos (l : list b64) : bool :=
  match l with [] => false | _ => forallb positive l end.

Inductive ratio := RVal (q : b64) | RUncomputable.
Definition ratio_of (a b : b64) : ratio :=
  if b64_eq a b then RVal b64_one
  else if b64_eq b b64_zero then RUncomputable
  else RVal (b64_div a b).
Definition is_uncomputable (q : ratio) : bool := match q with RUncomputable => true | RVal _ => false end.
Definition ratio_vals (l : list ratio) : list b64 :=
  flat_map (fun q => match q with RVal v => [v] | RUncomputable => [] end) l.

Record sumrule := mkSumrule {
  sr_centres : list b64;      (* the column's centres, in row order *)
  sr_has_summary : bool;      (* a geomean of the centres is shown ... *)
  sr_warn_sum : bool;         (* ... or "summaries must be >0 to compute geomean" *)
  sr_ratios : list b64;       (* the per-row ratios against the first column *)
  sr_has_ratio : bool;        (* a geomean of the ratios is shown *)
  sr_warn_ratio : bool;       (* "ratios must be >0 to compute geomean" *)
  sr_warn_set : bool          (* "benchmark set differs from baseline" *)
}.

Section SummaryRule.
  Variable rows : list N.
  Variable cc : N -> N -> option b64.
  Variable c0 : N.                      (* the first column *)

  Definition has (r c : N) : bool := match cc r c with Some _ => true | None => false end.
  Definition col_centres (col : N) : list b64 := somes (map (fun r => cc r col) rows).
  Definition col_ratios (col : N) : list ratio :=
    somes (map (fun r => match cc r col, cc r c0 with
                         | Some a, Some b => Some (ratio_of a b)
                         | _, _ => None end) rows).

  Definition summary_rule (is_base : bool) (col : N) : sumrule :=
    let cs := col_centres col in
    let hs := all_pos cs in
    if is_base then mkSumrule cs hs (negb hs) [] false false false
    else
      let qs := col_ratios col in
      let unc := existsb is_uncomputable qs in
      let vs := ratio_vals qs in
      let hr := negb unc && all_pos vs in
      mkSumrule cs hs (negb hs) vs hr (negb unc && negb hr)
                (negb (forallb (fun r => Bool.eqb (has r c0) (has r col)) rows)).
End SummaryRule.

(** ** the per-cell delta (Comparison.FormatDelta): "~" when the comparison
    accepts the null hypothesis (P > Alpha); else the percent difference between
    the first column's centre [old] and the cell's centre [new]: "0.00%" when
    they are equal, "?" over a zero baseline, else (new/old - 1) * 100 printed
    with sign and two decimals *)
Definition b64_hundred : b64 := b64_of_Z 100.

Inductive delta := DTilde | DZero | DUnknown | DPct (p : b64).
Definition delta_rule (p alpha old new : b64) : delta :=
  if b64_gt p alpha then DTilde
  else if b64_eq old new then DZero
  else if b64_eq old b64_zero then DUnknown
  else DPct (b64_mul (b64_sub (b64_div new old) b64_one) b64_hundred).
Definition ratio_pct (g : b64) : b64 := b64_mul (b64_sub g b64_one) b64_hundred.

(** a string printed by %+.2f%% denotes [v]: sign, digits, '.', two digits, '%'
    within half a unit of the last digit of the exact value of [v]; non-finite
    values as Go prints them *)
Definition digit_val (b : byte) : option Z :=
  let n := Z.of_N (Byte.to_N b) in
  if (48 <=? n)%Z && (n <=? 57)%Z then Some (n - 48)%Z else None.
Fixpoint digits_val (l : bytes) (acc : Z) : option Z :=
  match l with
  | [] => Some acc
  | b :: l' => match digit_val b with Some d => digits_val l' (acc * 10 + d)%Z | None => None end
  end.
Fixpoint split_at_dot (l : bytes) (acc : bytes) : option (bytes * bytes) :=
  match l with
  | [] => None
  | b :: l' => if (Byte.to_N b =? 46)%N then Some (rev acc, l') else split_at_dot l' (b :: acc)
  end.
(* hundredths denoted by "ddd.dd%" *)
Definition hundredths (l : bytes) : option Z :=
  match split_at_dot l [] with
  | Some (ip, fp) =>
      match ip, fp with
      | _ :: _, [d1; d2; pc] =>
          if (Byte.to_N pc =? 37)%N then
            match digits_val ip 0, digits_val [d1; d2] 0 with
            | Some i, Some f => Some (i * 100 + f)%Z
            | _, _ => None
            end
          else None
      | _, _ => None
      end
  | None => None
  end.

Definition pct_str_ok (s : bytes) (v : b64) : bool :=
  match v with
  | S754_nan => beq s (bs "+NaN%")
  | S754_infinity false => beq s (bs "+Inf%")
  | S754_infinity true => beq s (bs "-Inf%")
  | _ =>
      match s, b64_to_ZE v with
      | sg :: rest, Some (m, e) =>
          let neg := b64_signbit v in
          (Byte.to_N sg =? (if neg then 45 else 43))%N &&
          match hundredths rest with
          | Some h =>
              (* | h/100 - |m| 2^e | <= 1/200  <=>  | 2h - 200 |m| 2^e | <= 1 *)
              let am := Z.abs m in
              if (0 <=? e)%Z then (Z.abs (2 * h - 200 * am * 2 ^ e) <=? 1)%Z
              else (Z.abs (2 * h * 2 ^ (- e) - 200 * am) <=? 2 ^ (- e))%Z
          | None => false
          end
      | _, _ => false
      end
  end.

Definition delta_str_ok (s : bytes) (d : delta) : bool :=
  match d with
  | DTilde => beq s (bs "~")
  | DZero => beq s (bs "0.00%")
  | DUnknown => beq s (bs "?")
  | DPct v => pct_str_ok s v
  end.

(** ** the part of summarizeCol the shared model (Model/BenchTab.v col_summary)
    does not return: whether "ratios must be >0" is raised *)
Section ModelWarn.
  Variable centre : list b64 -> b64.
  Variable geomean : list b64 -> b64.
  Definition col_warn_ratio (cs : list bcell) (rows : list N) (c0 : N) (is_base : bool) (col : N) : bool :=
    let '(_, ratios, bad) := fold_left (sum_step centre cs c0 col is_base) rows ([], [], false) in
    negb is_base && negb bad && b64_is_nan (geomean ratios).
  (** the centre of a cell of the builder's table *)
  Definition cc_of (cs : list bcell) (r c : N) : option b64 :=
    option_map (fun x => centre (sample_of x)) (find_cell r c cs).
End ModelWarn.
