(** Model of the float parsing the benchmark reader uses:
      benchfmt/reader.go  atof            (integer fast path)
      bytesconv/atof.go   special, readFloat, atof64exact, atofHex, atof64, ParseFloat
      bytesconv/atof.go   decimal.set  (the slow path's own scanner)
    following the code as it exists (19-digit mantissa with [trunc], [dp],
    exponent accumulation stopped at 10000, mantissa < 2^52 for the exact path,
    pow10 table to 22 (+15), the shift/round loops of atofHex).

    MODELLED BY SPECIFICATION HERE: decimal.floatBits together with decimal.go's
    Shift / leftShift / rightShift / RoundedInteger — the multiprecision decimal
    path — is [dec_float_bits]: [rn_b64] of the exact decimal number [set] stored
    (at most 800 significant digits, and when non-zero digits were dropped
    ([trunc]) a sticky digit below the last kept one).  The statement-by-statement
    transcription of that code is Model/Decimal.v ([floatBits], [parse_float_code]);
    Proofs/DecimalEndToEnd.v proves [dec_float_bits_code d = dec_float_bits d] for
    everything [set] can store and [parse_float_code s = parse_float s] for every
    text, so this is a verified abbreviation, not an assumption.
    This tree's atof.go has no Eisel-Lemire path (it predates it). *)
From Perf Require Import Base.Bytes Base.B64 Base.DecSpec Model.Atoi.
Local Open Scope Z_scope.

Definition fres := (b64 * num_err)%type.

(** ** reader.go: atof's integer fast path *)
Definition fast_guard : Z := (max_int64 - 10) / 10.       (* (math.MaxInt64-10)/10 *)

Fixpoint fast_loop (x : bytes) (val : Z) : option Z :=
  match x with
  | [] => Some val
  | ch :: r =>
      let digit := (bZ ch - 48) mod 256 in                (* ch - '0' on a byte *)
      if 10 <=? digit then None
      else if fast_guard <? val then None                 (* avoid int64 overflow *)
      else fast_loop r (val * 10 + digit)
  end.

(** ** special *)
Definition equal_ignore_case (s : bytes) (w : bytes) : bool :=
  let fold (c : Z) := if (65 <=? c) && (c <=? 90) then c + 32 else c in
  list_eqb Z.eqb (map (fun c => fold (bZ c)) s) (map (fun c => fold (bZ c)) w).

Definition special (s : bytes) : option b64 :=
  match s with
  | [] => None
  | c :: _ =>
      let n := bZ c in
      if n =? 43 then
        if equal_ignore_case s (bs "+inf") || equal_ignore_case s (bs "+infinity")
        then Some (S754_infinity false) else None
      else if n =? 45 then
        if equal_ignore_case s (bs "-inf") || equal_ignore_case s (bs "-infinity")
        then Some (S754_infinity true) else None
      else if (n =? 110) || (n =? 78) then
        if equal_ignore_case s (bs "nan") then Some S754_nan else None
      else if (n =? 105) || (n =? 73) then
        if equal_ignore_case s (bs "inf") || equal_ignore_case s (bs "infinity")
        then Some (S754_infinity false) else None
      else None
  end.

(** ** readFloat *)
Record rf := mkRf {
  rf_mant : Z; rf_nd : Z; rf_ndMant : Z; rf_dp : Z;
  rf_sawdot : bool; rf_sawdigits : bool; rf_trunc : bool }.

(** the mantissa loop; [None] = "return" (second '.'), otherwise the state and
    the unread rest at the [break] *)
Fixpoint rf_digits (base16 : bool) (maxMantDigits : Z) (s : bytes) (st : rf) : option (rf * bytes) :=
  match s with
  | [] => Some (st, [])
  | c :: r =>
      if Byte.eqb c c_us then rf_digits base16 maxMantDigits r st
      else if Byte.eqb c c_dot then
        if rf_sawdot st then None
        else rf_digits base16 maxMantDigits r
               (mkRf (rf_mant st) (rf_nd st) (rf_ndMant st) (rf_nd st) true (rf_sawdigits st) (rf_trunc st))
      else if code_is_dec_digit c then
        if Byte.eqb c c_zero && (rf_nd st =? 0) then
          rf_digits base16 maxMantDigits r
            (mkRf (rf_mant st) (rf_nd st) (rf_ndMant st) (rf_dp st - 1) (rf_sawdot st) true (rf_trunc st))
        else if rf_ndMant st <? maxMantDigits then
          rf_digits base16 maxMantDigits r
            (mkRf (u64 (u64 (rf_mant st * (if base16 then 16 else 10)) + (bZ c - 48)))
                  (rf_nd st + 1) (rf_ndMant st + 1) (rf_dp st) (rf_sawdot st) true (rf_trunc st))
        else
          rf_digits base16 maxMantDigits r
            (mkRf (rf_mant st) (rf_nd st + 1) (rf_ndMant st) (rf_dp st) (rf_sawdot st) true
                  (rf_trunc st || negb (Byte.eqb c c_zero)))
      else if base16 && code_is_hex_letter c then
        if rf_ndMant st <? maxMantDigits then
          rf_digits base16 maxMantDigits r
            (mkRf (u64 (u64 (rf_mant st * 16) + (lower c - 97 + 10)))
                  (rf_nd st + 1) (rf_ndMant st + 1) (rf_dp st) (rf_sawdot st) true (rf_trunc st))
        else
          rf_digits base16 maxMantDigits r
            (mkRf (rf_mant st) (rf_nd st + 1) (rf_ndMant st) (rf_dp st) (rf_sawdot st) true true)
      else Some (st, s)
  end.

(** the exponent digit loop: underscores skipped, accumulation stops at 10000 *)
Fixpoint exp_digits (s : bytes) (e : Z) : Z * bytes :=
  match s with
  | c :: r =>
      if code_is_dec_digit c then exp_digits r (if e <? 10000 then e * 10 + (bZ c - 48) else e)
      else if Byte.eqb c c_us then exp_digits r e
      else (e, s)
  | [] => (e, [])
  end.

(** the optional exponent after the marker character has been seen:
    [None] = "return" (no digit), else (e * esign, rest) *)
Definition exp_part (s : bytes) : option (Z * bytes) :=
  match s with
  | [] => None
  | c :: r =>
      let '(esign, t) := if Byte.eqb c c_plus then (1, r) else if Byte.eqb c c_minus then (-1, r) else (1, s) in
      match t with
      | d :: _ => if code_is_dec_digit d then
                    let '(e, rest) := exp_digits t 0 in Some (e * esign, rest)
                  else None
      | [] => None
      end
  end.

Record rfloat := mkRfloat { r_mant : Z; r_exp : Z; r_neg : bool; r_trunc : bool; r_hex : bool }.

Definition read_float (s : bytes) : option rfloat :=
  match s with
  | [] => None
  | c0 :: r0 =>
      let neg := Byte.eqb c0 c_minus in
      let t := if Byte.eqb c0 c_plus || neg then r0 else s in
      (* base prefix: i+2 < len(s) && s[i] == '0' && lower(s[i+1]) == 'x' *)
      let '(hex, body) :=
        match t with
        | z :: x :: ((_ :: _) as b) => if Byte.eqb z c_zero && (lower x =? 120) then (true, b) else (false, t)
        | _ => (false, t)
        end in
      let maxMantDigits := if hex then 16 else 19 in
      match rf_digits hex maxMantDigits body (mkRf 0 0 0 0 false false false) with
      | None => None
      | Some (st, rest) =>
          if negb (rf_sawdigits st) then None else
          let dp := if rf_sawdot st then rf_dp st else rf_nd st in
          let '(dp, ndMant) := if hex then (dp * 4, rf_ndMant st * 4) else (dp, rf_ndMant st) in
          let expChar := if hex then 112 else 101 in
          let after : option (Z * bytes) :=
            match rest with
            | c :: r => if lower c =? expChar then
                          match exp_part r with Some (e, rest') => Some (dp + e, rest') | None => None end
                        else if hex then None else Some (dp, rest)
            | [] => if hex then None else Some (dp, rest)
            end in
          match after with
          | Some (dp, []) =>
              let exp := if rf_mant st =? 0 then 0 else dp - ndMant in
              Some (mkRfloat (rf_mant st) exp neg (rf_trunc st) hex)
          | _ => None
          end
      end
  end.

(** ** atof64exact *)
Definition pow10tab (k : Z) : b64 := b64_of_Z (10 ^ k).       (* float64pow10[k], 0 <= k <= 22 *)
Definition f_1e15 : b64 := b64_of_Z (10 ^ 15).

Definition atof64exact (mantissa exp : Z) (neg : bool) : option b64 :=
  if negb (Z.shiftr mantissa 52 =? 0) then None else
  let f := b64_of_Z mantissa in
  let f := if neg then b64_neg f else f in
  if exp =? 0 then Some f
  else if (0 <? exp) && (exp <=? 15 + 22) then
    let '(f, exp) := if 22 <? exp then (b64_mul f (pow10tab (exp - 22)), 22) else (f, exp) in
    if b64_gt f f_1e15 || b64_lt f (b64_neg f_1e15) then None
    else Some (b64_mul f (pow10tab exp))
  else if (exp <? 0) && (-22 <=? exp) then Some (b64_div f (pow10tab (- exp)))
  else None.

(** ** atofHex (flt = float64info: mantbits 52, expbits 11, bias -1023) *)
Definition mantbits := 52.
Definition f_bias := -1023.

Fixpoint hex_norm_up (fuel : nat) (m e : Z) : Z * Z :=      (* for mantissa != 0 && mantissa>>(mantbits+2) == 0 *)
  match fuel with
  | O => (m, e)
  | S f => if negb (m =? 0) && (Z.shiftr m (mantbits + 2) =? 0) then hex_norm_up f (u64 (Z.shiftl m 1)) (e - 1) else (m, e)
  end.
Fixpoint hex_norm_down (fuel : nat) (m e : Z) : Z * Z :=    (* for mantissa>>(1+mantbits+2) != 0 *)
  match fuel with
  | O => (m, e)
  | S f => if negb (Z.shiftr m (1 + mantbits + 2) =? 0)
           then hex_norm_down f (Z.lor (Z.shiftr m 1) (Z.land m 1)) (e + 1) else (m, e)
  end.
Fixpoint hex_denorm (fuel : nat) (m e minExp : Z) : Z * Z :=  (* for mantissa > 1 && exp < minExp-2 *)
  match fuel with
  | O => (m, e)
  | S f => if (1 <? m) && (e <? minExp - 2)
           then hex_denorm f (Z.lor (Z.shiftr m 1) (Z.land m 1)) (e + 1) minExp else (m, e)
  end.

Definition f64_assemble (mantissa exp : Z) (neg : bool) : b64 :=
  let bits := Z.land mantissa (2 ^ mantbits - 1) in
  let bits := Z.lor bits (Z.shiftl (Z.land (exp - f_bias) (2 ^ 11 - 1)) mantbits) in
  let bits := if neg then Z.lor bits (2 ^ 63) else bits in
  b64_of_bits bits.

Definition atof_hex (mantissa exp : Z) (neg trunc : bool) : fres :=
  let maxExp := 2 ^ 11 + f_bias - 2 in
  let minExp := f_bias + 1 in
  let exp := exp + mantbits in
  let '(mantissa, exp) := hex_norm_up 64 mantissa exp in
  let mantissa := if trunc then Z.lor mantissa 1 else mantissa in
  let '(mantissa, exp) := hex_norm_down 64 mantissa exp in
  let '(mantissa, exp) := hex_denorm 64 mantissa exp minExp in
  let round := Z.land mantissa 3 in
  let mantissa := Z.shiftr mantissa 2 in
  let round := Z.lor round (Z.land mantissa 1) in
  let exp := exp + 2 in
  let '(mantissa, exp) :=
    if round =? 3 then
      let m := mantissa + 1 in
      if m =? 2 ^ (1 + mantbits) then (Z.shiftr m 1, exp + 1) else (m, exp)
    else (mantissa, exp) in
  let exp := if Z.shiftr mantissa mantbits =? 0 then f_bias else exp in
  if maxExp <? exp
  then (f64_assemble (2 ^ mantbits) (maxExp + 1) neg, ErrRange)
  else (f64_assemble mantissa exp neg, ErrNone).

(** ** decimal.set: the slow path's scanner. Digits most significant first,
    at most 800 kept, leading zeros dropped.

    [fixed = true] models hooks/fix_c03_decimal_set_dropped_digits.diff: digits
    that no longer fit but stand before the decimal point still move [dp]
    ([dropped]). [fixed = false] is the scanner as found on the pinned tree, kept
    for the refutation witness (Properties/C03.v). *)
Record dec := mkDec { d_digs : bytes (* reversed *); d_nd : Z; d_dp : Z; d_neg : bool; d_trunc : bool }.

Record ds := mkDs { ds_rev : bytes; ds_nd : Z; ds_dp : Z; ds_sawdot : bool; ds_sawdigits : bool; ds_trunc : bool;
                    ds_dropped : Z }.

Fixpoint set_digits (s : bytes) (st : ds) : option (ds * bytes) :=
  match s with
  | [] => Some (st, [])
  | c :: r =>
      if Byte.eqb c c_us then set_digits r st
      else if Byte.eqb c c_dot then
        if ds_sawdot st then None
        else set_digits r (mkDs (ds_rev st) (ds_nd st) (ds_nd st) true (ds_sawdigits st) (ds_trunc st) (ds_dropped st))
      else if code_is_dec_digit c then
        if Byte.eqb c c_zero && (ds_nd st =? 0) then
          set_digits r (mkDs (ds_rev st) (ds_nd st) (ds_dp st - 1) (ds_sawdot st) true (ds_trunc st) (ds_dropped st))
        else if ds_nd st <? 800 then
          set_digits r (mkDs (c :: ds_rev st) (ds_nd st + 1) (ds_dp st) (ds_sawdot st) true (ds_trunc st) (ds_dropped st))
        else
          set_digits r (mkDs (ds_rev st) (ds_nd st) (ds_dp st) (ds_sawdot st) true
                             (ds_trunc st || negb (Byte.eqb c c_zero))
                             (if ds_sawdot st then ds_dropped st else ds_dropped st + 1))
      else Some (st, s)
  end.

Definition dec_set_gen (fixed : bool) (s : bytes) : option dec :=
  match s with
  | [] => None
  | c0 :: r0 =>
      let neg := Byte.eqb c0 c_minus in
      let t := if Byte.eqb c0 c_plus || neg then r0 else s in
      match set_digits t (mkDs [] 0 0 false false false 0) with
      | None => None
      | Some (st, rest) =>
          if negb (ds_sawdigits st) then None else
          let dp := if ds_sawdot st then ds_dp st else ds_nd st in
          let dp := if fixed then dp + ds_dropped st else dp in
          let after : option (Z * bytes) :=
            match rest with
            | c :: r => if lower c =? 101 then
                          match exp_part r with Some (e, rest') => Some (dp + e, rest') | None => None end
                        else Some (dp, rest)
            | [] => Some (dp, rest)
            end in
          match after with
          | Some (dp, []) => Some (mkDec (ds_rev st) (ds_nd st) dp neg (ds_trunc st))
          | _ => None
          end
      end
  end.

Definition dec_set : bytes -> option dec := dec_set_gen true.

(** decimal.floatBits, BY SPECIFICATION (= the transcription, Proofs/DecimalEndToEnd.v): the stored number is
    0.d1 d2 ... d_nd * 10^dp (plus something below the last digit when [trunc]);
    the two "obvious overflow/underflow" exits are the code's. *)
Definition dec_float_bits (d : dec) : fres :=
  if d_nd d =? 0 then (S754_zero (d_neg d), ErrNone)
  else if 310 <? d_dp d then (S754_infinity (d_neg d), ErrRange)
  else if d_dp d <? -330 then (S754_zero (d_neg d), ErrNone)
  else
    let m := digits_val 10 (rev (d_digs d)) in
    let e := d_dp d - d_nd d in
    let v := if d_trunc d then rn_b64 (d_neg d) (m * 10 + 1) false (e - 1)
             else rn_b64 (d_neg d) m false e in
    (v, if b64_is_inf v then ErrRange else ErrNone).

(** ** atof64 and ParseFloat(s, 64) *)
Definition atof64_gen (fixed : bool) (s : bytes) : fres :=
  match special s with
  | Some v => (v, ErrNone)
  | None =>
      let rf := read_float s in
      let slow (_ : unit) : fres :=
        match dec_set_gen fixed s with
        | None => (b64_zero, ErrSyntax)
        | Some d => dec_float_bits d
        end in
      match rf with
      | Some r =>
          if r_hex r then atof_hex (r_mant r) (r_exp r) (r_neg r) (r_trunc r)
          else if r_trunc r then slow tt
          else match atof64exact (r_mant r) (r_exp r) (r_neg r) with
               | Some f => (f, ErrNone)
               | None => slow tt
               end
      | None => slow tt
      end
  end.

Definition atof64 : bytes -> fres := atof64_gen true.

Definition parse_float_gen (fixed : bool) (s : bytes) : fres :=
  if negb (underscoreOK s) then (b64_zero, ErrSyntax) else atof64_gen fixed s.

Definition parse_float : bytes -> fres := parse_float_gen true.
(** the pinned tree before the fix *)
Definition parse_float_unfixed : bytes -> fres := parse_float_gen false.

(** ** reader.go: atof *)
Definition reader_atof (x : bytes) : fres :=
  match fast_loop x 0 with
  | Some val => (b64_of_Z val, ErrNone)
  | None => parse_float x
  end.

(** which path decided a text (for the distribution report and tests) *)
Inductive path := PFastInt | PSpecial | PHex | PExact | PSlow | PSyntax.
Definition path_of (x : bytes) : path :=
  match fast_loop x 0 with
  | Some _ => PFastInt
  | None =>
    if negb (underscoreOK x) then PSyntax else
    match special x with
    | Some _ => PSpecial
    | None =>
      match read_float x with
      | Some r => if r_hex r then PHex
                  else if r_trunc r then PSlow
                  else match atof64exact (r_mant r) (r_exp r) (r_neg r) with Some _ => PExact | None => PSlow end
      | None => match dec_set x with Some _ => PSlow | None => PSyntax end
      end
    end
  end.

Example atof_examples :
  reader_atof (bs "123") = (b64_of_Z 123, ErrNone) /\
  reader_atof (bs "0.1") = (b64_of_bits 0x3FB999999999999A, ErrNone) /\
  reader_atof (bs "1e23") = (b64_of_bits 0x44B52D02C7E14AF6, ErrNone) /\
  reader_atof (bs "-0x1.8p1") = (b64_of_bits 0xC008000000000000, ErrNone) /\
  reader_atof (bs "0x1p-1075") = (b64_of_bits 0, ErrNone) /\
  reader_atof (bs "0x1.8p-1075") = (b64_of_bits 1, ErrNone) /\
  reader_atof (bs "0x1p1024") = (S754_infinity false, ErrRange) /\
  reader_atof (bs "1e400") = (S754_infinity false, ErrRange) /\
  reader_atof (bs "+Inf") = (S754_infinity false, ErrNone) /\
  reader_atof (bs "1_0") = (b64_of_Z 10, ErrNone) /\
  snd (reader_atof (bs "1__0")) = ErrSyntax /\
  snd (reader_atof (bs "0x1")) = ErrSyntax /\
  path_of (bs "9223372036854775807") = PSlow /\
  path_of (bs "922337203685477580") = PFastInt /\
  path_of (bs "1.5") = PExact.
Proof. vm_compute. repeat split. Qed.
