(** Model of benchfmt/units.go UnitMetadataMap.GetBetter and GetAssumption
    (C04: unit metadata applies whether the written or the base unit is
    named).  [Get] itself is [Model.Units.units_get].  No proofs here.

    GetBetter follows the REPAIRED code (hooks/fix_c04_getbetter_default_tidied.diff):
    the built-in defaults are looked up, like the metadata itself, by the
    tidied unit.  The code before the repair switched on the unit as given
    ([get_better_old]): GetBetter("MB/op") = 0 but GetBetter("B/op") = -1. *)
From Perf Require Import Base.Bytes Base.B64 Base.Utf8 Model.Units.
Local Open Scope Z_scope.

Definition key_better : bytes := bs "better".
Definition key_assume : bytes := bs "assume".

Definition better_dir (val : bytes) : Z :=
  if beq val (bs "higher") then 1 else if beq val (bs "lower") then -1 else 0.

(** the built-in defaults, on a tidied unit *)
Definition better_default (tu : bytes) : Z :=
  if beq tu (bs "sec/op") then -1
  else if beq tu (bs "B/s") then 1
  else if beq tu (bs "B/op") || beq tu (bs "allocs/op") then -1
  else 0.

(** the switch of the code before the repair, on the unit as given *)
Definition better_default_old (u : bytes) : Z :=
  if beq u (bs "ns/op") || beq u (bs "sec/op") then -1
  else if beq u (bs "MB/s") || beq u (bs "B/s") then 1
  else if beq u (bs "B/op") || beq u (bs "allocs/op") then -1
  else 0.

Section UnitsMeta.
Variable is_space : N -> bool.

Definition get_better (m : list umeta) (unit : bytes) : Z :=
  match units_get is_space m unit key_better with
  | Some e => better_dir (u_value e)
  | None => better_default (snd (tidy is_space b64_one unit))
  end.

Definition get_better_old (m : list umeta) (unit : bytes) : Z :=
  match units_get is_space m unit key_better with
  | Some e => better_dir (u_value e)
  | None => better_default_old unit
  end.

(** GetAssumption(unit) == benchmath.AssumeExact *)
Definition get_assume_exact (m : list umeta) (unit : bytes) : bool :=
  match units_get is_space m unit key_assume with
  | Some e => beq (u_value e) (bs "exact")
  | None => false
  end.

End UnitsMeta.
