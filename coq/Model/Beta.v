(** Beta: the arithmetic skeleton of internal/stats/beta.go
    ([mathBetaInc], [betacf], [mathBeta], [lgamma]) over binary64.
    math.Lgamma, math.Log, math.Exp are oracle arguments; everything else is
    the code's [+ - * /] in the code's evaluation order. [betacf]'s loop runs
    at most 200 iterations (fuel) and then panics: outcome [Panicked]. *)
From Coq Require Import ZArith List Bool.
From Perf Require Import Base.B64.
Import ListNotations.
Local Open Scope Z_scope.

(** outcome of a computation that consults oracle tables and may panic *)
Inductive res (A : Type) : Type :=
| Val (a : A)        (* returned a *)
| Miss               (* needed a library result the case's oracle table lacks *)
| Panicked.          (* the Go code panics *)
Arguments Val {A} a.
Arguments Miss {A}.
Arguments Panicked {A}.

Definition res_bind {A B} (r : res A) (f : A -> res B) : res B :=
  match r with Val a => f a | Miss => Miss | Panicked => Panicked end.
Definition res_map {A B} (f : A -> B) (r : res A) : res B := res_bind r (fun a => Val (f a)).
Definition res_of_option {A} (o : option A) : res A :=
  match o with Some a => Val a | None => Miss end.

Definition k_two : b64 := b64_of_Z 2.
Definition k_half : b64 := b64_of_ZE 1 (-1).
Definition k_nan : b64 := S754_nan.
Definition k_eps_betacf : b64 := b64_of_bits 4404770525691830452. (* 3e-14 *)
(** math.SmallestNonzeroFloat64 = 2^-1074 *)
Definition k_smallest_nonzero : b64 := S754_finite false 1 (-1074).

Definition raise_zero (z : b64) : b64 :=
  if b64_lt (b64_abs z) k_smallest_nonzero then k_smallest_nonzero else z.

Definition max_iterations : nat := 200.

(** one iteration of the loop body; returns (c, d, h, hfac) *)
Definition betacf_body (x a b mf c d h : b64) : b64 * b64 * b64 * b64 :=
  let two_mf := b64_mul k_two mf in
  let a2m := b64_add a two_mf in
  (* even step *)
  let numer := b64_div (b64_mul (b64_mul mf (b64_sub b mf)) x)
                       (b64_mul (b64_sub a2m b64_one) a2m) in
  let d := b64_div b64_one (raise_zero (b64_add b64_one (b64_mul numer d))) in
  let c := raise_zero (b64_add b64_one (b64_div numer c)) in
  let h := b64_mul h (b64_mul d c) in
  (* odd step *)
  let numer := b64_div (b64_mul (b64_mul (b64_neg (b64_add a mf)) (b64_add (b64_add a b) mf)) x)
                       (b64_mul a2m (b64_add a2m b64_one)) in
  let d := b64_div b64_one (raise_zero (b64_add b64_one (b64_mul numer d))) in
  let c := raise_zero (b64_add b64_one (b64_div numer c)) in
  let hfac := b64_mul d c in
  let h := b64_mul h hfac in
  (c, d, h, hfac).

Fixpoint betacf_loop (fuel : nat) (m : Z) (x a b c d h : b64) : res b64 :=
  match fuel with
  | O => Panicked   (* "betainc: a or b too big; failed to converge" *)
  | S fuel' =>
      let '(c', d', h', hfac) := betacf_body x a b (b64_of_Z m) c d h in
      if b64_lt (b64_abs (b64_sub hfac b64_one)) k_eps_betacf then Val h'
      else betacf_loop fuel' (m + 1) x a b c' d' h'
  end.

Definition betacf (x a b : b64) : res b64 :=
  let c := b64_one in
  let d := b64_div b64_one
             (raise_zero (b64_sub b64_one (b64_div (b64_mul (b64_add a b) x) (b64_add a b64_one)))) in
  betacf_loop max_iterations 1 x a b c d d.

Section BetaInc.
  Variable lgamma_o log_o exp_o : b64 -> option b64.

  Definition lgamma_r (x : b64) : res b64 := res_of_option (lgamma_o x).
  Definition log_r (x : b64) : res b64 := res_of_option (log_o x).
  Definition exp_r (x : b64) : res b64 := res_of_option (exp_o x).

  (** mathBeta: Exp(lgamma(a) + lgamma(b) - lgamma(a+b)) *)
  Definition math_beta (a b : b64) : res b64 :=
    res_bind (lgamma_r a) (fun la =>
    res_bind (lgamma_r b) (fun lb =>
    res_bind (lgamma_r (b64_add a b)) (fun lab =>
    exp_r (b64_sub (b64_add la lb) lab)))).

  (** the coefficient in front of the continued fraction *)
  Definition betainc_bt (x a b : b64) : res b64 :=
    if b64_lt b64_zero x && b64_lt x b64_one then
      res_bind (lgamma_r (b64_add a b)) (fun lab =>
      res_bind (lgamma_r a) (fun la =>
      res_bind (lgamma_r b) (fun lb =>
      res_bind (log_r x) (fun lx =>
      res_bind (log_r (b64_sub b64_one x)) (fun l1x =>
      exp_r (b64_add (b64_add (b64_sub (b64_sub lab la) lb) (b64_mul a lx)) (b64_mul b l1x)))))))
    else Val b64_zero.

  Definition math_beta_inc (x a b : b64) : res b64 :=
    if b64_lt x b64_zero || b64_gt x b64_one then Val k_nan
    else
      res_bind (betainc_bt x a b) (fun bt =>
      if b64_lt x (b64_div (b64_add a b64_one) (b64_add (b64_add a b) k_two)) then
        res_bind (betacf x a b) (fun cf => Val (b64_div (b64_mul bt cf) a))
      else
        res_bind (betacf (b64_sub b64_one x) b a) (fun cf =>
          Val (b64_sub b64_one (b64_div (b64_mul bt cf) b)))).
End BetaInc.
