(** Evaluators of the SPECIFICATION's counts on untied pooled samples (tie vector
    all ones), used by Corr/RunC11.v where the enumeration [count_le] and the
    generating-function evaluator [hist] are out of reach: both samples large
    (30..50 each, C(n1+n2,n1) up to 1e29). They run the Mann-Whitney counting
    recurrence in unbounded integers ([p_counts], [cdf] of Model/UDistImpl.v) and are
    PROVED equal to [count_le] / [count_eq] on [ones (n1+n2)] for all sizes
    (Proofs/UDistUntiedEval.v; Properties/C11.v, C11_untied_evaluator_le, _ge, _table_le, _table_eq). *)
From Coq Require Import ZArith List Bool Lia.
From Perf Require Import Model.UStat Model.UDistSpec Model.UDistImpl Model.UTest.
Import ListNotations.
Local Open Scope Z_scope.

(** number of choices with 2U <= w: one table fill up to the smaller tail *)
Definition untied_le (n1 n2 w : Z) : Z :=
  match dres_frac (cdf n1 n2 [] (2 * w)) with
  | Some (a, b) => a * choose (n1 + n2) n1 / b
  | None => 0
  end.
Definition untied_ge (n1 n2 w : Z) : Z := choose (n1 + n2) n1 - untied_le n1 n2 (w - 1).

(** the whole distribution at once: entry u = number of choices with U = u, u = 0..n1 n2 *)
Definition untied_table (n1 n2 : Z) : list Z := p_counts n1 n2 (n1 * n2).
Definition tab_le (tab : list Z) (w : Z) : Z :=
  if w <? 0 then 0 else zsum (firstn (S (Z.to_nat (w / 2))) tab).
Definition tab_eq (tab : list Z) (w : Z) : Z :=
  if (w <? 0) || Z.odd w then 0 else nth (Z.to_nat (w / 2)) tab 0.
