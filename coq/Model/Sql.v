(** A tiny relational semantics for exactly the SQL the storage server emits
    (storage/db/query.go part.sql, storage/db/db.go Query, ListUploads, flush):
    tables as lists of rows, bag semantics, comparisons of TEXT bytewise
    (SQLite's BINARY collation, the default of the columns created by
    createTmpl). Nothing here mentions [Query.part_selects] / [query_selects]:
    that the two agree is a theorem (Proofs/Sql.v, Proofs/SqlDb.v).
    No proofs here.

    The statement shapes, with the place each is built:

      sub-select of a part (part.sql):
        SELECT UploadID, RecordID FROM RecordLabels WHERE Name = ? [AND Value op ?]...
        SELECT UploadID, RecordID FROM Records WHERE UploadID op ? [AND UploadID > ?]

      DB.Query:
        SELECT r.Content FROM (s0) t0 INNER JOIN (s1) t1 USING (UploadID, RecordID) ...
          LEFT JOIN Records r USING (UploadID, RecordID)
        SELECT r.Content FROM Records r                           -- no parts

      DB.ListUploads (extraLabels = nil):
        SELECT j.UploadID, rCount FROM
          (SELECT UploadID, COUNT( * ) as rCount FROM (s0) t0 INNER JOIN ... LEFT JOIN Records r
             USING (UploadID, RecordID) GROUP BY UploadID) j
          LEFT JOIN Uploads u USING (UploadID)
          ORDER BY u.Day DESC, u.Seq DESC, u.UploadID DESC [LIMIT n]
        SELECT j.UploadID, rCount FROM
          (SELECT UploadID, (SELECT COUNT( * ) FROM Records r WHERE r.UploadID = u.UploadID) AS rCount
             FROM Uploads u WHERE rCount > 0
             ORDER BY u.Day DESC, u.Seq DESC, u.UploadID DESC [LIMIT n]) j   -- no parts

      Upload.flush / NewUpload:
        INSERT INTO Uploads(UploadID, Day, Seq) VALUES (?, ?, ?)
        INSERT INTO Records(UploadID, RecordID, Content) VALUES (?, ?, ?), ...
        INSERT INTO RecordLabels VALUES (?, ?, ?, ?), ...
      under PRIMARY KEY (UploadID) / (UploadID, RecordID) / (UploadID, RecordID, Name)
      and the two FOREIGN KEY clauses.

    Rows of Uploads created by ReplaceUpload with an ID that is not
    digits.digits carry NULL Day/Seq; only rows as NewUpload writes them (both
    present) are modelled. *)
From Perf Require Import Base.Bytes Model.Words Model.Query Model.StoreFmt.

(** ** tables *)

Record up_row := mkUp { up_id : bytes; up_day : bytes; up_seq : N }.
Record rec_row := mkRr { rr_upload : bytes; rr_id : N; rr_content : bytes }.
Record lab_row := mkLr { lr_upload : bytes; lr_id : N; lr_name : bytes; lr_value : bytes }.

Record tables := mkT {
  t_uploads : list up_row; t_records : list rec_row; t_labels : list lab_row }.

(** the join columns (UploadID, RecordID) *)
Definition key := (bytes * N)%type.
Definition rr_key (r : rec_row) : key := (rr_upload r, rr_id r).
Definition lr_key (r : lab_row) : key := (lr_upload r, lr_id r).
Definition key_eqb (a b : key) : bool := beq (fst a) (fst b) && (snd a =? snd b)%N.

(** ** WHERE clauses of the sub-selects *)

Inductive col := CUploadID | CName | CValue.
Inductive cmp := CmpEq | CmpLt | CmpGt.

(** "col op ?" with its argument *)
Record atom := mkAtom { a_col : col; a_cmp : cmp; a_arg : bytes }.

Inductive source := SrcLabels | SrcRecords.

(** SELECT UploadID, RecordID FROM <source> WHERE a1 AND a2 AND ... *)
Record subsel := mkSub { ss_src : source; ss_where : list atom }.

(** part.sql(): [None] is its error ("missing value for key") *)
Definition part_sql (p : part) : option subsel :=
  if beq (p_key p) key_upload then
    Some (mkSub SrcRecords
      match p_op p with
      | OpEq => [mkAtom CUploadID CmpEq (p_v p)]
      | OpLt => [mkAtom CUploadID CmpLt (p_v p)]
      | OpGt => [mkAtom CUploadID CmpGt (p_v p)]
      | OpLtGt => [mkAtom CUploadID CmpLt (p_v p); mkAtom CUploadID CmpGt (p_v2 p)]
      end)
  else
    match p_op p with
    | OpEq =>
        if beq (p_v p) [] then None
        else Some (mkSub SrcLabels [mkAtom CName CmpEq (p_key p); mkAtom CValue CmpEq (p_v p)])
    | OpLt => Some (mkSub SrcLabels [mkAtom CName CmpEq (p_key p); mkAtom CValue CmpLt (p_v p)])
    | OpGt =>
        if beq (p_v p) [] then Some (mkSub SrcLabels [mkAtom CName CmpEq (p_key p)])
        else Some (mkSub SrcLabels [mkAtom CName CmpEq (p_key p); mkAtom CValue CmpGt (p_v p)])
    | OpLtGt =>
        Some (mkSub SrcLabels [mkAtom CName CmpEq (p_key p); mkAtom CValue CmpLt (p_v p);
                               mkAtom CValue CmpGt (p_v2 p)])
    end.

(** the loop "for _, key := range keys" of parseQuery: first error wins *)
Fixpoint parts_sql (ps : list part) : option (list subsel) :=
  match ps with
  | [] => Some []
  | p :: ps' =>
      match part_sql p, parts_sql ps' with
      | Some s, Some ss => Some (s :: ss)
      | _, _ => None
      end
  end.

(** ** evaluation *)

(** TEXT comparison under BINARY collation: memcmp, shorter prefix first *)
Definition cmp_holds (c : cmp) (x arg : bytes) : bool :=
  match c with CmpEq => beq x arg | CmpLt => bltb x arg | CmpGt => bltb arg x end.

Definition lab_col (c : col) (r : lab_row) : option bytes :=
  match c with CUploadID => Some (lr_upload r) | CName => Some (lr_name r) | CValue => Some (lr_value r) end.
(** Records has no Name / Value column (such an atom is never generated) *)
Definition rec_col (c : col) (r : rec_row) : option bytes :=
  match c with CUploadID => Some (rr_upload r) | _ => None end.

Definition atom_holds (v : option bytes) (a : atom) : bool :=
  match v with Some x => cmp_holds (a_cmp a) x (a_arg a) | None => false end.

Definition where_lab (w : list atom) (r : lab_row) : bool :=
  forallb (fun a => atom_holds (lab_col (a_col a) r) a) w.
Definition where_rec (w : list atom) (r : rec_row) : bool :=
  forallb (fun a => atom_holds (rec_col (a_col a) r) a) w.

(** one sub-select: a bag of (UploadID, RecordID) *)
Definition eval_sub (T : tables) (s : subsel) : list key :=
  match ss_src s with
  | SrcLabels => map lr_key (filter (where_lab (ss_where s)) (t_labels T))
  | SrcRecords => map rr_key (filter (where_rec (ss_where s)) (t_records T))
  end.

(** l INNER JOIN r USING (UploadID, RecordID): one row per matching pair; both
    sides have just the two join columns, which USING merges *)
Definition inner_join (l r : list key) : list key :=
  flat_map (fun a => map (fun _ => a) (filter (key_eqb a) r)) l.

(** (s0) t0 INNER JOIN (s1) t1 USING (...) INNER JOIN (s2) t2 USING (...) ... *)
Definition join_subs (T : tables) (s0 : subsel) (rest : list subsel) : list key :=
  fold_left inner_join (map (eval_sub T) rest) (eval_sub T s0).

(** j LEFT JOIN Records r USING (UploadID, RecordID): every row of j with each
    matching record, or once with NULLs when there is none *)
Definition left_join_records (j : list key) (recs : list rec_row) : list (key * option rec_row) :=
  flat_map (fun a =>
              match filter (fun r => key_eqb a (rr_key r)) recs with
              | [] => [(a, None)]
              | ms => map (fun r => (a, Some r)) ms
              end) j.

(** the FROM clause shared by Query and ListUploads *)
Definition from_joined (T : tables) (subs : list subsel) : list (key * option rec_row) :=
  match subs with
  | [] => map (fun r => (rr_key r, Some r)) (t_records T)        (* FROM Records r *)
  | s0 :: rest => left_join_records (join_subs T s0 rest) (t_records T)
  end.

(** DB.Query: SELECT r.Content ... ; [None] = NULL *)
Definition sql_query (T : tables) (subs : list subsel) : list (option bytes) :=
  map (fun row => match snd row with Some r => Some (rr_content r) | None => None end) (from_joined T subs).

(** what DB.Query's Next() loop makes of the rows: each Content read by a fresh
    Reader (a NULL Content yields no result) *)
Definition read_content (c : option bytes) : list result :=
  match c with Some b => read_plain b | None => [] end.

(** *** listing *)

(** GROUP BY UploadID with COUNT( * ): one row per distinct value, in order of
    first occurrence (the order is irrelevant: an ORDER BY follows) *)
Fixpoint bump (k : bytes) (g : list (bytes * N)) : list (bytes * N) :=
  match g with
  | [] => [(k, 1%N)]
  | (k', n) :: g' => if beq k' k then (k', (n + 1)%N) :: g' else (k', n) :: bump k g'
  end.
Definition group_count (ks : list bytes) : list (bytes * N) := fold_left (fun g k => bump k g) ks [].

(** a listing row before the final projection: UploadID, rCount and the sort
    columns u.Day, u.Seq of the LEFT JOINed Uploads row (None = no such row) *)
Record list_row := mkLrow { lw_id : bytes; lw_count : N; lw_daysq : option (bytes * N) }.

(** j LEFT JOIN Uploads u USING (UploadID) *)
Definition left_join_uploads (g : list (bytes * N)) (ups : list up_row) : list list_row :=
  flat_map (fun ic =>
              match filter (fun u => beq (up_id u) (fst ic)) ups with
              | [] => [mkLrow (fst ic) (snd ic) None]
              | ms => map (fun u => mkLrow (fst ic) (snd ic) (Some (up_day u, up_seq u))) ms
              end) g.

(** ORDER BY u.Day DESC, u.Seq DESC, u.UploadID DESC: Day is TEXT (bytewise),
    Seq an integer, NULLs are smallest (SQLite) *)
Definition lex (a b : comparison) : comparison := match a with Eq => b | _ => a end.
Definition daysq_cmp (a b : option (bytes * N)) : comparison :=
  match a, b with
  | None, None => Eq
  | None, Some _ => Lt
  | Some _, None => Gt
  | Some (d1, s1), Some (d2, s2) => lex (bcmp d1 d2) (N.compare s1 s2)
  end.
Definition row_cmp (a b : list_row) : comparison :=
  lex (daysq_cmp (lw_daysq a) (lw_daysq b)) (bcmp (lw_id a) (lw_id b)).

(** a sort into descending order (which sort is irrelevant: see
    Proofs/Sql.v [desc_sorted_unique]) *)
Fixpoint insert_desc {A} (c : A -> A -> comparison) (x : A) (l : list A) : list A :=
  match l with
  | [] => [x]
  | y :: l' => match c x y with Lt => y :: insert_desc c x l' | _ => x :: l end
  end.
Definition sort_desc {A} (c : A -> A -> comparison) (l : list A) : list A :=
  fold_right (insert_desc c) [] l.

(** "if limit != 0 { LIMIT %d }": no clause = all rows; a negative LIMIT is no
    limit in SQLite *)
Definition sql_limit {A} (limit : Z) (l : list A) : list A :=
  if (limit =? 0)%Z then l else if (limit <? 0)%Z then l else firstn (Z.to_nat limit) l.

(** DB.ListUploads(q, nil, limit) *)
Definition sql_list_uploads (T : tables) (subs : list subsel) (limit : Z) : list (bytes * N) :=
  let rows :=
    match subs with
    | [] =>
        (* FROM Uploads u, rCount by correlated sub-query, WHERE rCount > 0 *)
        filter (fun w => negb (lw_count w =? 0)%N)
          (map (fun u => mkLrow (up_id u)
                           (N.of_nat (length (filter (fun r => beq (rr_upload r) (up_id u)) (t_records T))))
                           (Some (up_day u, up_seq u)))
               (t_uploads T))
    | _ =>
        left_join_uploads (group_count (map (fun row => fst (fst row)) (from_joined T subs))) (t_uploads T)
    end in
  map (fun w => (lw_id w, lw_count w)) (sql_limit limit (sort_desc row_cmp rows)).

(** ** inserts under the constraints *)

Definition lr_pk (r : lab_row) : bytes * N * bytes := (lr_upload r, lr_id r, lr_name r).
Definition pk3_eqb (a b : bytes * N * bytes) : bool :=
  key_eqb (fst a) (fst b) && beq (snd a) (snd b).

Fixpoint nodupb {A} (eqb : A -> A -> bool) (l : list A) : bool :=
  match l with
  | [] => true
  | x :: l' => negb (existsb (eqb x) l') && nodupb eqb l'
  end.

(** INSERT INTO Uploads: refused if the ID exists *)
Definition insert_upload (u : up_row) (T : tables) : option tables :=
  if existsb (fun x => beq (up_id x) (up_id u)) (t_uploads T) then None
  else Some (mkT (t_uploads T ++ [u]) (t_records T) (t_labels T)).

(** INSERT INTO Records ... VALUES rows: refused as a whole on a duplicate
    (UploadID, RecordID) or an UploadID without Uploads row *)
Definition insert_records (rows : list rec_row) (T : tables) : option tables :=
  if nodupb key_eqb (map rr_key (t_records T ++ rows))
     && forallb (fun r => existsb (fun u => beq (up_id u) (rr_upload r)) (t_uploads T)) rows
  then Some (mkT (t_uploads T) (t_records T ++ rows) (t_labels T)) else None.

(** INSERT INTO RecordLabels VALUES rows: refused as a whole on a duplicate
    (UploadID, RecordID, Name) or a row without its Records row *)
Definition insert_labels (rows : list lab_row) (T : tables) : option tables :=
  if nodupb pk3_eqb (map lr_pk (t_labels T ++ rows))
     && forallb (fun r => existsb (fun x => key_eqb (rr_key x) (lr_key r)) (t_records T)) rows
  then Some (mkT (t_uploads T) (t_records T) (t_labels T ++ rows)) else None.

(** *** the rows of one upload (Upload.InsertRecord: record [i] of the upload
    gets RecordID i; its labels are r.Labels then r.NameLabels) *)
Fixpoint number {A} (i : N) (l : list A) : list (N * A) :=
  match l with [] => [] | x :: l' => (i, x) :: number (i + 1) l' end.

Definition rec_all_labels (rc : rec) : labels := rc_labels rc ++ rc_namelabels rc.

Definition record_rows (id : bytes) (recs : list rec) : list rec_row :=
  map (fun ir => mkRr id (fst ir) (rc_content (snd ir))) (number 0 recs).
Definition label_rows (id : bytes) (recs : list rec) : list lab_row :=
  flat_map (fun ir => map (fun kv => mkLr id (fst ir) (fst kv) (snd kv)) (rec_all_labels (snd ir)))
           (number 0 recs).

(** NewUpload's row, then the rows flushed by the time of Commit. (The
    990-argument limit splits the two INSERTs into several; the set of rows of
    the transaction and whether some statement is refused are the same.) *)
Definition store_upload (T : tables) (id day : bytes) (seq : N) (recs : list rec) : option tables :=
  match insert_upload (mkUp id day seq) T with
  | None => None
  | Some T1 =>
      match insert_records (record_rows id recs) T1 with
      | None => None
      | Some T2 => insert_labels (label_rows id recs) T2
      end
  end.

(** the tables holding the stored state [d] (uploads in creation order);
    [ms] gives each upload's (Day, Seq) *)
Definition tables_of (d : db) (ms : list (bytes * N)) : tables :=
  mkT (map (fun sm => mkUp (s_id (fst sm)) (fst (snd sm)) (snd (snd sm))) (combine d ms))
      (flat_map (fun s => record_rows (s_id s) (s_recs s)) d)
      (flat_map (fun s => label_rows (s_id s) (s_recs s)) d).
