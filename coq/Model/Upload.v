(** Model of the upload procedure of the storage server (storage/app/upload.go
    processUpload + indexFile, storage/db Upload.InsertRecord/Commit/Abort,
    storage/fs writers) as a step sequence over an abstract state, driven by an
    explicit fault oracle. No proofs here.

    What is abstracted: the records a file contributes ([parse_file]), how the
    results of an upload become rows ([coalesce]) and whether the database
    refuses the rows at flush time ([rejects]) are parameters; Model/StoreFmt.v
    supplies the instances used for evaluation. The allocation of the upload ID
    is the parameter [alloc] (Model/Ids.v). *)
From Perf Require Import Base.Bytes Model.Words Model.Query Model.StoreFmt.

Section Upload.

Variables result rec : Type.
(** the legacy Reader with AddLabels(meta) over the bytes that arrived *)
Variable parse_file : labels -> bytes -> list result.
(** InsertRecord's coalescing of the results of all files of one upload *)
Variable coalesce : list result -> list rec.
(** flush: the database refuses the buffered rows (primary-key violation) *)
Variable rejects : list rec -> bool.
(** NewUpload's ID allocation against the Uploads table: None = it failed *)
Variable alloc : list bytes -> option bytes.

(** ** state *)
Record ustate := mkUs {
  us_ids : list bytes;                  (* Uploads table: every ID ever allocated *)
  us_recs : list (bytes * list rec);    (* committed, queryable records per upload *)
  us_fs : list (bytes * bytes) }.       (* file store: stored files (path, content) *)

(** ** the request: multipart parts in order *)
Inductive item :=
  | IFile (name body : bytes) (nwrites : nat) (cut : bool)
      (* a "file" part: [body] = the bytes that arrived, reaching the writer in
         [nwrites] writes; [cut] = the stream broke off inside this part *)
  | ICommit                              (* field "commit": skipped *)
  | IOther (field : bytes).              (* any other field ("abort", ...): rejected *)

(** how the part sequence ends *)
Inductive req_end :=
  | EndClosed      (* the closing delimiter was read: NextPart returns io.EOF *)
  | EndBroken      (* NextPart fails: connection dropped, body cut inside a
                      delimiter line or at a malformed header line, ... *)
  | EndInHeader.   (* a cleanly framed body stops inside the MIME header of the
                      next part: mime/multipart hands textproto's bare io.EOF
                      through, which the part loop takes for the end of the form *)

Record request := mkReq {
  rq_items : list item;    (* the parts NextPart returned *)
  rq_end : req_end;
  rq_user : bytes;
  rq_time : bytes }.

(** NextPart reports an error (anything but io.EOF) after the items *)
Definition end_fails (e : req_end) : bool :=
  match e with EndBroken => true | _ => false end.

(** ** the fault oracle: which environment step fails *)
Record oracle := mkOracle {
  o_new_upload : bool;        (* NewUpload fails (begin / read / insert / commit of the ID transaction) *)
  o_fs : nat -> bool;         (* the n-th file-store operation of this request fails
                                 (create, every header write, every body write, close — counted in order) *)
  o_midflush : N -> bool;     (* a flush at the 990-argument boundary fails while part i is being read *)
  o_flush : bool;             (* flush of the buffered rows at Commit fails *)
  o_commit : bool }.          (* commit of the records transaction fails *)

Fixpoint any_fail (f : nat -> bool) (from n : nat) : bool :=
  match n with O => false | S n' => f from || any_fail f (S from) n' end.

(** ** one file (indexFile) *)

Definition part_meta (id : bytes) (i : N) (name user tm : bytes) : labels :=
  file_meta (mkUploadIn id tm user []) i (mkUfile name []).

(** the header the server writes: sorted "k: v" lines, then a blank line *)
Definition header_lines (m : labels) : list bytes :=
  map (fun kv => fst kv ++ [c_col; w_space] ++ snd kv ++ [c_lf]) (lset_all m []) ++ [[c_lf]].

Definition file_path (id : bytes) (i : N) : bytes :=
  bs "uploads/" ++ id ++ [c_slash] ++ dec i ++ bs ".txt".

Inductive file_out :=
  | FOk (rs : list result)     (* stored and closed; these results were buffered *)
  | FErr.                      (* failed; the writer was closed with the error *)

(** file-store writer as a small state: the open file's content so far *)
Record fsw := mkFsw { fw_fs : list (bytes * bytes); fw_ops : nat }.

Definition index_file (o : oracle) (w : fsw) (id : bytes) (i : N) (user tm name body : bytes)
           (nwrites : nat) (cut : bool) : fsw * file_out :=
  let m := part_meta id i name user tm in
  let hdr := header_lines m in
  let ops0 := fw_ops w in
  (* NewWriter *)
  if o_fs o ops0 then (mkFsw (fw_fs w) (S ops0), FErr) else
  let ops1 := S ops0 in
  (* header writes; on a failure: CloseWithError, the partial file is discarded *)
  if any_fail (o_fs o) ops1 (length hdr) then (mkFsw (fw_fs w) (ops1 + length hdr), FErr) else
  let ops2 := ops1 + length hdr in
  (* body tee-writes *)
  if any_fail (o_fs o) ops2 nwrites then (mkFsw (fw_fs w) (ops2 + nwrites), FErr) else
  let ops3 := ops2 + nwrites in
  (* InsertRecord fails: a flush forced by the 990-argument limit was refused *)
  if o_midflush o i then (mkFsw (fw_fs w) ops3, FErr) else
  (* read error of the request body *)
  if cut then (mkFsw (fw_fs w) ops3, FErr) else
  let rs := parse_file m body in
  (* no valid benchmark lines *)
  match rs with
  | [] => (mkFsw (fw_fs w) ops3, FErr)
  | _ =>
      (* Close fails: the REPAIRED server (hooks/fix_c20_close_error_leaves_file.diff)
         then calls CloseWithError, which removes the file - as on every other
         error path. (The server as it is only returns the error; with
         storage/fs/local the completely written file then stays in the store.) *)
      if o_fs o ops3 then (mkFsw (fw_fs w) (S ops3), FErr)
      else (mkFsw (fw_fs w ++ [(file_path id i, concat hdr ++ body)]) (S ops3), FOk rs)
  end.

(** ** the part loop (processUpload) *)

Inductive outcome :=
  | UOk (id : bytes) (fileids : list bytes)
  | UErr.

(** [up] = the db.Upload once created: its ID and the results buffered so far *)
Record pend := mkPend { pd_id : bytes; pd_results : list result; pd_fileids : list bytes }.

Record loop_out := mkLoop {
  lo_ids : list bytes; lo_fsw : fsw; lo_pend : option pend; lo_failed : bool }.

Fixpoint part_loop (o : oracle) (user tm : bytes) (items : list item) (i : N)
         (ids : list bytes) (w : fsw) (up : option pend) : loop_out :=
  match items with
  | [] => mkLoop ids w up false
  | ICommit :: rest => part_loop o user tm rest (i + 1) ids w up
  | IOther _ :: _ => mkLoop ids w up true
  | IFile name body nwrites cut :: rest =>
      (* NewUpload on the first file *)
      let started :=
        match up with
        | Some p => Some (ids, p)
        | None =>
            if o_new_upload o then None
            else match alloc ids with
                 | Some id => Some (ids ++ [id], mkPend id [] [])
                 | None => None
                 end
        end in
      match started with
      | None => mkLoop ids w up true
      | Some (ids', p) =>
          let '(w', fo) := index_file o w (pd_id p) i user tm name body nwrites cut in
          match fo with
          | FErr => mkLoop ids' w' (Some p) true
          | FOk rs =>
              part_loop o user tm rest (i + 1) ids' w'
                (Some (mkPend (pd_id p) (pd_results p ++ rs)
                              (pd_fileids p ++ [pd_id p ++ [c_slash] ++ dec i])))
          end
      end
  end.

(** the whole request. Every error path runs the deferred Abort (rollback), so
    buffered and flushed rows of this upload vanish; only a successful Commit
    makes them queryable. The allocated ID stays in the Uploads table either way. *)
Definition run_upload (o : oracle) (st : ustate) (rq : request) : ustate * outcome :=
  let lo := part_loop o (rq_user rq) (rq_time rq) (rq_items rq) 0 (us_ids st)
                      (mkFsw (us_fs st) 0) None in
  let st_err := mkUs (lo_ids lo) (us_recs st) (fw_fs (lo_fsw lo)) in
  if lo_failed lo || end_fails (rq_end rq) then (st_err, UErr)
  else match lo_pend lo with
       | None => (st_err, UErr)                       (* "no files processed" *)
       | Some p =>
           let recs := coalesce (pd_results p) in
           if o_flush o || rejects recs || o_commit o then (st_err, UErr)
           else (mkUs (lo_ids lo) (us_recs st ++ [(pd_id p, recs)]) (fw_fs (lo_fsw lo)),
                 UOk (pd_id p) (pd_fileids p))
       end.

(** what can be observed afterwards *)
Definition queryable (st : ustate) : list (bytes * list rec) := us_recs st.

(** /uploads with an empty query: newest first, uploads without records hidden *)
Definition listing (st : ustate) : list (bytes * nat) :=
  rev (map (fun ir => (fst ir, length (snd ir)))
           (filter (fun ir => negb (Nat.eqb (length (snd ir)) 0)) (us_recs st))).

End Upload.

Arguments mkUs {rec}.
Arguments us_ids {rec}.
Arguments us_recs {rec}.
Arguments us_fs {rec}.

(** ** the instance used for evaluation: StoreFmt's reader and coalescing *)
Definition coalesce_sf (rs : list StoreFmt.result) : list StoreFmt.rec :=
  rev (i_recs (fold_left insert_record rs ins0)).
Definition rejects_sf (recs : list StoreFmt.rec) : bool :=
  existsb (fun rc => existsb (fun kv => lhas (fst kv) (rc_namelabels rc)) (rc_labels rc)) recs.
Definition run_upload_sf (observed_id : option bytes) :=
  run_upload StoreFmt.result StoreFmt.rec read_with coalesce_sf rejects_sf (fun _ => observed_id).
