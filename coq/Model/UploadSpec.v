(** Declarative specification of what an upload request leaves behind (C20),
    written over the request alone - no run of the part loop of Model/Upload.v.
    Used by the judge (Corr/RunC20.v); tied to the model in Proofs/UploadSpec.v.

      [spec_files]    the files a request's file parts are stored as: path
                      uploads/<id>/<part index>.txt, content = the server's
                      metadata header (sorted "k: v" lines, blank line) followed
                      by the bytes of the part
      [file_ops]      the file-store operations writing one file takes: create,
                      one write per header line and one for the blank line, the
                      body writes, close
      [parts_before_op] how many leading parts are completely done (their files
                      closed) before the n-th file-store operation of the
                      request: the part that operation belongs to is "the file
                      being written when the failure happened"
      [failing_part]  the index of the first part at which something is wrong,
                      given which parts have faulty content ([bad]), the failing
                      file-store operation and the failing database step *)
From Perf Require Import Base.Bytes Model.Words Model.Query Model.StoreFmt Model.Upload.

Fixpoint spec_files (id user tm : bytes) (items : list item) (i : N) : list (bytes * bytes) :=
  match items with
  | [] => []
  | IFile name body _ _ :: r =>
      (file_path id i, concat (header_lines (part_meta id i name user tm)) ++ body)
      :: spec_files id user tm r (i + 1)
  | _ :: r => spec_files id user tm r (i + 1)
  end.

Definition file_ops (id user tm : bytes) (i : N) (name : bytes) (nwrites : nat) : nat :=
  S (length (header_lines (part_meta id i name user tm)) + nwrites + 1).

(** file-store operations of the whole request when nothing fails *)
Fixpoint spec_ops (id user tm : bytes) (items : list item) (i : N) : nat :=
  match items with
  | [] => 0
  | IFile name _ nw _ :: r => file_ops id user tm i name nw + spec_ops id user tm r (i + 1)
  | _ :: r => spec_ops id user tm r (i + 1)
  end.

(** number of leading parts whose operations all come before operation [n]
    ([start] = operations used so far) *)
Fixpoint parts_before_op (id user tm : bytes) (items : list item) (i : N) (start n : nat) : nat :=
  match items with
  | [] => 0
  | IFile name _ nw _ :: r =>
      let e := start + file_ops id user tm i name nw in
      if Nat.ltb n e then 0 else S (parts_before_op id user tm r (i + 1) e n)
  | _ :: r => S (parts_before_op id user tm r (i + 1) start n)
  end.

(** number of leading parts that satisfy [good] *)
Fixpoint leading {A} (good : N -> A -> bool) (i : N) (l : list A) : nat :=
  match l with
  | [] => 0
  | x :: r => if good i x then S (leading good (i + 1) r) else 0
  end.

(** the database step that fails: nothing, NewUpload (no file is ever created),
    a flush forced while part [p] is read, or a step after the last part *)
Inductive db_fault := DbNone | DbNewUpload | DbWhilePart (p : N) | DbAtCommit.

(** the index of the part being processed when the (single) fault happens;
    [length items] if every part is done before it (or there is no fault) *)
Definition failing_part (id user tm : bytes) (items : list item) (good : N -> item -> bool)
           (fsfault : option nat) (db : db_fault) : nat :=
  let k1 := leading good 0 items in
  let k2 := match fsfault with
            | Some n => parts_before_op id user tm items 0 0 n
            | None => length items
            end in
  let k3 := match db with
            | DbNewUpload => 0
            | DbWhilePart p => N.to_nat p
            | _ => length items
            end in
  Nat.min k1 (Nat.min k2 k3).
