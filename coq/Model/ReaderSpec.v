(** Declarative specification of the benchmark format as the reader is to
    understand it (property C02), written without the reader's scanners:

      1. [Lines]     : how a text falls into lines (cut at LF, a final piece
                       without LF is a line unless empty, ONE trailing CR of a
                       line is dropped; no limit on the length of a line);
      2. [Tokens]    : how a stretch of a line falls into white-space separated
                       fields;
      3. [KVLine]    : the shape  key ':' [ blank+ value ]  of a configuration
                       line; [BenchLine] : what follows "Benchmark"; [UnitLine];
      4. [LineKind]  : which of the four kinds a line is (benchmark line, unit
                       line, key/value line, other), in the format's order of
                       precedence;
      5. the line-by-line meaning with the configuration kept as TWO maps - the
         file configuration (key/value lines: latest value per key, an empty
         value removes the key) and the labels the tool supplied, which no line
         of the file can change - [linespec2 false].  [linespec2 true] is the
         same with the one recorded deviation of the code allowed (known
         finding C02_file_line_overrides_tool_label: a key/value line whose key
         is a tool label replaces or deletes that label).

    The grammar refers to the UTF-8 decoding of a line ([runes], Base/Utf8.v),
    to the classes unicode.IsSpace/IsLower/IsUpper and to the number readers
    (Section variables, as in Model/Reader.v).  It does not call [classify],
    [parse_kv], [kv_scan], [parse_bench], [split_field], [take_field],
    [fields], [parse_vals] or [split_lines]: Proofs/ReaderSpec.v proves those
    functions sound and complete for it.

    Decisions of the grammar that the property text leaves open (all follow
    the Go benchmark format as /repo reads it; listed so that they are visible):
      - the key of a key/value line ends at the first colon behind its first
        rune ("a:b: c" has key "a", and since no blank follows that colon it is
        not a key/value line at all: an other line);
      - the name of a benchmark line is what stands between "Benchmark" and the
        first white space and may be empty ("Benchmark 1 1 ns/op");
      - "Benchmark<name>" with nothing behind the name - not even white space -
        is not a result line (go test -v prints it when a benchmark starts);
      - a unit line with a unit and no key=value item is complete and says
        nothing ("Unit ns/op"): no record, no error.

    Also here: the reader WITHOUT the 64 KiB limit of bufio.Scanner
    ([read_file_nl], ...), i.e. the model of the code repaired by
    hooks/fix_c02_long_line.diff.  Model/Reader.v (shared with C01 and C14) is
    unchanged.  No proofs in this file. *)
From Perf Require Import Base.Bytes Base.B64 Base.Utf8 Base.Unicode Model.Name Model.Extract Model.Units
  Model.Reader Model.Files.
Local Open Scope N_scope.

(** ** 1. lines *)
(** [c] is [l] without one trailing CR *)
Definition chomp_cr (l c : bytes) : Prop :=
  l = c ++ [x0d] \/ (c = l /\ forall p, l <> p ++ [x0d]).

Inductive Lines : bytes -> list bytes -> Prop :=
| Lines_end : Lines [] []
| Lines_last l c : l <> [] -> ~ In x0a l -> chomp_cr l c -> Lines l [c]
| Lines_lf l c rest ls : ~ In x0a l -> chomp_cr l c -> Lines rest ls -> Lines (l ++ x0a :: rest) (c :: ls).

(** bufio.ScanLines without a token limit (the repaired reader): the scanning
    algorithm of [split_lines], never [TooLong] *)
Definition finish_nl (cur : bytes) : bytes :=
  match cur with
  | c :: r => if Byte.eqb c x_cr then frev r else frev cur
  | [] => []
  end.
Fixpoint split_nl_acc (s : bytes) (cur : bytes) : list bytes :=
  match s with
  | [] => match cur with [] => [] | _ => [finish_nl cur] end
  | c :: s' => if Byte.eqb c x_lf then finish_nl cur :: split_nl_acc s' []
               else split_nl_acc s' (c :: cur)
  end.
Definition split_nl (s : bytes) : list bytes := split_nl_acc s [].
Definition lines_nl (s : bytes) : list ltok := map Line (split_nl s).

(** every line of the text is under the scanner's limit *)
Definition lines_short (s : bytes) : Prop :=
  Forall (fun t => match t with TooLong => False | Line _ => True end) (split_lines s).

Section Spec.
Variables is_space is_lower is_upper : N -> bool.
Variable atoi : bytes -> option Z.
Variable parse_float : bytes -> option b64.

(** ** 2. fields *)
(** white space for the purpose of splitting a line into fields: the six
    ASCII characters below U+0080, unicode.IsSpace from there on *)
Definition white (r : N) : bool :=
  if r <? 128 then (r =? 9) || (r =? 10) || (r =? 11) || (r =? 12) || (r =? 13) || (r =? 32)
  else is_space r.
Definition is_white (c : chunk) : Prop := white (fst c) = true.
Definition is_black (c : chunk) : Prop := white (fst c) = false.

(** [ends_field l]: a field can end in front of [l] *)
Definition ends_field (l : list chunk) : Prop :=
  match l with [] => True | c :: _ => is_white c end.

(** [Tokens l fs]: [l] is white space and the fields [fs], in this order, each
    field a maximal non-empty run of non-white runes *)
Inductive Tokens : list chunk -> list (list chunk) -> Prop :=
| Tok_end : Tokens [] []
| Tok_white c l fs : is_white c -> Tokens l fs -> Tokens (c :: l) fs
| Tok_field f l fs : f <> [] -> Forall is_black f -> ends_field l -> Tokens l fs -> Tokens (f ++ l) (f :: fs).

(** ** 3a. key/value lines:  key ':' [ blank+ value ] *)
Definition is_blank (b : byte) : Prop := b = x20 \/ b = x09.

(** the runes of a key: the first is lower case; none is white space
    (unicode.IsSpace) or upper case; none but possibly the first is a colon *)
Definition KeyRunes (ck : list chunk) : Prop :=
  match ck with
  | [] => False
  | c0 :: ck' =>
      is_lower (fst c0) = true /\
      Forall (fun c : chunk => is_space (fst c) = false /\ is_upper (fst c) = false) ck /\
      Forall (fun c : chunk => fst c <> 58) ck'
  end.

(** what stands behind "key:" : nothing (the key is being deleted), or one or
    more blanks or tabs and then the value, which does not begin with a blank
    or tab (and may be empty: "key:   " deletes, too) *)
Definition ValuePart (rest value : bytes) : Prop :=
  (rest = [] /\ value = []) \/
  (exists bl, bl <> [] /\ Forall is_blank bl /\ rest = bl ++ value /\
              match value with [] => True | b :: _ => ~ is_blank b end).

Definition KVLine (line key value : bytes) : Prop :=
  exists rest, line = key ++ x3a :: rest /\ KeyRunes (runes key) /\ ValuePart rest value.

(** ** 3b. benchmark lines: what stands behind "Benchmark" *)
(** the measurements: value/unit pairs [ps] whose values [xs] are numbers, and
    then either nothing (fine if there is at least one pair), or a field that
    is not a number, or a number without a unit *)
Definition pair_fields (p : bytes * bytes) : list bytes := [fst p; snd p].
Definition values_of (xs : list b64) (ps : list (bytes * bytes)) : list value :=
  map (fun xp => read_value is_space (fst xp) (snd (snd xp))) (combine xs ps).

Definition Meas (ms : list bytes) (r : errkind + list value) : Prop :=
  exists (ps : list (bytes * bytes)) (xs : list b64) (tail : list bytes),
    ms = concat (map pair_fields ps) ++ tail /\
    Forall2 (fun p x => atof parse_float (fst p) = Some x) ps xs /\
    match tail with
    | [] => r = match ps with [] => inl EMissingMeas | _ => inr (values_of xs ps) end
    | v :: tl =>
        match atof parse_float v with
        | None => r = inl EBadMeas
        | Some _ => tl = [] /\ r = inl EMissingUnit
        end
    end.

(** the fields behind the name: iteration count, then the measurements *)
Inductive BenchFields (name : bytes) : list bytes -> bench_out -> Prop :=
| BF_noiters : BenchFields name [] (BErr EMissingIters)
| BF_baditers f ms : atoi f = None -> BenchFields name (f :: ms) (BErr EBadIters)
| BF_bad f it ms k : atoi f = Some it -> Meas ms (inl k) -> BenchFields name (f :: ms) (BErr k)
| BF_ok f it ms vals : atoi f = Some it -> Meas ms (inr vals) -> BenchFields name (f :: ms) (BOk name it vals).

Inductive BenchLine (rest : bytes) : bench_out -> Prop :=
| BL_skip : Forall is_black (runes rest) -> BenchLine rest BSkip        (* the name and nothing else *)
| BL_fields name w l fs o :
    runes rest = name ++ w :: l -> Forall is_black name -> is_white w -> Tokens l fs ->
    BenchFields (flat name) (map flat fs) o -> BenchLine rest o.

(** ** 3c. unit lines: "Unit", then white space, the unit and key=value items *)
Definition UnitLine (line : bytes) (fs : list (list chunk)) : Prop :=
  (line = bs "Unit" /\ fs = []) \/
  (exists rest w l, line = bs "Unit" ++ rest /\ runes rest = w :: l /\ is_white w /\ Tokens l fs).

(** an item key=value: the key is not empty and ends at the first '=' *)
Definition UnitItem (f k v : bytes) : Prop := f = k ++ x3d :: v /\ k <> [] /\ ~ In x3d k.

(** ** 4. the kind of a line *)
Definition IsBench (line : bytes) : Prop := exists rest, line = bs "Benchmark" ++ rest.
Definition IsUnit (line : bytes) : Prop := exists fs, UnitLine line fs.

Inductive LineKind (line : bytes) : lclass -> Prop :=
| LK_bench rest o : line = bs "Benchmark" ++ rest -> BenchLine rest o -> LineKind line (LBench o)
| LK_unit fs : ~ IsBench line -> UnitLine line fs -> LineKind line (LUnit (map flat fs))
| LK_kv k v : ~ IsBench line -> ~ IsUnit line -> KVLine line k v -> LineKind line (LKV k v)
| LK_other : ~ IsBench line -> ~ IsUnit line -> (forall k v, ~ KVLine line k v) -> LineKind line LOther.

(** ** 5. line-by-line meaning, file configuration and tool labels apart *)
(** [fm]: the file configuration; [lab]: the labels of the tool.  A result
    carries both.  With [relax] the labels start out inside [fm] (and [lab] is
    empty), so that key/value lines act on them: the code's behaviour. *)
Definition spec_step2 (fname : bytes) (n : Z) (fm lab : cmap) (um : list umetap) (line : bytes)
  : list record * cmap * list umetap :=
  match classify is_space is_lower is_upper atoi parse_float line with
  | LBench BSkip => ([], fm, um)
  | LBench (BErr k) => ([RErr fname n k], fm, um)
  | LBench (BOk name iters vals) => ([RRes (mkResult (lab ++ fm) name iters vals fname n)], fm, um)
  | LUnit fs => let '(rs, um') := unit_line is_space fname n fs um in (rs, fm, um')
  | LKV k v => ([], cm_set fm k v true, um)
  | LOther => ([], fm, um)
  end.

Fixpoint spec_lines2 (fname : bytes) (n : Z) (fm lab : cmap) (um : list umetap) (ls : list ltok)
  : list record * option Z * list umetap :=
  match ls with
  | [] => ([], None, um)
  | TooLong :: _ => ([], Some n, um)
  | Line b :: ls' =>
      let '(rs, fm1, um1) := spec_step2 fname (n + 1) fm lab um b in
      let '(rs', e, um2) := spec_lines2 fname (n + 1) fm1 lab um1 ls' in
      (rs ++ rs', e, um2)
  end.

Fixpoint spec_lines_take2 (fname : bytes) (n : Z) (fm lab : cmap) (um : list umetap) (ls : list ltok) (k : nat)
  {struct ls} : list record * option Z * list umetap :=
  match k with
  | O => ([], None, um)
  | S _ =>
      match ls with
      | [] => ([], None, um)
      | TooLong :: _ => ([], Some n, um)
      | Line b :: ls' =>
          let '(rs, fm1, um1) := spec_step2 fname (n + 1) fm lab um b in
          if (k <=? length rs)%nat then (firstn k rs, None, um1)
          else let '(rs', e, um2) := spec_lines_take2 fname (n + 1) fm1 lab um1 ls' (k - length rs) in
               (rs ++ rs', e, um2)
      end
  end.

Definition init_fm (relax : bool) (labels : list (bytes * bytes)) : cmap :=
  if relax then cm_labels labels else [].
Definition init_lab (relax : bool) (labels : list (bytes * bytes)) : cmap :=
  if relax then [] else cm_labels labels.

(** over given lines (used with [split_lines] to compare with [linespec]) *)
Definition linespec2_on (relax : bool) (ls : list ltok) (um : list umetap) (fname : bytes)
           (labels : list (bytes * bytes)) : list record * option Z * list umetap :=
  spec_lines2 (file_name fname) 0 (init_fm relax labels) (init_lab relax labels) um ls.

(** the specification the judge uses: no limit on the length of a line *)
Definition linespec2 (relax : bool) (um : list umetap) (fname : bytes) (labels : list (bytes * bytes))
           (content : bytes) : list record * option Z * list umetap :=
  linespec2_on relax (lines_nl content) um fname labels.

Definition linespec_take2 (relax : bool) (k : nat) (um : list umetap) (fname : bytes)
           (labels : list (bytes * bytes)) (content : bytes) : list record * option Z * list umetap :=
  spec_lines_take2 (file_name fname) 0 (init_fm relax labels) (init_lab relax labels) um (lines_nl content) k.

(** a key/value line of the text names a key the tool supplied as a label:
    the inputs on which the recorded deviation can show *)
Definition kv_keys (ls : list ltok) : list bytes :=
  flat_map (fun t => match t with
                     | Line b => match classify is_space is_lower is_upper atoi parse_float b with
                                 | LKV k _ => [k] | _ => [] end
                     | TooLong => [] end) ls.
Definition no_label_collision (labels : list (bytes * bytes)) (ls : list ltok) : Prop :=
  forall k, In k (kv_keys ls) -> cfg_lookup (cm_labels labels) k = None.

(** ** the reader without the scanner's limit (model of the repaired code) *)
Definition read_file_nl (st : rstate) (fname : bytes) (labels : list (bytes * bytes)) (content : bytes)
  : list record * option Z * rstate :=
  read_lines is_space is_lower is_upper atoi parse_float (file_name fname) 0 (reset st labels) (lines_nl content).

Definition read_file_take_nl (k : nat) (st : rstate) (fname : bytes) (labels : list (bytes * bytes))
           (content : bytes) : list record * option Z * rstate :=
  scan_n is_space is_lower is_upper atoi parse_float k (file_name fname) 0 (reset st labels) (lines_nl content).

(** ** Files over the reader without the limit; specification with the two maps *)
Fixpoint files_loop_nl (fs : list (bytes * bytes)) (ins : list finput) (st : rstate)
  : list record * ferr * rstate :=
  match ins with
  | [] => ([], FNone, st)
  | i :: ins' =>
      match fs_find fs (fi_path i) with
      | None => ([], FOpen, st)
      | Some content =>
          let '(rs, e, st1) := read_file_nl st (fi_path i) [(key_file, fi_label i)] content in
          match e with
          | Some n => (rs, FIo n, st1)
          | None => let '(rs', e', st2) := files_loop_nl fs ins' st1 in (rs ++ rs', e', st2)
          end
      end
  end.

Definition files_run_nl (fs : list (bytes * bytes)) (allow_labels : bool) (paths : list bytes) :=
  files_loop_nl fs (files_inputs allow_labels paths) rs_empty.
Definition files_run_stdin_nl (fs : list (bytes * bytes)) (allow_labels : bool) (paths : list bytes) (stdin : bytes) :=
  files_run_nl (with_stdin stdin fs) allow_labels (stdin_paths paths).

Fixpoint files_spec_loop2 (relax : bool) (fs : list (bytes * bytes)) (ins : list finput) (um : list umetap)
  : list record * ferr * list umetap :=
  match ins with
  | [] => ([], FNone, um)
  | i :: ins' =>
      match fs_find fs (fi_path i) with
      | None => ([], FOpen, um)
      | Some content =>
          let '(rs, e, um1) := linespec2 relax um (fi_path i) [(key_file, fi_label i)] content in
          match e with
          | Some n => (rs, FIo n, um1)
          | None => let '(rs', e', um2) := files_spec_loop2 relax fs ins' um1 in (rs ++ rs', e', um2)
          end
      end
  end.
Definition files_spec2 (relax : bool) (fs : list (bytes * bytes)) (allow_labels : bool) (paths : list bytes) :=
  files_spec_loop2 relax fs (spec_inputs allow_labels paths) [].
Definition files_spec_stdin2 (relax : bool) (fs : list (bytes * bytes)) (allow_labels : bool) (paths : list bytes)
           (stdin : bytes) :=
  files_spec_loop2 relax (with_stdin stdin fs) (spec_inputs_stdin allow_labels paths) [].

End Spec.

(** ** "duplicates disambiguated", stated on the labels themselves: inputs
    that name the same path without a label of their own carry pairwise
    different labels *)
Fixpoint dups_distinct (ins : list finput) : bool :=
  match ins with
  | [] => true
  | i :: ins' =>
      forallb (fun j => fi_labeled i || fi_labeled j || negb (beq (fi_path i) (fi_path j))
                        || negb (beq (fi_label i) (fi_label j))) ins'
      && dups_distinct ins'
  end.
