(** Declarative specification of the tie- and continuity-corrected normal
    approximation of the Mann-Whitney test, in exact rational arithmetic and
    independent of the float code of internal/stats/utest.go (which Model/UTest.v
    [sigma_U], [z_score], [approx_p] transcribe operation by operation).

    For samples of sizes n1, n2 (N = n1 + n2), tie vector t and statistic
    U = twoU / 2:

      mu       = n1 n2 / 2
      sigma^2  = n1 n2 / 12 * ((N + 1) - sum_k (t_k^3 - t_k) / (N (N - 1)))
      z        = (U - mu + c) / sigma     c = +1/2 (less), -1/2 (greater),
                                              -sign(U - mu)/2 (two-sided)
      p        = Phi(z) (less) | 1 - Phi(z) (greater) | 2 min(Phi(z), 1 - Phi(z))
      Phi(z)   = erfc(- z / sqrt 2) / 2

    Everything up to the argument of erfc is a rational function of the inputs
    except the two square roots; they are removed by squaring: the argument
    x = - z / sqrt 2 is characterised by its sign and by
      x^2 = (2 (U - mu + c))^2 / (8 sigma^2).
    erfc itself is the library function (math.Erfc, recorded per case by the
    harness); the judge takes the recorded pair (x, erfc x), demands that x is
    the declarative argument up to a relative 2e-15 and compares the observed
    p-value with the rational function of erfc x above. *)
From Coq Require Import ZArith List Bool Lia.
From Perf Require Import Model.UStat Model.UDistSpec Model.UTest.
Import ListNotations.
Local Open Scope Z_scope.

(** sum_k (t_k^3 - t_k) *)
Definition tie_sum (t : list Z) : Z := zsum (map (fun x => x * x * x - x) t).

(** sigma^2 = var_num / var_den *)
Definition var_num (n1 n2 : Z) (t : list Z) : Z :=
  let N := n1 + n2 in n1 * n2 * ((N + 1) * (N * (N - 1)) - tie_sum t).
Definition var_den (n1 n2 : Z) : Z := let N := n1 + n2 in 12 * (N * (N - 1)).

(** twice the continuity-corrected numerator: 2 (U - mu + c) *)
Definition numer2 (n1 n2 twoU : Z) (a : alt) : Z :=
  let d := twoU - n1 * n2 in
  match a with
  | Less => d + 1
  | Greater => d - 1
  | Differs => d - Z.sgn d
  end.

(** [x = xn / xd] (xd > 0) is the argument - z / sqrt 2 up to a relative
    error of 2e-15 (4e-15 on the squares): sign and square.
      x^2 = numer2^2 * var_den / (8 * var_num) *)
Definition arg_ok (n1 n2 : Z) (t : list Z) (twoU : Z) (a : alt) (xn xd : Z) : bool :=
  let c := numer2 n1 n2 twoU a in
  let vn := var_num n1 n2 t in
  let vd := var_den n1 n2 in
  (0 <? xd) && (0 <? vn) && (0 <? vd)
  && (Z.sgn xn =? - Z.sgn c)
  && (let lhs := xn * xn * (8 * vn) in          (* x^2 * 8 var_num * xd^2 *)
      let rhs := c * c * vd * (xd * xd) in
      Z.abs (lhs - rhs) * 10 ^ 15 <=? 4 * rhs).

(** the p-value as a fraction, from erfc x = en / ed (ed > 0):
    Phi = en / (2 ed) *)
Definition approx_spec_p (a : alt) (en ed : Z) : Z * Z :=
  match a with
  | Less => (en, 2 * ed)
  | Greater => (2 * ed - en, 2 * ed)
  | Differs => (Z.min en (2 * ed - en), ed)
  end.
