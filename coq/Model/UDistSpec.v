(** Exact integer specification of the null distribution of the Mann-Whitney U
    statistic for a tie vector (DESIGN 7.11). Nothing here follows the Go
    algorithm.

    A pooled sample with tie vector t = [t_1..t_K] (run sizes in rank order) is
    split into a first sample of size n1 and the rest. All C(N,n1) choices of
    WHICH pooled items form the first sample are equally likely. A choice is
    summarised by its count vector r (r_k of run k go to the first sample,
    0 <= r_k <= t_k, sum r = n1); prod_k C(t_k,r_k) choices share a count vector,
    and their statistic is [twoU_vec 0 (combine t r)] (Model/UStat.v).

    count_le t n1 u = number of choices with 2U <= u, and so on; probabilities
    are these counts over total = C(N,n1), kept as exact integer pairs. *)
From Coq Require Import ZArith List Bool Lia.
From Perf Require Import Model.UStat.
Import ListNotations.
Local Open Scope Z_scope.

Definition zsum (l : list Z) : Z := fold_right Z.add 0 l.
Definition sumf {A} (f : A -> Z) (l : list A) : Z := fold_right (fun a s => f a + s) 0 l.

Fixpoint zrange_aux (lo : Z) (n : nat) : list Z :=
  match n with O => [] | S n' => lo :: zrange_aux (lo + 1) n' end.
(** [lo; lo+1; ...; hi], empty when hi < lo *)
Definition zrange (lo hi : Z) : list Z := zrange_aux lo (Z.to_nat (hi - lo + 1)).

(** ** binomial coefficients *)
(** Pascal's triangle: the definition theorems speak about *)
Fixpoint binom (n k : nat) : Z :=
  match n, k with
  | _, O => 1
  | O, S _ => 0
  | S n', S k' => binom n' k' + binom n' k
  end.

(** multiplicative evaluation C(n-k+i, i) = C(n-k+i-1, i-1) * (n-k+i) / i, used to
    run the specification; equal to [binom] (Proofs/UDistSpec.v, choose_binom) *)
Fixpoint choose_loop (base : Z) (i : Z) (fuel : nat) (acc : Z) : Z :=
  match fuel with
  | O => acc
  | S f => choose_loop base (i + 1) f (acc * (base + i) / i)
  end.
Definition choose (n k : Z) : Z :=
  if (k <? 0) || (n <? k) then 0 else choose_loop (n - k) 1 (Z.to_nat k) 1.

(** ** count vectors *)
Fixpoint vecs (t : list Z) (n : Z) : list (list Z) :=
  match t with
  | [] => if n =? 0 then [[]] else []
  | tk :: t' => flat_map (fun r => map (cons r) (vecs t' (n - r))) (zrange 0 (Z.min tk n))
  end.

Definition weight (t r : list Z) : Z :=
  fold_right Z.mul 1 (map (fun tr => choose (fst tr) (snd tr)) (combine t r)).

Definition twoU_of (t r : list Z) : Z := twoU_vec 0 (combine t r).

Definition count_if (P : Z -> bool) (t : list Z) (n1 : Z) : Z :=
  sumf (fun r => if P (twoU_of t r) then weight t r else 0) (vecs t n1).

Definition count_le (t : list Z) (n1 u : Z) : Z := count_if (fun w => w <=? u) t n1.
Definition count_ge (t : list Z) (n1 u : Z) : Z := count_if (fun w => u <=? w) t n1.
Definition count_eq (t : list Z) (n1 u : Z) : Z := count_if (fun w => w =? u) t n1.
Definition count_all (t : list Z) (n1 : Z) : Z := count_if (fun _ => true) t n1.
Definition total (t : list Z) (n1 : Z) : Z := choose (zsum t) n1.

(** ** p-values of the property, as exact fractions (numerator, denominator = total) *)
Definition p_less_num (t : list Z) (n1 twoU : Z) : Z := count_le t n1 twoU.
Definition p_greater_num (t : list Z) (n1 twoU : Z) : Z := count_ge t n1 twoU.
(** twice the smaller one-sided value, capped at 1 *)
Definition p_two_num (t : list Z) (n1 twoU : Z) : Z :=
  Z.min (total t n1) (2 * Z.min (count_le t n1 twoU) (count_ge t n1 twoU)).

(** ** the same counts by plain enumeration of n1-subsets of the pooled items
    (subsets_agree, Proofs): pooled values 1..K repeated t_k times *)
Fixpoint pooled_aux (v : Z) (t : list Z) : list Z :=
  match t with [] => [] | tk :: t' => repeat v (Z.to_nat tk) ++ pooled_aux (v + 1) t' end.
Definition pooled (t : list Z) : list Z := pooled_aux 1 t.

(** all ways to split a list into (chosen, rest) with [n] chosen *)
Fixpoint splits (l : list Z) (n : nat) : list (list Z * list Z) :=
  match l with
  | [] => match n with O => [([], [])] | S _ => [] end
  | x :: l' =>
      (match n with
       | O => []
       | S n' => map (fun cr => (x :: fst cr, snd cr)) (splits l' n')
       end) ++ map (fun cr => (fst cr, x :: snd cr)) (splits l' n)
  end.
Definition subsets_count_if (P : Z -> bool) (t : list Z) (n1 : Z) : Z :=
  sumf (fun cr => if P (twoU_pairs (fst cr) (snd cr)) then 1 else 0) (splits (pooled t) (Z.to_nat n1)).

(** ** fast evaluator of the same counts (polynomial time), used to evaluate the
    specification on large inputs: forward product over the runs of the
    generating function  sum_r weight(r) x^(2U(r)) y^(sum r), truncated at degree
    [L-1] in x. State: for j = 0..n1 the polynomial in x (coefficient list). *)
Fixpoint padd (p q : list Z) : list Z :=
  match p, q with
  | [], _ => q
  | _, [] => p
  | a :: p', b :: q' => (a + b) :: padd p' q'
  end.
Definition pshift (L : nat) (s : Z) (p : list Z) : list Z :=
  match p with [] => [] | _ => firstn L (repeat 0 (Z.to_nat s) ++ p) end.
Definition pscale (c : Z) (p : list Z) : list Z := map (Z.mul c) p.

Definition hist_step (L : nat) (n1 S t : Z) (st : list (list Z)) : list (list Z) :=
  map (fun j' =>
         fold_left padd
           (map (fun r => let j := j' - r in
                          pscale (choose t r) (pshift L (r * (2 * (S - j) + (t - r))) (nth (Z.to_nat j) st [])))
                (zrange 0 (Z.min t j')))
           [])
      (zrange 0 n1).

Fixpoint hist_loop (L : nat) (n1 S : Z) (t : list Z) (st : list (list Z)) : list (list Z) :=
  match t with
  | [] => st
  | tk :: t' => hist_loop L n1 (S + tk) t' (hist_step L n1 S tk st)
  end.

(** coefficient list: entry w = number of choices with 2U = w, for w < L *)
Definition hist (L : nat) (t : list Z) (n1 : Z) : list Z :=
  nth (Z.to_nat n1) (hist_loop L n1 0 t ([1] :: repeat [] (Z.to_nat n1))) [].

Definition fast_count_le (t : list Z) (n1 u : Z) : Z :=
  if u <? 0 then 0 else zsum (hist (Z.to_nat (u + 1)) t n1).
(** count_ge through the complement: needs total = count_all (Vandermonde, Proofs) *)
Definition fast_count_ge (t : list Z) (n1 u : Z) : Z := total t n1 - fast_count_le t n1 (u - 1).
