(** Model of benchproc/extract.go: the extractors behind filter and projection keys. *)
From Perf Require Import Base.Bytes Model.Name.

(** configuration as the reader's slice: (key, value, file?) *)
Record cfg := mkCfg { c_key : bytes; c_val : bytes; c_file : bool }.

Fixpoint cfg_lookup (c : list cfg) (k : bytes) : option cfg :=
  match c with
  | [] => None
  | x :: c' => if beq (c_key x) k then Some x else cfg_lookup c' k
  end.

Definition extract_config (c : list cfg) (k : bytes) : bytes :=
  match cfg_lookup c k with Some x => c_val x | None => [] end.

Definition extract_name (n : bytes) : bytes := base n.
Definition extract_full (n : bytes) : bytes := full n.

Fixpoint find_prefixed (ps : list bytes) (prefix : bytes) : option bytes :=
  match ps with
  | [] => None
  | p :: ps' => if has_prefix p prefix then Some (skipn (length prefix) p)
                else find_prefixed ps' prefix
  end.

Definition last_opt {A} (l : list A) : option A :=
  match rev l with x :: _ => Some x | [] => None end.

(** extractNamePart(res, prefix, isGomaxprocs) *)
Definition extract_namepart (n prefix : bytes) (is_gmp : bool) : bytes :=
  let ps := snd (parts n) in
  let by_prefix := match find_prefixed ps prefix with Some v => v | None => [] end in
  if is_gmp then
    match last_opt ps with
    | Some (c :: rest) => if Byte.eqb c c_dash then rest else by_prefix
    | _ => by_prefix
    end
  else by_prefix.

Definition key_gomaxprocs : bytes := bs "/gomaxprocs".
Definition key_name : bytes := bs ".name".
Definition key_fullname : bytes := bs ".fullname".

(** extractFullExcluded(res, delete, excName, excGomaxprocs) *)
Definition part_deleted (delete : list bytes) (exc_gmp : bool) (p : bytes) : bool :=
  existsb (has_prefix p) delete ||
  (exc_gmp && match p with c :: _ => Byte.eqb c c_dash | [] => false end).

Definition extract_full_excluded (n : bytes) (delete : list bytes) (exc_name exc_gmp : bool) : bytes :=
  let found := exc_name || existsb (contains n) delete
               || (exc_gmp && match index_byte n c_dash with Some _ => true | None => false end) in
  if negb found then n else
  let '(b, ps) := parts n in
  (if exc_name then [c_star] else b)
    ++ concat (filter (fun p => negb (part_deleted delete exc_gmp p)) ps).

(** newExtractorFullName(exclude) *)
Definition is_subname_key (k : bytes) : bool :=
  match k with c :: _ => Byte.eqb c c_slash | [] => false end.

Definition extractor_fullname (exclude : list bytes) (n : bytes) : bytes :=
  let delete := map (fun k => k ++ [c_eq]) (filter is_subname_key exclude) in
  let exc_name := existsb (beq key_name) exclude in
  let exc_gmp := existsb (beq key_gomaxprocs) exclude in
  if is_nil delete && negb exc_name && negb exc_gmp then n
  else extract_full_excluded n delete exc_name exc_gmp.

(** newExtractor(key) applied to a result (name, config); [.config]/[.unit]/empty are
    rejected before reaching here. *)
Definition extract (key : bytes) (n : bytes) (c : list cfg) : bytes :=
  if beq key key_name then extract_name n
  else if beq key key_fullname then extract_full n
  else if is_subname_key key then extract_namepart n (key ++ [c_eq]) (beq key key_gomaxprocs)
  else extract_config c key.
