(** Model of upload-ID allocation (storage/db NewUpload): inside a transaction
    read the latest ID ("ORDER BY Day DESC, Seq DESC LIMIT 1"), derive the next
    sequence number for today's day, insert the new row into a table whose
    primary key is the ID. Sequential allocation, and allocators interleaved by
    an arbitrary schedule (each allocator's read and insert are separate steps;
    the only thing assumed of the database is primary-key uniqueness).
    No proofs here. *)
From Perf Require Import Base.Bytes Model.StoreFmt.

(** a row of Uploads: (Day as the number YYYYMMDD, Seq). The ID text is
    "<Day>.<Seq>"; for 8-digit days string order on Day is numeric order. *)
Definition uid := (N * N)%type.

Definition uid_eqb (a b : uid) : bool := (fst a =? fst b)%N && (snd a =? snd b)%N.

(** ORDER BY Day, Seq *)
Definition uid_ltb (a b : uid) : bool :=
  (fst a <? fst b)%N || ((fst a =? fst b)%N && (snd a <? snd b)%N).

Definition id_text (u : uid) : bytes := dec (fst u) ++ [x2e] ++ dec (snd u).

(** the row the lastUpload statement returns *)
Fixpoint last_row (t : list uid) : option uid :=
  match t with
  | [] => None
  | u :: t' =>
      match last_row t' with
      | Some m => if uid_ltb m u then Some u else Some m
      | None => Some u
      end
  end.

(** what NewUpload computes from what it read *)
Definition next_id (day : N) (last : option uid) : uid :=
  match last with
  | Some (d, s) => if (d =? day)%N then (day, s + 1)%N else (day, 1%N)
  | None => (day, 1%N)
  end.

Definition mem (u : uid) (t : list uid) : bool := existsb (uid_eqb u) t.

(** INSERT under the primary key: refused if the ID exists *)
Definition insert (u : uid) (t : list uid) : option (list uid) :=
  if mem u t then None else Some (t ++ [u]).

(** sequential NewUpload at clock reading [day] *)
Definition alloc (day : N) (t : list uid) : option (uid * list uid) :=
  let u := next_id day (last_row t) in
  match insert u t with Some t' => Some (u, t') | None => None end.

(** a sequence of allocations at the given clock readings; failed ones leave no row *)
Fixpoint alloc_seq (days : list N) (t : list uid) : list (option uid) * list uid :=
  match days with
  | [] => ([], t)
  | d :: ds =>
      match alloc d t with
      | Some (u, t') => let '(r, t'') := alloc_seq ds t' in (Some u :: r, t'')
      | None => let '(r, t'') := alloc_seq ds t in (None :: r, t'')
      end
  end.

(** ** concurrent allocators *)

(** an allocator: has read nothing yet / has read and computed its candidate /
    finished with an ID / finished with an error *)
Inductive astate := AStart | ARead (cand : uid) | ADone (u : uid) | AFailed.

Record cstate := mkC { c_table : list uid; c_threads : list astate }.

Fixpoint set_nth {A} (n : nat) (x : A) (l : list A) : list A :=
  match l, n with
  | [], _ => []
  | _ :: l', O => x :: l'
  | y :: l', S n' => y :: set_nth n' x l'
  end.

(** one step of thread [i] at clock reading [day]: Start reads, Read inserts *)
Definition cstep (day : N) (s : cstate) (i : nat) : cstate :=
  match nth_error (c_threads s) i with
  | Some AStart =>
      mkC (c_table s) (set_nth i (ARead (next_id day (last_row (c_table s)))) (c_threads s))
  | Some (ARead u) =>
      match insert u (c_table s) with
      | Some t' => mkC t' (set_nth i (ADone u) (c_threads s))
      | None => mkC (c_table s) (set_nth i AFailed (c_threads s))
      end
  | _ => s
  end.

(** a schedule: which thread moves, and what the clock shows then *)
Definition run_schedule (sched : list (nat * N)) (s : cstate) : cstate :=
  fold_left (fun s e => cstep (snd e) s (fst e)) sched s.

Definition done_ids (s : cstate) : list uid :=
  flat_map (fun a => match a with ADone u => [u] | _ => [] end) (c_threads s).
