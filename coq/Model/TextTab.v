(** Model of cmd/benchstat/internal/texttab (table.go), with the repairs of
    hooks/fix_c16_allshrink_span.diff: a span cell whose columns are all
    "shrink" columns grows them (as if none were shrink) instead of not fitting;
    hooks/fix_c16_blank_aligned_padding.diff: a blank centred / right-aligned
    text gets no alignment padding (which ended the line in blanks).

    Widths and offsets are counted in runes ([Runes.rune_count] =
    utf8.RuneCountInString). Widths are [Z] (Go int; the remaining need [w] of
    the distribution loop goes negative). Column indices are [nat].

    Restructuring w.r.t. the Go text: [Format]'s emission loop walks the
    (row, col)-sorted cells once and inserts newlines when the row changes; the
    model renders row by row ([emit_row] on the cells of each row up to the last
    printed row). The first [sort.Slice] (cells by span, not stable) is an
    oracle: the permutation Go produced is an input that the model checks
    ([perm_ok]); the inner [sort.Slice] of a span's growable columns (widest
    first) is Go's insertion sort (used by sort.Slice up to 12 elements),
    which is stable. *)
From Perf Require Import Base.Bytes Model.Runes.
Local Open Scope Z_scope.

Inductive align := ALeft | ACenter | ARight.

Record cell := mkCell {
  c_row : nat; c_col : nat; c_span : nat;
  c_val : bytes; c_margin : bytes; c_align : align }.

(** ** the builder API: Row, Col, Cell/Span (+ options), SetShrink *)
Inductive op :=
| ORow
| OCol (c : nat)
| OSpan (n : nat) (v : bytes) (m : option bytes) (a : align)   (* m: LeftMargin option if given *)
| OShrink (c : nat) (b : bool).

Record tab := mkTab {
  t_cells : list cell;      (* in insertion order *)
  t_cols : nat;
  t_shrink : list bool;
  t_row : nat; t_cur : nat }.

Definition tab0 : tab := mkTab [] 0 [] 0 0.

Fixpoint set_nth {A} (l : list A) (i : nat) (d v : A) : list A :=   (* grows with [d] *)
  match i, l with
  | O, [] => [v]
  | O, _ :: l' => v :: l'
  | S i', [] => d :: set_nth [] i' d v
  | S i', x :: l' => x :: set_nth l' i' d v
  end.

Definition is_nilb {A} (l : list A) : bool := match l with [] => true | _ => false end.

(** one API call; [None] = the panic of Col on moving backwards *)
Definition apply_op (t : tab) (o : op) : option tab :=
  match o with
  | ORow =>
      Some (mkTab (t_cells t) (t_cols t) (t_shrink t)
                  (if is_nilb (t_cells t) then t_row t else S (t_row t)) 0)
  | OCol c =>
      if (c <? t_cur t)%nat then None
      else Some (mkTab (t_cells t) (t_cols t) (t_shrink t) (t_row t) c)
  | OSpan n v m a =>
      let dflt := if (t_cur t =? 0)%nat || is_nilb v then [] else [sp] in
      let mg := match m with Some x => x | None => dflt end in
      let c := mkCell (t_row t) (t_cur t) n v mg a in
      let cur := (t_cur t + n)%nat in
      Some (mkTab (t_cells t ++ [c]) (Nat.max (t_cols t) cur) (t_shrink t) (t_row t) cur)
  | OShrink c b =>
      Some (mkTab (t_cells t) (t_cols t) (set_nth (t_shrink t) c false b) (t_row t) (t_cur t))
  end.

Fixpoint build_from (t : tab) (ops : list op) : option tab :=
  match ops with
  | [] => Some t
  | o :: r => match apply_op t o with Some t' => build_from t' r | None => None end
  end.
Definition build := build_from tab0.

(** ** Format: margins, widths *)
Definition getz (l : list Z) (i : nat) : Z := nth i l 0.
Fixpoint upd (l : list Z) (i : nat) (v : Z) : list Z :=
  match l, i with
  | [], _ => []
  | _ :: l', O => v :: l'
  | x :: l', S i' => x :: upd l' i' v
  end.

Definition shrink_of (sh : list bool) (col : nat) : bool := nth col sh false.

Definition lmargins (ncols : nat) (cells : list cell) : list Z :=
  fold_left (fun lm c => upd lm (c_col c) (Z.max (rune_count (c_margin c)) (getz lm (c_col c))))
            cells (repeat 0 ncols).

Definition sum_range (ws : list Z) (col span : nat) : Z :=
  fold_right Z.add 0 (map (getz ws) (seq col span)).

(** what the cell needs from its columns: its text plus the column's margin *)
Definition need (lm : list Z) (c : cell) : Z := rune_count (c_val c) + getz lm (c_col c).

(** Go's insertion sort (sort.Slice, <= 12 elements) of column indices by
    decreasing current width; equal widths keep their order *)
Fixpoint ins_desc (ws : list Z) (x : nat) (l : list nat) : list nat :=
  match l with
  | [] => [x]
  | y :: l' => if getz ws y <? getz ws x then x :: l else y :: ins_desc ws x l'
  end.
Definition sort_desc (ws : list Z) (l : list nat) : list nat :=
  fold_left (fun acc x => ins_desc ws x acc) l [].

(** the widest-first loop: [span] = number of columns still to process *)
Fixpoint distribute (ws : list Z) (order : list nat) (w : Z) : list Z :=
  match order with
  | [] => ws
  | col :: rest =>
      let span := Z.of_nat (length order) in
      let avg := Z.quot (w + span - 1) span in
      let nw := Z.max (getz ws col) avg in
      distribute (upd ws col nw) rest (w - nw)
  end.

(** columns of a span that may grow, and the need left for them *)
Definition grow_cols (sh : list bool) (col span : nat) : list nat :=
  let cols := seq col span in
  if existsb (fun j => negb (shrink_of sh j)) cols
  then filter (fun j => negb (shrink_of sh j)) cols
  else cols.                                     (* repaired: all-shrink span *)
Definition fixed_cols (sh : list bool) (col span : nat) : list nat :=
  let cols := seq col span in
  if existsb (fun j => negb (shrink_of sh j)) cols
  then filter (fun j => shrink_of sh j) cols
  else [].

Definition width_step (lm : list Z) (sh : list bool) (ws : list Z) (c : cell) : list Z :=
  let w := need lm c in
  if (c_span c =? 1)%nat then upd ws (c_col c) (Z.max (getz ws (c_col c)) w)
  else if w <=? sum_range ws (c_col c) (c_span c) then ws
  else
    let w' := w - fold_right Z.add 0 (map (getz ws) (fixed_cols sh (c_col c) (c_span c))) in
    distribute ws (sort_desc ws (grow_cols sh (c_col c) (c_span c))) w'.

Definition widths (lm : list Z) (sh : list bool) (ncols : nat) (ordered : list cell) : list Z :=
  fold_left (width_step lm sh) ordered (repeat 0 ncols).

(** offsets: offs[i] = start of column i's margin; one more for the table width *)
Fixpoint offs_from (off : Z) (ws : list Z) : list Z :=
  match ws with
  | [] => [off]
  | w :: r => off :: offs_from (off + w) r
  end.
Definition offsets (ws : list Z) : list Z := offs_from 0 ws.

(** ** emission *)
(** fmt's [%*s] with width [n] (negative = left-justify to -n) *)
Definition fmt_pad (n : Z) (s : bytes) : bytes :=
  if 0 <=? n then spaces (n - rune_count s) ++ s
  else s ++ spaces (- n - rune_count s).

(** [align.lpad] as in golang/perf e346888, BEFORE the repair of
    hooks/fix_c16_blank_aligned_padding.diff: a blank text is padded like any
    other (kept only for the witness C16_trailing_blank_empty_aligned_refuted) *)
Definition lpad_asis (a : align) (s : bytes) (w : Z) : bytes :=
  match a with
  | ALeft => s
  | ACenter => fmt_pad (Z.quot (w - rune_count s) 2) [] ++ s
  | ARight => fmt_pad w s
  end.

(** repaired (hooks/fix_c16_blank_aligned_padding.diff): a blank text
    (strings.TrimSpace(s) == "", the test Format already uses to skip empty
    cells) is written as it is - there is nothing to align, and the padding
    would end the line in blanks when the cell is the last one printed *)
Definition lpad (a : align) (s : bytes) (w : Z) : bytes :=
  if all_blank s then s else lpad_asis a s w.

(** the alignment that takes effect *)
Definition eff_align (a : align) (s : bytes) : align := if all_blank s then ALeft else a.

Definition printed (c : cell) : bool := negb (all_blank (c_val c) && all_blank (c_margin c)).

(** total cell width excluding the margin *)
Definition cell_tw (offs lm : list Z) (c : cell) : Z :=
  getz offs (c_col c + c_span c) - getz offs (c_col c) - getz lm (c_col c).

Definition emit_cell (offs lm : list Z) (st : Z * bytes) (c : cell) : Z * bytes :=
  let '(off, out) := st in
  let spc := getz offs (c_col c) - off in
  let mg := fmt_pad spc [] ++ fmt_pad (getz lm (c_col c)) (c_margin c) in
  let off1 := off + spc + getz lm (c_col c) in
  let s := lpad (c_align c) (c_val c) (cell_tw offs lm c) in
  (off1 + rune_count s, out ++ mg ++ s).

Definition emit_row (offs lm : list Z) (cs : list cell) : bytes :=
  snd (fold_left (emit_cell offs lm) cs (0, [])).

(** one row as the code BEFORE hooks/fix_c16_blank_aligned_padding.diff wrote it *)
Definition emit_cell_asis (offs lm : list Z) (st : Z * bytes) (c : cell) : Z * bytes :=
  let '(off, out) := st in
  let spc := getz offs (c_col c) - off in
  let mg := fmt_pad spc [] ++ fmt_pad (getz lm (c_col c)) (c_margin c) in
  let off1 := off + spc + getz lm (c_col c) in
  let s := lpad_asis (c_align c) (c_val c) (cell_tw offs lm c) in
  (off1 + rune_count s, out ++ mg ++ s).
Definition emit_row_asis (offs lm : list Z) (cs : list cell) : bytes :=
  snd (fold_left (emit_cell_asis offs lm) cs (0, [])).

(** cells of one row, left to right (insertion by column; stable) *)
Fixpoint ins_col (x : cell) (l : list cell) : list cell :=
  match l with
  | [] => [x]
  | y :: l' => if (c_col x <? c_col y)%nat then x :: l else y :: ins_col x l'
  end.
Definition sort_col (l : list cell) : list cell := fold_right ins_col [] l.

Definition row_cells (cells : list cell) (r : nat) : list cell :=
  sort_col (filter (fun c => printed c && (c_row c =? r)%nat) cells).

Definition last_row (cells : list cell) : nat :=
  fold_right Nat.max 0%nat (map c_row (filter printed cells)).

Definition nl : byte := x0a.

(** the oracle permutation: a permutation of the cell indices, spans nondecreasing *)
Fixpoint nondecr (l : list nat) : bool :=
  match l with
  | a :: ((b :: _) as r) => (a <=? b)%nat && nondecr r
  | _ => true
  end.
Definition perm_ok (n : nat) (perm : list nat) : bool :=
  (length perm =? n)%nat && forallb (fun i => existsb (Nat.eqb i) perm) (seq 0 n).

Fixpoint pick (cells : list cell) (perm : list nat) : option (list cell) :=
  match perm with
  | [] => Some []
  | i :: r => match nth_error cells i, pick cells r with
              | Some c, Some cs => Some (c :: cs)
              | _, _ => None
              end
  end.

Record layout := mkLayout { l_lm : list Z; l_ws : list Z; l_offs : list Z; l_lines : list bytes }.

Inductive outcome := OPanic | OBadOracle | OOut (l : layout).

Definition format (t : tab) (perm : list nat) : outcome :=
  let cells := t_cells t in
  let ncols := t_cols t in
  (* lmargin[cell.col] / ws[col] index out of range (only reachable with a span of 0) *)
  if negb (forallb (fun c => (c_col c <? ncols)%nat && (c_col c + c_span c <=? ncols)%nat) cells)
  then OPanic
  else if negb (perm_ok (length cells) perm) then OBadOracle
  else match pick cells perm with
  | None => OBadOracle
  | Some ordered =>
      if negb (nondecr (map c_span ordered)) then OBadOracle else
      let lm := lmargins ncols cells in
      let ws := widths lm (t_shrink t) ncols ordered in
      let offs := offsets ws in
      let lines :=
        if is_nilb cells then []
        else map (fun r => emit_row offs lm (row_cells cells r)) (seq 0 (S (last_row cells))) in
      OOut (mkLayout lm ws offs lines)
  end.

(** the bytes written: every line followed by "\n" *)
Definition out_bytes (lines : list bytes) : bytes := concat (map (fun l => l ++ [nl]) lines).

(** ** the distribution step BEFORE the repair (golang/perf 055de2c), kept only
    for the refutation witness C16_allshrink_refuted: shrink columns never grow *)
Definition width_step_asis (lm : list Z) (sh : list bool) (ws : list Z) (c : cell) : list Z :=
  let w := need lm c in
  if (c_span c =? 1)%nat then upd ws (c_col c) (Z.max (getz ws (c_col c)) w)
  else if w <=? sum_range ws (c_col c) (c_span c) then ws
  else
    let cols := seq (c_col c) (c_span c) in
    let w' := w - fold_right Z.add 0 (map (getz ws) (filter (shrink_of sh) cols)) in
    distribute ws (sort_desc ws (filter (fun j => negb (shrink_of sh j)) cols)) w'.
Definition widths_asis (lm : list Z) (sh : list bool) (ncols : nat) (ordered : list cell) : list Z :=
  fold_left (width_step_asis lm sh) ordered (repeat 0 ncols).
