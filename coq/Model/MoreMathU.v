(** MoreMathU: model of github.com/aclements/go-moremath/stats
    MannWhitneyUTest (utest.go) and UDist.CDF (udist.go) for the alternative
    LocationDiffers, as the code exists in the module cache (a dependency of
    golang/perf, outside /repo), including its defects:

      - the K = 2 base case of makeUmemo divides with Go's truncating [/], so a
        negative numerator yields r2High = 0 instead of -1;
      - the two-sided exact p is [2 * CDF(min(U1,U2))] under the distribution of
        U1: not capped at 1 and wrong when the tied distribution is asymmetric.

    U statistics, tie vectors and the memo table are exact integers (the float
    computations of the code are exact below 2^53; the float DP of the untied
    path and mathx.Choose above n = 20 carry rounding errors, so p is compared
    with a tolerance, see Corr/RunC13.v). The normal approximation's p is not
    computed here (math.Erfc): the model only decides which path is taken and
    whether sigma is zero. No proofs in this file. *)
From Coq Require Import ZArith List Bool FMapPositive.
From Perf Require Import Base.B64 Model.StatsF.
Import ListNotations.
Local Open Scope Z_scope.

Module PM := PositiveMap.

(** ** small integer helpers *)
Fixpoint binom_go (fuel : nat) (n i k acc : Z) : Z :=
  (* acc = C(n - k + i - 1 ... ) running product: C(n, k) = prod_{j=1..k} (n-k+j)/j *)
  match fuel with
  | O => acc
  | S f => if k <? i then acc else binom_go f n (i + 1) k (acc * (n - k + i) / i)
  end.
Definition binom (n k : Z) : Z :=
  if (k <? 0) || (n <? k) then 0 else binom_go (Z.to_nat k) n 1 k 1.

Fixpoint sum_from (fuel : nat) (lo : Z) (f : Z -> Z) : Z :=
  match fuel with O => 0 | S n => f lo + sum_from n (lo + 1) f end.
(** sum of f over lo..hi inclusive (0 if hi < lo) *)
Definition sum_range (lo hi : Z) (f : Z -> Z) : Z := sum_from (Z.to_nat (hi - lo + 1)) lo f.

Fixpoint range_from (fuel : nat) (lo : Z) : list Z :=
  match fuel with O => [] | S n => lo :: range_from n (lo + 1) end.
Definition zrange (lo hi : Z) : list Z := range_from (Z.to_nat (hi - lo + 1)) lo.

Definition zlen {A} (l : list A) : Z := Z.of_nat (length l).
Definition zsum (l : list Z) : Z := fold_left Z.add l 0.

(** ** labeledMerge: ties take the second sample's value first *)
Fixpoint lmerge (x1 : list b64) : list b64 -> list (b64 * bool) :=
  fix inner (x2 : list b64) : list (b64 * bool) :=
    match x1, x2 with
    | [], _ => map (fun v => (v, false)) x2
    | _, [] => map (fun v => (v, true)) x1
    | a :: x1', b :: x2' =>
        if b64_lt a b then (a, true) :: lmerge x1' x2 else (b, false) :: inner x2'
    end.

(** the run of values [== v] at the head: (length, how many from sample 1, rest) *)
Fixpoint take_run (v : b64) (l : list (b64 * bool)) : Z * Z * list (b64 * bool) :=
  match l with
  | (w, lab) :: l' =>
      if b64_eq w v then
        let '(c, nx, rest) := take_run v l' in (c + 1, nx + (if lab then 1 else 0), rest)
      else (0, 0, l)
  | [] => (0, 0, [])
  end.

(** the rank loop: 2*R1, tie vector T (in rank order), hasTies.
    rank := float64(i+rank1)/2 ; R1 += rank * nx1 *)
Fixpoint rank_loop (fuel : nat) (i : Z) (l : list (b64 * bool)) (twoR1 : Z) (T : list Z) (ties : bool)
  : Z * list Z * bool :=
  match fuel, l with
  | S f, (v, _) :: _ =>
      let '(c, nx1, rest) := take_run v l in
      (* a NaN never equals itself: the Go loop would not advance; the model consumes one *)
      let '(c, nx1, rest) := if c =? 0 then (1, (if snd (hd (v, false) l) then 1 else 0), tl l) else (c, nx1, rest) in
      let rank1 := i + 1 in
      let i' := i + c in
      rank_loop f i' rest (twoR1 + (i' + rank1) * nx1) (T ++ [c]) (ties || (1 <? c))
  | _, _ => (twoR1, T, ties)
  end.

Record ustat := mkUstat { us_n1 : Z; us_n2 : Z; us_twoU1 : Z; us_T : list Z; us_ties : bool }.

Definition u_statistic (x1 x2 : list b64) : ustat :=
  let n1 := zlen x1 in
  let n2 := zlen x2 in
  let m := lmerge (sort_f x1) (sort_f x2) in
  let '(twoR1, T, ties) := rank_loop (length m) 0 m 0 [] false in
  mkUstat n1 n2 (twoR1 - n1 * (n1 + 1)) T ties.

(** ** makeUmemo as coded: coefficients a, pruning bounds, two passes over a
    memo table keyed by (n1, twoU) *)
Section Memo.
  Variable t : list Z.            (* tie vector, t[0..K-1] *)

  Definition tz (i : Z) : Z := nth (Z.to_nat i) t 0.

  (** a[1] = t[0]; a[k] = a[k-1] + t[k-2] + t[k-1]; stored 0-based: alist[k-1] = a[k] *)
  Fixpoint a_go (prev_a prev_t : Z) (ts : list Z) : list Z :=
    match ts with
    | [] => []
    | tk :: ts' => let ak := prev_a + prev_t + tk in ak :: a_go ak tk ts'
    end.
  Definition alist : list Z :=
    match t with [] => [] | t0 :: ts => t0 :: a_go t0 t0 ts end.
  Definition az (k : Z) : Z := nth (Z.to_nat (k - 1)) alist 0.

  Fixpoint greedy (ts as_ : list Z) (n1k acc : Z) : Z :=
    match ts, as_ with
    | tk :: ts', ak :: as' => let x := Z.min n1k tk in greedy ts' as' (n1k - x) (acc + x * ak)
    | _, _ => acc
    end.
  (** twoUmin(n1, t[:k], a), twoUmax(n1, t[:k], a) *)
  Definition twoUmin (n1 : Z) (k : nat) : Z := greedy (firstn k t) (firstn k alist) n1 (- n1 * n1).
  Definition twoUmax (n1 : Z) (k : nat) : Z :=
    greedy (rev (firstn k t)) (rev (firstn k alist)) n1 (- n1 * n1).

  Definition zenc (z : Z) : Z := if z <? 0 then 2 * (- z) - 1 else 2 * z.
  Definition key_of (big n1 twoU : Z) : positive := Z.to_pos (zenc twoU * big + n1 + 1).

  (** twoUmin/twoUmax(n', t[:k], a) for n' = 0..n1top, computed once per level
      (they depend on n' and k only) *)
  Definition bounds_tab (n1top : Z) (k : nat) : list (Z * Z) :=
    map (fun n' => (twoUmin n' k, twoUmax n' k)) (zrange 0 n1top).
  Definition bounds_at (tab : list (Z * Z)) (n' : Z) : Z * Z := nth (Z.to_nat n') tab (0, 0).

  (** pass 1, one level: keys of A[k] from the keys of A[k+1]; tsum = sum t[0..k-1] *)
  Definition children (k : Z) (tsum : Z) (btab : list (Z * Z)) (key : Z * Z) : list (Z * Z) :=
    let '(n1, u) := key in
    flat_map (fun rk =>
                let u' := u - rk * (az (k + 1) - 2 * n1 + rk) in
                let n' := n1 - rk in
                let '(umin, umax) := bounds_at btab n' in
                if (umin <=? u') && (u' <=? umax) then [(n', u')] else [])
             (zrange (Z.max 0 (n1 - tsum)) (Z.min n1 (tz k))).

  Definition dedup (big : Z) (keys : list (Z * Z)) : list (Z * Z) :=
    map snd (PM.elements
               (fold_left (fun m '(n1, u) => PM.add (key_of big n1 u) (n1, u) m) keys (PM.empty (Z * Z)))).

  (** levels K-1 ... 2 (descending); [k] is the level being built *)
  Fixpoint pass1 (fuel : nat) (big k tsum : Z) (above : list (Z * Z)) : list (Z * list (Z * Z)) :=
    match fuel with
    | O => []
    | S f =>
        if k <? 2 then []
        else
          let tsum' := tsum - tz k in
          let btab := bounds_tab (big - 1) (Z.to_nat k) in
          let keys := dedup big (flat_map (children k tsum' btab) above) in
          (k, keys) :: pass1 f big (k - 1) tsum' keys
    end.

  (** K == 2 base case, with Go's truncating division *)
  Definition base2 (key : Z * Z) : Z :=
    let '(n1, u) := key in
    let t0 := tz 0 in
    let t1 := tz 1 in
    let r2Low := Z.max 0 (n1 - t0) in
    let r2High := Z.quot (u - n1 * (t0 - n1)) (t0 + t1) in
    sum_range r2Low r2High (fun r2 => binom t0 (n1 - r2) * binom t1 r2).

  (** pass 2, one level k >= 3 from level k-1; tsum = sum t[0..k-2];
      [btab] = bounds for t[:k-1] *)
  Definition fill_key (big k tsum : Z) (btab : list (Z * Z)) (prev : PM.t Z) (key : Z * Z) : Z :=
    let '(n1, u) := key in
    sum_range (Z.max 0 (n1 - tsum)) (Z.min n1 (tz (k - 1)))
      (fun rk =>
         let u' := u - rk * (az k - 2 * n1 + rk) in
         let n' := n1 - rk in
         let x := match PM.find (key_of big n' u') prev with
                  | Some x => x
                  | None => if snd (bounds_at btab n') <? u' then binom tsum n' else 0
                  end in
         x * binom (tz (k - 1)) rk).

  Definition table_of (big : Z) (f : Z * Z -> Z) (keys : list (Z * Z)) : PM.t Z :=
    fold_left (fun m '(n1, u) => PM.add (key_of big n1 u) (f (n1, u)) m) keys (PM.empty Z).

  Fixpoint pass2 (big tsum : Z) (levels : list (Z * list (Z * Z))) (prev : PM.t Z) : PM.t Z :=
    match levels with
    | [] => prev
    | (k, keys) :: rest =>
        let tsum' := tsum + tz (k - 2) in
        let btab := bounds_tab (big - 1) (Z.to_nat (k - 1)) in
        pass2 big tsum' rest (table_of big (fill_key big k tsum' btab prev) keys)
    end.

  (** makeUmemo(twoU, n1, t)[K][ukey{n1, twoU}]; None where the Go code panics (K < 2) *)
  Definition umemo_top (n1 twoU : Z) : option Z :=
    let K := zlen t in
    if K <? 2 then None
    else
      let big := n1 + 1 in
      let top := [(n1, twoU)] in
      let down := pass1 (Z.to_nat K) big (K - 1) (zsum t) top in     (* K-1 .. 2 *)
      let asc := rev ((K, top) :: down) in                          (* 2 .. K *)
      match asc with
      | (_, keys2) :: rest =>
          let m2 := table_of big base2 keys2 in
          let mK := pass2 big (tz 0) rest m2 in
          PM.find (key_of big n1 twoU) mK
      | [] => None
      end.
End Memo.

(** ** untied distribution: counts of the Mann-Whitney recurrence
      c(n,m,u) = c(n-1,m,u-m) + c(n,m-1,u),  c(0,m,.) = c(n,0,.) = [1]
    (the code runs the same recurrence on probabilities in float64) *)
Fixpoint ladd (a b : list Z) : list Z :=
  match a, b with
  | [], _ => b
  | _, [] => a
  | x :: a', y :: b' => (x + y) :: ladd a' b'
  end.
Definition lshift (d : Z) (l : list Z) : list Z := repeat 0 (Z.to_nat d) ++ l.

(** row m: [c(0,m); c(1,m); ...; c(N,m)] from row m-1, every list cut to
    [lim] entries (the code's [ulim]: only u <= U is ever needed) *)
Fixpoint mw_row (lim : nat) (m : Z) (prev_row : list (list Z)) (left : list Z) : list (list Z) :=
  (* left = c(n-1, m) ; prev_row = c(n, m-1) :: ... *)
  match prev_row with
  | [] => []
  | up :: prev' => let cur := firstn lim (ladd (lshift m left) up) in cur :: mw_row lim m prev' cur
  end.
Fixpoint mw_rows (lim : nat) (fuel : nat) (m : Z) (row : list (list Z)) : list (list Z) :=
  match fuel with
  | O => row
  | S f =>
      let row' := match row with
                  | [] => []
                  | c0 :: rest => c0 :: mw_row lim (m + 1) rest c0
                  end in
      mw_rows lim f (m + 1) row'
  end.
(** counts over u = 0 .. lim-1 of arrangements of n and m untied values *)
Definition mw_counts (lim : nat) (n m : Z) : list Z :=
  let '(n, m) := if n <=? m then (n, m) else (m, n) in     (* p_{n,m} = p_{m,n}: N <= M as in the code *)
  nth (Z.to_nat n) (mw_rows lim (Z.to_nat m) 0 (repeat [1] (S (Z.to_nat n)))) [].

Definition sum_firstn (k : Z) (l : list Z) : Z := zsum (firstn (Z.to_nat k) l).

(** ** UDist.CDF(U) for U = twoU/2, as (numerator, denominator); None = panic *)
Definition udist_cdf (n1 n2 : Z) (T : list Z) (ties : bool) (twoU : Z) : option (Z * Z) :=
  if twoU <? 0 then Some (0, 1)
  else if 2 * n1 * n2 <=? twoU then Some (1, 1)
  else if ties then
    match umemo_top T n1 twoU with
    | Some c => Some (c, binom (n1 + n2) n1)
    | None => None
    end
  else
    (* Ui = floor(U); the flip to the smaller tail is the same number mathematically *)
    let Ui := twoU / 2 in
    Some (zsum (mw_counts (Z.to_nat (Ui + 1)) n1 n2), binom (n1 + n2) n1).

Definition mw_exact_limit : Z := 50.
Definition mw_ties_exact_limit : Z := 25.

Inductive upath := PathExact | PathApprox.
Definition u_path (s : ustat) : upath :=
  let small lim := (us_n1 s <=? lim) && (us_n2 s <=? lim) in
  if (negb (us_ties s) && small mw_exact_limit) || (us_ties s && small mw_ties_exact_limit)
  then PathExact else PathApprox.

(** tieCorrection and sigma_U of the normal approximation, in binary64 as coded *)
Definition tie_correction (T : list Z) : Z := zsum (map (fun x => x * x * x - x) T).
Definition sigma_U (s : ustat) : b64 :=
  let N := b64_of_Z (us_n1 s + us_n2 s) in
  let tc := b64_of_Z (tie_correction (us_T s)) in
  let n12 := b64_of_Z (us_n1 s * us_n2 s) in
  b64_sqrt (b64_div (b64_mul n12 (b64_sub (b64_add N b64_one)
                                         (b64_div tc (b64_mul N (b64_sub N b64_one)))))
                    (b64_of_Z 12)).

(** outcome of MannWhitneyUTest(x1, x2, LocationDiffers) *)
Inductive uresult :=
| UErrSampleSize
| UErrSamplesEqual
| UPanic
| UExactP (num den : Z)        (* exact path: p = num/den as computed by the code, before float rounding *)
| UApprox.                     (* normal approximation: p = 2*min(Phi(z), 1-Phi(z)), not modelled *)

Definition utest (x1 x2 : list b64) : uresult :=
  match x1, x2 with
  | [], _ | _, [] => UErrSampleSize
  | _, _ =>
      let s := u_statistic x1 x2 in
      let twoU1 := us_twoU1 s in
      let twoU2 := 2 * us_n1 s * us_n2 s - twoU1 in
      let twoUs := Z.min twoU1 twoU2 in
      match u_path s with
      | PathExact =>
          if zlen (us_T s) =? 1 then UErrSamplesEqual
          else if twoU1 =? twoU2 then UExactP 1 1
          else match udist_cdf (us_n1 s) (us_n2 s) (us_T s) (us_ties s) twoUs with
               | Some (c, d) => UExactP (2 * c) d
               | None => UPanic
               end
      | PathApprox =>
          if b64_eq (sigma_U s) (S754_zero false) then UErrSamplesEqual else UApprox
      end
  end.

Definition fl (z : Z) : b64 := b64_of_Z z.

(** the design's witness: {2} vs {1,1,1} gives 3/2, swapped 1/2 *)
Example utest_witness :
  utest [fl 2] [fl 1; fl 1; fl 1] = UExactP 6 4 /\
  utest [fl 1; fl 1; fl 1] [fl 2] = UExactP 2 4.
Proof. vm_compute. split; reflexivity. Qed.
