(** Model of ToTables' parallel phase: each goroutine (summarizeCell /
    summarizeCol task) reads only data frozen before the phase starts and writes
    only its own slot; the WaitGroup join is the point where slots are read.
    A schedule is the order in which tasks take effect. *)
From Coq Require Import List Arith Lia.
Import ListNotations.

Section Sched.
  Variable A : Type.
  Variable frozen : Type.
  Variable task : frozen -> nat -> A.      (* what task i computes from frozen data *)

  Definition slots := nat -> option A.
  Definition empty : slots := fun _ => None.
  Definition write (s : slots) (i : nat) (v : A) : slots :=
    fun j => if Nat.eqb j i then Some v else s j.
  Definition run_task (fz : frozen) (s : slots) (i : nat) : slots := write s i (task fz i).
  Definition run (fz : frozen) (order : list nat) : slots := fold_left (run_task fz) order empty.
End Sched.
