(** Specification of C10, independent of the algorithm in benchunit/scale.go:
    predicates on (value, printed text) in exact integer arithmetic.  They are
    what the theorems of Properties/C10.v are about and what [prop_ok] in
    Corr/RunC10.v evaluates on the implementation's observed output. *)
From Perf Require Import Base.Bytes Base.B64 Base.FmtFixed Model.Scale.
Local Open Scope Z_scope.

(** ** the prefixes and their mathematical factors, as fractions num/den *)
Definition si_exact : list (bytes * (Z * Z)) :=
  [ (bs "T", (10^12, 1)); (bs "G", (10^9, 1)); (bs "M", (10^6, 1)); (bs "k", (10^3, 1));
    ([], (1, 1)); (bs "m", (1, 10^3)); ([xc2; xb5], (1, 10^6)); (bs "n", (1, 10^9)) ].
Definition iec_exact : list (bytes * (Z * Z)) :=
  [ (bs "Ti", (2^40, 1)); (bs "Gi", (2^30, 1)); (bs "Mi", (2^20, 1)); (bs "Ki", (2^10, 1)); ([], (1, 1)) ].

Fixpoint assoc_b {A} (k : bytes) (l : list (bytes * A)) : option A :=
  match l with
  | [] => None
  | (k', v) :: l' => if beq k k' then Some v else assoc_b k l'
  end.

Definition exact_factor (cls : class) (prefix : bytes) : option (Z * Z) :=
  match cls with
  | Decimal => assoc_b prefix si_exact
  | Binary => assoc_b prefix iec_exact
  | BadClass => None
  end.

(** ** half a unit of the last printed digit

    printed mantissa [n / 10^p] with prefix factor [fn/fd], value [|v| = m * 2^e]:
      | n/10^p * fn/fd - |v| |  <=  1/2 * 10^-p * fn/fd  +  slack * |v|
    with [slack = 2^-sl].  Used with [slack_on = false] (the sharp bound) for
    Format with an arbitrary Scaler, where the value printed is the binary64
    quotient itself. *)
Definition half_unit_ok (slack_on : bool) (sl : Z) (m : positive) (e : Z) (n : Z) (p : nat) (fn fd : Z) : bool :=
  let an := Zpos m * 2 ^ (Z.max e 0) in
  let ad := 2 ^ (Z.max (- e) 0) in
  let p10 := 10 ^ Z.of_nat p in
  let lhs := Z.abs (n * fn * ad - an * fd * p10) in
  (* multiplied through by 2 * 2^sl * fd * p10 * ad *)
  2 * 2 ^ sl * lhs <=? 2 ^ sl * fn * ad + (if slack_on then 2 * an * fd * p10 else 0).

(** the same with an explicit allowance [sn/sd * |v|]:
      | n/10^p * fn/fd - |v| |  <=  1/2 * 10^-p * fn/fd  +  sn/sd * |v|
    multiplied through by 2 * sd * fd * 10^p * 2^max(-e,0).  [sn = 0] is the
    statement of the property (the sharp bound) *)
Definition half_unit_slack (sn sd : Z) (m : positive) (e : Z) (n : Z) (p : nat) (fn fd : Z) : bool :=
  let an := Zpos m * 2 ^ (Z.max e 0) in
  let ad := 2 ^ (Z.max (- e) 0) in
  let p10 := 10 ^ Z.of_nat p in
  let lhs := Z.abs (n * fn * ad - an * fd * p10) in
  2 * sd * lhs <=? sd * fn * ad + 2 * sn * an * fd * p10.

(** on a value: finite and non-zero, else false *)
Definition half_unit_of (sn sd : Z) (v : b64) (n : Z) (p : nat) (fn fd : Z) : bool :=
  match v with S754_finite _ m e => half_unit_slack sn sd m e n p fn fd | _ => false end.

(** what known finding C10_quotient_rounded_before_printing allows beyond half
    a unit: Scaler.Format prints the decimal of the binary64 quotient
    val / Factor.  With a power of two as factor (every binary prefix, no
    prefix) the quotient is exact: nothing.  With 10^3 .. 10^12 (k M G T) the
    factor is exact and the quotient is rounded once: 2^-53 |v|.  With 10^-3,
    10^-6, 10^-9 (m, micro, n) the factor itself is a rounded binary64, f = F (1 + d1),
    and the quotient q = v / f (1 + d2), |d1|, |d2| <= 2^-53, so
    |q F - v| <= |v| * 2 * 2^-53 / (1 - 2^-53) < |v| * 2^-52 * (1 + 2^-52) *)
Definition is_pow2 (z : Z) : bool := (0 <? z) && (2 ^ Z.log2 z =? z).
Definition quotient_slack (fn fd : Z) : Z * Z :=
  if (fd =? 1) then (if is_pow2 fn then (0, 1) else (1, 2 ^ 53))
  else (2 ^ 52 + 1, 2 ^ 104).

(** ** how many significant digits the printed mantissa has: its scaled integer
    lies in [10^(k-1), 10^k) for k digits *)
Definition four_sig_n (cls : class) (p : Z) (n : Z) : bool :=
  (1000 <=? n) &&
  match cls with
  | Binary => if p =? 1 then n <=? 10239 else n <=? 9999     (* mantissa < 1024 *)
  | _ => n <=? 9999                                          (* mantissa < 1000 *)
  end.
(** four significant digits AND the mantissa n / 10^p in [1, 1000) resp.
    [1, 1024): with four digits in n that is one to three of them after the
    point (p = 0 would be a mantissa of 1000 or more, p = 4 one below 1:
    "0.9999k"); Binary with one decimal may reach 1023.9 *)
Definition four_sig (cls : class) (p : Z) (n : Z) : bool :=
  (1 <=? p) && (p <=? 3) && four_sig_n cls p n.
Definition three_sig (n : Z) : bool := (100 <=? n) && (n <=? 9999).

(** ** magnitude ranges of the statement, as binary64 constants
    [lo4]  least magnitude with a prefix in range: .99995 of the smallest prefix
    [top]  first magnitude beyond the largest prefix: 999.95 T resp. 1023.95 Ti
    [lo3]  1e-8 of the smallest prefix *)
Definition lo4 (cls : class) : b64 :=
  match cls with
  | Binary => b64_of_ZE 0x1fff972474538f (-53)      (* .99995 *)
  | _ => b64_of_dec false 99995 (-14)               (* .99995e-9 *)
  end.
Definition top (cls : class) : b64 :=
  match cls with
  | Binary => b64_of_ZE 0x1fff972474538f (-3)       (* .99995 * 2^50 *)
  | _ => b64_of_dec false 99995 10                  (* 999.95e12 *)
  end.
Definition lo3 (cls : class) : b64 :=
  match cls with
  | Binary => b64_of_dec false 1 (-8)
  | _ => b64_of_dec false 1 (-17)
  end.

Definition in_range4 (cls : class) (mag : b64) : bool := b64_le (lo4 cls) mag && b64_lt mag (top cls).
Definition in_range3 (cls : class) (mag : b64) : bool := b64_le (lo3 cls) mag && b64_lt mag (lo4 cls).

(** ** least non-zero magnitude of a multiset (NaN-free): declarative *)
Definition is_min_nonzero (vals : list b64) (mn : b64) : Prop :=
  (mn = b64_zero /\ Forall (fun v => b64_eq v b64_zero = true) vals) \/
  (b64_eq mn b64_zero = false /\ In mn (map b64_abs vals) /\
   Forall (fun v => b64_eq v b64_zero = true \/ b64_le mn (b64_abs v) = true) vals).

(** executable: the least element of the non-zero magnitudes *)
Definition spec_min (vals : list b64) : b64 :=
  let nz := filter (fun a => negb (b64_eq a b64_zero)) (map b64_abs vals) in
  match nz with
  | [] => b64_zero
  | a :: r => fold_left (fun mn x => if b64_lt x mn then x else mn) r a
  end.

(** ** ClassOf, as one pass over the text: Binary iff some token that names
    bytes is in the numerator, where a token is a maximal separator-free piece
    and "numerator" means the last '*' or '/' before it (if any) is '*'.
    [is_tok] says which tokens name bytes. *)
Fixpoint class_scan (is_tok : bytes -> bool) (fuel : nat) (s : bytes) (tok : bytes) (denom : bool) : bool :=
  let hit := is_tok (rev tok) && negb denom in
  match fuel with
  | O => hit
  | S f =>
      match s with
      | [] => hit
      | c :: r =>
          match sep_at s with
          | Some (k, r') =>
              hit || class_scan is_tok f r' []
                       (match k with SepStar => false | SepSlash => true | SepOther => denom end)
          | None => class_scan is_tok f r (c :: tok) denom
          end
      end
  end.
Definition class_by (is_tok : bytes -> bool) (unit : bytes) : class :=
  if class_scan is_tok (S (length unit)) unit [] false then Binary else Decimal.

(** the tokens that name bytes, independently of benchunit/parse.go: the byte
    symbol B alone or with an SI or IEC prefix (kB KB MB GB TB PB EB, KiB MiB GiB
    TiB PiB EiB) and the word, singular or plural, either capitalisation.
    ("b" is the bit; "BB", "B2", "MBs" name nothing.) *)
Definition byte_prefixes : list bytes :=
  [ []; bs "k"; bs "K"; bs "M"; bs "G"; bs "T"; bs "P"; bs "E";
    bs "Ki"; bs "Mi"; bs "Gi"; bs "Ti"; bs "Pi"; bs "Ei" ].
Definition byte_words : list bytes := [bs "byte"; bs "bytes"; bs "Byte"; bs "Bytes"].
Definition spec_bytes_tok (t : bytes) : bool :=
  existsb (fun p => beq t (p ++ bs "B")) byte_prefixes || existsb (beq t) byte_words.

(** the property: binary exactly when bytes appear in the numerator *)
Definition spec_class : bytes -> class := class_by spec_bytes_tok.

(** the three spellings benchunit/parse.go knows (B, MB, bytes): what ClassOf
    decides (Proofs/ScaleClass.v), and what known finding
    C10_classof_byte_spellings allows instead of [spec_class] *)
Definition narrow_class : bytes -> class := class_by is_bytes_tok.

(** ** shortest round-tripping decimal (NoOpScaler): [digits] significant
    digits, reads back to [x], and neither neighbour with one digit fewer does *)
Fixpoint strip_trailing_zeros (fuel : nat) (n : Z) (k : Z) : Z * Z :=
  match fuel with
  | O => (n, k)
  | S f => if (n =? 0) then (n, k) else if (n mod 10 =? 0) then strip_trailing_zeros f (n / 10) (k + 1) else (n, k)
  end.

(** value [n * 10^(-p)] read back correctly rounded *)
Definition reads_back (neg : bool) (n : Z) (p : nat) (x : b64) : bool :=
  b64_same (b64_of_dec neg n (- Z.of_nat p)) x.

Definition shortest_ok (neg : bool) (n : Z) (p : nat) (x : b64) : bool :=
  reads_back neg n p x &&
  (* minimality: write n = n' * 10^k with n' not ending in 0; dropping the last
     significant digit gives the candidates floor(n'/10), floor(n'/10)+1 (times 10^(k+1)) *)
  let '(n', k) := strip_trailing_zeros (S (Z.to_nat (Z.log2 n))) n 0 in
  if n' <? 10 then true   (* one significant digit: nothing shorter *)
  else
    let lo := (n' / 10) * 10 ^ (k + 1) in
    let hi := (n' / 10 + 1) * 10 ^ (k + 1) in
    negb (reads_back neg lo p x) && negb (reads_back neg hi p x).
