(** Syntax trees of benchproc/internal/parse (tree.go, projection.go Field). *)
From Perf Require Import Base.Bytes.

(** FilterMatch.Regexp is represented by the regexp's source text *)
Inductive matcher := MLit (s : bytes) | MRe (e : bytes).

(** FilterOp{OpAnd|OpOr, Exprs}, FilterOp{OpNot, [f]}, FilterMatch{Key, _, _, Off} *)
Inductive filter :=
| FMatch (key : bytes) (m : matcher) (off : nat)
| FAnd (fs : list filter)
| FOr (fs : list filter)
| FNot (f : filter).

Record pfield := mkField {
  pf_key : bytes; pf_order : bytes; pf_fixed : list bytes; pf_koff : nat; pf_ooff : nat }.

Definition matcher_eqb (a b : matcher) : bool :=
  match a, b with
  | MLit x, MLit y => beq x y
  | MRe x, MRe y => beq x y
  | _, _ => false
  end.

Fixpoint filter_eqb (a b : filter) {struct a} : bool :=
  let fix list_eq (l1 l2 : list filter) {struct l1} : bool :=
    match l1, l2 with
    | [], [] => true
    | x :: l1', y :: l2' => filter_eqb x y && list_eq l1' l2'
    | _, _ => false
    end in
  match a, b with
  | FMatch k m o, FMatch k' m' o' => beq k k' && matcher_eqb m m' && Nat.eqb o o'
  | FAnd l, FAnd l' => list_eq l l'
  | FOr l, FOr l' => list_eq l l'
  | FNot f, FNot f' => filter_eqb f f'
  | _, _ => false
  end.

Definition pfield_eqb (a b : pfield) : bool :=
  beq (pf_key a) (pf_key b) && beq (pf_order a) (pf_order b)
  && list_eqb beq (pf_fixed a) (pf_fixed b)
  && Nat.eqb (pf_koff a) (pf_koff b) && Nat.eqb (pf_ooff a) (pf_ooff b).
