(** Model of MannWhitneyUTest (internal/stats/utest.go) after the four repairs
    that keep the existing tests unedited:
      hooks/fix_c11_udist_k2.diff            floor in the K==2 base case (Model/UDistImpl.v)
      hooks/fix_c11_utest_greater.diff       Greater:  1 - CDF(U1 - 0.5), superseded by
      hooks/fix_c11_utest_greater_mirror.diff Greater:  CDF of the mirrored distribution
                                             (T reversed) at U2: no cancellation, never negative
      hooks/fix_c11_utest_twosided_cap.diff  Differs:  min(1, 2*CDF(min(U1,U2)))
      hooks/fix_c11_utest_samples_equal_large.diff
                                             len(T) == 1 => ErrSamplesEqual BEFORE the
                                             exact/approximate switch (the sigma == 0 test
                                             of the approximate path stays in the code)
    NOT repaired (known finding C11_twosided_asymmetric_ties): Differs still
    doubles the LOWER tail at min(U1,U2) and short-cuts U1 == U2 to 1, which is
    twice the smaller tail only when the tied distribution is symmetric.

    Exact path: the p-value as an exact fraction, in the shape the float code
    computes it. Approximate path: binary64, with math.Erfc as a per-case oracle. *)
From Coq Require Import ZArith List Bool Lia.
From Perf Require Import Base.B64 Model.UStat Model.UDistSpec Model.UDistImpl.
Import ListNotations.
Local Open Scope Z_scope.

Inductive alt := Less | Differs | Greater.

Definition exact_limit : Z := 50.       (* MannWhitneyExactLimit *)
Definition ties_exact_limit : Z := 25.  (* MannWhitneyTiesExactLimit *)

Definition use_exact (s : ustat) : bool :=
  (negb (us_hasTies s) && (us_n1 s <=? exact_limit) && (us_n2 s <=? exact_limit))
  || (us_hasTies s && (us_n1 s <=? ties_exact_limit) && (us_n2 s <=? ties_exact_limit)).

(** ** exact path. dist.CDF(U) with U = twoU/2 is [cdf n1 n2 T (2*twoU)] (quarters) *)
Inductive pexact :=
| POne                         (* the constant 1 *)
| PCdf (d : dres)              (* dist.CDF(..) *)
| POneMinusCdf (d : dres)      (* 1 - dist.CDF(..) *)
| PTwiceCapped (d : dres).     (* math.Min(1, dist.CDF(..)*2) *)

Definition exact_p (s : ustat) (a : alt) : pexact :=
  let c twoU := cdf (us_n1 s) (us_n2 s) (us_T s) (2 * twoU) in
  match a with
  | Differs =>
      if us_twoU1 s =? twoU2 s then POne
      else PTwiceCapped (c (Z.min (us_twoU1 s) (twoU2 s)))
  | Less => PCdf (c (us_twoU1 s))
  | Greater =>
      (* hooks/fix_c11_utest_greater_mirror.diff: the lower tail at U2 of the mirrored
         distribution (tie vector reversed), a sum of positive terms; the earlier
         1 - CDF(U1 - 0.5) cancelled and could be negative *)
      PCdf (cdf (us_n1 s) (us_n2 s) (rev (us_T s)) (2 * twoU2 s))
  end.

(** the pre-repair exact path (for the refuted statements) *)
Inductive pexact_old := OOne | OCdf (n d : Z) | OOneMinusCdf (n d : Z) | OTwice (n d : Z).

(** value of a [dres] / [pexact] as an exact fraction (num, den), den > 0 *)
Definition dres_frac (d : dres) : option (Z * Z) :=
  match d with
  | DFrac n m => Some (n, m)
  | DOneMinus n m => Some (m - n, m)
  | DPanic => None
  end.
Definition pexact_frac (p : pexact) : option (Z * Z) :=
  match p with
  | POne => Some (1, 1)
  | PCdf d => dres_frac d
  | POneMinusCdf d => match dres_frac d with Some (n, m) => Some (m - n, m) | None => None end
  | PTwiceCapped d => match dres_frac d with Some (n, m) => Some (Z.min m (2 * n), m) | None => None end
  end.

(** the same in binary64, following the float operations, for the tied
    distribution when all counts and binomials are exact in float64
    (N <= 20: mathChoose is integer arithmetic; counts < 2^53) *)
Definition dres_b64 (d : dres) : option b64 :=
  match d with
  | DFrac n m => Some (b64_div (b64_of_Z n) (b64_of_Z m))
  | DOneMinus n m => Some (b64_sub b64_one (b64_div (b64_of_Z n) (b64_of_Z m)))   (* only with float DP sums: not used bitwise *)
  | DPanic => None
  end.
Definition b64_two : b64 := b64_of_Z 2.
Definition b64_min (x y : b64) : b64 := if b64_lt y x then y else x.   (* math.Min on non-NaN, non-zero-sign-sensitive use *)
Definition pexact_b64 (p : pexact) : option b64 :=
  match p with
  | POne => Some b64_one
  | PCdf d => dres_b64 d
  | POneMinusCdf d => option_map (b64_sub b64_one) (dres_b64 d)
  | PTwiceCapped d => option_map (fun c => b64_min b64_one (b64_mul c b64_two)) (dres_b64 d)
  end.

(** ** normal approximation, binary64 *)
Definition tie_correction (T : list Z) : Z := zsum (map (fun t => t * t * t - t) T).

Definition b64_half : b64 := b64_div b64_one b64_two.
Definition b64_sqrt2 : b64 := b64_of_bits 0x3FF6A09E667F3BCD.   (* float64(math.Sqrt2) *)
Definition b64_twelve : b64 := b64_of_Z 12.

Definition sigma_U (s : ustat) : b64 :=
  let n1n2 := b64_of_Z (us_n1 s * us_n2 s) in
  let N := b64_of_Z (us_n1 s + us_n2 s) in
  let t := b64_of_Z (tie_correction (us_T s)) in
  b64_sqrt (b64_div
              (b64_mul n1n2 (b64_sub (b64_add N b64_one) (b64_div t (b64_mul N (b64_sub N b64_one)))))
              b64_twelve).

(** U1 as the float the code holds: R1 - float64(n1*(n1+1))/2 = twoU1/2, exact *)
Definition U1_b64 (s : ustat) : b64 := b64_of_ZE (us_twoU1 s) (-1).

Definition math_sign (x : b64) : b64 :=
  if b64_eq x b64_zero then b64_zero
  else if b64_lt x b64_zero then b64_neg b64_one
  else if b64_gt x b64_zero then b64_one
  else S754_nan.

(** z, and the argument handed to math.Erfc by StdNormal.CDF(z):
    -(z - 0) / (1 * Sqrt2) *)
Definition z_score (s : ustat) (a : alt) : b64 :=
  let mu := b64_div (b64_of_Z (us_n1 s * us_n2 s)) b64_two in
  let numer := b64_sub (U1_b64 s) mu in
  let numer' :=
    match a with
    | Differs => b64_sub numer (b64_mul (math_sign numer) b64_half)
    | Less => b64_add numer b64_half
    | Greater => b64_sub numer b64_half
    end in
  b64_div numer' (sigma_U s).
Definition erfc_arg (z : b64) : b64 :=
  b64_div (b64_neg (b64_sub z b64_zero)) (b64_mul b64_one b64_sqrt2).

Section Approx.
Variable erfc : b64 -> option b64.     (* math.Erfc: oracle, recorded per case *)

Definition std_cdf (z : b64) : option b64 :=
  option_map (fun e => b64_div e b64_two) (erfc (erfc_arg z)).

Definition approx_p (s : ustat) (a : alt) : option b64 :=
  match std_cdf (z_score s a) with
  | None => None
  | Some c =>
      Some match a with
           | Differs => b64_mul b64_two (b64_min c (b64_sub b64_one c))
           | Less => c
           | Greater => b64_sub b64_one c
           end
  end.

(** ** the whole function *)
Inductive uresult :=
| RErrSampleSize
| RErrSamplesEqual
| RExact (twoU1 : Z) (p : pexact)
| RApprox (twoU1 : Z) (p : b64)
| ROracleMiss.

Definition mwu (x1 x2 : list Z) (a : alt) : uresult :=
  match x1, x2 with
  | [], _ | _, [] => RErrSampleSize
  | _, _ =>
      let s := ustat_of x1 x2 in
      match us_T s with
      | [_] => RErrSamplesEqual                 (* len(T) == 1: all values are equal *)
      | _ =>
          if use_exact s then RExact (us_twoU1 s) (exact_p s a)
          else if b64_eq (sigma_U s) b64_zero then RErrSamplesEqual
          else match approx_p s a with
               | Some p => RApprox (us_twoU1 s) p
               | None => ROracleMiss
               end
      end
  end.

(** closed form of [mwu] on two constant samples of the same value with n1 and n2
    elements (Proofs/UTest.v, mwu_const_correct); the correspondence evaluator uses it
    for the large all-equal cases, which ship the sizes instead of the values *)
Definition mwu_const (n1 n2 : Z) : uresult :=
  if (n1 <=? 0) || (n2 <=? 0) then RErrSampleSize else RErrSamplesEqual.

(** the function before hooks/fix_c11_utest_samples_equal_large.diff: the single-run test
    only in the exact regime (for the _refuted theorems) *)
Definition mwu_old (x1 x2 : list Z) (a : alt) : uresult :=
  match x1, x2 with
  | [], _ | _, [] => RErrSampleSize
  | _, _ =>
      let s := ustat_of x1 x2 in
      if use_exact s then
        match us_T s with
        | [_] => RErrSamplesEqual
        | _ => RExact (us_twoU1 s) (exact_p s a)
        end
      else if b64_eq (sigma_U s) b64_zero then RErrSamplesEqual
      else match approx_p s a with
           | Some p => RApprox (us_twoU1 s) p
           | None => ROracleMiss
           end
  end.
End Approx.

(** ** pre-repair exact tails, as fractions (num, den) — only for the _refuted theorems *)
Definition exact_p_old_frac (s : ustat) (a : alt) : Z * Z :=
  let tot := choose (us_n1 s + us_n2 s) (us_n1 s) in
  let c twoU := (* CDF(twoU/2), tied branch, old base case; the wrappers' range checks *)
      if twoU <? 0 then 0
      else if 2 * (us_n1 s * us_n2 s) <=? twoU then tot
      else umemo_old (us_T s) (us_n1 s) twoU in
  match a with
  | Differs => if us_twoU1 s =? twoU2 s then (tot, tot)
               else (2 * c (Z.min (us_twoU1 s) (twoU2 s)), tot)
  | Less => (c (us_twoU1 s), tot)
  | Greater => (tot - c (us_twoU1 s - 2), tot)        (* 1 - CDF(U1 - 1) *)
  end.
