(** Model of benchproc/internal/parse/projection.go (ParseProjection,
    parseField) and of the semantic checks of
    benchproc.ProjectionParser.makeProjection. Same conventions as
    Model/FilterParse.v. *)
From Perf Require Import Base.Bytes Base.Rune Model.Unquote Model.Tok Model.FilterAst Model.FilterParse.

Definition ord_first : bytes := bs "first".
Definition ord_fixed : bytes := bs "fixed".
Definition ord_alpha : bytes := bs "alpha".
Definition ord_num : bytes := bs "num".

Definition zero_field : pfield := mkField [] [] [] 0 0.

Section Parse.
Variable is_space : N -> bool.
Variable re_ok : bytes -> bool.
Variable n0 : nat.

Notation next := (next is_space re_ok n0).
Notation off_of := (off_of n0).

(** the loop reading the words of  key@(w1 w2 ...)  *)
Fixpoint fixed_loop (f : nat) (q : bytes) (e : err) (fixed : list bytes) : option (list bytes * bytes * err) :=
  match f with
  | O => None
  | S f' =>
      let '(t, t5, q', e1) := next false q e in
      if is_word (t_kind t) then fixed_loop f' t5 e1 (fixed ++ [t_text t])
      else if kind_eqb_op (t_kind t) c_rpar then
        match fixed with
        | [] => Some (fixed, [], set_err e1 (off_of q'))        (* nothing to match *)
        | _ => Some (fixed, t5, e1)
        end
      else Some (fixed, [], set_err e1 (off_of q'))             (* missing ) *)
  end.

Definition parse_field (f : nat) (q : bytes) (e : err) : option (pfield * bytes * err) :=
  let '(key, t2, q', e1) := next false q e in
  if negb (is_word (t_kind key)) then Some (zero_field, [], set_err e1 (off_of q'))   (* expected key *)
  else
    let k := t_text key in
    let koff := t_off key in
    let '(sep, t3, t2', e2) := next false t2 e1 in
    if negb (kind_eqb_op (t_kind sep) c_at) then
      Some (mkField k ord_first [] koff (koff + length k), t2', e2)
    else
      let '(order, t4, t3', e3) := next false t3 e2 in
      let ooff := t_off order in
      if is_word (t_kind order) then Some (mkField k (t_text order) [] koff ooff, t4, e3)
      else if kind_eqb_op (t_kind order) c_lpar then
        match fixed_loop f t4 e3 [] with
        | None => None
        | Some (fixed, r, e4) => Some (mkField k ord_fixed fixed koff ooff, r, e4)
        end
      else Some (mkField k ord_first [] koff ooff, [], set_err e3 (off_of t3'))
           (* expected named sort order or parenthesized list *)
  .

Fixpoint proj_loop (f : nat) (q : bytes) (e : err) (fields : list pfield) : option (list pfield * bytes * err) :=
  match f with
  | O => None
  | S f' =>
      let '(t, toks2, q', e1) := next false q e in
      match t_kind t with
      | KEOF => Some (fields, q', e1)
      | _ =>
          let q1 := if kind_eqb_op (t_kind t) c_comma && negb (match fields with [] => true | _ => false end)
                    then toks2 else q' in
          match parse_field f' q1 e1 with
          | None => None
          | Some (fld, q2, e2) => proj_loop f' q2 e2 (fields ++ [fld])
          end
      end
  end.

Definition parse_projection_fuel (f : nat) (q : bytes) : outcome (list pfield) :=
  match proj_loop f q None [] with
  | None => OutOfFuel
  | Some (fields, q1, e1) =>
      match tok_end is_space re_ok n0 q1 e1 with
      | Some off => Err off
      | None => Ok fields
      end
  end.

End Parse.

Definition proj_fuel_for (q : bytes) : nat := length q + 2.

(** parse.ParseProjection *)
Definition parse_projection (is_space : N -> bool) (re_ok : bytes -> bool) (q : bytes) : outcome (list pfield) :=
  parse_projection_fuel is_space re_ok (length q) (proj_fuel_for q) q.

(** ** semantic checks of ProjectionParser.makeProjection, field by field *)
Definition known_order (o : bytes) : bool :=
  beq o ord_fixed || beq o ord_first || beq o ord_alpha || beq o ord_num.

Definition check_field (p : pfield) : option nat :=
  if negb (known_order (pf_order p)) then Some (pf_ooff p)                 (* unknown order *)
  else if beq (pf_order p) ord_fixed && match pf_fixed p with [] => true | _ => false end
  then Some (pf_ooff p)               (* key@fixed: the order name without a value list, "nothing to match" *)
  else if beq (pf_key p) key_config then
    if beq (pf_order p) ord_fixed then Some (pf_ooff p) else None          (* fixed order not allowed for .config *)
  else if beq (pf_key p) (bs ".fullname") then None
  else if beq (pf_key p) key_unit then Some (pf_koff p)                    (* .unit is only allowed in filters *)
  else match pf_key p with [] => Some (pf_koff p) | _ => None end.         (* key must not be empty *)

Fixpoint check_fields (l : list pfield) : option nat :=
  match l with
  | [] => None
  | p :: l' => match check_field p with Some o => Some o | None => check_fields l' end
  end.

(** ProjectionParser.Parse as far as accept/reject goes *)
Definition new_projection (is_space : N -> bool) (re_ok : bytes -> bool) (q : bytes) : outcome (list pfield) :=
  match parse_projection is_space re_ok q with
  | Ok l => match check_fields l with Some off => Err off | None => Ok l end
  | r => r
  end.
