(** benchtab.Table.ToCSV / ToText (cmd/benchstat/internal/benchtab/table.go):
    PLACEMENT of the pieces of a table in the CSV grid and in the text grid.
    Number formatting (benchunit scaling, %v floats, PctRangeString,
    FormatDelta, Comparison.String, the geomean ratio) comes in as strings
    recorded from the real Table (oracle); the model is about where they go.

    Part A: abstract table, CSV assembly (row buffer with clearTo/append, header
            rows, data rows, summary row, warnings stream with cell
            references), text assembly (texttab API calls, footnote numbering).
    Part B: the text-vs-CSV agreement predicate evaluated on OBSERVED renderings
            (independent of Part A: it reads only the two outputs). *)
From Coq Require Import QArith Qabs.
From Perf Require Import Base.Bytes Model.Runes Model.TextTab Model.KeyHeader.
Local Open Scope nat_scope.

(* ------------------------------------------------------------------ *)
(** * Part A: the model *)

Record rcmp := mkCmp { cm_delta : bytes; cm_pn : bytes; cm_warn : list bytes }.
Record rcell := mkRC {
  rc_csv : bytes;            (* fmt.Sprint(Summary.Center) *)
  rc_txt : bytes;            (* RowScaler(row).Format(Summary.Center) *)
  rc_range : bytes;          (* Summary.PctRangeString() *)
  rc_swarn : list bytes;     (* Sample.Warnings *)
  rc_mwarn : list bytes;     (* Summary.Warnings *)
  rc_cmp : option rcmp }.    (* Baseline != nil: FormatDelta, Comparison.String(), Comparison.Warnings *)
Record rsum := mkRS {
  rs_has : bool; rs_csv : bytes; rs_txt : bytes;    (* HasSummary, fmt.Sprint(Summary), benchunit.Scale(Summary) *)
  rs_hasratio : bool; rs_ratio : bytes;             (* HasRatio, Sprintf("%+.2f%%", (Ratio-1)*100) *)
  rs_warn : list bytes }.
Record rtable := mkRT {
  rt_unit : bytes; rt_sumlabel : bytes;
  rt_nf : nat;                                   (* number of flattened column fields *)
  rt_cols : list key;                            (* per column key: its values of those fields *)
  rt_rows : list (bytes * list (option rcell));  (* label, one optional cell per column *)
  rt_sums : list (option rsum) }.                (* t.Summary[col], per column *)

(** ** CSV *)
Definition csv_center : nat := 2.
Definition csv_start (exp : nat) : nat :=
  match exp with O => 1 | S e => 1 + csv_center + e * (csv_center + 2) end.

Definition clear_to (row : list bytes) (col : nat) : list bytes := row ++ repeat [] (col - length row).

(** spreadsheet column name of a 0-based column index: A..Z, AA, AB, ...
    (ToCSV's cell references after hooks/fix_c16_csv_cellref.diff) *)
Fixpoint sheet_go (fuel n : nat) (acc : bytes) : bytes :=
  match fuel with
  | O => acc
  | S f =>
      let c := match Byte.of_N (65 + N.of_nat (n mod 26)) with Some b => b | None => x41 end in
      if n <? 26 then c :: acc else sheet_go f (n / 26 - 1) (c :: acc)
  end.
Definition sheet_col (n : nat) : bytes := sheet_go 10 n [].
Definition col_name : nat -> bytes := sheet_col.

(** the column name as the code computed it BEFORE the repair (digits x mod 26,
    most significant first; "A" for 0): not the spreadsheet numbering from
    column 26 on (26 gave "BA"; a spreadsheet says "AA"). Kept for
    C16_csv_cellref_refuted. *)
Fixpoint col_digits (fuel x : nat) (acc : bytes) : bytes :=
  match fuel with
  | O => acc
  | S f => if x =? 0 then acc
           else col_digits f (x / 26)
                  (match Byte.of_N (65 + N.of_nat (x mod 26)) with Some b => b | None => x41 end :: acc)
  end.
Definition col_name_asis (x : nat) : bytes := match col_digits 10 x [] with [] => [x41] | s => s end.

(** one warning line: (column name, spreadsheet row, message) *)
Definition wline := (bytes * nat * bytes)%type.
Definition warn_at (row : list bytes) (srow : nat) (msgs : list bytes) : list wline :=
  map (fun m => (col_name (length row), srow, m)) msgs.

Definition csv_header_step (f : nat) (st : list bytes * nat) (k : key) : list bytes * nat :=
  (clear_to (fst st) (csv_start (snd st)) ++ [kget f k], S (snd st)).
Definition csv_header_row (cols : list key) (f : nat) : list bytes :=
  fst (fold_left (csv_header_step f) cols ([], 0)).

Definition csv_unit_step (unit : bytes) (row : list bytes) (exp : nat) : list bytes :=
  clear_to row (csv_start exp) ++ [unit; bs "CI"] ++ (if exp =? 0 then [] else [bs "vs base"; bs "P"]).
Definition csv_unit_row (unit : bytes) (ncols : nat) : list bytes :=
  fold_left (csv_unit_step unit) (seq 0 ncols) [].

Definition csv_data_step (srow : nat) (st : list bytes * list wline * nat) (oc : option rcell)
  : list bytes * list wline * nat :=
  let '(row, ws, exp) := st in
  match oc with
  | None => (row, ws, S exp)
  | Some c =>
      let row1 := clear_to row (csv_start exp) in
      let ws1 := ws ++ warn_at row1 srow (rc_swarn c) ++ warn_at row1 srow (rc_mwarn c) in
      let row2 := row1 ++ [rc_csv c; rc_range c] in
      match (if exp =? 0 then None else rc_cmp c) with
      | Some cm => (row2 ++ [cm_delta cm; cm_pn cm], ws1 ++ warn_at row2 srow (cm_warn cm), S exp)
      | None => (row2, ws1, S exp)
      end
  end.
Definition csv_data_row (srow : nat) (label : bytes) (cells : list (option rcell)) : list bytes * list wline :=
  let st := fold_left (csv_data_step srow) cells ([label], [], 0) in
  (fst (fst st), snd (fst st)).

Definition ratio_text (s : rsum) : bytes := if rs_hasratio s then rs_ratio s else bs "?".

Definition csv_sum_step (srow : nat) (st : list bytes * list wline * nat) (os : option rsum)
  : list bytes * list wline * nat :=
  let '(row, ws, exp) := st in
  match os with
  | None => (row, ws, S exp)
  | Some s =>
      let row1 := clear_to row (csv_start exp) in
      let ws1 := ws ++ warn_at row1 srow (rs_warn s) in
      let row2 := if rs_has s then row1 ++ [rs_csv s] else row1 in
      let row3 := if exp =? 0 then row2
                  else clear_to row2 (csv_start exp + csv_center) ++ [ratio_text s] in
      (row3, ws1, S exp)
  end.
Definition csv_summary_row (srow : nat) (label : bytes) (sums : list (option rsum)) : list bytes * list wline :=
  let st := fold_left (csv_sum_step srow) sums ([label], [], 0) in
  (fst (fst st), snd (fst st)).

(** all records and the warnings stream; [start] = startRow *)
Definition csv_model (t : rtable) (start : nat) : list (list bytes) * list wline :=
  let hdr := map (csv_header_row (rt_cols t)) (seq 0 (rt_nf t)) ++ [csv_unit_row (rt_unit t) (length (rt_cols t))] in
  let nh := length hdr in
  let data := map (fun '(i, (label, cells)) => csv_data_row (start + nh + i) label cells)
                  (combine (seq 0 (length (rt_rows t))) (rt_rows t)) in
  let sm := csv_summary_row (start + nh + length (rt_rows t)) (rt_sumlabel t) (rt_sums t) in
  (hdr ++ map fst data ++ [fst sm], flat_map snd data ++ snd sm).

(** Tables.ToCSV (builder.go): [row] starts at 1; before every table but the
    first a blank record (printTables' hdr("")), then one record per table-key
    header line (the strings printTables hands to hdr: input here), each
    advancing [row]; then the table rendered with startRow = [row], which
    advances [row] by the number of records the table wrote. *)
Definition csv_tables_step (st : nat * list (list bytes) * list wline * bool) (x : list bytes * rtable)
  : nat * list (list bytes) * list wline * bool :=
  let '(row, recs, ws, first) := st in
  let hdrs := (if first then [] else [[[]]]) ++ map (fun h => [h]) (fst x) in
  let row1 := row + length hdrs in
  let tw := csv_model (snd x) row1 in
  (row1 + length (fst tw), recs ++ hdrs ++ fst tw, ws ++ snd tw, false).
Definition csv_tables_model (tabs : list (list bytes * rtable)) : list (list bytes) * list wline :=
  let st := fold_left csv_tables_step tabs (1, [], [], true) in
  (snd (fst (fst st)), snd (fst st)).

(** ** text *)
Definition txt_center : nat := 3.
Definition txt_start (exp : nat) : nat :=
  match exp with O => 1 | S e => 1 + txt_center + e * (txt_center + 3) end.

(** superscript(i): decimal digits of i as ⁰¹²³⁴⁵⁶⁷⁸⁹ *)
Definition super_digit (d : nat) : bytes :=
  match d with
  | 0 => [xe2; x81; xb0] | 1 => [xc2; xb9] | 2 => [xc2; xb2] | 3 => [xc2; xb3]
  | 4 => [xe2; x81; xb4] | 5 => [xe2; x81; xb5] | 6 => [xe2; x81; xb6]
  | 7 => [xe2; x81; xb7] | 8 => [xe2; x81; xb8] | _ => [xe2; x81; xb9]
  end.
Fixpoint super_go (fuel i : nat) (acc : bytes) : bytes :=
  match fuel with
  | O => acc
  | S f => if i =? 0 then acc else super_go f (i / 10) (super_digit (i mod 10) ++ acc)
  end.
Definition superscript (i : nat) : bytes := if i =? 0 then super_digit 0 else super_go 20 i [].

Fixpoint index_of (m : bytes) (l : list bytes) : option nat :=
  match l with
  | [] => None
  | x :: r => if beq x m then Some 0 else option_map S (index_of m r)
  end.

Fixpoint join_sp (l : list bytes) : bytes :=
  match l with [] => [] | [x] => x | x :: r => x ++ sp :: join_sp r end.

(** warn(msgs...): numbers the messages by first occurrence, returns the
    footnote cell text and the grown list *)
Definition footnote (wl : list bytes) (msgs : list bytes) : list bytes * bytes :=
  let '(wl', notes) :=
    fold_left (fun '(wl, notes) m =>
      match index_of m wl with
      | Some i => (wl, notes ++ [superscript (S i)])
      | None => (wl ++ [m], notes ++ [superscript (S (length wl))])
      end) msgs (wl, []) in
  (wl', join_sp notes).

Definition bar3 : bytes := [sp; xe2; x94; x82; sp].   (* " │ " *)
Definition bar2 : bytes := [sp; xe2; x94; x82].       (* " │"  *)

Definition cell1 (v : bytes) (a : align) : list op := [OSpan 1 v None a].

(** one header line: the cells of one level of the key header, then the right border *)
Definition text_header_row (redge : nat) (nodes : list hnode) : list op :=
  ORow :: flat_map (fun n => [OCol (txt_start (h_start n));
                              OSpan (txt_start (h_start n + h_len n) - txt_start (h_start n))
                                    (h_value n) (Some bar3) ACenter]) nodes
  ++ [OCol redge; OSpan 1 [] (Some bar2) ALeft].
Definition text_header_ops (nf : nat) (cols : list key) (redge : nat) : list op :=
  flat_map (text_header_row redge) (key_header nf cols).

Definition text_unit_seg (unit : bytes) (exp : nat) : list op :=
  [OCol (txt_start exp); OSpan txt_center unit (Some bar3) ACenter]
  ++ (if exp =? 0 then [] else [OSpan 3 (bs "vs base") (Some [sp; sp]) ALeft])
  ++ map (fun j => OShrink j true) (seq (S (txt_start exp)) (txt_start (S exp) - S (txt_start exp))).
Definition text_unit_ops (unit : bytes) (ncols redge : nat) : list op :=
  ORow :: flat_map (text_unit_seg unit) (seq 0 ncols)
  ++ [OCol redge; OSpan 1 [] (Some bar2) ALeft].

Definition text_data_step (st : list bytes * list op * nat) (oc : option rcell) : list bytes * list op * nat :=
  let '(wl, ops, exp) := st in
  match oc with
  | None => (wl, ops, S exp)
  | Some c =>
      let f1 := footnote wl (rc_swarn c ++ rc_mwarn c) in
      let ops1 := ops ++ [OCol (txt_start exp); OSpan 1 (rc_txt c) None ARight;
                          OSpan 1 (rc_range c) (Some (bs " ± ")) ARight; OSpan 1 (snd f1) None ALeft] in
      match (if exp =? 0 then None else rc_cmp c) with
      | Some cm =>
          let f2 := footnote (fst f1) (cm_warn cm) in
          (fst f2, ops1 ++ [OSpan 1 (cm_delta cm) None ARight;
                            OSpan 1 (bs "(" ++ cm_pn cm ++ bs ")") None ALeft; OSpan 1 (snd f2) None ALeft], S exp)
      | None => (fst f1, ops1, S exp)
      end
  end.
Definition text_data_ops (wl : list bytes) (label : bytes) (cells : list (option rcell)) : list bytes * list op :=
  let st := fold_left text_data_step cells (wl, [ORow; OSpan 1 label None ALeft], 0) in
  (fst (fst st), snd (fst st)).

Definition text_sum_step (st : list bytes * list op * nat) (os : option rsum) : list bytes * list op * nat :=
  let '(wl, ops, exp) := st in
  match os with
  | None => (wl, ops, S exp)
  | Some s =>
      let ops1 := if rs_has s then ops ++ [OCol (txt_start exp); OSpan 1 (rs_txt s) None ARight] else ops in
      let ops2 := if exp =? 0 then ops1
                  else ops1 ++ [OCol (txt_start exp + txt_center);
                                OSpan 1 (ratio_text s) None (if rs_hasratio s then ARight else ALeft)] in
      let f := footnote wl (rs_warn s) in
      (fst f, ops2 ++ [OCol (txt_start (S exp) - 1); OSpan 1 (snd f) None ALeft], S exp)
  end.
Definition text_summary_ops (wl : list bytes) (label : bytes) (sums : list (option rsum)) : list bytes * list op :=
  let st := fold_left text_sum_step sums (wl, [ORow; OSpan 1 label None ALeft], 0) in
  (fst (fst st), snd (fst st)).

(** the texttab calls of ToText and the final warning list *)
Definition text_model (t : rtable) : list op * list bytes :=
  let n := length (rt_cols t) in
  let redge := txt_start (S n) in
  let hdr := text_header_ops (rt_nf t) (rt_cols t) redge ++ text_unit_ops (rt_unit t) n redge in
  let '(wl, dops) :=
    fold_left (fun '(wl, ops) '(label, cells) =>
       let '(wl', o) := text_data_ops wl label cells in (wl', ops ++ o)) (rt_rows t) ([], []) in
  let '(wl2, sops) := if 1 <? length (rt_rows t) then text_summary_ops wl (rt_sumlabel t) (rt_sums t) else (wl, []) in
  (hdr ++ dops ++ sops, wl2).

Definition text_footer (wl : list bytes) : list bytes :=
  map (fun '(i, m) => superscript (S i) ++ sp :: m) (combine (seq 0 (length wl)) wl).

(** which column each Cell/Span call of a call sequence lands in (the cursor
    arithmetic of Row / Col / Span, cf. TextTab.apply_op) *)
Fixpoint place (cur : nat) (ops : list op) : list (nat * op) :=
  match ops with
  | [] => []
  | ORow :: r => place 0 r
  | OCol c :: r => place c r
  | (OSpan n _ _ _ as o) :: r => (cur, o) :: place (cur + n) r
  | OShrink _ _ :: r => place cur r
  end.
Fixpoint cur_after (cur : nat) (ops : list op) : nat :=
  match ops with
  | [] => cur
  | ORow :: r => cur_after 0 r
  | OCol c :: r => cur_after c r
  | OSpan n _ _ _ :: r => cur_after (cur + n) r
  | OShrink _ _ :: r => cur_after cur r
  end.

(* ------------------------------------------------------------------ *)
(** * Part B: agreement of an observed text rendering with an observed CSV rendering *)

Definition rune := bytes.
Definition rsp : rune := [sp].
Definition rbar : rune := [xe2; x94; x82].
Definition r_eqb : list rune -> list rune -> bool := list_eqb beq.

Fixpoint positions (p : rune -> bool) (i : nat) (l : list rune) : list nat :=
  match l with
  | [] => []
  | r :: l' => if p r then i :: positions p (S i) l' else positions p (S i) l'
  end.
Definition bars_of (l : list rune) : list nat := positions (fun r => beq r rbar) 0 l.

Definition sub (l : list rune) (a b : nat) : list rune := firstn (b - a) (skipn a l).   (* [a, b) *)

(** split on U+0020 *)
Fixpoint tokens_go (cur : list rune) (l : list rune) : list (list rune) :=
  match l with
  | [] => match cur with [] => [] | _ => [rev cur] end
  | r :: l' => if beq r rsp
               then match cur with [] => tokens_go [] l' | _ => rev cur :: tokens_go [] l' end
               else tokens_go (r :: cur) l'
  end.
Definition tokens := tokens_go [].
Definition trim (l : list rune) : list rune :=
  let drop := fix drop (l : list rune) := match l with r :: l' => if beq r rsp then drop l' else l | [] => [] end in
  rev (drop (rev (drop l))).

Definition flat (l : list rune) : bytes := concat l.

Definition is_super (r : rune) : bool := existsb (fun d => beq r (super_digit d)) (seq 0 10).
Definition super_val (r : rune) : nat :=
  match find (fun d => beq r (super_digit d)) (seq 0 10) with Some d => d | None => 0 end.
Definition is_note (tok : list rune) : bool := negb (knil tok) && forallb is_super tok.
Definition note_val (tok : list rune) : nat := fold_left (fun acc r => acc * 10 + super_val r) tok 0.

(** footer line "ⁿ message" *)
Definition parse_footer (l : list rune) : option (nat * bytes) :=
  let fix split (l : list rune) (acc : list rune) :=
    match l with
    | r :: l' => if is_super r then split l' (r :: acc) else (rev acc, l)
    | [] => (rev acc, [])
    end in
  match split l [] with
  | ((_ :: _) as n, s :: msg) => if beq s rsp then Some (note_val n, flat msg) else None
  | _ => None
  end.

(** CSV warning line "REF123: message" *)
Definition is_upper (b : byte) : bool := inr 65 90 b.
Fixpoint span_while (p : byte -> bool) (l : bytes) : bytes * bytes :=
  match l with
  | b :: l' => if p b then let '(a, r) := span_while p l' in (b :: a, r) else ([], l)
  | [] => ([], [])
  end.
Definition dec_val (ds : bytes) : nat := fold_left (fun acc b => acc * 10 + (N.to_nat (bN b) - 48)) ds 0.
Definition parse_wline (l : bytes) : option (bytes * nat * bytes) :=
  let '(ref, r1) := span_while is_upper l in
  let '(ds, r2) := span_while is_digit r1 in
  match ref, ds, r2 with
  | _ :: _, _ :: _, c :: s :: msg => if Byte.eqb c x3a && Byte.eqb s sp then Some (ref, dec_val ds, msg) else None
  | _, _, _ => None
  end.

(** numbers: text "[-]ddd[.ddd]<prefix>", CSV "[-]ddd[.ddd][e[+-]dd]" *)
Definition dec_Z (ds : bytes) : Z := fold_left (fun acc b => (acc * 10 + (Z.of_N (bN b) - 48))%Z) ds 0%Z.
Definition pow10 (k : Z) : Q := Qpower (10 # 1) k.
Definition parse_mant (l : bytes) : option (bool * Z * nat * bytes) :=   (* negative, digits as integer, #fraction digits, rest *)
  let '(neg, l1) := match l with b :: r => if Byte.eqb b x2d then (true, r) else if Byte.eqb b x2b then (false, r) else (false, l) | [] => (false, []) end in
  let '(ip, l2) := span_while is_digit l1 in
  match ip with
  | [] => None
  | _ =>
      match l2 with
      | b :: r => if Byte.eqb b x2e
                  then let '(fp, l3) := span_while is_digit r in
                       Some (neg, dec_Z (ip ++ fp), length fp, l3)
                  else Some (neg, dec_Z ip, 0, l2)
      | [] => Some (neg, dec_Z ip, 0, [])
      end
  end.
Definition prefix_factor (p : bytes) : option Q :=
  if beq p [] then Some 1%Q
  else if beq p (bs "k") then Some (pow10 3) else if beq p (bs "M") then Some (pow10 6)
  else if beq p (bs "G") then Some (pow10 9) else if beq p (bs "T") then Some (pow10 12)
  else if beq p (bs "m") then Some (pow10 (-3)) else if beq p [xc2; xb5] then Some (pow10 (-6))
  else if beq p (bs "n") then Some (pow10 (-9))
  else if beq p (bs "Ki") then Some (Qpower (2 # 1) 10) else if beq p (bs "Mi") then Some (Qpower (2 # 1) 20)
  else if beq p (bs "Gi") then Some (Qpower (2 # 1) 30) else if beq p (bs "Ti") then Some (Qpower (2 # 1) 40)
  else None.
Definition signed (neg : bool) (q : Q) : Q := if neg then Qopp q else q.

(** (value, half a unit of the last printed digit) of a text number *)
Definition text_number (l : bytes) : option (Q * Q) :=
  match parse_mant l with
  | Some (neg, m, nfrac, rest) =>
      match prefix_factor rest with
      | Some f => let u := Qmult (pow10 (- Z.of_nat nfrac)) f in
                  Some (signed neg (Qmult (inject_Z m) u), Qmult (1 # 2) u)
      | None => None
      end
  | None => None
  end.
Definition csv_number (l : bytes) : option Q :=
  match parse_mant l with
  | Some (neg, m, nfrac, rest) =>
      let base := Qmult (inject_Z m) (pow10 (- Z.of_nat nfrac)) in
      match rest with
      | [] => Some (signed neg base)
      | e :: r =>
          if Byte.eqb e x65 then
            match parse_mant r with
            | Some (eneg, ev, 0, []) => Some (signed neg (Qmult base (pow10 (if eneg then - ev else ev))))
            | _ => None
            end
          else None
      end
  | None => None
  end.
(** |text - v| <= half a unit of the last printed digit + 2^-51 |v|.
    The relative slack covers three binary64 roundings of at most 2^-53 each:
    the CSV's shortest decimal of the value, the division val/Factor that the
    text prints, and Factor itself (math.Pow(10, k) / siFactors) — observed:
    8.656500000000001e-08 prints as 86.56n. *)
Definition number_agrees (text csv : bytes) : bool :=
  match text_number text, csv_number csv with
  | Some (t, h), Some v =>
      Qle_bool (Qabs (Qminus t v)) (Qplus h (Qmult (Qabs v) (Qpower (2 # 1) (-51))))
  | _, _ => beq text csv        (* NaN / Inf: printed alike *)
  end.

(** deltas and p-values: "describe the same deltas, p-values" - the two renderings
    need not spell them alike. Two decimal numbers (optionally signed, with the
    given suffix) agree when they differ by at most half a unit of the last
    digit of the less precise one; anything else ("~", "?", "n=6+6") must be
    the same text. *)
Definition suffixed_number (suffix l : bytes) : option (Q * Q) :=
  match parse_mant l with
  | Some (neg, m, nfrac, rest) =>
      if beq rest suffix
      then let u := pow10 (- Z.of_nat nfrac) in Some (signed neg (Qmult (inject_Z m) u), Qmult (1 # 2) u)
      else None
  | None => None
  end.
Definition approx_agrees (suffix a b : bytes) : bool :=
  match suffixed_number suffix a, suffixed_number suffix b with
  | Some (x, hx), Some (y, hy) => Qle_bool (Qabs (Qminus x y)) (if Qle_bool hx hy then hy else hx)
  | _, _ => beq a b
  end.
Definition delta_agrees (text csv : bytes) : bool := approx_agrees (bs "%") text csv.
(** one "key=value" token of "p=0.002 n=6": the same key; values as numbers or as text *)
Definition kv_agrees (a b : bytes) : bool :=
  let '(ka, va) := span_while (fun c => negb (Byte.eqb c x3d)) a in
  let '(kb, vb) := span_while (fun c => negb (Byte.eqb c x3d)) b in
  match va, vb with
  | _ :: va', _ :: vb' => beq ka kb && approx_agrees [] va' vb'
  | _, _ => beq a b
  end.
Definition split_sp (b : bytes) : list bytes :=
  let fix go (cur b : bytes) : list bytes :=
    match b with
    | [] => match cur with [] => [] | _ => [rev cur] end
    | x :: r => if Byte.eqb x sp then match cur with [] => go [] r | _ => rev cur :: go [] r end
                else go (x :: cur) r
    end in go [] b.
Definition unparen (b : bytes) : bytes :=
  match b with
  | x :: r => if Byte.eqb x x28 then match rev r with y :: r' => if Byte.eqb y x29 then rev r' else b | [] => b end else b
  | [] => []
  end.
(** the text shows "(p=... n=...)", the CSV "p=... n=..." *)
Definition pn_agrees (text csv : bytes) : bool :=
  let tt := split_sp (unparen text) in
  let ct := split_sp csv in
  (length tt =? length ct) && forallb (fun '(a, b) => kv_agrees a b) (combine tt ct).

(** ** one table *)
Definition field (rec : list bytes) (i : nat) : bytes := nth i rec [].

Definition set_eqb (a b : list bytes) : bool :=
  forallb (fun x => existsb (beq x) b) a && forallb (fun x => existsb (beq x) a) b.

Fixpoint omap' {A B} (f : A -> option B) (l : list A) : option (list B) :=
  match l with
  | [] => Some []
  | x :: r => match f x, omap' f r with Some y, Some ys => Some (y :: ys) | _, _ => None end
  end.

(** messages the footnote tokens refer to *)
Definition notes_msgs (foot : list (nat * bytes)) (toks : list (list rune)) : option (list bytes) :=
  omap' (fun tk => match find (fun e => fst e =? note_val tk) foot with Some e => Some (snd e) | None => None end) toks.

Definition warn_msgs (ws : list (bytes * nat * bytes)) (ref : bytes) (srow : nat) : list bytes :=
  map (fun w => snd w) (filter (fun w => beq (fst (fst w)) ref && (snd (fst w) =? srow)) ws).

Definition notes_agree foot ws (notes : list (list rune)) (ref : bytes) (srow : nat) : bool :=
  match notes_msgs foot notes with
  | Some ms => set_eqb ms (warn_msgs ws ref srow)
  | None => false
  end.

Definition body (toks : list (list rune)) := filter (fun t => negb (is_note t)) toks.
Definition notes (toks : list (list rune)) := filter is_note toks.
Definition pm : bytes := [xc2; xb1].
Definition trimb (b : bytes) : bytes := flat (trim (runes b)).

Fixpoint find_sub (l pat : list rune) (from n : nat) : option nat :=   (* first p in [from, from+n) *)
  match n with
  | O => None
  | S n' => if r_eqb (firstn (length pat) (skipn from l)) pat then Some from else find_sub l pat (S from) n'
  end.

Fixpoint count_prefix' {A} (p : A -> bool) (l : list A) : nat :=
  match l with x :: r => if p x then S (count_prefix' p r) else 0 | [] => 0 end.

(** group [e] of the table: (lo, split, hi) rune offsets taken from the unit header line *)
Definition group_bounds (ul : list rune) (B : list nat) (e : nat) : nat * nat * nat :=
  let lo := S (nth e B 0) in
  let hi := nth (S e) B 0 in
  match find_sub ul (runes (bs "vs base")) lo (hi - lo) with
  | Some p => (lo, p - 1, hi)
  | None => (lo, hi, hi)
  end.

(** the same split read without knowing how the delta columns are headed: the
    unit is one token (a benchfmt unit has no blank in it); what follows it
    inside the group is the header of the delta columns *)
Definition group_bounds_tok (ul : list rune) (B : list nat) (e : nat) : nat * nat * nat :=
  let lo := S (nth e B 0) in
  let hi := nth (S e) B 0 in
  let seg := sub ul lo hi in
  let issp := fun r : rune => beq r rsp in
  let a := count_prefix' issp seg in
  let b := count_prefix' (fun r => negb (issp r)) (skipn a seg) in
  let c := count_prefix' issp (skipn (a + b) seg) in
  if a + b + c <? length seg then (lo, lo + a + b + c - 1, hi) else (lo, hi, hi).

(** header cell of line [hl] that covers the group whose bar is at [b] *)
Definition header_value (hl : list rune) (b : nat) : bytes :=
  let Bf := bars_of hl in
  let x := fold_left (fun acc y => if y <=? b then y else acc) Bf 0 in
  let y := match find (fun y => b <? y) Bf with Some y => y | None => length hl end in
  flat (trim (sub hl (S x) y)).

Definition data_cell_ok foot ws (l : list rune) (rec : list bytes) (srow e : nat) (g : nat * nat * nat) : bool :=
  let '(lo, mid, hi) := g in
  let cs := csv_start e in
  let ct := tokens (sub l lo mid) in
  let dt := tokens (sub l mid hi) in
  (match body ct with
   | [] => knil (field rec cs) && knil (field rec (cs + 1))
   | [num; p; rng] => beq (flat p) pm && beq (flat rng) (field rec (cs + 1))
                      && negb (knil (field rec cs)) && number_agrees (flat num) (field rec cs)
   | _ => false
   end)
  && notes_agree foot ws (notes ct) (sheet_col cs) srow
  && (if e =? 0 then knil dt
      else (match body dt with
            | [] => knil (field rec (cs + 2)) && knil (field rec (cs + 3))
            | d :: rest => delta_agrees (flat d) (field rec (cs + 2))
                           && pn_agrees (join_sp (map flat rest)) (field rec (cs + 3))
            end)
           && notes_agree foot ws (notes dt) (sheet_col (cs + 2)) srow).

Definition summary_cell_ok foot ws (l : list rune) (rec : list bytes) (srow e : nat) (g : nat * nat * nat) : bool :=
  let '(lo, mid, hi) := g in
  let cs := csv_start e in
  let ct := tokens (sub l lo mid) in
  let dt := tokens (sub l mid hi) in
  (match body ct with
   | [] => knil (field rec cs)
   | [num] => negb (knil (field rec cs)) && number_agrees (flat num) (field rec cs)
   | _ => false
   end)
  && knil (field rec (cs + 1))
  && (if e =? 0 then knil (body dt)
      else (match body dt with
            | [] => knil (field rec (cs + 2))
            | [d] => delta_agrees (flat d) (field rec (cs + 2))
            | _ => false
            end) && knil (field rec (cs + 3)))
  && notes_agree foot ws (notes ct ++ notes dt) (sheet_col cs) srow.

Fixpoint split_nl (cur : bytes) (b : bytes) : list bytes :=
  match b with
  | [] => match cur with [] => [] | _ => [rev cur] end
  | x :: r => if Byte.eqb x x0a then rev cur :: split_nl [] r else split_nl (x :: cur) r
  end.

Fixpoint count_prefix {A} (p : A -> bool) (l : list A) : nat :=
  match l with x :: r => if p x then S (count_prefix p r) else 0 | [] => 0 end.
Definition ends_bar (l : list rune) : bool := match rev l with r :: _ => beq r rbar | [] => false end.

(** the text ToText wrote and the records + warnings ToCSV wrote describe the
    same table: every CSV record has its text line and vice versa - column
    headers, unit row (unit; the delta columns headed alike in both; what the
    CSV calls its range and p columns is not the text's business), row labels,
    per (row, logical column) centre (to the printed precision), range, delta,
    p/n and warning set, the summary row incl. where the geomean delta sits;
    every CSV warning refers to a cell of the table.
    [relax] = the known finding C16_csv_summary_one_row and nothing else: a
    table with fewer than two rows has a summary record (label, geomean, its
    warnings) in the CSV that the text does not show. *)
Definition text_csv_ok_gen (relax : bool) (start : nat) (text : bytes) (recs : list (list bytes)) (warns : bytes) : bool :=
  let rl := map runes (split_nl [] text) in
  let nhdr := count_prefix ends_bar rl in
  let nf := nhdr - 1 in
  let ul := nth nf rl [] in
  let B := bars_of ul in
  let n := length B - 1 in
  let nrows := length recs - nhdr - 1 in
  let has_sum := if relax then 1 <? nrows else true in
  let ntab := nhdr + nrows + (if has_sum then 1 else 0) in
  (1 <=? nhdr) && (1 <=? n) && (nhdr + 1 <=? length recs) && (ntab <=? length rl) &&
  match omap' parse_footer (skipn ntab rl), omap' parse_wline (split_nl [] warns) with
  | Some foot, Some ws =>
      let G := map (group_bounds_tok ul B) (seq 0 n) in
      let ges := combine (seq 0 n) G in
      (* column key headers *)
      forallb (fun f => forallb (fun e =>
          beq (header_value (nth f rl []) (nth e B 0)) (trimb (field (nth f recs []) (csv_start e)))) (seq 0 n)) (seq 0 nf)
      (* unit row *)
      && forallb (fun '(e, (lo, mid, hi)) =>
           let rec := nth nf recs [] in
           beq (flat (trim (sub ul lo mid))) (trimb (field rec (csv_start e)))
           && (if e =? 0 then (mid =? hi)
               else beq (flat (trim (sub ul mid hi))) (field rec (csv_start e + 2)))) ges
      (* data rows *)
      && forallb (fun i =>
           let l := nth (nhdr + i) rl [] in
           let rec := nth (nhdr + i) recs [] in
           beq (flat (trim (sub l 0 (nth 0 B 0)))) (trimb (field rec 0))
           && (length rec <=? csv_start n)
           && forallb (fun '(e, g) => data_cell_ok foot ws l rec (start + nhdr + i) e g) ges) (seq 0 nrows)
      (* summary row *)
      && (if has_sum then
            let l := nth (nhdr + nrows) rl [] in
            let rec := nth (nhdr + nrows) recs [] in
            beq (flat (trim (sub l 0 (nth 0 B 0)))) (trimb (field rec 0))
            && (length rec <=? csv_start n)
            && forallb (fun '(e, g) => summary_cell_ok foot ws l rec (start + nhdr + nrows) e g) ges
          else true)
      (* every CSV warning is attached to a cell of the table *)
      && forallb (fun w =>
           let '(ref, row, _) := w in
           (start + nhdr <=? row) && (row <=? start + nhdr + nrows)
           && existsb (fun e => beq ref (sheet_col (csv_start e))
                                || ((0 <? e) && (row <? start + nhdr + nrows) && beq ref (sheet_col (csv_start e + 2))))
                      (seq 0 n)) ws
  | _, _ => false
  end.

Definition text_csv_ok := text_csv_ok_gen false.
