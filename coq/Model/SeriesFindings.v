(** SeriesFindings: WHERE the four recorded order / map-order dependences of
    benchseries.Builder (known_findings.json: C18_series_hash_two_stamps,
    C18_series_point_two_hash_pairs, C18_series_trial_two_baseline_hashes,
    C18_series_same_instant_two_experiments) can show in the series of a result
    set, decided from the INPUT alone, per (unit, table):

      A  a numerator hash h whose results carry two series stamps denoting
         different instants (b.hashToOrder[h] is the stamp written last, for
         every table): in every table that has a numerator with hash h, the
         series points that are stamps of h - their presence on the Series
         axis, their hash pair and their cells; if a stamp of h does not
         normalise, the error outcome too;
      B  a series point of a table reached with two (numerator hash, baseline
         hash) pairs (HashPairs keeps the pair visited first, in map order):
         the hash pair of that point (only its denominator hash if the
         numerator hash is the same); and the cell (benchmark, point) if two
         numerator hashes of ONE trial lie at the point (REPLACE: equal dates,
         the test visited first stays; COMBINE: the baseline of the trial is
         appended once per test hash);
      C  a trial whose denominators carry two hashes (baselineHashString is that
         of the denominator added first): the DENOMINATOR hash of the hash pair
         of the series points of the numerators of that trial;
      D  two experiment keys of one (benchmark, series point) denoting the same
         instant (strict [<] on the normalised dates: the trial visited first
         stays): that cell, under DUPE_REPLACE only.

    [mask_series] removes exactly these places from a series; the relaxed judge
    [known_ok] of Corr/RunC18.v compares masked series where the judge proper
    compares whole series.  Everything else - the other tables and units, the
    benchmarks axis, the other series points, hash pairs and cells of the same
    table - stays judged.  For a well-formed set ([wf_a_norm], [wf_b], [wf_c],
    [wf_d]) every list below is empty.  No proofs in this file. *)
From Perf Require Import Base.Bytes Base.Usort Model.Dates Model.Series Model.SeriesSpec.
Local Open Scope Z_scope.

Definition onorm_eqb (a b : option bytes) : bool :=
  match a, b with Some x, Some y => beq x y | _, _ => false end.
Definition memb (x : bytes) (l : list bytes) : bool := existsb (beq x) l.
Definition mem2 (x : bytes * bytes) (l : list (bytes * bytes)) : bool :=
  existsb (fun y => beq (fst x) (fst y) && beq (snd x) (snd y)) l.
Definition in_table (u t : bytes) (r : res) : bool := beq (r_unit r) u && beq (r_table r) t.
Definition no_norm (o : option bytes) : bool := match o with None => true | Some _ => false end.

(** ** A: numerator hashes with two series instants (over the whole set) *)
Definition bad_hashes (rs : list res) : list bytes :=
  map r_nh (filter (fun r => is_num r && existsb (fun r' =>
      is_num r' && beq (r_nh r) (r_nh r')
      && negb (beq (r_ser r) (r_ser r') || onorm_eqb (nser r) (nser r'))) rs) rs).

Definition exA_cols (rs : list res) (bad : list bytes) (u t : bytes) : list bytes :=
  let here := map r_nh (filter (fun r => is_num r && in_table u t r && memb (r_nh r) bad) rs) in
  omap_filter nser (filter (fun r => is_num r && memb (r_nh r) here) rs).

(** the error outcome depends on the add order: a stamp of such a hash does not normalise *)
Definition exA_err (rs : list res) (bad : list bytes) : bool :=
  existsb (fun r => is_num r && memb (r_nh r) bad && no_norm (nser r)) rs.

(** the error outcome that does NOT depend on the order: an experiment stamp, or
    the (single) series stamp of a numerator hash, does not normalise *)
Definition spec_err_strict (rs : list res) (bad : list bytes) : bool :=
  existsb (fun r => no_norm (ndate r)) rs
  || existsb (fun r => is_num r && negb (memb (r_nh r) bad) && no_norm (nser r)) rs.

(** ** C: trials of the table [R] whose denominators carry two hashes *)
Definition bad_trials (R : list res) : list key :=
  map tkey (filter (fun r => is_den r && existsb (fun r' =>
      is_den r' && keqb (tkey r) (tkey r') && negb (beq (r_dh r) (r_dh r'))) R) R).
Definition exC_hp (R : list res) : list bytes :=
  let bt := bad_trials R in
  omap_filter nser (filter (fun r => is_num r && existsb (keqb (tkey r)) bt) R).

(** ** B: series points of the table reached with two hash pairs: with two
    numerator hashes (the whole pair is excused), or with one numerator hash and
    two baseline hashes (the denominator hash of the pair is excused) *)
Definition exB_hp (R : list res) : list bytes :=
  omap_filter nser (filter (fun r => is_num r && existsb (fun r' =>
      is_num r' && onorm_eqb (nser r) (nser r') && negb (beq (r_nh r) (r_nh r'))) R) R).
Definition exB_hpd (rs R : list res) : list bytes :=
  omap_filter nser (filter (fun r => is_num r && existsb (fun r' =>
      is_num r' && onorm_eqb (nser r) (nser r')
      && negb (beq (bh_of rs (tkey r)) (bh_of rs (tkey r')))) R) R).

(** cells at which one trial has two numerator hashes *)
Definition exB_cells (R : list res) : list (bytes * bytes) :=
  flat_map (fun r =>
    match nser r with
    | Some s =>
        if is_num r && existsb (fun r' =>
             is_num r' && beq (r_bench r) (r_bench r') && onorm_eqb (nser r') (Some s)
             && beq (r_exp r) (r_exp r') && negb (beq (r_nh r) (r_nh r'))) R
        then [(r_bench r, s)] else []
    | None => []
    end) R.

(** ** D: cells measured by two experiment keys denoting one instant *)
Definition exD_cells (R : list res) : list (bytes * bytes) :=
  flat_map (fun r =>
    match nser r with
    | Some s =>
        if is_num r && existsb (fun r' =>
             is_num r' && beq (r_bench r) (r_bench r') && onorm_eqb (nser r') (Some s)
             && negb (beq (r_exp r) (r_exp r')) && onorm_eqb (ndate r) (ndate r')) R
        then [(r_bench r, s)] else []
    | None => []
    end) R.

(** ** the excused places of one table *)
Record excuse := mkEx {
  ex_col  : list bytes;              (* series points excused entirely (A) *)
  ex_hp   : list bytes;              (* series points whose hash pair is excused (B: two numerator hashes) *)
  ex_hpd  : list bytes;              (* series points whose DENOMINATOR hash is excused (B: two baseline hashes; C) *)
  ex_cell : list (bytes * bytes)     (* (benchmark, series point) cells excused (B, D) *)
}.
Definition ex_none : excuse := mkEx [] [] [] [].
Definition ex_empty (e : excuse) : bool :=
  match ex_col e, ex_hp e, ex_hpd e, ex_cell e with [], [], [], [] => true | _, _, _, _ => false end.

Definition excuse_of (combine : bool) (rs : list res) (bad : list bytes) (ut : bytes * bytes) : excuse :=
  let R := filter (in_table (fst ut) (snd ut)) rs in
  mkEx (exA_cols rs bad (fst ut) (snd ut))
       (exB_hp R)
       (exB_hpd rs R ++ exC_hp R)
       (exB_cells R ++ (if combine then [] else exD_cells R)).

Definition tables_of (rs : list res) : list (bytes * bytes) :=
  usort cmp2 (map (fun r => (r_unit r, r_table r)) rs).

(** one excuse per table, in the order of the series *)
Definition excuses (relax combine : bool) (rs : list res) : list excuse :=
  let bad := bad_hashes rs in
  map (fun ut => if relax then excuse_of combine rs bad ut else ex_none) (tables_of rs).

Definition col_ok (e : excuse) (s : bytes) : bool := negb (memb s (ex_col e)).
Definition hp_ok (e : excuse) (s : bytes) : bool := negb (memb s (ex_col e) || memb s (ex_hp e)).
Definition cell_ok (e : excuse) (b s : bytes) : bool := negb (memb s (ex_col e) || mem2 (b, s) (ex_cell e)).

Definition mask_hp (e : excuse) (l : list (bytes * (bytes * bytes))) : list (bytes * (bytes * bytes)) :=
  map (fun x => if memb (fst x) (ex_hpd e) then (fst x, (fst (snd x), [])) else x)
      (filter (fun x => hp_ok e (fst x)) l).

Definition mask_series (e : excuse) (s : series) : series :=
  mkSeries (se_unit s) (se_benchmarks s)
           (filter (col_ok e) (se_series s))
           (mask_hp e (se_hp s))
           (filter (fun c => cell_ok e (oc_bench c) (oc_ser c)) (se_cells s)).

(** the tables of the specification without the error test *)
Definition spec_tables (combine : bool) (rs : list res) : list series :=
  map (spec_table combine rs) (tables_of rs).
