(** Histories of MannWhitneyUTest calls over memory owned by the caller, and
    batches of concurrent calls (internal/stats/utest.go).

    The function begins with
        x1 = append([]float64(nil), x1...)
        x2 = append([]float64(nil), x2...)
        sort.Float64s(x1); sort.Float64s(x2)
    i.e. it sorts private copies: the caller's backing array is only read. A
    call whose arguments are windows [mem[lo1:hi1]], [mem[lo2:hi2]] of one
    array (adjacent, overlapping, nested, identical - the windows are plain
    two-index slices, so the first one's capacity may reach over the second)
    therefore returns the result of [mwu] on the values of the two windows and
    leaves [mem] as it was. The package keeps no state between calls
    (MannWhitneyExactLimit / MannWhitneyTiesExactLimit are only read), so a call
    is a function of its arguments; concurrent calls are tasks in the sense of
    Model/Sched.v (each reads frozen inputs and writes its own result slot). *)
From Coq Require Import ZArith List Bool Lia.
From Perf Require Import Base.B64 Model.UStat Model.UTest Model.Sched.
Import ListNotations.
Local Open Scope Z_scope.

Record hop := mkHop { h_lo1 : Z; h_hi1 : Z; h_lo2 : Z; h_hi2 : Z; h_alt : alt }.

(** mem[lo:hi] *)
Definition window (mem : list Z) (lo hi : Z) : list Z :=
  firstn (Z.to_nat (hi - lo)) (skipn (Z.to_nat lo) mem).
Definition valid_window (mem : list Z) (lo hi : Z) : bool :=
  (0 <=? lo) && (lo <=? hi) && (hi <=? Z.of_nat (length mem)).

Definition arg1 (mem : list Z) (o : hop) : list Z := window mem (h_lo1 o) (h_hi1 o).
Definition arg2 (mem : list Z) (o : hop) : list Z := window mem (h_lo2 o) (h_hi2 o).

(** the caller's array after the call: the function wrote to its copies only *)
Definition mem_after (mem : list Z) (o : hop) : list Z := mem.

Section Hist.
Variable erfc : b64 -> option b64.

Definition call_result (mem : list Z) (o : hop) : uresult :=
  mwu erfc (arg1 mem o) (arg2 mem o) (h_alt o).

(** per call: its result and the caller's array after it *)
Fixpoint run_hist (mem : list Z) (ops : list hop) : list (uresult * list Z) :=
  match ops with
  | [] => []
  | o :: r => let mem' := mem_after mem o in (call_result mem o, mem') :: run_hist mem' r
  end.

(** a batch of concurrent calls: job i of the frozen job list, into slot i *)
Definition job := (list Z * list Z * alt)%type.
Definition job_task (jobs : list job) (i : nat) : option uresult :=
  match nth_error jobs i with
  | Some (x1, x2, a) => Some (mwu erfc x1 x2 a)
  | None => None
  end.
Definition run_batch (jobs : list job) (order : list nat) : nat -> option (option uresult) :=
  run (option uresult) (list job) job_task jobs order.
End Hist.
