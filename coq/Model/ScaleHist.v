(** Model of package benchunit as a STATE MACHINE over histories of calls
    (C10, case kind 5).  The package's state:
      - siFactors, iecFactors, sigfigs/sigfigsBase (scale.go): package-level
        variables written by their initialisers and by nothing else - so they
        are the constants of Model/Scale.v in every state;
      - tidyCache (tidy.go): a sync.Map unit -> (tidied unit, factor), read and
        written by tidyUnit after its fast paths, by nothing else.
    ClassOf (parse.go) and CommonScale / Scaler.Format (scale.go) read no
    mutable state.  [step] follows the code call by call with the cache explicit;
    Proofs/ScaleHist.v shows that the cache never changes an answer.
    No proofs in this file. *)
From Perf Require Import Base.Bytes Base.B64 Model.Scale.
From Perf Require Base.Unicode Model.Units.

Definition isp := Unicode.go_is_space.

(** tidyCache: the entries stored so far, newest first *)
Definition cache := list (bytes * (bytes * b64)).

Definition cache_get (c : cache) (u : bytes) : option (bytes * b64) :=
  match find (fun e => beq (fst e) u) c with
  | Some e => Some (snd e)
  | None => None
  end.

(** tidyUnit: literal fast paths, substring guard, "Check the cache", "Do the
    hard work and cache it" *)
Definition tidy_unit_st (c : cache) (u : bytes) : cache * (bytes * b64) :=
  if beq u (bs "ns/op") then (c, (bs "sec/op", Units.f_1em9))
  else if beq u (bs "MB/s") then (c, (bs "B/s", Units.f_1e6))
  else if beq u (bs "B/op") || beq u (bs "allocs/op") then (c, (u, b64_one))
  else if negb (contains u Units.tok_ns || contains u Units.tok_MB) then (c, (u, b64_one))
  else match cache_get c u with
       | Some e => (c, e)
       | None => let e := Units.tidy_uncached isp u in ((u, e) :: c, e)
       end.

Inductive call :=
  | CClassOf (u : bytes)
  | CTidy (v : b64) (u : bytes)
  | CCommon (vals : list b64) (cls : class).   (* CommonScale; Format and Scale are functions of its result *)

Inductive answer :=
  | AClass (c : class)
  | ATidy (v : b64) (u : bytes)
  | ACommon (s : option scaler).               (* None = panic "bad Class" *)

Definition step (c : cache) (k : call) : cache * answer :=
  match k with
  | CClassOf u => (c, AClass (class_of u))
  | CTidy v u =>
      let '(c', (nu, f)) := tidy_unit_st c u in (c', ATidy (b64_mul v f) nu)
  | CCommon vals cls => (c, ACommon (common_scale vals cls))
  end.

(** the answers of a history of calls, from state [c] on *)
Fixpoint run (c : cache) (h : list call) : list answer :=
  match h with
  | [] => []
  | k :: h' => let '(c', a) := step c k in a :: run c' h'
  end.

(** what a call answers when it is the only one the process ever makes *)
Definition alone (k : call) : answer :=
  match k with
  | CClassOf u => AClass (class_of u)
  | CTidy v u => let '(tv, tu) := Units.tidy isp v u in ATidy tv tu
  | CCommon vals cls => ACommon (common_scale vals cls)
  end.
