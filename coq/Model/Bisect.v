(** Bisect: [bisectBool] (internal/stats/alg.go) and the generic numerical
    [InvCDF] (internal/stats/dist.go) over binary64, with explicit fuel for
    the three loops. The distribution's CDF is an oracle argument. *)
From Coq Require Import ZArith List Bool.
From Perf Require Import Base.B64 Model.Beta.
Local Open Scope Z_scope.

Definition k_xtol : b64 := b64_of_bits 4367597403136100796. (* 1e-16 *)
Definition k_inf : b64 := S754_infinity false.
Definition k_ninf : b64 := S754_infinity true.

Inductive bres : Type :=
| BRes (x1 x2 : b64)   (* returned pair *)
| BPanic                (* f(low) == f(high): "root of f is not bracketed" *)
| BMiss                 (* oracle table lacks an argument *)
| BFuel.                (* loop did not finish within the fuel *)

Section BisectBool.
  Variable f : b64 -> res bool.

  Fixpoint bisect_loop (fuel : nat) (low high : b64) (flow : bool) (xtol : b64) : bres :=
    match fuel with
    | O => BFuel
    | S fuel' =>
        if b64_le (b64_sub high low) xtol then BRes low high
        else
          let mid := b64_div (b64_add high low) k_two in
          if b64_eq mid high || b64_eq mid low then BRes low high
          else match f mid with
               | Val fmid =>
                   if Bool.eqb fmid flow then bisect_loop fuel' mid high flow xtol
                   else bisect_loop fuel' low mid flow xtol
               | Miss => BMiss
               | Panicked => BPanic
               end
    end.

  Definition bisect_bool (fuel : nat) (low high xtol : b64) : bres :=
    match f low, f high with
    | Val flow, Val fhigh =>
        if Bool.eqb flow fhigh then BPanic else bisect_loop fuel low high flow xtol
    | Miss, _ | _, Miss => BMiss
    | _, _ => BPanic
    end.
End BisectBool.

Definition bisect_fuel : nat := 4096.
Definition expand_fuel : nat := 1200.

Section InvCDF.
  Variable cdf : b64 -> res b64.
  Variable bounds : b64 * b64.

  (** for hiY < y && hiX != inf { loX, loY, hiX = hiX, hiY, hiX+xdelta; hiY = cdf(hiX); xdelta *= 2 } *)
  Fixpoint expand_up (fuel : nat) (y loX loY hiX hiY xdelta : b64) : res (b64 * b64 * b64 * b64) :=
    match fuel with
    | O => Miss
    | S fuel' =>
        if b64_lt hiY y && negb (b64_eq hiX k_inf) then
          let hiX' := b64_add hiX xdelta in
          res_bind (cdf hiX') (fun hiY' =>
            expand_up fuel' y hiX hiY hiX' hiY' (b64_mul xdelta k_two))
        else Val (loX, loY, hiX, hiY)
    end.

  (** for y <= loY && loX != -inf { hiX, hiY, loX = loX, loY, loX-xdelta; loY = cdf(loX); xdelta *= 2 } *)
  Fixpoint expand_down (fuel : nat) (y loX loY hiX hiY xdelta : b64) : res (b64 * b64 * b64 * b64) :=
    match fuel with
    | O => Miss
    | S fuel' =>
        if b64_le y loY && negb (b64_eq loX k_ninf) then
          let loX' := b64_sub loX xdelta in
          res_bind (cdf loX') (fun loY' =>
            expand_down fuel' y loX' loY' loX loY (b64_mul xdelta k_two))
        else Val (loX, loY, hiX, hiY)
    end.

  Inductive ires : Type := IVal (x : b64) | IPanic | IMiss | IFuel.

  Definition ires_of {A} (r : res A) (k : A -> ires) : ires :=
    match r with Val a => k a | Miss => IMiss | Panicked => IPanic end.

  Definition inv_cdf (y : b64) : ires :=
    if b64_lt y b64_zero || b64_gt y b64_one then IVal k_nan
    else if b64_eq y b64_zero then
      ires_of (cdf (fst bounds)) (fun c => if b64_eq c b64_zero then IVal (fst bounds) else IVal k_ninf)
    else if b64_eq y b64_one then
      ires_of (cdf (snd bounds)) (fun c => if b64_eq c b64_one then IVal (snd bounds) else IVal k_inf)
    else
      ires_of (cdf b64_zero) (fun y1 =>
        let z := b64_zero in
        let br := if b64_lt y1 y then expand_up expand_fuel y z z z y1 b64_one
                  else expand_down expand_fuel y z y1 z z b64_one in
        ires_of br (fun '(loX, loY, hiX, hiY) =>
          if b64_eq loX k_ninf then IVal loX
          else if b64_eq hiX k_inf then IVal hiX
          else
            match bisect_bool (fun x => res_map (fun c => b64_lt c y) (cdf x))
                              bisect_fuel loX hiX k_xtol with
            | BRes _ x2 => IVal x2
            | BPanic => IPanic
            | BMiss => IMiss
            | BFuel => IFuel
            end)).
End InvCDF.
