(** Model of the legacy storage/benchfmt package (Reader with permanent
    labels, name-label derivation, label-diffing Printer), of record insertion
    with coalescing (storage/db Upload.InsertRecord / insertLabel / flush), of
    the indexing of an uploaded file (storage/app indexFile) and of the stored
    state queries and upload listings run against. No proofs here. *)
From Perf Require Import Base.Bytes Model.Words Model.Query.

(** ** label maps: association lists sorted by key, keys distinct
    (Go map[string]string; Keys() returns them sorted) *)

Fixpoint lset (k v : bytes) (l : labels) : labels :=
  match l with
  | [] => [(k, v)]
  | (k', v') :: l' =>
      match bcmp k k' with
      | Lt => (k, v) :: l
      | Eq => (k, v) :: l'
      | Gt => (k', v') :: lset k v l'
      end
  end.

Fixpoint ldel (k : bytes) (l : labels) : labels :=
  match l with
  | [] => []
  | (k', v') :: l' => if beq k' k then l' else (k', v') :: ldel k l'
  end.

Definition lhas (k : bytes) (l : labels) : bool :=
  match lookup k l with Some _ => true | None => false end.

(** Go's [m[k]] on a string map: missing = "" *)
Definition lget (k : bytes) (l : labels) : bytes :=
  match lookup k l with Some v => v | None => [] end.

Definition lab_eqb (a b : bytes * bytes) : bool := beq (fst a) (fst b) && beq (snd a) (snd b).
Definition labels_eqb (a b : labels) : bool := list_eqb lab_eqb a b.

(** Labels.Equal as REPAIRED by hooks/fix_c19_labels_equal.diff: same size, and
    every key of [l] is present in [b] with the same value. (As written in
    golang/perf before the repair a missing key read as "", so that
    {a:""} "equalled" {b:"y"}: C19_labels_equal_unrepaired_refuted.) *)
Definition labels_equal_go (l b : labels) : bool :=
  Nat.eqb (length l) (length b)
  && forallb (fun kv => match lookup (fst kv) b with Some v => beq (snd kv) v | None => false end) l.

(** the comparison as it stood before the repair, kept for the refutation *)
Definition labels_equal_go_unrepaired (l b : labels) : bool :=
  Nat.eqb (length l) (length b) && forallb (fun kv => beq (snd kv) (lget (fst kv) b)) l.

(** ** lines: bufio.Scanner with ScanLines (split at LF, drop one trailing CR;
    a final unterminated non-empty line counts). The 64 KiB token limit is not
    modelled. *)
Definition c_lf : byte := x0a.
Definition c_cr : byte := x0d.

Definition drop_cr (rl : bytes) : bytes :=   (* [rl] is the line reversed *)
  match rl with c :: r => if Byte.eqb c c_cr then rev r else rev rl | [] => [] end.

Fixpoint lines_aux (s : bytes) (cur : bytes) : list bytes :=
  match s with
  | [] => match cur with [] => [] | _ => [drop_cr cur] end
  | c :: s' => if Byte.eqb c c_lf then drop_cr cur :: lines_aux s' [] else lines_aux s' (c :: cur)
  end.
Definition scan_lines (s : bytes) : list bytes := lines_aux s [].

(** ** line classification *)

Definition is_kv_stop (r : N) : bool := is_space_r r || is_upper_r r || (r =? 58)%N.

Fixpoint strip_blanks (v : bytes) : bytes :=
  match v with c :: v' => if is_blank c then strip_blanks v' else v | [] => [] end.

(** parseKeyValueLine: [Some (key, value)] when [ok] *)
Definition parse_kv_line (line : bytes) : option (bytes * bytes) :=
  match line with
  | [] => None
  | b0 :: rest =>
      let '(r0, k0) := decode_rune b0 rest in
      if negb (is_lower_r r0) || is_space_r r0 || is_upper_r r0 then None
      else
        match index_rune is_kv_stop (skipn k0 line) with
        | Some (i, r) =>
            if (r =? 58)%N then
              let key := firstn (k0 + i) line in
              let val := skipn (S (k0 + i)) line in
              match val with
              | [] => Some (key, [])
              | c :: _ => if is_blank c then Some (key, strip_blanks val) else None
              end
            else None
        | None => None
        end
  end.

Definition s_benchmark : bytes := bs "Benchmark".

(** parseBenchmarkLine: the name with "Benchmark" stripped *)
Definition parse_benchmark_line (line : bytes) : option bytes :=
  match index_rune is_space_r line with
  | Some (i, _) =>
      let name := firstn i line in
      if has_prefix name s_benchmark then Some (skipn 9 name) else None
  | None => None
  end.

(** ** name labels *)

Definition c_dash : byte := x2d.
Definition c_plus : byte := x2b.
Definition c_slash : byte := x2f.
Definition c_eq : byte := x3d.

Fixpoint digits_val (ds : bytes) (acc : N) : option N :=
  match ds with
  | [] => Some acc
  | c :: ds' => if is_digit c then digits_val ds' (acc * 10 + (bN c - 48))%N else None
  end.

(** strconv.Atoi succeeds: optional sign, at least one digit, digits only,
    value in the int64 range *)
Definition atoi_ok (s : bytes) : bool :=
  let '(neg, ds) :=
    match s with
    | c :: r => if Byte.eqb c c_plus then (false, r) else if Byte.eqb c c_dash then (true, r) else (false, s)
    | [] => (false, [])
    end in
  match ds with
  | [] => false
  | _ => match digits_val ds 0 with
         | Some n => if neg then (n <=? 9223372036854775808)%N else (n <=? 9223372036854775807)%N
         | None => false
         end
  end.

(** split at every occurrence of byte [c] (strings.Split with a 1-byte separator) *)
Fixpoint split_on (c : byte) (s : bytes) : bytes * list bytes :=
  match s with
  | [] => ([], [])
  | x :: s' =>
      let '(h, t) := split_on c s' in
      if Byte.eqb x c then ([], h :: t) else (x :: h, t)
  end.

(** last index of byte [c] *)
Fixpoint last_index (c : byte) (s : bytes) : option nat :=
  match s with
  | [] => None
  | x :: s' =>
      match last_index c s' with
      | Some i => Some (S i)
      | None => if Byte.eqb x c then Some 0 else None
      end
  end.

(** decimal rendering of a small natural number (fmt %d) *)
Fixpoint dec_aux (fuel : nat) (n : N) (acc : bytes) : bytes :=
  match fuel with
  | O => acc
  | S f =>
      let d := match Byte.of_N (48 + n mod 10) with Some b => b | None => x30 end in
      if (n <? 10)%N then d :: acc else dec_aux f (n / 10) (d :: acc)
  end.
Definition dec (n : N) : bytes := dec_aux 40 n [].

Fixpoint sub_labels (i : N) (subs : list bytes) (l : labels) : labels :=
  match subs with
  | [] => l
  | sub :: subs' =>
      let l' :=
        match index_byte sub c_eq with
        | Some e => lset (firstn e sub) (skipn (S e) sub) l
        | None => lset (bs "sub" ++ dec i) sub l
        end in
      sub_labels (i + 1) subs' l'
  end.

(** parseNameLabels *)
Definition name_labels (name : bytes) : labels :=
  let '(name1, l0) :=
    match last_index c_dash name with
    | Some d =>
        let tail := skipn (S d) name in
        if atoi_ok tail then (firstn d name, lset (bs "gomaxprocs") tail []) else (name, [])
    | None => (name, [])
    end in
  let '(p0, subs) := split_on c_slash name1 in
  sub_labels 1 subs (lset (bs "name") p0 l0).

(** ** Reader *)

Record result := mkResult {
  r_labels : labels; r_namelabels : labels; r_line : N; r_content : bytes }.

(** [perm]: permanent labels ([None] = Go nil: none decided yet);
    [have]: the [havePerm] flag of the current Next() call;
    [seen]: a non-empty benchmark name has been parsed before. newResult caches
    the name labels of the last name and starts with lastName = "" and nil
    labels, so an empty name met before any other gets no name labels at all. *)
Definition is_nilb (b : bytes) : bool := match b with [] => true | _ => false end.

Fixpoint read_loop (ls : list bytes) (lab : labels) (perm : option labels) (have seen : bool)
         (n : N) : list result :=
  match ls with
  | [] => []
  | line :: ls' =>
      let n := (n + 1)%N in
      match parse_kv_line line with
      | Some (k, v) =>
          if match perm with Some p => lhas k p | None => false end
          then read_loop ls' lab perm have seen n
          else read_loop ls' (if beq v [] then ldel k lab else lset k v lab) perm have seen n
      | None =>
          let perm' := if have then perm
                       else Some (match line with [] => lab | _ => [] end) in
          match parse_benchmark_line line with
          | Some name =>
              let nl := if is_nilb name && negb seen then [] else name_labels name in
              mkResult lab nl n line :: read_loop ls' lab perm' true (seen || negb (is_nilb name)) n
          | None => read_loop ls' lab perm' have seen n
          end
      end
  end.

(** NewReader(text) then Next() to the end *)
Definition read_plain (text : bytes) : list result := read_loop (scan_lines text) [] None false false 0.

(** NewReader(text); AddLabels(meta); Next() to the end *)
Fixpoint lset_all (kvs : labels) (l : labels) : labels :=
  match kvs with [] => l | (k, v) :: r => lset_all r (lset k v l) end.
Definition read_with (meta : labels) (text : bytes) : list result :=
  let m := lset_all meta [] in
  read_loop (scan_lines text) m (Some m) true false 0.

(** ** Printer *)

Definition c_col : byte := x3a.

Definition print_one (prev : labels) (r : result) : bytes :=
  let removed := filter (fun kv => beq (lget (fst kv) (r_labels r)) []) prev in
  let changed := filter (fun kv => negb (beq (snd kv) []) && negb (beq (lget (fst kv) prev) (snd kv)))
                        (r_labels r) in
  concat (map (fun kv => fst kv ++ [c_col; c_lf]) removed)
  ++ concat (map (fun kv => fst kv ++ [c_col; w_space] ++ snd kv ++ [c_lf]) changed)
  ++ r_content r ++ [c_lf].

Fixpoint print_all (prev : labels) (rs : list result) : bytes :=
  match rs with
  | [] => []
  | r :: rs' => print_one prev r ++ print_all (r_labels r) rs'
  end.

(** ** records: coalescing and the 990-argument flush *)

Record rec := mkRec {
  rc_labels : labels;        (* file and server labels as indexed *)
  rc_namelabels : labels;    (* name labels as indexed (those of the first result) *)
  rc_content : bytes }.      (* Content blob: printed first result + appended lines *)

Definition same_labels (a b : result) : bool :=
  labels_equal_go (r_labels a) (r_labels b) && labels_equal_go (r_namelabels a) (r_namelabels b).

Record ins := mkIns { i_recs : list rec (* reversed *); i_last : option result; i_pend : N }.

Definition ins0 : ins := mkIns [] None 0.

(** the label loop of InsertRecord: each insertLabel may flush first, which
    forgets lastResult *)
Fixpoint ins_labels (k : nat) (last : option result) (pend : N) : option result * N :=
  match k with
  | O => (last, pend)
  | S k' =>
      if (990 <=? pend)%N then ins_labels k' None 4 else ins_labels k' last (pend + 4)
  end.

Definition insert_record (st : ins) (r : result) : ins :=
  match i_last st, i_recs st with
  | Some lr, top :: others =>
      if same_labels lr r
      then mkIns (mkRec (rc_labels top) (rc_namelabels top) (rc_content top ++ r_content r ++ [c_lf]) :: others)
                 (i_last st) (i_pend st)
      else
        let '(last, pend) := ins_labels (length (r_labels r) + length (r_namelabels r)) (Some r) (i_pend st) in
        mkIns (mkRec (r_labels r) (r_namelabels r) (print_one [] r) :: i_recs st) last pend
  | _, _ =>
      let '(last, pend) := ins_labels (length (r_labels r) + length (r_namelabels r)) (Some r) (i_pend st) in
      mkIns (mkRec (r_labels r) (r_namelabels r) (print_one [] r) :: i_recs st) last pend
  end.

(** ** one upload *)

Record ufile := mkUfile { f_name : bytes; f_body : bytes }.
Record upload_in := mkUploadIn {
  u_id : bytes; u_time : bytes; u_user : bytes; u_files : list ufile }.

(** the part of the form file name after the last '/' or '\\' *)
Fixpoint base_name_aux (s cur : bytes) : bytes :=
  match s with
  | [] => rev cur
  | c :: s' => if Byte.eqb c c_slash || Byte.eqb c w_bslash then base_name_aux s' [] else base_name_aux s' (c :: cur)
  end.
Definition base_name (s : bytes) : bytes := base_name_aux s [].

Definition file_meta (u : upload_in) (i : N) (f : ufile) : labels :=
  let m := [(bs "upload", u_id u); (bs "upload-part", u_id u ++ [c_slash] ++ dec i); (bs "upload-time", u_time u)] in
  let m := match base_name (f_name f) with [] => m | n => m ++ [(bs "upload-file", n)] end in
  match u_user u with [] => m | usr => m ++ [(bs "by", usr)] end.

(** a label key occurring both as a file/server label and as a name label of
    the same result: the RecordLabels primary key rejects the insert *)
Definition collides (r : result) : bool :=
  existsb (fun kv => lhas (fst kv) (r_namelabels r)) (r_labels r).

Inductive upfail := FNoFiles | FNoBenchLines | FLabelCollision.

Fixpoint index_files (u : upload_in) (i : N) (fs : list ufile) (st : ins) : ins + upfail :=
  match fs with
  | [] => inl st
  | f :: fs' =>
      let rs := read_with (file_meta u i f) (f_body f) in
      match rs with
      | [] => inr FNoBenchLines
      | _ => index_files u (i + 1) fs' (fold_left insert_record rs st)
      end
  end.

(** processUpload: the records of a successful upload, or why it fails.
    (A collision is only detected by the database at commit, after all files
    have been read; a file without benchmark lines fails first.) *)
Definition process_upload (u : upload_in) : list rec + upfail :=
  match u_files u with
  | [] => inr FNoFiles
  | fs =>
      match index_files u 0 fs ins0 with
      | inr e => inr e
      | inl st =>
          let recs := rev (i_recs st) in
          if existsb (fun rc => existsb (fun kv => lhas (fst kv) (rc_namelabels rc)) (rc_labels rc)) recs
          then inr FLabelCollision else inl recs
      end
  end.

(** ** the stored state and what queries / listings return *)

Record stored := mkStored { s_id : bytes; s_recs : list rec }.
Definition db := list stored.    (* successful uploads in creation order *)

Definition qrec_of (id : bytes) (rc : rec) : qrec :=
  mkQrec id (rc_labels rc ++ rc_namelabels rc).

(** results of reading a record's Content back (db.Query.Next) *)
Definition rec_results (rc : rec) : list result := read_plain (rc_content rc).

Definition db_records (d : db) : list (bytes * rec) :=
  flat_map (fun s => map (fun rc => (s_id s, rc)) (s_recs s)) d.

Definition run_query (d : db) (ps : list part) : list result :=
  flat_map (fun ir => if query_selects ps (qrec_of (fst ir) (snd ir)) then rec_results (snd ir) else [])
           (db_records d).

(** DB.Query(q): error kind, or the results (as a multiset; the order is SQLite's) *)
Definition db_query (d : db) (q : bytes) : list result + qerr :=
  match parse_query q with
  | QErr e => inr e
  | QEof => inl []
  | QOk ps => inl (run_query d ps)
  end.

(** DB.ListUploads(q, nil, limit): (id, count) newest first; limit 0 or
    negative = unlimited (SQLite LIMIT -1) *)
Definition take_limit {A} (limit : Z) (l : list A) : list A :=
  if (limit <=? 0)%Z then l else firstn (Z.to_nat limit) l.

Definition list_uploads_parts (d : db) (ps : list part) (limit : Z) : list (bytes * N) :=
  let counts := map (fun s => (s_id s,
                   N.of_nat (length (filter (fun rc => query_selects ps (qrec_of (s_id s) rc)) (s_recs s)))))
                    (rev d) in
  take_limit limit (filter (fun ic => negb (snd ic =? 0)%N) counts).

Definition list_uploads (d : db) (q : bytes) (limit : Z) : list (bytes * N) + qerr :=
  match parse_query q with
  | QErr e => inr e
  | QEof => inl []
  | QOk ps => inl (list_uploads_parts d ps limit)
  end.

(** the whole history: successful uploads are appended, failed ones leave no trace *)
Definition apply_upload (d : db) (u : upload_in) : db * option upfail :=
  match process_upload u with
  | inl recs => (d ++ [mkStored (u_id u) recs], None)
  | inr e => (d, Some e)
  end.
