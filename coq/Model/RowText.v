(** The centres a benchtab text table prints, read from the OBSERVED text alone
    (same segmentation as Render.text_csv_ok: header lines end in "│", the unit
    line's bars delimit the column groups, "vs base" splits a group into its
    centre part and its delta part): per data row, per column group, the first
    token of the centre part ("<number><prefix>" before "±"), [None] for a
    group the row has no cell in.  Used by the row-scale cases of C10 / C16. *)
From Perf Require Import Base.Bytes Model.Runes Model.TextTab Model.KeyHeader Model.Render.
Local Open Scope nat_scope.

Definition group_centre (ul : list rune) (B : list nat) (l : list rune) (e : nat) : option (option bytes) :=
  let '(lo, mid, hi) := group_bounds ul B e in
  match body (tokens (sub l lo mid)) with
  | [] => Some None
  | [num; p; rng] => if beq (flat p) pm then Some (Some (flat num)) else None
  | _ => None
  end.

(** [nrows] data rows follow the header lines *)
Definition row_centres (text : bytes) (nrows : nat) : option (list (list (option bytes))) :=
  let rl := map runes (split_nl [] text) in
  let nhdr := count_prefix ends_bar rl in
  let ul := nth (nhdr - 1) rl [] in
  let B := bars_of ul in
  let n := length B - 1 in
  if (1 <=? nhdr) && (1 <=? n) && (nhdr + nrows <=? length rl)
  then omap' (fun i => omap' (group_centre ul B (nth (nhdr + i) rl [])) (seq 0 n)) (seq 0 nrows)
  else None.
