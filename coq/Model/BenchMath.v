(** BenchMath: model of golang.org/x/perf/benchmath (sample.go, anone.go,
    aexact.go, anormal.go) as the code exists:

      NewSample                         [new_sample]            (sort)
      AssumeNothing.Summary             [summary_nothing]       median (R8 at 1/2, StatsF),
                                                                go-moremath QuantileCI/SampleCI,
                                                                medianSamples warning
      AssumeNothing.Compare             [compare_nothing]       U-test outcome, alpha of s1,
                                                                uTestMinP small-sample warning
      AssumeExact.Summary / Compare     [summary_exact] [compare_exact]
      AssumeNormal.Summary / Compare    [summary_normal] [compare_normal]
      Comparison.FormatDelta / String   [format_delta] [comparison_string]
      Summary.PctRangeString            [pct_range_string]

    Library behaviour that is not computed here is an argument (oracle):
    mathx.Choose(n,k) for n > 20 (exp of lgamma differences), the normal-
    approximation branch of QuantileCI (n > 30), the t quantile of MeanCI, and
    the p-values of the two tests. No proofs in this file. *)
From Perf Require Import Base.Bytes Base.B64 Base.FmtPct Model.StatsF Model.MoreMathU.
Local Open Scope Z_scope.

Record thresholds := mkThr { compare_alpha : b64 }.
Record sample := mkSample { s_values : list b64; s_thr : thresholds }.

(** NewSample: sort.Float64s(values) *)
Definition new_sample (vs : list b64) (t : thresholds) : sample := mkSample (sort_f vs) t.

(** warnings by kind (the texts carry [op n] and the printed level) *)
Inductive warn :=
| WNeedCI (ge : bool) (n : Z)      (* need >= n / > n samples for confidence interval at level c *)
| WNeedAlpha (ge : bool) (n : Z)   (* need >= n / > n samples to detect a difference at alpha level a *)
| WRange                           (* exact distribution expected, but values range from lo to hi *)
| WErrSampleSize | WErrSamplesEqual | WErrZeroVariance.

Record summary := mkSummary { sm_center : b64; sm_lo : b64; sm_hi : b64; sm_conf : b64; sm_warn : list warn }.
Record comparison := mkCmp { c_p : b64; c_n1 : Z; c_n2 : Z; c_alpha : b64; c_warn : list warn }.

Definition f_inf (neg : bool) : b64 := S754_infinity neg.
Definition f_hundred : b64 := b64_of_Z 100.

(** ** go-moremath stats.QuantileCI(n, 0.5, confidence) *)
Record qci := mkQci { q_lo : Z; q_hi : Z; q_conf : b64 }.

(** the accumulation walk outward from the mode, over any number type:
    [l, r) is the summed band, lp/rp the neighbouring probabilities *)
Section Walk.
  Context {T : Type}.
  Variables (tadd : T -> T -> T) (tlt tle : T -> T -> bool) (tzero : T).
  Variable pmf : Z -> option T.
  Variable conf : T.

  Fixpoint walk (fuel : nat) (l r : Z) (lp rp accum : T) : option (Z * Z * T) :=
    match fuel with
    | O => Some (l, r, accum)
    | S f =>
        if tlt accum conf && (tlt tzero lp || tlt tzero rp) then
          if tle rp lp then   (* lp >= rp: left-bias *)
            match pmf (l - 2) with
            | Some lp' => walk f (l - 1) r lp' rp (tadd accum lp)
            | None => None
            end
          else
            match pmf (r + 1) with
            | Some rp' => walk f l (r + 1) lp rp' (tadd accum rp)
            | None => None
            end
        else Some (l, r, accum)
    end.

  (** start at the (lower) mode x = ceil((n+1)/2) - 1 = n / 2 *)
  Definition walk_from_mode (n : Z) : option (Z * Z * T) :=
    let x := n / 2 in
    match pmf x, pmf (x - 1), pmf (x + 1) with
    | Some a, Some lp, Some rp => walk (S (Z.to_nat n)) x (x + 1) lp rp a
    | _, _, _ => None
    end.
End Walk.

Section QuantileCI.
  Variable choose_o : Z -> Z -> option b64.   (* mathx.Choose(n, k), 20 < n, 0 < k < n *)
  Variable approx_o : Z -> option qci.        (* the normal-approximation branch, n > 30 *)

  (** mathx.Choose *)
  Definition choose_f (n k : Z) : option b64 :=
    if (k =? 0) || (k =? n) then Some b64_one
    else if (k <? 0) || (n <? k) then Some f_zero
    else if n <=? 20 then Some (b64_of_Z (binom n k))
    else choose_o n k.

  (** BinomialDist{n, 0.5}.PMF(k) = Choose(n,k) * Pow(.5, k) * Pow(.5, n-k) *)
  Definition pmf_half (n k : Z) : option b64 :=
    if (k <? 0) || (n <? k) then Some f_zero
    else match choose_f n k with
         | Some c => Some (b64_mul (b64_mul c (b64_of_ZE 1 (- k))) (b64_of_ZE 1 (- (n - k))))
         | None => None
         end.

  Definition quantile_ci_approx_threshold : Z := 30.

  Definition quantile_ci (n : Z) (conf : b64) : option qci :=
    if b64_ge conf b64_one then Some (mkQci 0 (n + 1) b64_one)
    else if n <=? quantile_ci_approx_threshold then
      match walk_from_mode b64_add b64_lt b64_le f_zero (pmf_half n) conf n with
      | Some (l, r, accum) => Some (mkQci (Z.max 0 l) (Z.min (n + 1) r) accum)
      | None => None
      end
    else approx_o n.

  (** QuantileCIResult.SampleCI on a sorted sample *)
  Definition sample_ci (ci : qci) (xs : list b64) : b64 * b64 * b64 :=
    let q := quantile_f true xs f_half in
    let lo := if q_lo ci <? 1 then f_inf true else nth_f xs (q_lo ci - 1) in
    let hi := if zlen xs <=? q_hi ci - 1 then f_inf false else nth_f xs (q_hi ci - 1) in
    (q, lo, hi).

  (** medianSamples: least n in 2..50 whose interval is finite, else "> 50" *)
  Fixpoint median_samples_go (fuel : nat) (n : Z) (conf : b64) : option (bool * Z) :=
    match fuel with
    | O => Some (false, 50)
    | S f =>
        match quantile_ci n conf with
        | None => None
        | Some ci =>
            if (0 <? q_lo ci) && (q_hi ci <=? n) then Some (true, n)
            else median_samples_go f (n + 1) conf
        end
    end.
  Definition median_samples (conf : b64) : option (bool * Z) := median_samples_go 49 2 conf.

  (** AssumeNothing.Summary; None = an oracle value is missing *)
  Definition summary_nothing (s : sample) (conf : b64) : option summary :=
    let xs := s_values s in
    match quantile_ci (zlen xs) conf with
    | None => None
    | Some ci =>
        let '(med, lo, hi) := sample_ci ci xs in
        if b64_is_inf lo || b64_is_inf hi then
          match median_samples conf with
          | Some (ge, n) => Some (mkSummary med lo hi (q_conf ci) [WNeedCI ge n])
          | None => None
          end
        else Some (mkSummary med lo hi (q_conf ci) [])
    end.
End QuantileCI.

(** ** AssumeExact *)
Fixpoint mode_scan (vs : list b64) (val : b64) (count : Z) (modeVal : b64) (modeCount : Z) : b64 * Z :=
  match vs with
  | [] => (modeVal, modeCount)
  | v :: vs' =>
      if b64_eq v val then
        let count' := count + 1 in
        if modeCount <? count' then mode_scan vs' val count' val count'
        else mode_scan vs' val count' modeVal modeCount
      else mode_scan vs' v 1 modeVal modeCount
  end.

(** None = the index-out-of-range panic on an empty sample *)
Definition summary_exact (s : sample) : option summary :=
  match s_values s with
  | [] => None
  | v0 :: rest =>
      let '(mv, mc) := mode_scan rest v0 1 v0 1 in
      Some (mkSummary mv v0 (last (s_values s) v0) b64_one
                      (if mc =? zlen (s_values s) then [] else [WRange]))
  end.

Definition compare_exact (s1 s2 : sample) : comparison :=
  mkCmp f_zero (zlen (s_values s1)) (zlen (s_values s2)) f_zero [].

(** ** AssumeNormal.Summary: stats.Sample.MeanCI *)
Section Normal.
  Variable tinv_o : b64 -> option b64.   (* InvCDF(TDist{V: n-1})(alpha) *)

  Definition summary_normal (s : sample) (conf : b64) : option summary :=
    let xs := s_values s in
    let mean := mean_f xs in
    let w :=
      if b64_le conf f_zero then Some f_zero
      else if b64_ge conf b64_one || (zlen xs <=? 1) then Some (f_inf false)
      else
        let sd := stddev_f xs in
        let alpha := b64_div (b64_sub b64_one conf) (b64_of_Z 2) in
        match tinv_o alpha with
        | Some tq => Some (b64_div (b64_mul (b64_neg tq) sd) (b64_sqrt (f_len xs)))
        | None => None
        end in
    match w with
    | Some w => Some (mkSummary mean (b64_sub mean w) (b64_add mean w) conf [])
    | None => None
    end.
End Normal.

(** ** comparisons through a statistical test *)
Inductive test_result := TErr (w : warn) | TOk (p : b64) | TPanic.

(** uTestMinP[1..9] (generated by mktables.go; see Proofs/BenchMath.v
    [utest_min_p_is_two_over_binom]) *)
Definition utest_min_p : list b64 :=
  map b64_of_bits
      [0x3FF0000000000000; 0x3FD5555555555555; 0x3FB999999999999A; 0x3F9D41D41D41D41D;
       0x3F80410410410410; 0x3F61BB4A4046ED29; 0x3F43187758E9EBB6; 0x3F245E5D2BA42EA0;
       0x3F0591175B628BB8].

Fixpoint utest_samples_go (n : Z) (tab : list b64) (alpha : b64) : bool * Z :=
  match tab with
  | [] => (false, n)            (* ">", len(uTestMinP) *)
  | mp :: tab' => if b64_le mp alpha then (true, n) else utest_samples_go (n + 1) tab' alpha
  end.
Definition utest_samples (alpha : b64) : bool * Z := utest_samples_go 1 utest_min_p alpha.

Section Compare.
  Variable utest_f : list b64 -> list b64 -> test_result.   (* stats.MannWhitneyUTest(.., LocationDiffers) *)
  Variable welch_f : list b64 -> list b64 -> test_result.   (* stats.TwoSampleWelchTTest(.., LocationDiffers) *)

  Definition compare_nothing (s1 s2 : sample) : option comparison :=
    let n1 := zlen (s_values s1) in
    let n2 := zlen (s_values s2) in
    let alpha := compare_alpha (s_thr s1) in
    match utest_f (s_values s1) (s_values s2) with
    | TPanic => None
    | TErr w => Some (mkCmp b64_one n1 n2 alpha [w])
    | TOk p =>
        let warns :=
          if b64_gt p alpha then
            let '(ge, n) := utest_samples alpha in
            if (n1 <? n) && (n2 <? n) then [WNeedAlpha ge n] else []
          else [] in
        Some (mkCmp p n1 n2 alpha warns)
    end.

  Definition compare_normal (s1 s2 : sample) : option comparison :=
    let n1 := zlen (s_values s1) in
    let n2 := zlen (s_values s2) in
    let alpha := compare_alpha (s_thr s1) in
    match welch_f (s_values s1) (s_values s2) with
    | TPanic => None
    | TErr w => Some (mkCmp b64_one n1 n2 alpha [w])
    | TOk p => Some (mkCmp p n1 n2 alpha [])
    end.

  Inductive assumption := ANothing | AExact | ANormal.

  Definition compare (a : assumption) (s1 s2 : sample) : option comparison :=
    match a with
    | ANothing => compare_nothing s1 s2
    | AExact => Some (compare_exact s1 s2)
    | ANormal => compare_normal s1 s2
    end.
End Compare.

(** TwoSampleWelchTTest(.., LocationDiffers): the error decisions, then t and the
    degrees of freedom in binary64 as coded, then p = 2*(1 - TDist{dof}.CDF(|t|)).
    The p-value itself is the oracle [p_o]; what is modelled is whether the call
    returns at all: TDist.CDF(x) for x > 0 evaluates
    mathx.BetaInc(V/(V+x*x), V/2, 0.5), whose continued fraction (betacf) never
    converges on a NaN argument and then panics ("betainc: a or b too big;
    failed to converge"). V/(V+x*x) is NaN when the degrees of freedom are NaN
    or infinite, i.e. when (variance/n)^2 overflows (Inf/Inf) or underflows
    (0/0) -- finding C13_normal_compare_overflow_panic.
    math.Pow(x, 2) is modelled as the correctly rounded x*x (Go's pow squares
    the 53-bit mantissa and rescales with Ldexp: identical unless the result is
    subnormal). *)
Definition f_sq (x : b64) : b64 := b64_mul x x.

Record welch := mkWelch { w_dof : b64; w_t : b64 }.

Definition welch_stats (x1 x2 : list b64) : welch :=
  let n1 := weight_f x1 in
  let n2 := weight_f x2 in
  let a := b64_div (variance_f x1) n1 in
  let b := b64_div (variance_f x2) n2 in
  let dof := b64_div (f_sq (b64_add a b))
                     (b64_add (b64_div (f_sq a) (b64_sub n1 b64_one))
                              (b64_div (f_sq b) (b64_sub n2 b64_one))) in
  let s := b64_sqrt (b64_add a b) in
  mkWelch dof (b64_div (b64_sub (mean_f x1) (mean_f x2)) s).

(** does TDist{V}.CDF(|t|) panic? *)
Definition tcdf_panics (V t : b64) : bool :=
  let x := b64_abs t in
  b64_gt x f_zero && b64_is_nan (b64_div V (b64_add V (b64_mul x x))).

Definition welch_outcome (p_o : b64) (x1 x2 : list b64) : test_result :=
  if b64_le (weight_f x1) b64_one || b64_le (weight_f x2) b64_one then TErr WErrSampleSize
  else if b64_eq (variance_f x1) f_zero && b64_eq (variance_f x2) f_zero then TErr WErrZeroVariance
  else
    let w := welch_stats x1 x2 in
    if tcdf_panics (w_dof w) (w_t w) then TPanic else TOk p_o.

(** MannWhitneyUTest's outcome with [p_o] standing for the float p it returns *)
Definition utest_outcome_of (r : uresult) (p_o : b64) : test_result :=
  match r with
  | UErrSampleSize => TErr WErrSampleSize
  | UErrSamplesEqual => TErr WErrSamplesEqual
  | UPanic => TPanic
  | UExactP _ _ | UApprox => TOk p_o
  end.
Definition utest_outcome (p_o : b64) (x1 x2 : list b64) : test_result :=
  utest_outcome_of (utest x1 x2) p_o.

(** ** rendering *)
Definition pct_sign : bytes := [x25].

(** Comparison.FormatDelta *)
Definition format_delta (c : comparison) (old new : b64) : bytes :=
  if b64_gt (c_p c) (c_alpha c) then bs "~"
  else if b64_eq old new then bs "0.00%"
  else if b64_eq old f_zero then bs "?"
  else fmt_fixed true 2 (b64_mul (b64_sub (b64_div new old) b64_one) f_hundred) ++ pct_sign.

(** Comparison.String *)
Definition comparison_string (c : comparison) : bytes :=
  (if b64_eq (c_p c) f_zero then [] else bs "p=" ++ fmt_fixed false 3 (c_p c) ++ bs " ")
  ++ (if c_n1 c =? c_n2 c then bs "n=" ++ dec_Z (c_n1 c)
      else bs "n=" ++ dec_Z (c_n1 c) ++ bs "+" ++ dec_Z (c_n2 c)).

(** mathx.Sign: -1, 0, 1 or NaN *)
Inductive fsign := SgnNeg | SgnZero | SgnPos | SgnNaN.
Definition sign_f (x : b64) : fsign :=
  if b64_eq x f_zero then SgnZero
  else if b64_lt x f_zero then SgnNeg
  else if b64_gt x f_zero then SgnPos
  else SgnNaN.
(** [!=] on the float results of Sign *)
Definition sign_ne (a b : fsign) : bool :=
  match a, b with
  | SgnNeg, SgnNeg | SgnZero, SgnZero | SgnPos, SgnPos => false
  | _, _ => true
  end.

(** math.Max *)
Definition b64_max (x y : b64) : b64 :=
  match x, y with
  | S754_infinity false, _ | _, S754_infinity false => S754_infinity false
  | S754_nan, _ | _, S754_nan => S754_nan
  | S754_zero sx, S754_zero sy => if sx then y else x
  | _, _ => if b64_gt x y then x else y
  end.

Definition inf_symbol : bytes := [xe2; x88; x9e].   (* U+221E *)

(** Summary.PctRangeString *)
Definition pct_range_string (s : summary) : bytes :=
  let c := sm_center s in
  let lo := sm_lo s in
  let hi := sm_hi s in
  if b64_is_inf lo || b64_is_inf hi then inf_symbol
  else if sign_ne (sign_f c) (sign_f lo) || sign_ne (sign_f c) (sign_f hi) then bs "?"
  else if b64_eq c f_zero then bs "0%"
  else
    let v := b64_max (b64_sub (b64_div hi c) b64_one) (b64_sub b64_one (b64_div lo c)) in
    fmt_fixed false 0 (b64_mul f_hundred v) ++ pct_sign.

(** ** the QuantileCI walk in exact arithmetic (for the coverage theorem):
    probabilities in units of 1/(cden * 2^n), the requested level cnum/cden *)
Definition pmf_scaled (n cden k : Z) : option Z :=
  Some (if (k <? 0) || (n <? k) then 0 else cden * binom n k).
Definition quantile_ci_exact (n cnum cden : Z) : option (Z * Z * Z) :=
  walk_from_mode Z.add Z.ltb Z.leb 0 (pmf_scaled n cden) (cnum * 2 ^ n) n.
