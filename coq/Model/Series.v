(** Series: benchseries.Builder.Add and AllComparisonSeries
    (benchseries.go:318-394, 440-563) with [existing = nil].

    A benchmark result reaches the model already projected (the harness supplies
    the string values of the unit/table/.fullname/experiment/series/compare/
    numerator-hash/denominator-hash projections; benchproc itself is C08's
    subject), one [res] per (result, value).  Sample values are carried as
    float64 bit patterns: this code only stores, concatenates and sorts them.

    Go maps are total functions from keys (lists of byte strings) plus, wherever
    the code ranges over a map, an explicit ENUMERATION argument listing the keys
    in the order visited.  The nested maps tables[unit,table].cells[bench,exp]
    .tests[hash] are the curried functions [b_trial]/[b_den]/[b_bh]/[b_num]; a
    cell exists iff its value list is non-empty (a cell is created only to
    receive a value at once).

    The COMBINE branch is modelled WITH the repair hooks/fix_c18_combine_nil.diff
    (a nil baseline / nil denominator contributes no values); [step_asis_panics]
    says where the unrepaired code dereferences nil. *)
From Perf Require Import Base.Bytes Base.Usort Model.Dates.
Local Open Scope Z_scope.

(** ** keys *)
Definition key := list bytes.
Definition keqb : key -> key -> bool := list_eqb beq.

Definition upd {V} (f : key -> V) (k : key) (v : V) : key -> V :=
  fun k' => if keqb k k' then v else f k'.

(** ** order of float64 bit patterns: ascending numeric value for non-NaN
    floats (-0 before +0), made total on all integers by the raw pattern *)
Definition fkey (w : Z) : Z := if w <? 2^63 then w else 2^63 - 1 - w.
Definition vcmp (x y : Z) : comparison :=
  match Z.compare (fkey x) (fkey y) with
  | Eq => Z.compare x y
  | c => c
  end.
Definition vsort : list Z -> list Z := isort vcmp.

Definition cmp2 (a b : bytes * bytes) : comparison :=
  match bcmp (fst a) (fst b) with
  | Eq => bcmp (snd a) (snd b)
  | c => c
  end.

(** ** projected results *)
Inductive role := RNum | RDen | ROther.

Record res := mkRes {
  r_unit : bytes; r_table : bytes; r_bench : bytes; r_exp : bytes; r_ser : bytes;
  r_role : role; r_nh : bytes; r_dh : bytes; r_val : Z }.

Definition tkey (r : res) : key := [r_unit r; r_table r; r_bench r; r_exp r].
Definition nkey (r : res) : key := [r_unit r; r_table r; r_bench r; r_exp r; r_nh r].

(** ** Builder *)
Record builder := mkB {
  b_trial : key -> bool;          (* [u;t;bench;exp]: a trial exists *)
  b_den   : key -> list Z;        (* baseline cell values, add order; [] = no baseline *)
  b_bh    : key -> bytes;         (* baselineHashString *)
  b_num   : key -> list Z;        (* [u;t;bench;exp;hash]: tests[hash] values; [] = absent *)
  b_h2o   : key -> option bytes   (* [hash]: hashToOrder *)
}.

Definition b_empty : builder :=
  mkB (fun _ => false) (fun _ => []) (fun _ => []) (fun _ => []) (fun _ => None).

Definition add (b : builder) (r : res) : builder :=
  let tk := tkey r in
  let tr := upd (b_trial b) tk true in
  match r_role r with
  | RDen =>
      mkB tr (upd (b_den b) tk (b_den b tk ++ [r_val r]))
          (match b_den b tk with [] => upd (b_bh b) tk (r_dh r) | _ => b_bh b end)
          (b_num b) (b_h2o b)
  | RNum =>
      let nk := nkey r in
      mkB tr (b_den b) (b_bh b) (upd (b_num b) nk (b_num b nk ++ [r_val r]))
          (match b_num b nk with [] => upd (b_h2o b) [r_nh r] (Some (r_ser r)) | _ => b_h2o b end)
  | ROther => mkB tr (b_den b) (b_bh b) (b_num b) (b_h2o b)
  end.

Definition adds (rs : list res) : builder := fold_left add rs b_empty.

(** ** enumerations of the map ranges *)
Record enum := mkE {
  e_tables : list (bytes * bytes);                    (* range b.tables (then sorted) *)
  e_cells  : bytes -> bytes -> list (bytes * bytes);  (* range t.cells: (bench, exp) *)
  e_tests  : key -> list bytes                        (* range tr.tests: hashes *)
}.

(** ** AllComparisonSeries *)
Record contrib := mkK {
  k_bench : bytes; k_ser : bytes; k_hash : bytes;
  k_num : list Z; k_den : list Z; k_bh : bytes; k_date : bytes }.

Record comp := mkC { c_num : list Z; c_den : list Z; c_date : bytes }.

Record state := mkS {
  s_cells : key -> option comp;               (* [bench; series] *)
  s_hp    : key -> option (bytes * bytes)     (* [series] *)
}.
Definition st_empty : state := mkS (fun _ => None) (fun _ => None).

Fixpoint omapM {A B} (f : A -> option B) (l : list A) : option (list B) :=
  match l with
  | [] => Some []
  | x :: l' =>
      match f x with
      | Some y => match omapM f l' with Some ys => Some (y :: ys) | None => None end
      | None => None
      end
  end.

Definition test_contrib (b : builder) (u t bench exp date h : bytes) : option contrib :=
  match b_h2o b [h] with
  | Some ser =>
      match normalize_date ser with
      | Some s => Some (mkK bench s h (b_num b [u; t; bench; exp; h]) (b_den b [u; t; bench; exp])
                            (b_bh b [u; t; bench; exp]) date)
      | None => None
      end
  | None => None
  end.

Definition trial_contribs (b : builder) (e : enum) (u t : bytes) (be : bytes * bytes)
  : option (list contrib) :=
  match normalize_date (snd be) with
  | Some date => omapM (test_contrib b u t (fst be) (snd be) date) (e_tests e [u; t; fst be; snd be])
  | None => None
  end.

(** [None]: some experiment or series stamp does not parse (the error result) *)
Definition table_contribs (b : builder) (e : enum) (u t : bytes) : option (list contrib) :=
  option_map (@concat contrib) (omapM (trial_contribs b e u t) (e_cells e u t)).

Definition new_comp (c : contrib) : comp := mkC (k_num c) (k_den c) (k_date c).

Definition record_hp (st : state) (c : contrib) : key -> option (bytes * bytes) :=
  match s_hp st [k_ser c] with
  | None => upd (s_hp st) [k_ser c] (Some (k_hash c, k_bh c))
  | Some _ => s_hp st
  end.

(** one visit of (trial, test hash); [combine] = DUPE_COMBINE *)
Definition step (combine : bool) (st : state) (c : contrib) : state :=
  let sk := [k_bench c; k_ser c] in
  match s_cells st sk with
  | None => mkS (upd (s_cells st) sk (Some (new_comp c))) (record_hp st c)
  | Some cc =>
      if combine then
        mkS (upd (s_cells st) sk
                 (Some (mkC (c_num cc ++ k_num c) (c_den cc ++ k_den c)
                            (if bltb (c_date cc) (k_date c) then k_date c else c_date cc))))
            (s_hp st)
      else
        mkS (if bltb (c_date cc) (k_date c) then upd (s_cells st) sk (Some (new_comp c)) else s_cells st)
            (record_hp st c)
  end.

Definition is_nil_Z (l : list Z) : bool := match l with [] => true | _ => false end.

(** where the code as it stands (without the repair) dereferences a nil cell *)
Definition step_asis_panics (combine : bool) (st : state) (c : contrib) : bool :=
  match s_cells st [k_bench c; k_ser c] with
  | Some cc => combine && (is_nil_Z (c_den cc) || is_nil_Z (k_den c))
  | None => false
  end.

Fixpoint run_panics (combine : bool) (st : state) (cs : list contrib) : bool :=
  match cs with
  | [] => false
  | c :: cs' => step_asis_panics combine st c || run_panics combine (step combine st c) cs'
  end.

(** ** output of one (unit, table) *)
Record ocell := mkO { oc_bench : bytes; oc_ser : bytes; oc_date : bytes; oc_num : list Z; oc_den : list Z }.

Record series := mkSeries {
  se_unit : bytes;
  se_benchmarks : list bytes;
  se_series : list bytes;
  se_hp : list (bytes * (bytes * bytes));
  se_cells : list ocell }.

(** the final pass: sample values are sorted when both cells are present *)
Definition out_cell (st : state) (b s : bytes) : list ocell :=
  match s_cells st [b; s] with
  | Some cc =>
      match c_den cc with
      | [] => [mkO b s (c_date cc) (c_num cc) []]
      | _ => [mkO b s (c_date cc) (vsort (c_num cc)) (vsort (c_den cc))]
      end
  | None => []
  end.

Definition out_hp (st : state) (s : bytes) : list (bytes * (bytes * bytes)) :=
  match s_hp st [s] with Some p => [(s, p)] | None => [] end.

Definition ustring (u t : bytes) : bytes :=
  match t with [] => u | _ => u ++ x20 :: t end.

Definition finish (u t : bytes) (benches : list bytes) (cs : list contrib) (st : state) : series :=
  let bl := usort bcmp benches in
  let sl := usort bcmp (map k_ser cs) in
  mkSeries (ustring u t) bl sl (flat_map (out_hp st) sl)
           (flat_map (fun b => flat_map (out_cell st b) sl) bl).

Definition table_series (combine : bool) (b : builder) (e : enum) (ut : bytes * bytes) : option series :=
  let '(u, t) := ut in
  match table_contribs b e u t with
  | Some cs => Some (finish u t (map fst (e_cells e u t)) cs (fold_left (step combine) cs st_empty))
  | None => None
  end.

(** AllComparisonSeries(nil, dupeHow); [None] = error return *)
Definition all_comparison_series (combine : bool) (b : builder) (e : enum) : option (list series) :=
  omapM (table_series combine b e) (usort cmp2 (e_tables e)).

(** does the unrepaired code panic (nil dereference in the COMBINE branch)? *)
Definition acs_panics (combine : bool) (b : builder) (e : enum) : bool :=
  existsb (fun ut => match table_contribs b e (fst ut) (snd ut) with
                     | Some cs => run_panics combine st_empty cs
                     | None => false end)
          (usort cmp2 (e_tables e)).

(** ** a valid enumeration lists exactly the keys present, each once *)
Record valid_enum (b : builder) (e : enum) : Prop := {
  ve_tables_nodup : NoDup (e_tables e);
  ve_tables : forall u t, In (u, t) (e_tables e) <-> exists bench exp, b_trial b [u; t; bench; exp] = true;
  ve_cells_nodup : forall u t, NoDup (e_cells e u t);
  ve_cells : forall u t bench exp, In (bench, exp) (e_cells e u t) <-> b_trial b [u; t; bench; exp] = true;
  ve_tests_nodup : forall k, NoDup (e_tests e k);
  ve_tests : forall u t bench exp h, In h (e_tests e [u; t; bench; exp]) <-> b_num b [u; t; bench; exp; h] <> []
}.

(** the enumeration in order of first insertion (used to evaluate the model) *)
Fixpoint dedup {A} (eqb : A -> A -> bool) (seen l : list A) : list A :=
  match l with
  | [] => []
  | x :: l' => if existsb (eqb x) seen then dedup eqb seen l' else x :: dedup eqb (x :: seen) l'
  end.
Definition beq2 (a b : bytes * bytes) : bool := beq (fst a) (fst b) && beq (snd a) (snd b).

Definition is_num (r : res) : bool := match r_role r with RNum => true | _ => false end.
Definition is_den (r : res) : bool := match r_role r with RDen => true | _ => false end.

Definition first_enum (rs : list res) : enum :=
  mkE (dedup beq2 [] (map (fun r => (r_unit r, r_table r)) rs))
      (fun u t => dedup beq2 [] (map (fun r => (r_bench r, r_exp r))
                                     (filter (fun r => beq (r_unit r) u && beq (r_table r) t) rs)))
      (fun k => dedup beq [] (map r_nh (filter (fun r => is_num r && keqb (tkey r) k) rs))).

(** ** canonical form of the output: sample order of denominator-less cells
    (which the code leaves unsorted) is not part of the observable *)
Definition canon_cell (c : ocell) : ocell :=
  mkO (oc_bench c) (oc_ser c) (oc_date c) (vsort (oc_num c)) (vsort (oc_den c)).
Definition canon_series (s : series) : series :=
  mkSeries (se_unit s) (se_benchmarks s) (se_series s) (se_hp s) (map canon_cell (se_cells s)).
Definition canon (o : option (list series)) : option (list series) :=
  option_map (map canon_series) o.

(** ** well-formed result sets: what order independence needs (each clause is
    necessary: Properties/C18.v has a refuting pair of orders without it) *)
Definition bh_of (rs : list res) (k : key) : bytes :=
  match filter (fun r => is_den r && keqb (tkey r) k) rs with
  | r :: _ => r_dh r
  | [] => []
  end.

Record WFset (rs : list res) : Prop := {
  (** a numerator hash (commit) has one series stamp *)
  wf_hash_stamp : forall r r', In r rs -> In r' rs -> is_num r = true -> is_num r' = true ->
      r_nh r = r_nh r' -> r_ser r = r_ser r';
  (** the denominators of one (benchmark, experiment) trial carry one hash *)
  wf_den_hash : forall r r', In r rs -> In r' rs -> is_den r = true -> is_den r' = true ->
      tkey r = tkey r' -> r_dh r = r_dh r';
  (** a series point of a table is reached with one (numerator, denominator) hash pair *)
  wf_pair : forall r r' s, In r rs -> In r' rs -> is_num r = true -> is_num r' = true ->
      r_unit r = r_unit r' -> r_table r = r_table r' ->
      normalize_date (r_ser r) = Some s -> normalize_date (r_ser r') = Some s ->
      r_nh r = r_nh r' /\ bh_of rs (tkey r) = bh_of rs (tkey r');
  (** at one (benchmark, series point), different experiments have different instants *)
  wf_dates : forall r r' s d, In r rs -> In r' rs -> is_num r = true -> is_num r' = true ->
      r_unit r = r_unit r' -> r_table r = r_table r' -> r_bench r = r_bench r' ->
      normalize_date (r_ser r) = Some s -> normalize_date (r_ser r') = Some s ->
      normalize_date (r_exp r) = Some d -> normalize_date (r_exp r') = Some d ->
      r_exp r = r_exp r'
}.
