(** The layout property of C16 as a predicate on an OBSERVED rendering: given
    the cells of a table and the lines some renderer printed, locate every
    non-blank cell's margin and text in its line and check
    - (no truncation / no overlap) the texts appear in full, in column order,
      disjoint, with nothing but U+0020 between and after them;
    - (columns start at one offset on every line) all observations of a column
      boundary agree: the end of a visible margin, the start of left-aligned
      text, the end of right-aligned text;
    - (containment) no text starts before its first column or ends after its
      last one, where those boundaries are observable; centred text is centred;
    - (no trailing blanks) a line has no more trailing blanks than the own text
      (margin, value) of its last printed cell: the layout adds none.
    This is independent of how widths were computed: it reads only the lines. *)
From Perf Require Import Base.Bytes Model.Runes Model.TextTab.
Local Open Scope nat_scope.

Definition rune := bytes.
Definition is_sp (r : rune) : bool := beq r [sp].
Fixpoint lead_sp (l : list rune) : nat :=
  match l with
  | r :: l' => if is_sp r then S (lead_sp l') else 0
  | [] => 0
  end.
Definition first_nonsp (l : list rune) : option nat :=
  let k := lead_sp l in if k <? length l then Some k else None.
Definition slice {A} (l : list A) (a n : nat) : list A := firstn n (skipn a l).
Definition rl_eqb : list rune -> list rune -> bool := list_eqb beq.

Record cobs := mkObs {
  o_cell : cell;
  o_ms : option nat;     (* start of the margin text, if the margin is visible *)
  o_vs : option nat;     (* start of the value text, if the value is visible *)
  o_ve : nat }.          (* end of the cell's text *)

(** locate cell [c] in [line] at or after [pos] *)
Definition parse_cell (line : list rune) (pos : nat) (c : cell) : option cobs :=
  let m := runes (c_margin c) in
  let v := runes (c_val c) in
  let find_v (from : nat) (ms : option nat) :=
    match first_nonsp v with
    | Some k2 =>
        let p2 := from + lead_sp (skipn from line) in
        if p2 <? k2 + from then None else
        let vs := p2 - k2 in
        if rl_eqb (slice line vs (length v)) v then Some (mkObs c ms (Some vs) (vs + length v)) else None
    | None =>
        match ms with
        | Some _ => Some (mkObs c ms None from)   (* value empty or only U+0020: follows the margin, not observable *)
        | None => None
        end
    end in
  match first_nonsp m with
  | Some k =>
      let p := pos + lead_sp (skipn pos line) in
      if p <? k + pos then None else
      let ms := p - k in
      if rl_eqb (slice line ms (length m)) m then find_v (ms + length m) (Some ms) else None
  | None => find_v pos None
  end.

Fixpoint parse_line (line : list rune) (pos : nat) (cs : list cell) : option (list cobs) :=
  match cs with
  | [] => if forallb is_sp (skipn pos line) then Some [] else None
  | c :: r =>
      match parse_cell line pos c with
      | Some o => match parse_line line (o_ve o) r with
                  | Some os => Some (o :: os)
                  | None => None
                  end
      | None => None
      end
  end.

(** "no line ends in blanks": the layout puts no blank (Unicode White_Space, what
    strings.TrimSpace strips) after the text of the last printed cell of a
    line: the line has no more trailing blanks than that cell's own text - its
    margin followed by its value, which is not blank as a whole since the cell
    is printed - has by itself (a caller's text "ab " or margin "| " is content
    that "never truncates" keeps; alignment padding or fill is not). This holds
    for EVERY last cell: empty or blank values, any alignment, any margin. *)
Fixpoint lead_blank (l : list rune) : nat :=
  match l with
  | r :: l' => if is_space_rune r then S (lead_blank l') else 0
  | [] => 0
  end.
Definition trail_blank (l : list rune) : nat := lead_blank (rev l).
Definition own_text (c : cell) : list rune := runes (c_margin c) ++ runes (c_val c).

Definition no_trailing_ok (line : list rune) (cs : list cell) : bool :=
  match rev cs with
  | [] => match line with [] => true | _ => false end
  | c :: _ => trail_blank line <=? trail_blank (own_text c)
  end.

(** the alignment a cell's text shows: none for a blank text (there is nothing
    to see; no claim is made about where a blank text sits inside its span
    beyond containment) *)
Definition obs_align (c : cell) : option align :=
  if all_blank (c_val c) then None else Some (c_align c).

(** observations of column boundaries: (boundary index, offset) *)
Definition estimates (lm : list Z) (o : cobs) : list (nat * Z) :=
  let c := o_cell o in
  let lmc := getz lm (c_col c) in
  let nm := Z.of_nat (length (runes (c_margin c))) in
  (match o_ms o with
   | Some s => [(c_col c, (Z.of_nat s + nm - lmc)%Z)]
   | None => match obs_align c, o_vs o with
             | Some ALeft, Some s => [(c_col c, (Z.of_nat s - lmc)%Z)]
             | _, _ => []
             end
   end)
  ++ (match obs_align c, o_vs o with
      | Some ARight, Some _ => [(c_col c + c_span c, Z.of_nat (o_ve o))]
      | _, _ => []
      end).

Definition consistent (es : list (nat * Z)) : bool :=
  forallb (fun e1 => forallb (fun e2 =>
     (if fst e1 =? fst e2 then (snd e1 =? snd e2)%Z else true)
     && (if fst e1 <=? fst e2 then (snd e1 <=? snd e2)%Z else true)) es) es.

Definition boundary (es : list (nat * Z)) (b : nat) : option Z :=
  match find (fun e => fst e =? b) es with Some e => Some (snd e) | None => None end.

Definition contained (lm : list Z) (es : list (nat * Z)) (o : cobs) : bool :=
  let c := o_cell o in
  let lmc := getz lm (c_col c) in
  let nm := Z.of_nat (length (runes (c_margin c))) in
  let nv := Z.of_nat (length (runes (c_val c))) in
  (nm <=? lmc)%Z &&
  (match boundary es (c_col c) with
   | Some x =>
       match o_ms o with Some s => (x + lmc - nm =? Z.of_nat s)%Z | None => true end
       && match o_vs o with Some s => (x + lmc <=? Z.of_nat s)%Z | None => true end
       && match obs_align c, o_vs o with Some ALeft, Some s => (x + lmc =? Z.of_nat s)%Z | _, _ => true end
   | None => true
   end) &&
  (match boundary es (c_col c + c_span c) with
   | Some y => (Z.of_nat (o_ve o) <=? y)%Z
   | None => true
   end) &&
  (match obs_align c, boundary es (c_col c), boundary es (c_col c + c_span c), o_vs o with
   | Some ACenter, Some x, Some y, Some s => (Z.of_nat s =? x + lmc + Z.quot (y - x - lmc - nv) 2)%Z
   | _, _, _, _ => true
   end).

(** the number of lines: one per row up to the last row with a printed cell;
    a table with cells but nothing printed is one empty line *)
Definition layout_obs_ok (ncols : nat) (cells : list cell) (lines : list bytes) : bool :=
  let lm := lmargins ncols cells in
  if is_nilb cells then is_nilb lines else
  (length lines =? S (last_row cells)) &&
  let parsed := map (fun '(r, l) => (runes l, row_cells cells r, parse_line (runes l) 0 (row_cells cells r)))
                    (combine (seq 0 (length lines)) lines) in
  forallb (fun '(l, cs, p) => match p with Some _ => no_trailing_ok l cs | None => false end) parsed &&
  let obs := flat_map (fun '(_, _, p) => match p with Some os => os | None => [] end) parsed in
  let es := (0, 0%Z) :: flat_map (estimates lm) obs in
  consistent es && forallb (contained lm es) obs.
