(** Model of benchproc/key.go: the value tuple behind a Key ([keyNode.vals]),
    [equalRow], [Key.Get], [Key.String]; and of benchproc/nonsingular.go.
    A Key is a pointer to an interned keyNode; the model's key is the position of
    that node in the projection's list of interned rows (Model/Projection.v), so
    [==] on Keys of one projection is equality of positions. *)
From Perf Require Import Base.Bytes Model.Name.

Definition row := list bytes.

(** the trimming loop at the head of internRow: drop trailing "" *)
Fixpoint trim (r : row) : row :=
  match r with
  | [] => []
  | x :: r' =>
      match trim r' with
      | [] => if is_nil x then [] else [x]
      | t => x :: t
      end
  end.

(** keyNode.equalRow *)
Definition equal_row (a b : row) : bool := list_eqb beq a b.

(** Key.Get on the node's values: an index past the end reads "" *)
Definition vals_get (vals : row) (idx : nat) : bytes := nth idx vals [].

(** Key.string(keys): [flat] is the flattened field list as (name, idx) *)
Definition c_space : byte := x20.
Definition c_colon : byte := x3a.

Fixpoint key_string_aux (keys : bool) (flat : list (bytes * nat)) (vals : row) (acc : bytes) : bytes :=
  match flat with
  | [] => acc
  | (name, idx) :: flat' =>
      let v := vals_get vals idx in
      if is_nil v then key_string_aux keys flat' vals acc
      else
        let acc1 := if is_nil acc then acc else acc ++ [c_space] in
        let acc2 := if keys then acc1 ++ name ++ [c_colon] else acc1 in
        key_string_aux keys flat' vals (acc2 ++ v)
  end.

Definition key_string (keys : bool) (flat : list (bytes * nat)) (vals : row) : bytes :=
  key_string_aux keys flat vals [].

(** NonSingularFields over the value tuples of the given keys: the flattened
    fields (by idx) on which some key differs from the first *)
Definition nonsingular (flat : list nat) (ks : list row) : list nat :=
  match ks with
  | [] | [_] => []
  | k0 :: rest =>
      filter (fun idx => existsb (fun k => negb (beq (vals_get k idx) (vals_get k0 idx))) rest) flat
  end.
