(** Model of internal/stats/udist.go: the tied distribution (makeUmemo, twoUmin,
    twoUmax, K==2 base case), the untied dynamic programme [p], and the PMF/CDF
    wrappers. Counts are exact integers here; the Go code holds the same counts
    in float64 (exact below 2^53; C(50,25) ~ 1.3e14) — except that mathChoose(n,k)
    for n > 20 is exp(lgamma..), an approximation; comparisons are therefore
    bit-exact only when every binomial has n <= 20 and by tolerance otherwise
    (Corr/RunC11.v).

    The memo tables of makeUmemo are a cache of a function of (k, n1, twoU): the
    model is that function ([A]). Which keys the Go code creates in its first
    (downward) pass and which it finds missing in the second is reproduced by
    the pruning test, evaluated at the point of use. *)
From Coq Require Import ZArith List Bool Lia.
From Perf Require Import Model.UStat Model.UDistSpec.
Import ListNotations.
Local Open Scope Z_scope.

(** ** the a coefficients: a[1] = t[0]; a[k] = a[k-1] + t[k-2] + t[k-1] *)
Fixpoint a_coeffs (prev_a prev_t : Z) (t : list Z) : list Z :=
  match t with
  | [] => []
  | tk :: t' => let a := prev_a + prev_t + tk in a :: a_coeffs a tk t'
  end.
Definition a_list (t : list Z) : list Z :=
  match t with [] => [] | t0 :: t' => t0 :: a_coeffs t0 t0 t' end.

(** levels, highest rank first: [(t_K, a_K); ...; (t_1, a_1)] *)
Definition levels (t : list Z) : list (Z * Z) := rev (combine t (a_list t)).

(** twoUmin / twoUmax: greedy fill from the lowest / highest run *)
Fixpoint greedy (n1 : Z) (l : list (Z * Z)) : Z :=
  match l with
  | [] => 0
  | (t, a) :: l' => let x := Z.min n1 t in x * a + greedy (n1 - x) l'
  end.
Definition twoUmax (n1 : Z) (lv : list (Z * Z)) : Z := - n1 * n1 + greedy n1 lv.
Definition twoUmin (n1 : Z) (lv : list (Z * Z)) : Z := - n1 * n1 + greedy n1 (rev lv).

(** ** K == 2 base case.
    REPAIRED code (hooks/fix_c11_udist_k2.diff): a negative numerator admits no r2.
    [Z.div] is floor division; for a non-negative numerator it is Go's [/]. *)
Definition base2 (t1 t2 n1 twoU : Z) : Z :=
  let r2Low := Z.max 0 (n1 - t1) in
  let numer := twoU - n1 * (t1 - n1) in
  let r2High := if numer <? 0 then -1 else numer / (t1 + t2) in
  sumf (fun r2 => choose t1 (n1 - r2) * choose t2 r2) (zrange r2Low r2High).

(** the code before the repair: Go's truncating division ([Z.quot]) *)
Definition base2_old (t1 t2 n1 twoU : Z) : Z :=
  let r2Low := Z.max 0 (n1 - t1) in
  let r2High := Z.quot (twoU - n1 * (t1 - n1)) (t1 + t2) in
  sumf (fun r2 => choose t1 (n1 - r2) * choose t2 r2) (zrange r2Low r2High).

(** ** A[k][n1, twoU] as a function; [lv] = levels of t[:k] *)
Section Rec.
Variable base : Z -> Z -> Z -> Z -> Z.
Variable prune : bool.

Fixpoint A (lv : list (Z * Z)) (n1 twoU : Z) : Z :=
  match lv with
  | [] => 0
  | (tk, ak) :: lv' =>
      match lv' with
      | [] => 0                                   (* K < 2: the Go code panics; excluded by the wrappers *)
      | [(t1, _)] => base t1 tk n1 twoU
      | _ =>
          let tsum := zsum (map fst lv') in
          sumf (fun rk =>
                  let twoU' := twoU - rk * (ak - 2 * n1 + rk) in
                  let n1' := n1 - rk in
                  let x :=
                    if negb prune then A lv' n1' twoU'
                    else if (twoUmin n1' lv' <=? twoU') && (twoU' <=? twoUmax n1' lv') then A lv' n1' twoU'
                    else if twoUmax n1' lv' <? twoU' then choose tsum n1'   (* key absent, beyond max *)
                    else 0 in                                                 (* key absent, below min *)
                  x * choose tk rk)
               (zrange (Z.max 0 (n1 - tsum)) (Z.min n1 tk))
      end
  end.
End Rec.

(** the table entry the wrappers read: makeUmemo(twoU, n1, t)[K][{n1, twoU}] *)
Definition umemo (t : list Z) (n1 twoU : Z) : Z := A base2 true (levels t) n1 twoU.
Definition umemo_old (t : list Z) (n1 twoU : Z) : Z := A base2_old true (levels t) n1 twoU.
Definition umemo_unpruned (t : list Z) (n1 twoU : Z) : Z := A base2 false (levels t) n1 twoU.

(** ** untied distribution: UDist.p, in integer form.
    With c_{n,m}(U) = C(n+m,n) * p_{n,m}(U) the Go recurrence
      p_{n,m}(U) = (n p_{n-1,m}(U-m) + m p_{n,m-1}(U)) / (n+m)
    reads  c_{n,m}(U) = c_{n-1,m}(U-m) + c_{n,m-1}(U)  (Proofs: untied scaling).
    Same table organisation as the code: rows m = 0..M, within a row n = 1..min(N,m),
    [memo] = list over n of coefficient lists of length U+1, the mirrored entry
    memo[m-1] when n = m. *)
Definition shift_in (m : nat) (lp : list Z) (len : nat) : list Z := firstn len (repeat 0 m ++ lp).

Fixpoint set_nth {A} (i : nat) (x : A) (l : list A) : list A :=
  match i, l with
  | O, _ :: l' => x :: l'
  | S i', y :: l' => y :: set_nth i' x l'
  | _, [] => []
  end.

(** one row m: n = 1..nlim in increasing order, each from the already updated memo[n-1] *)
Fixpoint p_row (len m : nat) (ns : list nat) (memo : list (list Z)) : list (list Z) :=
  match ns with
  | [] => memo
  | n :: ns' =>
      let lp := nth (n - 1) memo [] in
      let rp := if (n <=? m - 1)%nat then nth n memo [] else nth (m - 1) memo [] in
      (* values U1 > n*m keep the old contents (ulim = min(U, n*m)) *)
      let ulim := Nat.min (len - 1) (n * m) in
      let new := padd (shift_in m lp (S ulim)) (firstn (S ulim) rp) in
      let out := new ++ skipn (S ulim) (nth n memo []) in
      p_row len m ns' (set_nth n out memo)
  end.

Fixpoint p_rows (len : nat) (N : nat) (ms : list nat) (memo : list (list Z)) : list (list Z) :=
  match ms with
  | [] => memo
  | m :: ms' =>
      let memo0 := set_nth 0 (1 :: repeat 0 (len - 1)) memo in
      p_rows len N ms' (p_row len m (seq 1 (Nat.min N m)) memo0)
  end.

(** counts c_{N,M}(0..U) *)
Definition p_counts (n1 n2 : Z) (U : Z) : list Z :=
  let N := Z.to_nat (Z.min n1 n2) in
  let M := Z.to_nat (Z.max n1 n2) in
  let len := S (Z.to_nat U) in
  nth N (p_rows len N (seq 0 (S M)) (repeat (repeat 0 len) (S N))) [].

(** ** wrappers. Arguments U are given in quarters (q = 4U, an integer) so that
    int(2*U) and floor(U) are exact here. Results: exact fraction num/den. *)
Inductive dres := DFrac (num den : Z) | DOneMinus (num den : Z) | DPanic.

Definition has_ties (t : list Z) : bool := existsb (fun x => 1 <? x) t.

Definition cdf (n1 n2 : Z) (t : list Z) (q : Z) : dres :=
  if q <? 0 then DFrac 0 1
  else if 4 * (n1 * n2) <=? q then DFrac 1 1
  else if has_ties t then
    match t with
    | [] | [_] => DPanic
    | _ => DFrac (umemo t n1 (q / 2)) (choose (n1 + n2) n1)
    end
  else
    let Ui := q / 4 in
    let flip := (n1 * n2 + 1) / 2 <=? Ui in
    let Ui' := if flip then n1 * n2 - Ui - 1 else Ui in
    let s := zsum (firstn (S (Z.to_nat Ui')) (p_counts n1 n2 Ui')) in
    if flip then DOneMinus s (choose (n1 + n2) n1) else DFrac s (choose (n1 + n2) n1).

Definition pmf (n1 n2 : Z) (t : list Z) (q : Z) : dres :=
  if (q <? 0) || (4 * (n1 * n2) + 2 <=? q) then DFrac 0 1
  else if has_ties t then
    match t with
    | [] | [_] => DPanic
    | _ => DFrac (umemo t n1 (q / 2) - umemo t n1 (q / 2 - 1)) (choose (n1 + n2) n1)
    end
  else if Z.odd (q / 2) then
    (* hooks/fix_c11_udist_pmf_untied_grid.diff: U is rounded down to the grid Step() = 1/2
       (2U' = floor(2U) = q / 2); without ties the half-integer points carry no mass *)
    DFrac 0 1
  else
    let Ui := q / 4 in
    DFrac (nth (Z.to_nat Ui) (p_counts n1 n2 Ui) 0) (choose (n1 + n2) n1).

(** pre-repair wrappers (for the refuted statements only) *)
Definition cdf_old_tied (n1 n2 : Z) (t : list Z) (twoU : Z) : Z * Z :=
  (umemo_old t n1 twoU, choose (n1 + n2) n1).
