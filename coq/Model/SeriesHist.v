(** Histories of ONE benchseries.Builder: Add and AllComparisonSeries(nil, how)
    interleaved (a builder that is queried, receives more results - also into
    cells that have just been handed out and summarised - and is queried again).

    Builder.Add is [Series.add].  AllComparisonSeries reads the builder and
    returns [Series.all_comparison_series]; as a side effect the real code SORTS
    IN PLACE some of the builder's own value slices (Comparison.Numerator /
    Denominator alias the builder's cells, and the final pass sorts them when
    both are present).  Which slices depends on policy and map order; the model
    over-approximates: after a build the builder may be ANY builder whose cells
    hold the same values in some order ([cells_reordered]).  Nothing else of
    the builder changes (no caching of series, seeds or summaries: the
    bootstrap seed is recomputed from the cell values at every AddSummaries).

    Proofs/SeriesHist.v: every build of a history returns, up to [canon], what a
    FRESH builder over the results added so far returns.  No proofs here. *)
From Coq Require Import Sorting.Permutation.
From Perf Require Import Base.Bytes Base.Usort Model.Dates Model.Series.

Definition cells_reordered (b b' : builder) : Prop :=
  (forall k, b_trial b k = b_trial b' k) /\
  (forall k, Permutation (b_den b k) (b_den b' k)) /\
  (forall k, Permutation (b_num b k) (b_num b' k)) /\
  (forall k, b_bh b k = b_bh b' k) /\
  (forall k, b_h2o b k = b_h2o b' k).

(** one operation on the builder; a build names its policy and the order in
    which the Go maps happen to be enumerated *)
Inductive hop := HAdd (r : res) | HBuild (combine : bool) (e : enum).

(** [hrun b ops outs]: starting from builder [b] the operations [ops] can
    produce the build results [outs] *)
Inductive hrun : builder -> list hop -> list (option (list series)) -> Prop :=
| hr_nil b : hrun b [] []
| hr_add b r ops outs : hrun (add b r) ops outs -> hrun b (HAdd r :: ops) outs
| hr_build b c e b1 ops outs :
    cells_reordered b b1 -> hrun b1 ops outs ->
    hrun b (HBuild c e :: ops) (all_comparison_series c b e :: outs).

(** the same operations, every build done by a fresh builder over the results
    added so far ([acc], in add order) *)
Fixpoint fresh_outs (acc : list res) (ops : list hop) : list (option (list series)) :=
  match ops with
  | [] => []
  | HAdd r :: ops' => fresh_outs (acc ++ [r]) ops'
  | HBuild c e :: ops' => all_comparison_series c (adds acc) e :: fresh_outs acc ops'
  end.
