(** Dates: benchseries.NormalizeDateString (benchseries.go:186-217).

    The code rewrites the punctuation-free layout [20060102T150405] into
    RFC 3339, calls [time.Parse(time.RFC3339Nano, _)], converts to UTC and prints
    with the layout "2006-01-02T15:04:05.999999999-07:00".  The model does the
    arithmetic itself: text -> civil fields + zone offset -> instant (seconds
    since 1970-01-01T00:00:00Z via days-from-civil, plus nanoseconds) -> UTC civil
    fields -> text.  The accepted syntax is what go1.23 [time.Parse] accepts for
    that layout (validated by the correspondence run, Corr/RunC18.v):
      YYYY-MM-DD 'T' H[H] ':' MM ':' SS [ ('.'|',') digit+ ] ( 'Z' | (+|-) HH ':' MM )
    with month 1..12, day 1..days-in-month, hour 0..23, minute and second 0..59,
    zone hour 0..24, zone minute 0..60; only the first nine fraction digits count. *)
From Perf Require Import Base.Bytes.
Local Open Scope Z_scope.

(** ** digits *)
Definition dval (b : byte) : Z := Z.of_N (bN b) - 48.

(** exactly [n] decimal digits *)
Fixpoint take_digits (n : nat) (acc : Z) (s : bytes) : option (Z * bytes) :=
  match n with
  | O => Some (acc, s)
  | S n' =>
      match s with
      | c :: s' => if is_digit c then take_digits n' (acc * 10 + dval c) s' else None
      | [] => None
      end
  end.

(** all leading digits: (number of digits, the digits, rest) *)
Fixpoint span_digits (s : bytes) : bytes * bytes :=
  match s with
  | c :: s' => if is_digit c then let '(d, r) := span_digits s' in (c :: d, r) else ([], s)
  | [] => ([], [])
  end.

Definition expect (c : byte) (s : bytes) : option bytes :=
  match s with
  | x :: s' => if Byte.eqb x c then Some s' else None
  | [] => None
  end.

Definition c_dash : byte := x2d.
Definition c_colon : byte := x3a.
Definition c_T : byte := x54.
Definition c_Z : byte := x5a.
Definition c_plus : byte := x2b.
Definition c_dot : byte := x2e.
Definition c_comma : byte := x2c.
Definition c_0 : byte := x30.

(** ** the proleptic Gregorian calendar *)
Definition is_leap (y : Z) : bool :=
  ((y mod 4 =? 0) && negb (y mod 100 =? 0)) || (y mod 400 =? 0).

Definition days_in_month (y m : Z) : Z :=
  if m =? 2 then (if is_leap y then 29 else 28)
  else if (m =? 4) || (m =? 6) || (m =? 9) || (m =? 11) then 30 else 31.

(** days since 1970-01-01 of the civil date y-m-d (floor division throughout) *)
Definition days_from_civil (y m d : Z) : Z :=
  let y' := if m <=? 2 then y - 1 else y in
  let era := y' / 400 in
  let yoe := y' - era * 400 in
  let mp := if m <=? 2 then m + 9 else m - 3 in
  let doy := (153 * mp + 2) / 5 + d - 1 in
  let doe := yoe * 365 + yoe / 4 - yoe / 100 + doy in
  era * 146097 + doe - 719468.

Definition civil_from_days (z : Z) : Z * Z * Z :=
  let z := z + 719468 in
  let era := z / 146097 in
  let doe := z - era * 146097 in
  let yoe := (doe - doe / 1460 + doe / 36524 - doe / 146096) / 365 in
  let y := yoe + era * 400 in
  let doy := doe - (365 * yoe + yoe / 4 - yoe / 100) in
  let mp := (5 * doy + 2) / 153 in
  let d := doy - (153 * mp + 2) / 5 + 1 in
  let m := if mp <? 10 then mp + 3 else mp - 9 in
  (if m <=? 2 then y + 1 else y, m, d).

(** ** parsed time: civil fields as written, nanoseconds, zone offset (seconds east) *)
Record civil := mkCivil { cy : Z; cmo : Z; cd : Z; ch : Z; cmi : Z; cs : Z; cns : Z; coff : Z }.

(** an instant: seconds since the Unix epoch and nanoseconds 0..999999999 *)
Definition instant := (Z * Z)%type.

Definition to_instant (c : civil) : instant :=
  (days_from_civil (cy c) (cmo c) (cd c) * 86400 + ch c * 3600 + cmi c * 60 + cs c - coff c, cns c).

(** fraction digits -> nanoseconds: first nine digits, right-padded with zeros *)
Fixpoint frac_ns (n : nat) (acc : Z) (ds : bytes) : Z :=
  match n with
  | O => acc
  | S n' =>
      match ds with
      | c :: ds' => frac_ns n' (acc * 10 + dval c) ds'
      | [] => frac_ns n' (acc * 10) []
      end
  end.

Definition parse_zone (s : bytes) : option Z :=
  match s with
  | [c] => if Byte.eqb c c_Z then Some 0 else None
  | c :: s' =>
      if Byte.eqb c c_plus || Byte.eqb c c_dash then
        match take_digits 2 0 s' with
        | Some (hh, s1) =>
            match expect c_colon s1 with
            | Some s2 =>
                match take_digits 2 0 s2 with
                | Some (mm, []) =>
                    if (hh <=? 24) && (mm <=? 60) then
                      Some ((if Byte.eqb c c_dash then -1 else 1) * ((hh * 60 + mm) * 60))
                    else None
                | _ => None
                end
            | None => None
            end
        | None => None
        end
      else None
  | [] => None
  end.

Definition parse_rfc3339 (s : bytes) : option civil :=
  match take_digits 4 0 s with
  | Some (y, s) =>
  match expect c_dash s with Some s =>
  match take_digits 2 0 s with Some (mo, s) =>
  match expect c_dash s with Some s =>
  match take_digits 2 0 s with Some (d, s) =>
  match expect c_T s with Some s =>
  (* hour: one or two digits *)
  let '(hd, s) := span_digits s in
  match (match hd with
         | [a] => Some (dval a)
         | [a; b] => Some (dval a * 10 + dval b)
         | _ => None end) with
  | Some h =>
  match expect c_colon s with Some s =>
  match take_digits 2 0 s with Some (mi, s) =>
  match expect c_colon s with Some s =>
  match take_digits 2 0 s with Some (sec, s) =>
  let frac :=
    match s with
    | c :: s' =>
        if Byte.eqb c c_dot || Byte.eqb c c_comma then
          let '(ds, r) := span_digits s' in
          match ds with [] => None | _ => Some (frac_ns 9 0 ds, r) end
        else Some (0, s)
    | [] => Some (0, s)
    end in
  match frac with
  | Some (ns, s) =>
      match parse_zone s with
      | Some off =>
          if (1 <=? mo) && (mo <=? 12) && (1 <=? d) && (d <=? days_in_month y mo)
             && (h <=? 23) && (mi <=? 59) && (sec <=? 59)
          then Some (mkCivil y mo d h mi sec ns off) else None
      | None => None
      end
  | None => None
  end
  | None => None end | None => None end | None => None end | None => None end
  | None => None end
  | None => None end | None => None end | None => None end | None => None end
  | None => None end
  | None => None
  end.

(** the punctuation-free layout, regexp ^[0-9]{8}T[0-9]{6}$ *)
Definition is_nopunc (s : bytes) : bool :=
  (length s =? 15)%nat && forallb is_digit (firstn 8 s)
  && match nth_error s 8 with Some c => Byte.eqb c c_T | None => false end
  && forallb is_digit (skipn 9 s).

Definition sub (s : bytes) (i j : nat) : bytes := firstn (j - i) (skipn i s).

Definition rewrite_nopunc (s : bytes) : bytes :=
  sub s 0 4 ++ [c_dash] ++ sub s 4 6 ++ [c_dash] ++ sub s 6 11 ++ [c_colon] ++ sub s 11 13
  ++ [c_colon] ++ sub s 13 15 ++ bs "+00:00".

Definition parse_date (s : bytes) : option civil :=
  parse_rfc3339 (if is_nopunc s then rewrite_nopunc s else s).

(** ** formatting an instant in UTC with layout 2006-01-02T15:04:05.999999999-07:00 *)
Definition digit (z : Z) : byte :=
  match z mod 10 with
  | 1 => x31 | 2 => x32 | 3 => x33 | 4 => x34 | 5 => x35
  | 6 => x36 | 7 => x37 | 8 => x38 | 9 => x39 | _ => x30
  end.

(** [n] digits of z (z >= 0), most significant first, zero padded (truncating higher digits) *)
Fixpoint pad_digits (n : nat) (z : Z) : bytes :=
  match n with
  | O => []
  | S n' => pad_digits n' (z / 10) ++ [digit z]
  end.

(** decimal digits of z >= 0 without padding, at least [n] digits *)
Fixpoint ndigits (fuel : nat) (z : Z) : nat :=
  match fuel with
  | O => 1
  | S f => if z <? 10 then 1 else S (ndigits f (z / 10))
  end.

Definition fmt_year (y : Z) : bytes :=
  let a := Z.abs y in
  let w := Nat.max 4 (ndigits 20 a) in
  (if y <? 0 then [c_dash] else []) ++ pad_digits w a.

(** nine fraction digits with trailing zeros removed; empty when zero *)
Fixpoint strip_zeros_rev (r : bytes) : bytes :=
  match r with
  | c :: r' => if Byte.eqb c c_0 then strip_zeros_rev r' else r
  | [] => []
  end.
Definition fmt_frac (ns : Z) : bytes :=
  match rev (strip_zeros_rev (rev (pad_digits 9 ns))) with
  | [] => []
  | ds => c_dot :: ds
  end.

Definition format_instant (i : instant) : bytes :=
  let '(sec, ns) := i in
  let days := sec / 86400 in
  let r := sec mod 86400 in
  let '(y, m, d) := civil_from_days days in
  fmt_year y ++ [c_dash] ++ pad_digits 2 m ++ [c_dash] ++ pad_digits 2 d ++ [c_T]
  ++ pad_digits 2 (r / 3600) ++ [c_colon] ++ pad_digits 2 (r mod 3600 / 60) ++ [c_colon]
  ++ pad_digits 2 (r mod 60) ++ fmt_frac ns ++ bs "+00:00".

(** the instants whose UTC year has four digits: 0000-01-01T00:00:00Z up to
    (excluding) 10000-01-01T00:00:00Z *)
Definition year_inrange_b (i : instant) : bool :=
  (-62167219200 <=? fst i) && (fst i <? 253402300800).

(** NormalizeDateString: [None] = the error result.
    Modelled WITH the repair hooks/fix_c18_date_year_range.diff: a text whose
    instant has a UTC year outside 0..9999 (a zone offset moves a four-digit
    year across either end: 9999-12-31T23:00:00-05:00, 0000-01-01T00:00:00+01:00)
    is rejected, as Time.MarshalText does; the code as it stands formats it
    with five digits / a sign ([normalize_date_asis]), and such strings do not
    sort chronologically (Properties/C18.v, C18_asis_year_10000_sorts_wrongly_refuted) *)
Definition normalize_date_asis (s : bytes) : option bytes :=
  match parse_date s with
  | Some c => Some (format_instant (to_instant c))
  | None => None
  end.

Definition normalize_date (s : bytes) : option bytes :=
  match parse_date s with
  | Some c => if year_inrange_b (to_instant c) then Some (format_instant (to_instant c)) else None
  | None => None
  end.

(** the instant a timestamp text denotes *)
Definition denotes (s : bytes) : option instant := option_map to_instant (parse_date s).

(** order of instants *)
Definition instant_cmp (a b : instant) : comparison :=
  match Z.compare (fst a) (fst b) with
  | Eq => Z.compare (snd a) (snd b)
  | c => c
  end.
