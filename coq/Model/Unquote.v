(** Model of strconv.Unquote for double-quoted Go string literals (the only form
    the tokenizer of benchproc/internal/parse hands to it), following
    strconv/quote.go (UnquoteChar + the general loop of unquote), and the
    canonical quoting [cquote] used by the expressibility theorems.

    strconv.unquote has a shortcut for literals without backslash/newline that
    are valid UTF-8 (returns the text between the quotes); the general loop
    gives the same answer on those (decode/encode of a valid rune is the
    identity), so only the general loop is modelled. The tie to the real
    function is the correspondence run (valid and invalid UTF-8, all escapes). *)
From Perf Require Import Base.Bytes Base.Rune.
Local Open Scope N_scope.

Definition c_dquote : byte := x22.
Definition c_bslash : byte := x5c.
Definition c_nl     : byte := x0a.

Definition unhex (b : byte) : option N :=
  let c := bN b in
  if in_rng 48 c 57 then Some (c - 48)
  else if in_rng 97 c 102 then Some (c - 87)
  else if in_rng 65 c 70 then Some (c - 55)
  else None.

(** [n] hex digits, most significant first *)
Fixpoint hexnum (n : nat) (s : bytes) (acc : N) : option N :=
  match n with
  | O => Some acc
  | S n' => match s with
            | [] => None
            | b :: s' => match unhex b with
                         | Some x => hexnum n' s' (acc * 16 + x)
                         | None => None
                         end
            end
  end.

Definition octdigit (b : byte) : option N :=
  let c := bN b in if in_rng 48 c 55 then Some (c - 48) else None.

(** UnquoteChar(s, dquote): (value, multibyte, number of bytes consumed) *)
Definition unquote_char (s : bytes) : option (N * bool * nat) :=
  match s with
  | [] => None
  | c :: t =>
      if Byte.eqb c c_dquote then None
      else if 128 <=? bN c then let '(r, size) := decode_rune s in Some (r, true, size)
      else if negb (Byte.eqb c c_bslash) then Some (bN c, false, 1%nat)
      else match t with
      | [] => None
      | d :: u =>
          match d with
          | x61 => Some (7, false, 2%nat)     (* \a *)
          | x62 => Some (8, false, 2%nat)     (* \b *)
          | x66 => Some (12, false, 2%nat)    (* \f *)
          | x6e => Some (10, false, 2%nat)    (* \n *)
          | x72 => Some (13, false, 2%nat)    (* \r *)
          | x74 => Some (9, false, 2%nat)     (* \t *)
          | x76 => Some (11, false, 2%nat)    (* \v *)
          | x78 => match hexnum 2 u 0 with Some v => Some (v, false, 4%nat) | None => None end
          | x75 => match hexnum 4 u 0 with
                   | Some v => if valid_rune v then Some (v, true, 6%nat) else None
                   | None => None end
          | x55 => match hexnum 8 u 0 with
                   | Some v => if valid_rune v then Some (v, true, 10%nat) else None
                   | None => None end
          | x30 | x31 | x32 | x33 | x34 | x35 | x36 | x37 =>
              match u with
              | o1 :: o2 :: _ =>
                  match octdigit o1, octdigit o2 with
                  | Some a, Some b =>
                      let v := ((bN d - 48) * 8 + a) * 8 + b in
                      if 255 <? v then None else Some (v, false, 4%nat)
                  | _, _ => None
                  end
              | _ => None
              end
          | x5c => Some (92, false, 2%nat)
          | x22 => Some (34, false, 2%nat)    (* escaped double quote: allowed, the quote is the double quote *)
          | _ => None                          (* includes \' *)
          end
      end
  end.

(** bytes appended for one decoded character *)
Definition emit (v : N) (multibyte : bool) : bytes :=
  if (v <? 128) || negb multibyte then [byte_of_N v] else encode_rune v.

(** the loop of unquote after the opening quote: decoded text and what follows
    the terminating quote. [skip] counts bytes of the current character still
    to be stepped over (structural recursion over the input). *)
Fixpoint unq_loop (s : bytes) (skip : nat) : option (bytes * bytes) :=
  match s with
  | [] => None
  | c :: s' =>
      match skip with
      | S k => unq_loop s' k
      | O =>
          if Byte.eqb c c_dquote then Some ([], s')
          else if Byte.eqb c c_nl then None
          else match unquote_char s with
               | None => None
               | Some (v, mb, n) =>
                   match unq_loop s' (n - 1) with
                   | Some (out, rest) => Some (emit v mb ++ out, rest)
                   | None => None
                   end
               end
      end
  end.

(** strconv.Unquote on a literal that starts with a double quote *)
Definition unquote (s : bytes) : option bytes :=
  match s with
  | c :: t =>
      if Byte.eqb c c_dquote then
        match unq_loop t 0 with
        | Some (out, []) => Some out
        | _ => None
        end
      else None   (* back-quoted / single-quoted literals never reach Unquote from the tokenizer *)
  | [] => None
  end.

(** ** canonical quoting: escape the double quote, the backslash, and every byte outside 0x20..0x7e as \xHH *)
Definition hexdig (n : N) : byte := byte_of_N (if n <? 10 then 48 + n else 87 + n).

Definition esc (b : byte) : bytes :=
  if Byte.eqb b c_dquote then [c_bslash; c_dquote]
  else if Byte.eqb b c_bslash then [c_bslash; c_bslash]
  else if in_rng 32 (bN b) 126 then [b]
  else [c_bslash; x78; hexdig (bN b / 16); hexdig (bN b mod 16)].

Definition cquote (s : bytes) : bytes := c_dquote :: flat_map esc s ++ [c_dquote].
