(** Model of benchproc/internal/parse/filter.go (recursive-descent filter
    parser) and of the semantic checks of benchproc.NewFilter.

    The parser keeps going after the first error (the tokenizer then sits at
    the end of the text and every later error is dropped by the tracker); the
    model does the same, so that totality of the model covers those paths too.
    Where the code returns a nil Filter the model returns [dummy]; nothing
    looks at it. Recursion is by fuel ([None] = out of fuel);
    Proofs/FilterParse.v shows that [fuel_for q] is always enough. *)
From Perf Require Import Base.Bytes Base.Rune Model.Unquote Model.Tok Model.FilterAst.

Definition dummy : filter := FAnd [].

Definition mk_and (terms : list filter) : filter :=
  match terms with [t] => t | _ => FAnd terms end.
Definition mk_or (terms : list filter) : filter :=
  match terms with [t] => t | _ => FOr terms end.

Definition mk_match (off : nat) (key : bytes) (v : tok) : filter :=
  match t_kind v with
  | KRegexp => FMatch key (MRe (t_text v)) off
  | _ => FMatch key (MLit (t_text v)) off
  end.

Section Parse.
Variable is_space : N -> bool.
Variable re_ok : bytes -> bool.
Variable n0 : nat.

Notation next := (next is_space re_ok n0).
Notation off_of := (off_of n0).

Definition pres := option (filter * bytes * err).

(** p.error(toks, msg): record at toks, continue at the end *)
Definition perror (q : bytes) (e : err) : pres := Some (dummy, [], set_err e (off_of q)).

(** the value list  key:(v1 OR v2 ...)  after the opening parenthesis *)
Fixpoint vlist (f : nat) (rest : bytes) (e : err) (off : nat) (key : bytes) (terms : list filter) : pres :=
  match f with
  | O => None
  | S f' =>
      let '(v, r2, rest', e1) := next true rest e in
      if is_value (t_kind v) then
        let terms' := terms ++ [mk_match off key v] in
        let '(v2, r3, r2', e2) := next true r2 e1 in
        match t_kind v2 with
        | KOp c => if Byte.eqb c c_rpar then Some (FOr terms', r3, e2) else perror r2' e2
        | KOr => vlist f' r3 e2 off key terms'
        | _ => perror r2' e2                       (* value list must be separated by OR *)
        end
      else perror rest' e1                         (* expected value *)
  end.

Fixpoint expr_loop (f : nat) (q : bytes) (e : err) (terms : list filter) {struct f} : pres :=
  match f with
  | O => None
  | S f' =>
      match and_expr f' q e with
      | None => None
      | Some (t, q1, e1) =>
          let terms' := terms ++ [t] in
          let '(op, q2, q1', e2) := next false q1 e1 in
          match t_kind op with
          | KOr => expr_loop f' q2 e2 terms'
          | _ => Some (mk_or terms', q1', e2)
          end
      end
  end

with and_expr (f : nat) (q : bytes) (e : err) {struct f} : pres :=
  match f with
  | O => None
  | S f' =>
      match match_ f' q e with
      | None => None
      | Some (t, q1, e1) => and_loop f' q1 e1 [t]
      end
  end

with and_loop (f : nat) (q : bytes) (e : err) (terms : list filter) {struct f} : pres :=
  match f with
  | O => None
  | S f' =>
      let '(op, q2, q', e') := next false q e in
      let more (_ : unit) :=    (* a thunk: the extracted code is strict *)
        match match_ f' q' e' with
        | None => None
        | Some (t, q3, e3) => and_loop f' q3 e3 (terms ++ [t])
        end in
      match t_kind op with
      | KAnd => and_loop f' q2 e' terms
      | KWord | KQuoted => more tt
      | KEOF | KOr => Some (mk_and terms, q', e')
      | KOp c =>
          if Byte.eqb c c_lpar || Byte.eqb c c_minus || Byte.eqb c c_aster then more tt
          else if Byte.eqb c c_rpar then Some (mk_and terms, q', e')
          else perror q' e'                        (* unexpected token *)
      | KRegexp => perror q' e'                    (* not produced by keyOrOp *)
      end
  end

with match_ (f : nat) (start : bytes) (e : err) {struct f} : pres :=
  match f with
  | O => None
  | S f' =>
      let '(t, rest, start', e1) := next false start e in
      match t_kind t with
      | KOp c =>
          if Byte.eqb c c_lpar then
            match expr_loop f' rest e1 [] with
            | None => None
            | Some (x, r1, e2) =>
                let '(op, r2, r1', e3) := next false r1 e2 in
                if kind_eqb_op (t_kind op) c_rpar then Some (x, r2, e3)
                else perror r1' e3                 (* missing ")" *)
            end
          else if Byte.eqb c c_minus then
            match match_ f' rest e1 with
            | None => None
            | Some (x, r, e2) => Some (FNot x, r, e2)
            end
          else if Byte.eqb c c_aster then Some (FAnd [], rest, e1)
          else perror start' e1                    (* expected key:value or subexpression *)
      | KWord | KQuoted =>
          let off := t_off t in
          let key := t_text t in
          let '(op, r2, _, e2) := next false rest e1 in
          if negb (kind_eqb_op (t_kind op) c_colon) then perror start' e2   (* expected key:value *)
          else
            let '(v, r3, _, e3) := next true r2 e2 in
            if is_value (t_kind v) then Some (mk_match off key v, r3, e3)
            else if kind_eqb_op (t_kind v) c_lpar then vlist f' r3 e3 off key []
            else perror start' e3                  (* expected key:value *)
      | _ => perror start' e1                      (* expected key:value or subexpression *)
      end
  end.

Definition fuel_for (q : bytes) : nat := 4 * length q + 5.

Inductive outcome (A : Type) := Ok (a : A) | Err (off : nat) | OutOfFuel.
Arguments Ok {A}. Arguments Err {A}. Arguments OutOfFuel {A}.

Definition parse_filter_fuel (f : nat) (q : bytes) : outcome filter :=
  match expr_loop f q None [] with
  | None => OutOfFuel
  | Some (x, q1, e1) =>
      match tok_end is_space re_ok n0 q1 e1 with
      | Some off => Err off
      | None => Ok x
      end
  end.

End Parse.

Arguments Ok {A}. Arguments Err {A}. Arguments OutOfFuel {A}.

(** parse.ParseFilter *)
Definition parse_filter (is_space : N -> bool) (re_ok : bytes -> bool) (q : bytes) : outcome filter :=
  parse_filter_fuel is_space re_ok (length q) (fuel_for q) q.

(** ** semantic checks of benchproc.NewFilter: the walk reports the first
    offending match in left-to-right depth-first order *)
Definition key_unit : bytes := bs ".unit".
Definition key_config : bytes := bs ".config".

Fixpoint check_filter (x : filter) : option nat :=
  let fix first (l : list filter) : option nat :=
    match l with
    | [] => None
    | y :: l' => match check_filter y with Some o => Some o | None => first l' end
    end in
  match x with
  | FMatch key _ off =>
      if beq key key_unit then None
      else if beq key key_config then Some off         (* .config is only allowed in projections *)
      else if match key with [] => true | _ => false end then Some off                 (* key must not be empty *)
      else None
  | FAnd l => first l
  | FOr l => first l
  | FNot y => check_filter y
  end.

Definition new_filter (is_space : N -> bool) (re_ok : bytes -> bool) (q : bytes) : outcome filter :=
  match parse_filter is_space re_ok q with
  | Ok x => match check_filter x with Some off => Err off | None => Ok x end
  | r => r
  end.
