(** Model of cmd/benchstat/internal/benchtab/builder.go at the level of
    projected measurements: Builder.Add, Builder.ToTables, summarizeCell's
    non-singular-key warning and summarizeCol.

    Keys (table / row / column / residue Keys of benchproc) are abstract
    identifiers [N]; their sort order is supplied as rank functions (what
    benchproc.SortKeys does is C09's subject), and the statistics of a sample
    are supplied as functions (C13's subject). Go maps are association lists;
    everything that ranges over a map is shown independent of the order
    (Proofs/BenchTab.v). *)
From Perf Require Import Base.Bytes Base.B64.
From Coq Require Import Sorting.Permutation.

(** one measurement of one result after filtering and projection *)
Record meas := mkMeas { m_t : N; m_r : N; m_c : N; m_res : N; m_v : b64 }.

Record bcell := mkBcell { bc_r : N; bc_c : N; bc_vals : list b64; bc_res : list N }.
Record btab := mkBtab { bt_key : N; bt_cells : list bcell }.

Fixpoint set_add (x : N) (s : list N) : list N :=
  match s with
  | [] => [x]
  | y :: s' => if (y =? x)%N then s else y :: set_add x s'
  end.

Definition cell_is (r c : N) (x : bcell) : bool := (bc_r x =? r)%N && (bc_c x =? c)%N.

(** Builder.Add for one measurement: find or create the cell, append the value,
    record the residue key *)
Fixpoint cell_add (r c res : N) (v : b64) (cs : list bcell) : list bcell :=
  match cs with
  | [] => [mkBcell r c [v] [res]]
  | x :: cs' =>
      if cell_is r c x then mkBcell r c (bc_vals x ++ [v]) (set_add res (bc_res x)) :: cs'
      else x :: cell_add r c res v cs'
  end.

Fixpoint tab_add (m : meas) (ts : list btab) : list btab :=
  match ts with
  | [] => [mkBtab (m_t m) (cell_add (m_r m) (m_c m) (m_res m) (m_v m) [])]
  | t :: ts' =>
      if (bt_key t =? m_t m)%N
      then mkBtab (bt_key t) (cell_add (m_r m) (m_c m) (m_res m) (m_v m) (bt_cells t)) :: ts'
      else t :: tab_add m ts'
  end.

Definition build (ms : list meas) : list btab := fold_left (fun ts m => tab_add m ts) ms [].

(** lookups *)
Fixpoint find_cell (r c : N) (cs : list bcell) : option bcell :=
  match cs with
  | [] => None
  | x :: cs' => if cell_is r c x then Some x else find_cell r c cs'
  end.
Fixpoint find_tab (t : N) (ts : list btab) : option btab :=
  match ts with
  | [] => None
  | x :: ts' => if (bt_key x =? t)%N then Some x else find_tab t ts'
  end.
Definition lookup_cell (ts : list btab) (t r c : N) : option bcell :=
  match find_tab t ts with Some tb => find_cell r c (bt_cells tb) | None => None end.
Definition lookup_vals (ts : list btab) (t r c : N) : list b64 :=
  match lookup_cell ts t r c with Some x => bc_vals x | None => [] end.
Definition lookup_res (ts : list btab) (t r c : N) : list N :=
  match lookup_cell ts t r c with Some x => bc_res x | None => [] end.

Definition m_is (t r c : N) (m : meas) : bool := (m_t m =? t)%N && (m_r m =? r)%N && (m_c m =? c)%N.

(** ** sorting keys by rank (benchproc.SortKeys through its rank) *)
Fixpoint insert_by (rank : N -> N) (x : N) (l : list N) : list N :=
  match l with
  | [] => [x]
  | y :: l' => if (rank x <? rank y)%N then x :: l else y :: insert_by rank x l'
  end.
Fixpoint sort_by (rank : N -> N) (l : list N) : list N :=
  match l with [] => [] | x :: l' => insert_by rank x (sort_by rank l') end.

Fixpoint dedup (l : list N) : list N :=
  match l with
  | [] => []
  | x :: l' => if existsb (N.eqb x) l' then dedup l' else x :: dedup l'
  end.

(** ** the specification of the builder, straight from the measurement list:
    the table with key [t] has one cell per (row, col) under which some
    measurement of [t] falls, holding exactly those measurements' values in input
    order and their residue keys in first-seen order *)
Definition dedup_first (l : list N) : list N := fold_left (fun s x => set_add x s) l [].

Definition spec_cell (ms : list meas) (t r c : N) : option bcell :=
  match filter (m_is t r c) ms with
  | [] => None
  | l => Some (mkBcell r c (map m_v l) (dedup_first (map m_res l)))
  end.

Definition opt_to_list {A} (o : option A) : list A := match o with Some x => [x] | None => [] end.

Definition spec_tab (ms : list meas) (t : N) : btab :=
  let mt := filter (fun m => (m_t m =? t)%N) ms in
  let rows := dedup (map m_r mt) in
  let cols := dedup (map m_c mt) in
  mkBtab t (flat_map (fun r => flat_map (fun cl => opt_to_list (spec_cell ms t r cl)) cols) rows).

(** ** sorting a sample (benchmath.NewSample: sort.Float64s; NaNs first) and the
    canonical total order used to compare samples as multisets *)
Definition f64_less (x y : b64) : bool := b64_lt x y || (b64_is_nan x && negb (b64_is_nan y)).
Definition f64_total_less (x y : b64) : bool :=
  f64_less x y || (negb (f64_less y x) && (bits_of_b64 x <? bits_of_b64 y)%Z).
Fixpoint finsert (x : b64) (l : list b64) : list b64 :=
  match l with
  | [] => [x]
  | y :: l' => if f64_total_less x y then x :: l else y :: finsert x l'
  end.
Fixpoint fsort (l : list b64) : list b64 :=
  match l with [] => [] | x :: l' => finsert x (fsort l') end.

(** ** non-singular residue fields (benchproc.NonSingularFields): [vals k] is the
    tuple of flattened field values of residue key [k]; the result lists the
    indices of the fields on which some key differs from the first *)
Section NonSingular.
  Variable vals : N -> list bytes.
  Variable nfields : nat.
  Definition fval (k : N) (i : nat) : bytes := nth i (vals k) [].
  Definition nonsingular (keys : list N) : list nat :=
    match keys with
    | [] | [_] => []
    | k0 :: rest =>
        filter (fun i => existsb (fun k => negb (beq (fval k i) (fval k0 i))) rest) (seq 0 nfields)
    end.
End NonSingular.

(** ** ToTables *)
Section ToTables.
  Variables rank_t rank_r rank_c : N -> N.
  (** statistics supplied from outside: the centre of a (sorted) sample and the
      geometric mean of a list of positive floats *)
  Variable centre : list b64 -> b64.
  Variable geomean : list b64 -> b64.

  Definition rows_of (cs : list bcell) : list N := sort_by rank_r (dedup (map bc_r cs)).
  Definition cols_of (cs : list bcell) : list N := sort_by rank_c (dedup (map bc_c cs)).

  Record ocell := mkOcell {
    oc_r : N; oc_c : N;
    oc_sample : list b64;              (* the cell's sample, sorted *)
    oc_base : option (list b64);       (* the baseline cell's sample, if compared *)
    oc_res : list N                    (* residue keys merged into the cell *)
  }.

  Record colsum := mkColsum {
    cs_col : N;
    cs_warn_set : bool;      (* "benchmark set differs from baseline" *)
    cs_has_summary : bool;
    cs_summary : b64;
    cs_has_ratio : bool;
    cs_ratio : b64
  }.

  Record otab := mkOtab {
    ot_key : N; ot_rows : list N; ot_cols : list N;
    ot_cells : list ocell;             (* row-major over rows x cols, present cells only *)
    ot_sums : list colsum
  }.

  Definition sample_of (x : bcell) : list b64 := fsort (bc_vals x).

  Definition mk_ocell (cs : list bcell) (base : option N) (r c : N) : option ocell :=
    match find_cell r c cs with
    | None => None
    | Some x =>
        let b := match base with
                 | Some c0 => if (c =? c0)%N then None
                              else option_map sample_of (find_cell r c0 cs)
                 | None => None
                 end in
        Some (mkOcell r c (sample_of x) b (bc_res x))
    end.

  Fixpoint somes {A} (l : list (option A)) : list A :=
    match l with [] => [] | Some x :: l' => x :: somes l' | None :: l' => somes l' end.

  Definition cells_out (cs : list bcell) (rows cols : list N) : list ocell :=
    let base := match cols with c0 :: _ => Some c0 | [] => None end in
    somes (flat_map (fun r => map (fun c => mk_ocell cs base r c) cols) rows).

  (** summarizeCol (with the repaired set-difference test) *)
  Definition has_cell (cs : list bcell) (c : N) (r : N) : bool :=
    match find_cell r c cs with Some _ => true | None => false end.

  (* one row of the walk: summaries, ratios, badRatio *)
  Definition sum_step (cs : list bcell) (c0 col : N) (is_base : bool)
             (acc : list b64 * list b64 * bool) (r : N) : list b64 * list b64 * bool :=
    let '(sums, ratios, bad) := acc in
    match find_cell r col cs with
    | None => acc
    | Some x =>
        let a := centre (sample_of x) in
        let sums' := sums ++ [a] in
        if is_base then (sums', ratios, bad) else
        match find_cell r c0 cs with
        | None => (sums', ratios, bad)
        | Some xb =>
            let b := centre (sample_of xb) in
            if b64_eq a b then (sums', ratios ++ [b64_one], bad)
            else if b64_eq b b64_zero then (sums', ratios ++ [b64_zero], true)
            else (sums', ratios ++ [b64_div a b], bad)
        end
    end.

  Definition set_warning (n_base n_sums n_ratios : nat) (is_base : bool) : bool :=
    negb is_base && (negb (Nat.eqb n_base n_ratios) || negb (Nat.eqb n_sums n_ratios)).

  Definition col_summary (cs : list bcell) (rows : list N) (c0 : N) (is_base : bool) (col : N) : colsum :=
    let n_base := length (filter (has_cell cs c0) rows) in
    let '(sums, ratios, bad) := fold_left (sum_step cs c0 col is_base) rows ([], [], false) in
    let warn := set_warning n_base (length sums) (length ratios) is_base in
    let gm := geomean sums in
    let gr := geomean ratios in
    let has_ratio := negb is_base && negb bad && negb (b64_is_nan gr) in
    mkColsum col warn (negb (b64_is_nan gm)) gm has_ratio gr.

  Definition table_out (t : btab) : otab :=
    let cs := bt_cells t in
    let rows := rows_of cs in
    let cols := cols_of cs in
    let sums := match cols with
                | [] => []
                | c0 :: _ => map (fun '(i, c) => col_summary cs rows c0 (Nat.eqb i 0) c)
                                 (combine (seq 0 (length cols)) cols)
                end in
    mkOtab (bt_key t) rows cols (cells_out cs rows cols) sums.

  Definition to_tables (ts : list btab) : list otab :=
    let keys := sort_by rank_t (map bt_key ts) in
    somes (map (fun k => option_map table_out (find_tab k ts)) keys).

  (** what benchstat must show for a list of measurements, by specification *)
  Definition spec_tables (ms : list meas) : list otab :=
    map (fun t => table_out (spec_tab ms t)) (sort_by rank_t (dedup (map m_t ms))).
End ToTables.
