(** Model of benchproc/filter.go: compilation of a filter tree into functions
    returning (mask, bool), the NOT/AND/OR combinators with their short-circuit
    and "adopt the first mask" structure, 32-bit mask words, and
    Match.All/Any/Test/Apply; plus the fixed-list filters that
    ProjectionParser.Parse conjoins (benchproc/projection.go makeFilter).

    [rematch re v] stands for Regexp.Match of the regexp with source
    text [re] on [v] (Section variable; evaluated with a per-case table).
    The specification [denote] is ordinary boolean semantics per measurement. *)
From Perf Require Import Base.Bytes Model.Name Model.Extract Model.FilterAst Model.FilterParse Model.ProjParse.
Local Open Scope N_scope.

(** a result as far as filters can see it: name, configuration, and per
    measurement (Unit, OrigUnit) *)
Record fresult := mkRes { fr_name : bytes; fr_cfg : list cfg; fr_units : list (bytes * bytes) }.

Definition mask := list N.            (* []uint32 *)
Definition two32 : N := 4294967296.
Definition ones32 : N := 4294967295.

Definition nwords (n : nat) : nat := (n + 31) / 32.
Definition new_mask (n : nat) : mask := repeat 0 (nwords n).

(** m[i/32] |= 1 << (i%32) *)
Fixpoint set_word (m : mask) (w : nat) (bit : N) : mask :=
  match m, w with
  | [], _ => []
  | x :: m', O => N.lor x (N.shiftl 1 bit mod two32) :: m'
  | x :: m', S w' => x :: set_word m' w' bit
  end.
Definition mask_set (m : mask) (i : nat) : mask := set_word m (i / 32) (N.of_nat (i mod 32)).

Fixpoint map2 (f : N -> N -> N) (a b : mask) : mask :=
  match a, b with
  | x :: a', y :: b' => f x y :: map2 f a' b'
  | _, _ => []            (* for i := range m over equal lengths *)
  end.
Definition mask_and : mask -> mask -> mask := map2 N.land.
Definition mask_or : mask -> mask -> mask := map2 N.lor.
(** ^m[i] on uint32 *)
Definition not32 (x : N) : N := N.lxor x ones32 mod two32.
Definition mask_not (m : mask) : mask := map not32 m.

Definition fres := (option mask * bool)%type.

Section Eval.
Variable rematch : bytes -> bytes -> bool.

Definition matches (m : matcher) (v : bytes) : bool :=
  match m with MLit s => beq s v | MRe re => rematch re v end.

(** the .unit closure: a fresh mask with the measurements whose base or
    (non-empty) written unit matches *)
Fixpoint unit_mask (m : matcher) (us : list (bytes * bytes)) (i : nat) (acc : mask) : mask :=
  match us with
  | [] => acc
  | (u, ou) :: us' =>
      let hit := matches m u || (negb (is_nil ou) && matches m ou) in
      unit_mask m us' (S i) (if hit then mask_set acc i else acc)
  end.

(** the AND loop of filterOp over the sub-results, in order *)
Fixpoint and_fold (rs : list fres) (m : option mask) : fres :=
  match rs with
  | [] => (m, true)
  | (None, x) :: rs' => if x then and_fold rs' m else (None, false)   (* short-circuit *)
  | (Some m2, _) :: rs' =>
      match m with
      | None => and_fold rs' (Some m2)
      | Some m1 => and_fold rs' (Some (mask_and m1 m2))
      end
  end.

Fixpoint or_fold (rs : list fres) (m : option mask) : fres :=
  match rs with
  | [] => (m, false)
  | (None, x) :: rs' => if x then (None, true) else or_fold rs' m     (* short-circuit *)
  | (Some m2, _) :: rs' =>
      match m with
      | None => or_fold rs' (Some m2)
      | Some m1 => or_fold rs' (Some (mask_or m1 m2))
      end
  end.

Definition not_res (r : fres) : fres :=
  match r with
  | (None, x) => (None, negb x)
  | (Some m, _) => (Some (mask_not m), false)
  end.

Fixpoint eval (f : filter) (r : fresult) : fres :=
  match f with
  | FMatch key m _ =>
      if beq key key_unit then
        (Some (unit_mask m (fr_units r) 0 (new_mask (length (fr_units r)))), false)
      else (None, matches m (extract key (fr_name r) (fr_cfg r)))
  | FNot g => not_res (eval g r)
  | FAnd l => and_fold (map (fun g => eval g r) l) None
  | FOr l => or_fold (map (fun g => eval g r) l) None
  end.

(** ** Match{n, m, x} *)
Definition high_bits (n i : nat) : N := N.shiftl ones32 (N.of_nat (n - i * 32)) mod two32.

Fixpoint all_words (n : nat) (m : mask) (i : nat) : bool :=
  match m with
  | [] => true
  | x :: m' => if N.eqb (N.lor x (high_bits n i)) ones32 then all_words n m' (S i) else false
  end.
Fixpoint any_words (n : nat) (m : mask) (i : nat) : bool :=
  match m with
  | [] => false
  | x :: m' => if negb (N.eqb (N.ldiff x (high_bits n i)) 0) then true else any_words n m' (S i)
  end.

Definition match_all (n : nat) (r : fres) : bool :=
  match r with (None, x) => x | (Some m, _) => all_words n m 0 end.
Definition match_any (n : nat) (r : fres) : bool :=
  match r with (None, x) => x | (Some m, _) => any_words n m 0 end.
Definition match_test (n : nat) (r : fres) (i : nat) : bool :=
  if (n <=? i)%nat then false else
  match r with
  | (None, x) => x
  | (Some m, _) => negb (N.eqb (N.land (nth (i / 32) m 0) (N.shiftl 1 (N.of_nat (i mod 32)) mod two32)) 0)
  end.

Fixpoint keep {A} (test : nat -> bool) (vals : list A) (i : nat) : list A :=
  match vals with
  | [] => []
  | v :: vals' => if test i then v :: keep test vals' (S i) else keep test vals' (S i)
  end.

(** Match.Apply: remaining values and the return value *)
Definition match_apply {A} (r : fres) (vals : list A) : list A * bool :=
  let n := length vals in
  if match_all n r then (vals, true)
  else if negb (match_any n r) then ([], false)
  else let kept := keep (match_test n r) vals 0 in (kept, negb (is_nil kept)).

(** Filter.Match / Filter.Apply over the result as state: (result afterwards,
    answer).  Match hands the result back as it received it; Apply rewrites
    the measurements (res.Values). *)
Definition filter_match (f : filter) (r : fresult) : fresult * fres := (r, eval f r).
Definition filter_apply (f : filter) (r : fresult) : fresult * bool :=
  let '(kept, ret) := match_apply (eval f r) (fr_units r) in
  (mkRes (fr_name r) (fr_cfg r) kept, ret).

(** ** specification: ordinary boolean semantics, per measurement *)
Definition unit_hit (m : matcher) (u : bytes * bytes) : bool :=
  matches m (fst u) || (negb (is_nil (snd u)) && matches m (snd u)).

Fixpoint denote (f : filter) (r : fresult) (i : nat) : bool :=
  match f with
  | FMatch key m _ =>
      if beq key key_unit then
        match nth_error (fr_units r) i with Some u => unit_hit m u | None => false end
      else matches m (extract key (fr_name r) (fr_cfg r))
  | FNot g => negb (denote g r i)
  | FAnd l => forallb (fun g => denote g r i) l
  | FOr l => existsb (fun g => denote g r i) l
  end.

(** ** fixed-list filters conjoined by ProjectionParser.Parse *)
Definition proj_value (all_keys : list bytes) (key : bytes) (r : fresult) : bytes :=
  if beq key key_fullname then extractor_fullname all_keys (fr_name r)
  else extract key (fr_name r) (fr_cfg r).

(** the filter part of one field (only fixed orders have one; .config cannot be
    fixed; the fields come from an ACCEPTED projection, so a fixed order has at
    least one value -- key@fixed and key@() are rejected by C07's new_projection) *)
Definition field_filter (all_keys : list bytes) (p : pfield) (r : fresult) : option fres :=
  if beq (pf_order p) ord_fixed
  then Some (None, existsb (beq (proj_value all_keys (pf_key p) r)) (pf_fixed p))
  else None.

Fixpoint opt_list_filter {A} (l : list (option A)) : list A :=
  match l with [] => [] | Some x :: l' => x :: opt_list_filter l' | None :: l' => opt_list_filter l' end.

(** Parse of the projections [ps] in order, each wrapping the filter built so far *)
Fixpoint wrap (all_keys : list bytes) (ps : list (list pfield)) (r : fresult) (inner : fres) : fres :=
  match ps with
  | [] => inner
  | fields :: ps' =>
      let parts := opt_list_filter (map (fun p => field_filter all_keys p r) fields) in
      let cur := match parts with [] => inner | _ => and_fold (parts ++ [inner]) None end in
      wrap all_keys ps' r cur
  end.

End Eval.

(** specification of the fixed-list filters: a field with a fixed order keeps
    the result iff its PROJECTED value is one of the listed words; other
    fields keep everything; a group of projections keeps what all its fields keep *)
Definition field_keeps (all_keys : list bytes) (p : pfield) (r : fresult) : bool :=
  negb (beq (pf_order p) ord_fixed)
  || existsb (beq (proj_value all_keys (pf_key p) r)) (pf_fixed p).
Definition fixed_keeps (all_keys : list bytes) (ps : list (list pfield)) (r : fresult) : bool :=
  forallb (fun p => field_keeps all_keys p r) (concat ps).

(** keys that the parser records as excluded from .fullname *)
Definition fullname_keys (ps : list (list pfield)) : list bytes :=
  List.filter (fun k => beq k key_name || is_subname_key k) (map pf_key (concat ps)).
