(** StatsF: binary64 models of the descriptive statistics of
    golang.org/x/perf/internal/stats/sample.go (identical, line for line, to
    github.com/aclements/go-moremath/stats/sample.go), exactly as coded, for
    samples with [Weights == nil].

    Go function                         model
    ----------------------------------  ------------------------------------
    Mean(xs), Sample.Mean               [mean_f xs]
    Variance(xs), Sample.Variance       [variance_f xs]
    StdDev(xs), Sample.StdDev           [stddev_f xs]
    GeoMean(xs), Sample.GeoMean         [geomean_f log exp xs]   (oracles)
    Bounds(xs)                          [bounds_f xs]
    Sample.Bounds                       [sample_bounds_f sorted xs]
    vecSum(xs), Sample.Sum              [vecsum_f xs]
    Sample.Weight                       [weight_f xs]
    Sample.Percentile / Sample.Quantile [percentile_f sorted xs p] (R8)
    Sample.IQR                          [iqr_f sorted xs]
    Sample.Sort (sort.Float64s)         [sort_f xs]
    math.Modf                           [modf_f x]  (exact, as math/modf.go)

    Values are [b64 = spec_float] (Base/B64.v); every [+ - * / sqrt] is one
    correctly rounded IEEE operation (Go on amd64: no FMA contraction).
    math.Log / math.Exp are arguments [b64 -> option b64] (None = the oracle
    table of the case lacks the argument). No proofs in this file. *)
From Coq Require Import ZArith List Bool.
From Perf Require Import Base.B64.
Import ListNotations.
Local Open Scope Z_scope.

Definition f_nan : b64 := S754_nan.
Definition f_zero : b64 := S754_zero false.
Definition f_half : b64 := b64_of_ZE 1 (-1).
Definition f_quarter : b64 := b64_of_ZE 1 (-2).
Definition f_three_quarters : b64 := b64_of_ZE 3 (-2).
(** the Go constant expression [1/3.0] converted to float64 *)
Definition f_third : b64 := b64_div (b64_of_Z 1) (b64_of_Z 3).

(** float64(len(xs)) *)
Definition f_len (xs : list b64) : b64 := b64_of_Z (Z.of_nat (length xs)).

(** ** vecSum *)
Definition vecsum_f (xs : list b64) : b64 := fold_left b64_add xs f_zero.

(** Sample.Weight with Weights == nil *)
Definition weight_f (xs : list b64) : b64 := f_len xs.

(** ** Mean: m += (x - m) / float64(i+1) *)
Definition mean_step (m : b64) (i : Z) (x : b64) : b64 :=
  b64_add m (b64_div (b64_sub x m) (b64_of_Z (i + 1))).

Fixpoint mean_loop (m : b64) (i : Z) (xs : list b64) : b64 :=
  match xs with
  | [] => m
  | x :: xs' => mean_loop (mean_step m i x) (i + 1) xs'
  end.

Definition mean_f (xs : list b64) : b64 :=
  match xs with
  | [] => f_nan
  | _ => mean_loop f_zero 0 xs
  end.

(** ** Variance (Welford as coded):
      delta := x - mean; mean += delta / float64(n+1); M2 += delta * (x - mean) *)
Definition welford_step (st : b64 * b64) (n : Z) (x : b64) : b64 * b64 :=
  let '(mean, M2) := st in
  let delta := b64_sub x mean in
  let mean' := b64_add mean (b64_div delta (b64_of_Z (n + 1))) in
  let M2' := b64_add M2 (b64_mul delta (b64_sub x mean')) in
  (mean', M2').

Fixpoint welford_loop (st : b64 * b64) (n : Z) (xs : list b64) : b64 * b64 :=
  match xs with
  | [] => st
  | x :: xs' => welford_loop (welford_step st n x) (n + 1) xs'
  end.

Definition variance_f (xs : list b64) : b64 :=
  match xs with
  | [] => f_nan
  | [_] => f_zero
  | _ => let '(_, M2) := welford_loop (f_zero, f_zero) 0 xs in
         b64_div M2 (b64_of_Z (Z.of_nat (length xs) - 1))
  end.

(** ** StdDev = math.Sqrt(Variance) (SQRTSD: correctly rounded) *)
Definition stddev_f (xs : list b64) : b64 := b64_sqrt (variance_f xs).

(** ** GeoMean: incremental mean of math.Log(x), then math.Exp; NaN as soon as
    an x <= 0 is met (a NaN x is not <= 0 and goes through Log) *)
Section GeoMean.
  Variable log_o exp_o : b64 -> option b64.

  (** result: None = oracle miss; Some r = returned value *)
  Fixpoint geomean_loop (m : b64) (i : Z) (xs : list b64) : option b64 :=
    match xs with
    | [] => exp_o m
    | x :: xs' =>
        if b64_le x f_zero then Some f_nan
        else match log_o x with
             | None => None
             | Some lx => geomean_loop (mean_step m i lx) (i + 1) xs'
             end
    end.

  Definition geomean_f (xs : list b64) : option b64 :=
    match xs with
    | [] => Some f_nan
    | _ => geomean_loop f_zero 0 xs
    end.

  (** the argument handed to math.Exp (for harness-side oracle construction
      and for tolerance statements) *)
  Fixpoint geomean_logmean (m : b64) (i : Z) (xs : list b64) : option b64 :=
    match xs with
    | [] => Some m
    | x :: xs' =>
        if b64_le x f_zero then None
        else match log_o x with
             | None => None
             | Some lx => geomean_logmean (mean_step m i lx) (i + 1) xs'
             end
    end.
End GeoMean.

(** ** Bounds: min, max = xs[0], xs[0]; if x < min {min = x}; if x > max {max = x} *)
Definition bounds_step (st : b64 * b64) (x : b64) : b64 * b64 :=
  let '(mn, mx) := st in
  (if b64_lt x mn then x else mn, if b64_gt x mx then x else mx).

Definition bounds_f (xs : list b64) : b64 * b64 :=
  match xs with
  | [] => (f_nan, f_nan)
  | x0 :: _ => fold_left bounds_step xs (x0, x0)
  end.

(** Sample.Bounds, Weights == nil *)
Definition sample_bounds_f (sorted : bool) (xs : list b64) : b64 * b64 :=
  match xs with
  | [] => bounds_f xs
  | x0 :: _ => if sorted then (x0, last xs f_nan) else bounds_f xs
  end.

(** ** Sort: sort.Float64s on finite values = ascending order by [<].
    Stable insertion sort; the order among -0 and +0 (equal under [<]) is the
    only place where an unstable sort may differ, see the generator's notes. *)
Fixpoint insert_f (x : b64) (l : list b64) : list b64 :=
  match l with
  | [] => [x]
  | y :: l' => if b64_le x y then x :: l else y :: insert_f x l'
  end.
Definition sort_f (xs : list b64) : list b64 := fold_right insert_f [] xs.

(** ** math.Modf as in math/modf.go (exact: both parts are representable) *)
Definition modf_abs (m : positive) (e : Z) : b64 * b64 :=
  (* |f| = m * 2^e, returns (int part, frac part) of the absolute value *)
  if 0 <=? e then (S754_finite false m e, f_zero)
  else
    let q := Z.shiftr (Zpos m) (- e) in
    let ip := b64_of_Z q in
    (ip, b64_sub (S754_finite false m e) ip).

Definition modf_f (x : b64) : b64 * b64 :=
  match x with
  | S754_nan => (f_nan, f_nan)
  | S754_infinity _ => (x, f_nan)
  | S754_zero _ => (x, x)
  | S754_finite s m e =>
      let '(ip, fr) := modf_abs m e in
      if s then (b64_neg ip, b64_neg fr) else (ip, fr)
  end.

(** Go's int(f) for a float holding an integer value in range; None when the
    conversion is implementation-defined (NaN, Inf, beyond int64) *)
Definition b64_to_int (x : b64) : option Z :=
  match x with
  | S754_zero _ => Some 0
  | S754_finite s m e =>
      let a := if 0 <=? e then Z.shiftl (Zpos m) e else Z.shiftr (Zpos m) (- e) in
      if a <? 2 ^ 63 then Some (if s then - a else a) else None
  | _ => None
  end.

(** ** Percentile / Quantile, method R8 (Weights == nil) *)
Definition nth_f (xs : list b64) (k : Z) : b64 := nth (Z.to_nat k) xs f_nan.

(** position: n := 1/3.0 + pctile*(N+1/3.0) *)
Definition r8_pos_f (len : Z) (p : b64) : b64 :=
  b64_add f_third (b64_mul p (b64_add (b64_of_Z len) f_third)).

(** the interpolation on a slice assumed sorted, for 0 < p < 1 *)
Definition percentile_sorted_f (xs : list b64) (p : b64) : b64 :=
  let len := Z.of_nat (length xs) in
  let '(kf, frac) := modf_f (r8_pos_f len p) in
  match b64_to_int kf with
  | None => f_nan  (* int(NaN): only for NaN p, implementation-defined in Go *)
  | Some k =>
      if k <=? 0 then nth_f xs 0
      else if len <=? k then nth_f xs (len - 1)
      else
        let a := nth_f xs (k - 1) in
        let b := nth_f xs k in
        b64_add a (b64_mul frac (b64_sub b a))
  end.

Definition percentile_f (sorted : bool) (xs : list b64) (p : b64) : b64 :=
  match xs with
  | [] => f_nan
  | _ =>
      if b64_le p f_zero then fst (sample_bounds_f sorted xs)
      else if b64_ge p b64_one then snd (sample_bounds_f sorted xs)
      else percentile_sorted_f (if sorted then xs else sort_f xs) p
  end.

(** go-moremath's name for the same code *)
Definition quantile_f := percentile_f.
(** names used by other models *)
Definition percentile_r8_f := percentile_f.
Definition median_f (sorted : bool) (xs : list b64) : b64 := percentile_f sorted xs f_half.

(** ** IQR: sorts a copy if needed, then Percentile(0.75) - Percentile(0.25) *)
Definition iqr_f (sorted : bool) (xs : list b64) : b64 :=
  let s := if sorted then xs else sort_f xs in
  b64_sub (percentile_f true s f_three_quarters) (percentile_f true s f_quarter).
