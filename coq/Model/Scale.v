(** Model of benchunit/scale.go (Scaler.Format, NoOpScaler, the threshold
    tables built at init, CommonScale, Scale) and of ClassOf with its unit
    parser (benchunit/parse.go).  Executable definitions only. *)
From Perf Require Import Base.Bytes Base.B64 Base.FmtFixed.
Local Open Scope Z_scope.

(** ** classes; Go's [Class] is an int, any other value makes CommonScale panic *)
Inductive class := Decimal | Binary | BadClass.

Record scaler := mkScaler {
  s_prec : Z;          (* digits after the point; negative = shortest *)
  s_factor : b64;
  s_prefix : bytes
}.

Record factor := mkFactor {
  f_factor : b64;
  f_prefix : bytes;
  f_t100 : b64;   (* from here up: 100.0 .. *)
  f_t10 : b64;    (* 10.00 .. *)
  f_t1 : b64      (* 1.000 .. *)
}.

(** ** the tables, by the code's own recipe

    [strconv.ParseFloat(fmt.Sprintf("99.995e%d", exp))] is the correctly
    rounded binary64 of that decimal: [b64_of_dec]. [math.Pow(10, n)] for
    |n| <= 12 is exact for n >= 0 and [1 / 10^-n] (one rounding) for n < 0;
    [math.Pow(2, n)] is exact.  The real values are read back from the
    implementation by the harness on every run and compared (RunC10, case
    kind 0), and [tables_agree] (Proofs/ScaleTables.v) pins the bit patterns. *)
Definition pow10_b64 (n : Z) : b64 :=
  match n with
  | Zneg k => b64_div b64_one (b64_of_Z (10 ^ Zpos k))
  | _ => b64_of_Z (10 ^ n)
  end.

Definition mk_si_factor (exp : Z) (prefix : bytes) : factor :=
  mkFactor (pow10_b64 exp) prefix
    (b64_of_dec false 99995 (exp - 3))     (* "99.995e<exp>" *)
    (b64_of_dec false 99995 (exp - 4))     (* "9.9995e<exp>" *)
    (b64_of_dec false 99995 (exp - 5)).    (* ".99995e<exp>" *)

(** "µ" is U+00B5, UTF-8 c2 b5 *)
Definition si_prefixes : list bytes :=
  [bs "T"; bs "G"; bs "M"; bs "k"; []; bs "m"; [xc2; xb5]; bs "n"].

Fixpoint mk_factors (mk : Z -> bytes -> factor) (exp step : Z) (ps : list bytes) : list factor :=
  match ps with
  | [] => []
  | p :: ps' => mk exp p :: mk_factors mk (exp - step) step ps'
  end.

Definition si_factors_recipe : list factor := mk_factors mk_si_factor 12 3 si_prefixes.

(** hex float literals "0x1.8ffae147ae148p<6+exp>" etc.: exact *)
Definition mk_iec_factor (exp : Z) (prefix : bytes) : factor :=
  mkFactor (b64_of_ZE 1 exp) prefix
    (b64_of_ZE 0x18ffae147ae148 (6 + exp - 52))
    (b64_of_ZE 0x13ffbe76c8b439 (3 + exp - 52))
    (b64_of_ZE 0x1fff972474538f (-1 + exp - 52)).

Definition iec_prefixes : list bytes := [bs "Ti"; bs "Gi"; bs "Mi"; bs "Ki"; []].
Definition iec_factors_recipe : list factor := mk_factors mk_iec_factor 40 10 iec_prefixes.

(** "9.9995e<exp>" for exp = -1 .. -8 *)
Definition sigfigs_recipe : list b64 :=
  map (fun exp => b64_of_dec false 99995 (exp - 4)) [-1; -2; -3; -4; -5; -6; -7; -8].
Definition sigfigs_base : Z := 3.

Definition si_factors : list factor := Eval vm_compute in si_factors_recipe.
Definition iec_factors : list factor := Eval vm_compute in iec_factors_recipe.
Definition sigfigs : list b64 := Eval vm_compute in sigfigs_recipe.

(** ** Scaler.Format.  [shortest] stands for
    [strconv.AppendFloat(_, x, 'f', -1, 64)] (library oracle). *)
Definition format (shortest : b64 -> bytes) (s : scaler) (v : b64) : bytes :=
  let q := b64_div v (s_factor s) in
  (if s_prec s <? 0 then shortest q else fmt_fixed q (Z.to_nat (s_prec s))) ++ s_prefix s.

Definition noop_scaler : scaler := mkScaler (-1) b64_one [].

(** ** CommonScale *)
Definition min_step (mn v : b64) : b64 :=
  let a := b64_abs v in
  if negb (b64_eq a b64_zero) && (b64_eq mn b64_zero || b64_lt a mn) then a else mn.

Definition min_nonzero (vals : list b64) : b64 := fold_left min_step vals b64_zero.

Fixpoint pick_factor (mn : b64) (fs : list factor) : option scaler :=
  match fs with
  | [] => None
  | f :: fs' =>
      if b64_ge mn (f_t100 f) then Some (mkScaler 1 (f_factor f) (f_prefix f))
      else if b64_ge mn (f_t10 f) then Some (mkScaler 2 (f_factor f) (f_prefix f))
      else if b64_ge mn (f_t1 f) then Some (mkScaler 3 (f_factor f) (f_prefix f))
      else pick_factor mn fs'
  end.

(** index of the first sigfigs threshold reached, or of the last entry *)
Fixpoint pick_sigfig (val : b64) (ths : list b64) (i : Z) : option Z :=
  match ths with
  | [] => None                      (* "not reachable" panic: empty table *)
  | [th] => Some i                  (* i == len(sigfigs)-1 *)
  | th :: ths' => if b64_ge val th then Some i else pick_sigfig val ths' (i + 1)
  end.

Fixpoint last_factor (fs : list factor) : option factor :=
  match fs with
  | [] => None
  | [f] => Some f
  | _ :: fs' => last_factor fs'
  end.

Definition factors_of (cls : class) : option (list factor) :=
  match cls with
  | Decimal => Some si_factors
  | Binary => Some iec_factors
  | BadClass => None
  end.

(** [None] = panic *)
Definition common_scale_min (mn : b64) (cls : class) : option scaler :=
  if b64_eq mn b64_zero then Some (mkScaler 3 b64_one [])
  else
    match factors_of cls with
    | None => None
    | Some fs =>
        match pick_factor mn fs with
        | Some s => Some s
        | None =>
            match last_factor fs with
            | None => None
            | Some f =>
                match pick_sigfig (b64_div mn (f_factor f)) sigfigs 0 with
                | Some i => Some (mkScaler (i + sigfigs_base) (f_factor f) (f_prefix f))
                | None => None
                end
            end
        end
    end.

Definition common_scale (vals : list b64) (cls : class) : option scaler :=
  common_scale_min (min_nonzero vals) cls.

(** Scale(val, cls) *)
Definition scale (shortest : b64 -> bytes) (val : b64) (cls : class) : option bytes :=
  match common_scale [val] cls with
  | Some s => Some (format shortest s val)
  | None => None
  end.

(** ** ClassOf and the unit parser *)

(** separators as the parser's [range] loop sees them.  [unicode.IsSpace]: in
    Latin-1 \t \n \v \f \r space U+0085 U+00A0; beyond it the White_Space
    table U+1680, U+2000-200A, U+2028, U+2029, U+202F, U+205F, U+3000.  A lead
    byte of a multi-byte sequence is never a continuation byte, so these byte
    patterns can only occur at rune boundaries; invalid UTF-8 decodes to
    U+FFFD, width 1, which is no separator. *)
Inductive sepkind := SepStar | SepSlash | SepOther.

Definition sep_at (s : bytes) : option (sepkind * bytes) :=
  match s with
  | c :: r =>
      let n := bN c in
      if (n =? 42)%N then Some (SepStar, r)
      else if (n =? 47)%N then Some (SepSlash, r)
      else if (n =? 45)%N || (n =? 32)%N || ((9 <=? n)%N && (n <=? 13)%N) then Some (SepOther, r)
      else if (n =? 0xc2)%N then
        match r with
        | d :: r' => if (bN d =? 0x85)%N || (bN d =? 0xa0)%N then Some (SepOther, r') else None
        | [] => None
        end
      else if (n =? 0xe1)%N then
        match r with
        | d1 :: d2 :: r' => if (bN d1 =? 0x9a)%N && (bN d2 =? 0x80)%N then Some (SepOther, r') else None
        | _ => None
        end
      else if (n =? 0xe2)%N then
        match r with
        | d1 :: d2 :: r' =>
            let a := bN d1 in let b := bN d2 in
            if ((a =? 0x80)%N && (((0x80 <=? b)%N && (b <=? 0x8a)%N) || (b =? 0xa8)%N || (b =? 0xa9)%N || (b =? 0xaf)%N))
               || ((a =? 0x81)%N && (b =? 0x9f)%N)
            then Some (SepOther, r') else None
        | _ => None
        end
      else if (n =? 0xe3)%N then
        match r with
        | d1 :: d2 :: r' => if (bN d1 =? 0x80)%N && (bN d2 =? 0x80)%N then Some (SepOther, r') else None
        | _ => None
        end
      else None
  | [] => None
  end.

(** one token: bytes up to the next separator *)
Fixpoint take_tok (fuel : nat) (s : bytes) (acc : bytes) : bytes * bytes :=
  match fuel with
  | O => (rev acc, s)
  | S f =>
      match s with
      | [] => (rev acc, [])
      | c :: r =>
          match sep_at s with
          | Some _ => (rev acc, s)
          | None => take_tok f r (c :: acc)
          end
      end
  end.

(** the parser as a token stream: (token, in denominator) *)
Fixpoint unit_tokens (fuel : nat) (s : bytes) (denom : bool) : list (bytes * bool) :=
  match fuel with
  | O => []
  | S f =>
      match s with
      | [] => []
      | _ :: _ =>
          match sep_at s with
          | Some (SepStar, r) => unit_tokens f r false
          | Some (SepSlash, r) => unit_tokens f r true
          | Some (SepOther, r) => unit_tokens f r denom
          | None =>
              let '(t, r) := take_tok (length s) s [] in
              (t, denom) :: unit_tokens f r denom
          end
      end
  end.

Definition is_bytes_tok (t : bytes) : bool :=
  beq t (bs "B") || beq t (bs "MB") || beq t (bs "bytes").

Definition class_of (unit : bytes) : class :=
  if existsb (fun '(t, d) => is_bytes_tok t && negb d) (unit_tokens (S (length unit)) unit false)
  then Binary else Decimal.
