(** Model of the tokenizer of benchproc/internal/parse/tok.go.

    A Go [tokenizer] value is its remaining text [q] (always a suffix of the
    original query) plus a pointer to the shared first-error tracker. Here the
    remaining text is a [bytes], the tracker is threaded as [err := option nat]
    (offset of the first error), and [n0] is the length of the original query,
    so that an offset is [n0 - length q] exactly as in the code.

    [next] has a pointer receiver and strips leading white space *in place*
    before it looks at the token; callers that only peek therefore continue
    with the stripped text. [next] returns that stripped receiver as well.

    Library behaviour: [is_space] stands for unicode.IsSpace and [re_ok] for
    "regexp.Compile succeeds" (Section variables; evaluated with the table
    [Rune.go_is_space] and with the per-case oracle table). *)
From Perf Require Import Base.Bytes Base.Rune Model.Unquote.
Local Open Scope N_scope.

Definition err := option nat.
Definition set_err (e : err) (off : nat) : err :=
  match e with None => Some off | Some _ => e end.

Inductive kind :=
| KEOF | KOp (c : byte) | KWord | KQuoted | KRegexp | KAnd | KOr.

Record tok := mkTok { t_kind : kind; t_off : nat; t_text : bytes }.

Definition c_lpar : byte := x28.
Definition c_rpar : byte := x29.
Definition c_colon : byte := x3a.
Definition c_at : byte := x40.
Definition c_comma : byte := x2c.
Definition c_minus : byte := x2d.
Definition c_aster : byte := x2a.
Definition c_space : byte := x20.
Definition c_fslash : byte := x2f.
Definition c_lbrk : byte := x5b.
Definition c_rbrk : byte := x5d.

(** isOp / isStartOp on a rune *)
Definition is_op_r (r : N) : bool :=
  (r =? 40) || (r =? 41) || (r =? 58) || (r =? 64) || (r =? 44).
Definition is_start_op_r (r : N) : bool := is_op_r r || (r =? 45) || (r =? 42).
Definition is_start_op (b : byte) : bool := is_start_op_r (bN b).

Definition kind_eqb_op (k : kind) (c : byte) : bool :=
  match k with KOp d => Byte.eqb c d | _ => false end.
Definition is_word (k : kind) : bool :=
  match k with KWord | KQuoted => true | _ => false end.
Definition is_value (k : kind) : bool :=
  match k with KWord | KQuoted | KRegexp => true | _ => false end.

Section Tok.
Variable is_space : N -> bool.
Variable re_ok : bytes -> bool.
Variable n0 : nat.                      (* len(qOrig) *)

Definition off_of (q : bytes) : nat := n0 - length q.

(** the white-space skipping part of the loop of [next]: an operator start
    stops the loop first; then isSpace (a literal ' ' or a rune with IsSpace).
    [skip] = bytes of the current rune still to be dropped. *)
Fixpoint skip_spaces (q : bytes) (skip : nat) : bytes :=
  match q with
  | [] => []
  | c :: q' =>
      match skip with
      | S k => skip_spaces q' k
      | O =>
          if is_start_op c then q
          else if Byte.eqb c c_space then skip_spaces q' 0
          else let '(r, size) := decode_rune q in
               if is_space r then skip_spaces q' (size - 1) else q
      end
  end.

(** bareWord: length of the word = offset of the first rune that is a space or
    an operator (range-over-string decoding) *)
Fixpoint bare_len (q : bytes) (skip : nat) : nat :=
  match q with
  | [] => O
  | c :: q' =>
      match skip with
      | S k => S (bare_len q' k)
      | O => let '(r, size) := decode_rune q in
             if is_space r || is_op_r r then O else S (bare_len q' (size - 1))
      end
  end.

Definition word_AND : bytes := bs "AND".
Definition word_OR : bytes := bs "OR".

(** results of the token functions: token, rest, receiver after the call, tracker *)
Definition tokres := (tok * bytes * bytes * err)%type.

Definition eof_at (q : bytes) : tok := mkTok KEOF (off_of q) [].
(** t.error(msg): record at the receiver's position, move to the end *)
Definition tok_error (q : bytes) (e : err) : tokres :=
  (eof_at q, [], q, set_err e (off_of q)).

Definition bare_word (q : bytes) (e : err) : tokres :=
  let n := bare_len q 0 in
  let w := firstn n q in
  let k := if beq w word_AND then KAnd else if beq w word_OR then KOr else KWord in
  (mkTok k (off_of q) w, skipn n q, q, e).

(** quotedWord: scan for the closing quote skipping escaped bytes; [s] is the
    text after the opening quote; result = bytes up to and including the
    closing quote, and the rest *)
Fixpoint qscan (s : bytes) : option (bytes * bytes) :=
  match s with
  | [] => None
  | c :: s' =>
      if Byte.eqb c c_dquote then Some ([c], s')
      else if Byte.eqb c c_bslash then
        match s' with
        | [] => None
        | d :: s'' => match qscan s'' with
                      | Some (b, r) => Some (c :: d :: b, r)
                      | None => None
                      end
        end
      else match qscan s' with
           | Some (b, r) => Some (c :: b, r)
           | None => None
           end
  end.

Definition quoted_word (q : bytes) (e : err) : tokres :=
  match q with
  | [] => tok_error q e   (* not reached: called on a text starting with a quote *)
  | c :: s =>
      match qscan s with
      | None => tok_error q e                       (* missing end quote *)
      | Some (body, rest) =>
          match unquote (c :: body) with
          | None => tok_error q e                   (* bad escape sequence *)
          | Some w => (mkTok KQuoted (off_of q) w, rest, q, e)
          end
      end
  end.

(** regexpParseUntil(str, "/"): index of the first top-level "/" *)
Fixpoint re_scan (s : bytes) (cs cp : Z) (skip : bool) : option nat :=
  match s with
  | [] => None
  | c :: s' =>
      if skip then option_map S (re_scan s' cs cp false)
      else if (cs =? 0)%Z && (cp =? 0)%Z && Byte.eqb c c_fslash then Some O
      else option_map S
        (if Byte.eqb c c_lbrk then re_scan s' (cs + 1)%Z cp false
         else if Byte.eqb c c_rbrk then re_scan s' (if (cs - 1 <? 0)%Z then 0%Z else (cs - 1)%Z) cp false
         else if Byte.eqb c c_lpar then re_scan s' cs (if (cs =? 0)%Z then (cp + 1)%Z else cp) false
         else if Byte.eqb c c_rpar then re_scan s' cs (if (cs =? 0)%Z then (cp - 1)%Z else cp) false
         else if Byte.eqb c c_bslash then re_scan s' cs cp true
         else re_scan s' cs cp false)
  end.

Definition regexp_tok (q : bytes) (e : err) : tokres :=
  match q with
  | [] => tok_error q e   (* not reached *)
  | _ :: str =>
      match re_scan str 0 0 false with
      | None => tok_error q e                                    (* missing close "/" *)
      | Some i =>
          let expr := firstn i str in
          if negb (re_ok expr) then tok_error q e                (* does not compile *)
          else
            let q2 := skipn (S i) str in
            let follow_ok := match q2 with
                             | [] => true
                             | d :: _ => is_space (bN d) || is_start_op d
                             end in
            if follow_ok then (mkTok KRegexp (off_of q) expr, q2, q, e)
            else tok_error q2 e                                  (* t.q = q2; error *)
      end
  end.

Definition next (allow_re : bool) (q0 : bytes) (e : err) : tokres :=
  let q := skip_spaces q0 0 in
  match q with
  | [] => (eof_at q, [], q, e)
  | c :: rest =>
      if is_start_op c then (mkTok (KOp c) (off_of q) [c], rest, q, e)
      else if allow_re && Byte.eqb c c_fslash then regexp_tok q e
      else if Byte.eqb c c_dquote then quoted_word q e
      else bare_word q e
  end.

(** tokenizer.end: anything but EOF is an error at the (stripped) position *)
Definition tok_end (q : bytes) (e : err) : err :=
  let '(t, _, q', e') := next false q e in
  match t_kind t with KEOF => e' | _ => set_err e' (off_of q') end.

End Tok.
