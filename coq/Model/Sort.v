(** Model of benchproc/sort.go: Key.Less / less, the comparison functions of the
    four kinds of field order, parseNum; SortKeys as "a sorted permutation".

    Library behaviour that is not modelled but replayed from tables recorded by
    the harness (DESIGN 5.4): [strconv.ParseFloat(s, 64)] ([parse_float]: [None]
    = error) and [math.Pow(1000|1024, e)] ([pow]). The regexp
    [([0-9.]+)([kKMGTPEZY]i?)?[bB]?] IS modelled, as the scanner [num_match]:
    the leftmost match starts at the first byte in [0-9.]; group 1 is the
    maximal run of such bytes (greedy, and everything after it is optional, so
    no backtracking); group 2 is an optional prefix letter with an optional 'i'. *)
From Perf Require Import Base.Bytes Base.B64 Model.Name Model.Key Model.Projection.
Local Open Scope Z_scope.

Section Sort.
Variable parse_float : bytes -> option b64.
Variable pow : bool -> nat -> b64.      (* iec?, exponent 0..8 *)

Definition c_dot : byte := x2e.
Definition is_numch (c : byte) : bool := is_digit c || Byte.eqb c c_dot.

Fixpoint drop_nonnum (s : bytes) : bytes :=
  match s with
  | [] => []
  | c :: s' => if is_numch c then s else drop_nonnum s'
  end.

Fixpoint span_num (s : bytes) : bytes * bytes :=
  match s with
  | [] => ([], [])
  | c :: s' => if is_numch c then let '(r, t) := span_num s' in (c :: r, t) else ([], s)
  end.

Definition num_prefixes : bytes := bs "KMGTPEZY".
Definition c_k : byte := x6b.
Definition c_K : byte := x4b.
Definition c_i : byte := x69.

Fixpoint index_of (c : byte) (l : bytes) : option nat :=
  match l with
  | [] => None
  | x :: l' => if Byte.eqb x c then Some 0%nat else option_map S (index_of c l')
  end.

(** submatches 1 and 2 of numRe.FindStringSubmatch, [None] = no match *)
Definition num_match (x : bytes) : option (bytes * bytes) :=
  match drop_nonnum x with
  | [] => None
  | s =>
      let '(run, rest) := span_num s in
      let g2 :=
        match rest with
        | c :: rest' =>
            if Byte.eqb c c_k || (match index_of c num_prefixes with Some _ => true | None => false end)
            then match rest' with
                 | d :: _ => if Byte.eqb d c_i then [c; d] else [c]
                 | [] => [c]
                 end
            else []
        | [] => []
        end in
      Some (run, g2)
  end.

Definition prefix_exp (g2 : bytes) : nat :=
  match g2 with
  | [] => 0%nat
  | c :: _ =>
      let c' := if Byte.eqb c c_k then c_K else c in
      match index_of c' num_prefixes with Some i => S i | None => 0%nat end   (* 1 + IndexByte; -1 -> 0 *)
  end.

Definition prefix_iec (g2 : bytes) : bool :=
  match rev g2 with c :: _ => Byte.eqb c c_i | [] => false end.

(** parseNum; [None] = strconv.ErrSyntax *)
Definition parse_num (x : bytes) : option b64 :=
  match parse_float x with
  | Some v => Some v
  | None =>
      match num_match x with
      | None => None
      | Some (run, g2) =>
          match parse_float run with
          | None => None
          | Some v => Some (b64_mul v (pow (prefix_iec g2) (prefix_exp g2)))
          end
      end
  end.

(** builtinOrders["num"] *)
Definition cmp_num (a b : bytes) : Z :=
  match parse_num a, parse_num b with
  | Some x, Some y =>
      if b64_lt x y || (negb (b64_is_nan x) && b64_is_nan y) then -1
      else if b64_lt y x || (b64_is_nan x && negb (b64_is_nan y)) then 1
      else 0
  | None, None => 0
  | Some _, None => -1
  | None, Some _ => 1
  end.

(** builtinOrders["alpha"]: strings.Compare *)
Definition cmp_alpha (a b : bytes) : Z :=
  match bcmp a b with Lt => -1 | Eq => 0 | Gt => 1 end.

(** observation order: field.order[a] - field.order[b], a missing key reads 0 *)
Definition cmp_first (obs : list bytes) (a b : bytes) : Z :=
  Z.of_nat (obs_rank obs a) - Z.of_nat (obs_rank obs b).

(** fixed order: fixedMap[a] - fixedMap[b]; the map is filled front to back, so
    of a repeated word the LAST position counts; a missing key reads 0 *)
Fixpoint last_index (v : bytes) (l : list bytes) (i : nat) (acc : nat) : nat :=
  match l with
  | [] => acc
  | x :: l' => last_index v l' (S i) (if beq x v then i else acc)
  end.
Definition fixed_rank (l : list bytes) (v : bytes) : nat := last_index v l 0 0.
Definition cmp_fixed (l : list bytes) (a b : bytes) : Z :=
  Z.of_nat (fixed_rank l a) - Z.of_nat (fixed_rank l b).

Definition ord_cmp (o : ordk) (obs : list bytes) : bytes -> bytes -> Z :=
  match o with
  | OFirst => cmp_first obs
  | OAlpha => cmp_alpha
  | ONum => cmp_num
  | OFixed l => cmp_fixed l
  end.

Definition field_cmp (f : finfo) : bytes -> bytes -> Z := ord_cmp (fi_ord f) (fi_obs f).

(** one field's verdict in [less]: the comparison function, then plain string order *)
Definition val_less (cmp : bytes -> bytes -> Z) (a b : bytes) : bool :=
  let c := cmp a b in if c =? 0 then bltb a b else c <? 0.

(** less(flat, a, b) *)
Fixpoint less (fields : list finfo) (fl : list nat) (a b : row) : bool :=
  match fl with
  | [] => false
  | idx :: fl' =>
      let aa := vals_get a idx in
      let bb := vals_get b idx in
      if beq aa bb then less fields fl' a b
      else match nth_error fields idx with
           | Some f => val_less (field_cmp f) aa bb
           | None => bltb aa bb     (* not reachable: flattened fields exist *)
           end
  end.

(** Key.Less *)
Definition key_less (p : projection) (k1 k2 : nat) : bool :=
  less (p_fields p) (flat p) (key_vals p k1) (key_vals p k2).

(** for evaluation: the sorted arrangement (insertion sort); by
    Proofs/Sort.sorted_perm_unique it is THE sorted permutation of distinct keys,
    so it is what sort.Slice must return *)
Fixpoint insert_by (lt : nat -> nat -> bool) (x : nat) (l : list nat) : list nat :=
  match l with
  | [] => [x]
  | y :: l' => if lt y x then y :: insert_by lt x l' else x :: l
  end.
Definition sort_by (lt : nat -> nat -> bool) (l : list nat) : list nat :=
  fold_right (insert_by lt) [] l.

Definition sort_keys (p : projection) (ks : list nat) : list nat := sort_by (key_less p) ks.

End Sort.

(** * Specification of the [num] and [fixed] orders (declarative; used by
    Proofs/NumSpec.v and evaluated on the implementation by Corr/RunC09.v)

    The value a string denotes under [@num]:
    - if strconv.ParseFloat accepts the whole string: that float;
    - otherwise look at the leftmost maximal run of bytes in [0-9.]: if there is
      none, or ParseFloat rejects the run, the string is not a number; otherwise
      the run's float [v] is scaled by the suffix that follows the run: a letter
      of k K M G T P E Z Y means 1000^e with e = 1 1 2 3 4 5 6 7 8, and 1024^e
      when the letter is followed by 'i'; anything else (including a bare b/B)
      means 1. The multiplier is the EXACT integer, correctly rounded to
      binary64 ([b64_of_Z]; exact for every multiplier except 1000^8 = 10^24),
      and the product is one IEEE multiplication: v x RN(multiplier). (So the
      specification says which two floats are multiplied and how; it does not
      claim the result is the correctly rounded exact product.)
    The order: numbers before non-numbers; NaN after all other numbers;
    otherwise by [<] on the values; everything else ties (and [less] then falls
    back to string order). *)
Section NumSpec.
Variable parse_float : bytes -> option b64.

Fixpoint drop_while (f : byte -> bool) (s : bytes) : bytes :=
  match s with
  | [] => []
  | c :: s' => if f c then drop_while f s' else s
  end.
Fixpoint take_while (f : byte -> bool) (s : bytes) : bytes :=
  match s with
  | [] => []
  | c :: s' => if f c then c :: take_while f s' else []
  end.

(** prefix letter -> exponent *)
Definition si_exponents : list (byte * nat) :=
  [(x6b, 1%nat); (x4b, 1%nat); (x4d, 2%nat); (x47, 3%nat); (x54, 4%nat); (x50, 5%nat);
   (x45, 6%nat); (x5a, 7%nat); (x59, 8%nat)].   (* k K M G T P E Z Y *)

Fixpoint assoc_byte (c : byte) (t : list (byte * nat)) : option nat :=
  match t with
  | [] => None
  | (d, e) :: t' => if Byte.eqb d c then Some e else assoc_byte c t'
  end.

(** the exact integer multiplier announced by what follows the digits *)
Definition suffix_multiplier (rest : bytes) : Z :=
  match rest with
  | p :: rest' =>
      match assoc_byte p si_exponents with
      | Some e =>
          match rest' with
          | i :: _ => if Byte.eqb i c_i then 1024 ^ Z.of_nat e else 1000 ^ Z.of_nat e
          | [] => 1000 ^ Z.of_nat e
          end
      | None => 1
      end
  | [] => 1
  end.

Definition num_denote (x : bytes) : option b64 :=
  match parse_float x with
  | Some v => Some v
  | None =>
      let s := drop_while (fun c => negb (is_numch c)) x in
      let run := take_while is_numch s in
      match run with
      | [] => None
      | _ => match parse_float run with
             | Some v => Some (b64_mul v (b64_of_Z (suffix_multiplier (drop_while is_numch s))))
             | None => None
             end
      end
  end.

(** numbers (0) before NaN (1) before non-numbers (2) *)
Definition num_class (d : option b64) : nat :=
  match d with
  | Some v => if b64_is_nan v then 1%nat else 0%nat
  | None => 2%nat
  end.

Definition num_order (da db : option b64) : comparison :=
  match Nat.compare (num_class da) (num_class db) with
  | Eq => match da, db with
          | Some x, Some y => if b64_lt x y then Lt else if b64_lt y x then Gt else Eq
          | _, _ => Eq
          end
  | c => c
  end.

(** [a] sorts before [b] in a num field *)
Definition num_before (a b : bytes) : bool :=
  match num_order (num_denote a) (num_denote b) with
  | Lt => true
  | Gt => false
  | Eq => bltb a b
  end.
End NumSpec.

(** fixed lists: position [p] is the last place where [v] is listed *)
Definition last_listed_at (l : list bytes) (v : bytes) (p : nat) : Prop :=
  nth_error l p = Some v /\ forall q, (p < q)%nat -> nth_error l q <> Some v.
