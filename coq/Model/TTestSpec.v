(** TTestSpec: when a t-test is defined, over exact rationals (declarative,
    independent of internal/stats/ttest.go).

    A t-test divides by an estimate of variance with nu degrees of freedom:
      pooled      nu = n1 + n2 - 2,  sp^2 = ((n1-1) s1^2 + (n2-1) s2^2) / nu
      Welch       needs both s_i^2, i.e. n_i - 1 > 0;  W = s1^2/n1 + s2^2/n2
      one-sample  nu = n - 1,  W = s^2 / n
    An input is UNDERSIZED when a group is empty or the degrees of freedom are
    not positive, and has ZERO VARIANCE when the variance estimate the
    statistic divides by is 0. The property (C12) demands that every such
    input is reported as an error and - being about correct results - that
    nothing else is. *)
From Coq Require Import QArith Bool List ZArith.
Import ListNotations.
Local Open Scope Q_scope.

Definition undersized_pooled (n1 n2 : Q) : bool :=
  Qle_bool n1 0 || Qle_bool n2 0 || Qle_bool (n1 + n2 - 2) 0.
Definition undersized_welch (n1 n2 : Q) : bool := Qle_bool (n1 - 1) 0 || Qle_bool (n2 - 1) 0.
Definition undersized_one (n : Q) : bool := Qle_bool (n - 1) 0.

(** numerator of the pooled variance; for n_i >= 1 and s_i^2 >= 0 it vanishes
    iff every group with n_i > 1 has s_i^2 = 0 *)
Definition zero_var_pooled (v1 n1 v2 n2 : Q) : bool := Qeq_bool ((n1 - 1) * v1 + (n2 - 1) * v2) 0.
(** s1^2/n1 + s2^2/n2 = 0 for s_i^2 >= 0, n_i > 0 *)
Definition zero_var_welch (v1 v2 : Q) : bool := Qeq_bool v1 0 && Qeq_bool v2 0.
Definition zero_var_one (v : Q) : bool := Qeq_bool v 0.

(** error codes: 1 = sample too small, 2 = zero variance, 3 = mismatched lengths *)
Inductive expect := ExpOk | ExpErrIn (codes : list Z).

(** an input that is both undersized and of zero variance may be reported as either *)
Definition expect_of (undersized zero_var : bool) : expect :=
  if undersized || zero_var
  then ExpErrIn ((if undersized then [1%Z] else []) ++ (if zero_var then [2%Z] else []))
  else ExpOk.

Lemma zero_var_welch_iff v1 n1 v2 n2 :
  0 <= v1 -> 0 <= v2 -> 0 < n1 -> 0 < n2 ->
  (zero_var_welch v1 v2 = true <-> v1 / n1 + v2 / n2 == 0).
Proof.
  intros H1 H2 N1 N2. unfold zero_var_welch. rewrite andb_true_iff, !Qeq_bool_iff.
  split.
  - intros [A B]. rewrite A, B. unfold Qdiv. ring.
  - intros H.
    assert (P1 : 0 <= v1 / n1) by (apply Qle_shift_div_l; [assumption | ring_simplify; assumption]).
    assert (P2 : 0 <= v2 / n2) by (apply Qle_shift_div_l; [assumption | ring_simplify; assumption]).
    assert (Z1 : v1 / n1 == 0).
    { apply Qle_antisym; [|assumption]. rewrite <- H. rewrite <- (Qplus_0_r (v1 / n1)) at 1.
      apply Qplus_le_r. assumption. }
    assert (Z2 : v2 / n2 == 0).
    { apply Qle_antisym; [|assumption]. rewrite <- H. rewrite <- (Qplus_0_l (v2 / n2)) at 1.
      apply Qplus_le_l. assumption. }
    split.
    + setoid_replace v1 with (v1 / n1 * n1) by (field; intro E; rewrite E in N1; discriminate).
      rewrite Z1. ring.
    + setoid_replace v2 with (v2 / n2 * n2) by (field; intro E; rewrite E in N2; discriminate).
      rewrite Z2. ring.
Qed.

Example expect_examples :
  expect_of (undersized_one 1) (zero_var_one 5) = ExpErrIn [1%Z] /\
  expect_of (undersized_pooled 1 1) (zero_var_pooled 5 1 2 1) = ExpErrIn [1%Z; 2%Z] /\
  expect_of (undersized_pooled 1 2) (zero_var_pooled (3 # 2) 1 0 2) = ExpErrIn [2%Z] /\
  expect_of (undersized_pooled 1 2) (zero_var_pooled 0 1 (3 # 2) 2) = ExpOk /\
  expect_of (undersized_welch 2 2) (zero_var_welch 0 (3 # 2)) = ExpOk.
Proof. vm_compute. repeat split. Qed.
