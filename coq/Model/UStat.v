(** Model of the statistic half of internal/stats/utest.go (MannWhitneyUTest,
    lines 125-165): sorting, [labeledMerge], the scan over groups of equal
    values that accumulates the rank sum with average ranks and builds the tie
    vector T.

    Values are integers here (the harness sends integer-valued float64s,
    |v| < 2^53; only their order matters to the code). All rank arithmetic is
    kept as TWICE the Go value, in Z: the Go code computes ranks, R1 and U1 in
    float64, all of which are integers or half-integers far below 2^52, hence
    exact (stated assumption, checked bitwise by the correspondence run). *)
From Coq Require Import ZArith List Bool Lia.
Import ListNotations.
Local Open Scope Z_scope.

(** ** sort.Float64s on NaN-free input: the sorted permutation *)
Fixpoint insert (x : Z) (l : list Z) : list Z :=
  match l with
  | [] => [x]
  | y :: l' => if x <=? y then x :: l else y :: insert x l'
  end.
Fixpoint isort (l : list Z) : list Z :=
  match l with [] => [] | x :: l' => insert x (isort l') end.

(** ** labeledMerge: label [true] = value of x1 (Go label 1), [false] = of x2.
    On equal heads the x2 element is taken first ([x1[i] < x2[j]] is strict). *)
Definition tag (b : bool) (l : list Z) : list (Z * bool) := map (fun v => (v, b)) l.

Fixpoint lmerge (x1 x2 : list Z) {struct x1} : list (Z * bool) :=
  let fix go (x2 : list Z) {struct x2} : list (Z * bool) :=
    match x1, x2 with
    | [], _ => tag false x2
    | _, [] => tag true x1
    | a :: x1', b :: x2' =>
        if a <? b then (a, true) :: lmerge x1' x2 else (b, false) :: go x2'
    end in
  go x2.

(** ** the runs of equal values of the merged list: (value, size, number from x1).
    The Go loop scans left to right; the list of runs it visits is this one. *)
Definition b2z (b : bool) : Z := if b then 1 else 0.

Definition grp := (Z * Z * Z)%type.
Definition g_val (g : grp) : Z := fst (fst g).
Definition g_size (g : grp) : Z := snd (fst g).
Definition g_nx1 (g : grp) : Z := snd g.

Fixpoint groups (l : list (Z * bool)) : list grp :=
  match l with
  | [] => []
  | (v, lab) :: l' =>
      match groups l' with
      | (v', sz, nx) :: gs =>
          if v =? v' then (v', sz + 1, nx + b2z lab) :: gs
          else (v, 1, b2z lab) :: (v', sz, nx) :: gs
      | [] => [(v, 1, b2z lab)]
      end
  end.

(** ** the rank loop. [i] = number of merged values consumed so far (Go's i at
    the top of the outer loop); rank1 = i+1; after the run i' = i+size;
    rank = (i' + rank1)/2; R1 += rank * nx1 (skipped when nx1 = 0).
    Returns 2*R1. *)
Fixpoint rank_loop (i : Z) (gs : list grp) : Z :=
  match gs with
  | [] => 0
  | (_, sz, nx) :: gs' =>
      (if nx =? 0 then 0 else ((i + sz) + (i + 1)) * nx) + rank_loop (i + sz) gs'
  end.

Record ustat := mkUstat {
  us_n1 : Z; us_n2 : Z;
  us_T : list Z;          (* tie vector: sizes of the runs, in rank order *)
  us_r : list Z;          (* how many of each run came from x1 (not in the Go code; for the specification) *)
  us_hasTies : bool;
  us_twoU1 : Z;           (* 2*U1 *)
}.

Definition zlen {A} (l : list A) : Z := Z.of_nat (length l).

Definition merged (x1 x2 : list Z) : list (Z * bool) := lmerge (isort x1) (isort x2).

Definition ustat_of (x1 x2 : list Z) : ustat :=
  let n1 := zlen x1 in
  let n2 := zlen x2 in
  let gs := groups (merged x1 x2) in
  mkUstat n1 n2 (map g_size gs) (map g_nx1 gs)
          (existsb (fun g => 1 <? g_size g) gs)
          (rank_loop 0 gs - n1 * (n1 + 1)).

Definition twoU2 (s : ustat) : Z := 2 * (us_n1 s * us_n2 s) - us_twoU1 s.

(** ** Specification of U, independent of sorting and ranks:
    2U = sum over pairs (x in x1, y in x2) of 2 if x > y, 1 if x = y, 0 otherwise *)
Definition pair_score (x y : Z) : Z := if y <? x then 2 else if x =? y then 1 else 0.
Fixpoint row_score (x : Z) (ys : list Z) : Z :=
  match ys with [] => 0 | y :: ys' => pair_score x y + row_score x ys' end.
Fixpoint twoU_pairs (xs ys : list Z) : Z :=
  match xs with [] => 0 | x :: xs' => row_score x ys + twoU_pairs xs' ys end.

(** the same number from the count vector: every x1 value in run k beats the x2
    values of all lower runs and ties with those of its own run.
    [V] = number of x2 values in the runs already passed. *)
Fixpoint twoU_vec (V : Z) (tr : list (Z * Z)) : Z :=
  match tr with
  | [] => 0
  | (t, r) :: tr' => r * (2 * V + (t - r)) + twoU_vec (V + (t - r)) tr'
  end.

(** ** the tie vector from the pooled values alone (specification side):
    runs of equal values of the sorted pooled sample, as (value, count) *)
Fixpoint vruns (l : list Z) : list (Z * Z) :=
  match l with
  | [] => []
  | v :: l' =>
      match vruns l' with
      | (w, c) :: rs => if v =? w then (w, c + 1) :: rs else (v, 1) :: (w, c) :: rs
      | [] => [(v, 1)]
      end
  end.
Definition pool_T (x1 x2 : list Z) : list Z := map snd (vruns (isort (x1 ++ x2))).
