(** Which labels a stored benchmark result carries (C19: "file labels, labels
    derived from the benchmark name, and labels the server adds to each
    upload"), stated WITHOUT the Reader's loop and its mutable label map:

    - server labels ([server_label]): upload, upload-part, upload-time, and —
      when non-empty — upload-file (base name of the form file name) and by;
      a file cannot override them;
    - file labels in effect at a line ([file_label]): for a key that is not a
      server label, the value of the LAST "key: value" line in front of the
      benchmark line, unless that value is empty (an empty value removes the
      label);
    - name-derived labels ([name_label]): the last definition of the key among
      gomaxprocs (a final "-N"), name (the part in front of the first '/'), and
      per further part i either its "k=v" or "sub<i>".

    The labels are functions of (server labels, the lines in front, the key) and
    of (the benchmark name, the key). The key-sorted lists the judge compares
    are built from these functions by [map_from]. Proofs/LabelSpec.v shows the
    model of the Reader (StoreFmt.read_with) returns exactly these results. No
    proofs here. *)
From Perf Require Import Base.Bytes Model.Words Model.Query Model.StoreFmt.

(** the last definition of [k] in a list of definitions *)
Fixpoint last_assign (k : bytes) (kvs : list (bytes * bytes)) : option bytes :=
  match kvs with
  | [] => None
  | (k', v) :: r =>
      match last_assign k r with
      | Some x => Some x
      | None => if beq k' k then Some v else None
      end
  end.

(** the "key: value" lines among [ls], in file order *)
Fixpoint kv_lines (ls : list bytes) : list (bytes * bytes) :=
  match ls with
  | [] => []
  | l :: ls' => match parse_kv_line l with Some kv => kv :: kv_lines ls' | None => kv_lines ls' end
  end.

(** ** server labels *)
Definition server_label (u : upload_in) (i : N) (f : ufile) (k : bytes) : option bytes :=
  if beq k (bs "upload") then Some (u_id u)
  else if beq k (bs "upload-part") then Some (u_id u ++ [c_slash] ++ dec i)
  else if beq k (bs "upload-time") then Some (u_time u)
  else if beq k (bs "upload-file") then
    match base_name (f_name f) with [] => None | n => Some n end
  else if beq k (bs "by") then
    match u_user u with [] => None | usr => Some usr end
  else None.

Definition server_keys : list bytes :=
  [bs "upload"; bs "upload-part"; bs "upload-time"; bs "upload-file"; bs "by"].

(** ** file labels in effect behind the lines [before] *)
Definition file_label (before : list bytes) (k : bytes) : option bytes :=
  match last_assign k (kv_lines before) with
  | Some v => if beq v [] then None else Some v
  | None => None
  end.

(** the label [k] of a benchmark line that stands behind the lines [before] in
    a file indexed with the server labels [srv] *)
Definition result_label (srv : bytes -> option bytes) (before : list bytes) (k : bytes) : option bytes :=
  match srv k with
  | Some v => Some v
  | None => file_label before k
  end.

(** ** name-derived labels *)
Fixpoint sub_pairs (i : N) (subs : list bytes) : list (bytes * bytes) :=
  match subs with
  | [] => []
  | sub :: subs' =>
      (match index_byte sub c_eq with
       | Some e => (firstn e sub, skipn (S e) sub)
       | None => (bs "sub" ++ dec i, sub)
       end) :: sub_pairs (i + 1) subs'
  end.

(** the definitions a benchmark name makes, in order *)
Definition name_pairs (name : bytes) : list (bytes * bytes) :=
  let '(name1, gmp) :=
    match last_index c_dash name with
    | Some d =>
        let tail := skipn (S d) name in
        if atoi_ok tail then (firstn d name, [(bs "gomaxprocs", tail)]) else (name, [])
    | None => (name, [])
    end in
  let '(p0, subs) := split_on c_slash name1 in
  gmp ++ [(bs "name", p0)] ++ sub_pairs 1 subs.

Definition name_label (name : bytes) (k : bytes) : option bytes := last_assign k (name_pairs name).

(** ** the key-sorted list of a label function over candidate keys *)
Definition map_from (f : bytes -> option bytes) (keys : list bytes) : labels :=
  fold_left (fun s k => match f k with Some v => lset k v s | None => s end) keys [].

Definition spec_labels (srv : bytes -> option bytes) (before : list bytes) : labels :=
  map_from (result_label srv before) (server_keys ++ map fst (kv_lines before)).

Definition spec_name_labels (name : bytes) : labels :=
  map_from (name_label name) (map fst (name_pairs name)).

(** a benchmark line with a non-empty name stands among [before] (the legacy
    Reader gives an empty name met before any other no name labels at all) *)
Definition bench_name (line : bytes) : option bytes :=
  match parse_kv_line line with Some _ => None | None => parse_benchmark_line line end.
Definition named_before (before : list bytes) : bool :=
  existsb (fun l => match bench_name l with Some (_ :: _) => true | _ => false end) before.

(** ** the results of a file: one per benchmark line, in order, numbered by
    line, with the labels above. [before] is kept reversed. *)
Fixpoint spec_results_from (srv : bytes -> option bytes) (rbefore rest : list bytes) (n : N) : list result :=
  match rest with
  | [] => []
  | line :: rest' =>
      let n := (n + 1)%N in
      match bench_name line with
      | Some name =>
          mkResult (spec_labels srv (rev rbefore))
                   (if is_nilb name && negb (named_before (rev rbefore)) then [] else spec_name_labels name)
                   n line
          :: spec_results_from srv (line :: rbefore) rest' n
      | None => spec_results_from srv (line :: rbefore) rest' n
      end
  end.

Definition spec_file_results (u : upload_in) (i : N) (f : ufile) : list result :=
  spec_results_from (server_label u i f) [] (scan_lines (f_body f)) 0.

Fixpoint spec_upload_results (u : upload_in) (i : N) (fs : list ufile) : list result :=
  match fs with
  | [] => []
  | f :: fs' => spec_file_results u i f ++ spec_upload_results u (i + 1) fs'
  end.
