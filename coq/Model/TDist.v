(** TDist: the arithmetic skeleton of internal/stats/tdist.go. The regularized
    incomplete beta function is a parameter (instantiated with Model/Beta.v in
    the correspondence run), so the structural theorems hold for any. *)
From Coq Require Import ZArith List Bool.
From Perf Require Import Base.B64 Model.Beta.
Local Open Scope Z_scope.

Definition k_pi : b64 := b64_of_bits 4614256656552045848. (* math.Pi as float64 *)

Section TDist.
  Variable betainc : b64 -> b64 -> b64 -> res b64.   (* x a b *)

  (** the branch [x > 0]:
        if x2 := x*x; x2 < V { return 0.5 + 0.5*mathBetaInc(x2/(V+x2), 0.5, V/2) }
        return 1 - 0.5*mathBetaInc(V/(V+x*x), V/2, 0.5)
      (the first form was added by the repair of the small-x cancellation) *)
  Definition tcdf_pos (v x : b64) : res b64 :=
    let x2 := b64_mul x x in
    if b64_lt x2 v then
      res_map (fun i => b64_add k_half (b64_mul k_half i))
              (betainc (b64_div x2 (b64_add v x2)) k_half (b64_div v k_two))
    else
      res_map (fun i => b64_sub b64_one (b64_mul k_half i))
              (betainc (b64_div v (b64_add v (b64_mul x x))) (b64_div v k_two) k_half).

  Definition tcdf (v x : b64) : res b64 :=
    if b64_eq x b64_zero then Val k_half
    else if b64_gt x b64_zero then tcdf_pos v x
    else if b64_lt x b64_zero then
      (* 1 - t.CDF(-x); -x > 0 takes the second branch *)
      res_map (fun c => b64_sub b64_one c) (tcdf_pos v (b64_neg x))
    else Val k_nan.
End TDist.

Section TPdf.
  Variable lgamma_o exp_o : b64 -> option b64.
  Variable pow_o : b64 -> b64 -> option b64.

  (** Exp(lgamma((V+1)/2) - lgamma(V/2)) / Sqrt(V*Pi) * Pow(1+(x*x)/V, -(V+1)/2) *)
  Definition tpdf (v x : b64) : res b64 :=
    let v1h := b64_div (b64_add v b64_one) k_two in
    res_bind (res_of_option (lgamma_o v1h)) (fun l1 =>
    res_bind (res_of_option (lgamma_o (b64_div v k_two))) (fun l2 =>
    res_bind (res_of_option (exp_o (b64_sub l1 l2))) (fun e =>
    res_bind (res_of_option (pow_o (b64_add b64_one (b64_div (b64_mul x x) v)) (b64_neg v1h))) (fun pw =>
    Val (b64_mul (b64_div e (b64_sqrt (b64_mul v k_pi))) pw))))).
End TPdf.
