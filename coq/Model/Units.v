(** Model of unit normalisation (C04):
      benchunit/parse.go   parser.next          (tokeniser)
      benchunit/tidy.go    Tidy, tidyUnit, tidyUnitUncached
      benchfmt/reader.go   the rescale decision at the end of parseBenchmarkLine
      benchfmt/units.go    UnitMetadataMap.Get
      benchproc/filter.go  the [.unit] clause
    followed by the specification (tokenwise rewrite) the theorems relate it to.
    No proofs in this file.  [unicode.IsSpace] is the Section variable
    [is_space]; evaluation instantiates it with [Base.Unicode.go_is_space].
    [tidyCache] is a memo table of a pure function and is not modelled. *)
From Perf Require Import Base.Bytes Base.B64 Base.Utf8.
Local Open Scope N_scope.

Definition r_star : N := 42.
Definition r_slash : N := 47.
Definition r_dash : N := 45.

Definition tok_ns : bytes := bs "ns".
Definition tok_MB : bytes := bs "MB".
Definition rep_sec : bytes := bs "sec".
Definition rep_B : bytes := bs "B".

(** float constants of tidy.go *)
Definition f_1e9 : b64 := b64_of_Z 1000000000.
Definition f_1e6 : b64 := b64_of_Z 1000000.
Definition f_1em9 : b64 := b64_of_bits 0x3E112E0BE826D695.   (* the literal 1e-9 *)

Inductive scale := ScNs | ScMB.
Definition apply_scale (f : b64) (s : scale) : b64 :=
  match s with ScNs => b64_div f f_1e9 | ScMB => b64_mul f f_1e6 end.

Record value := mkValue { v_val : b64; v_unit : bytes; v_oval : b64; v_ounit : bytes }.
Record umeta := mkUmeta { u_unit : bytes (* tidied *); u_key : bytes; u_orig : bytes; u_value : bytes }.

Section Units.
Variable is_space : N -> bool.

(** the second loop of [next]: what ends a token *)
Definition is_sep (r : N) : bool :=
  (r =? r_star) || (r =? r_slash) || (r =? r_dash) || is_space r.

(** the first loop of [next]: consume separators, tracking [denom];
    returns the unconsumed runes, the byte offset reached, and [denom] *)
Fixpoint skip_seps (l : list chunk) (pos : nat) (denom : bool) : list chunk * nat * bool :=
  match l with
  | [] => ([], pos, denom)
  | (r, b) :: l' =>
      if r =? r_star then skip_seps l' (pos + length b) false
      else if r =? r_slash then skip_seps l' (pos + length b) true
      else if negb ((r =? r_dash) || is_space r) then (l, pos, denom)
      else skip_seps l' (pos + length b) denom
  end.

(** the second loop: the token and the rest *)
Fixpoint take_tok (l : list chunk) : list chunk * list chunk :=
  match l with
  | [] => ([], [])
  | (r, b) :: l' =>
      if is_sep r then ([], l)
      else let '(t, rest) := take_tok l' in ((r, b) :: t, rest)
  end.

(** all tokens [(pos, tok, denom)] that successive calls of [next] deliver *)
Fixpoint tokens_fuel (n : nat) (l : list chunk) (pos : nat) (denom : bool)
  : list (nat * bytes * bool) :=
  match n with
  | O => []
  | S n' =>
      let '(l1, pos1, d1) := skip_seps l pos denom in
      match l1 with
      | [] => []
      | _ :: _ =>
          let '(t, l2) := take_tok l1 in
          (pos1, flat t, d1) :: tokens_fuel n' l2 (pos1 + length (flat t)) d1
      end
  end.

Definition tokens (u : bytes) : list (nat * bytes * bool) :=
  let l := runes u in tokens_fuel (S (length l)) l 0%nat false.

(** tidyUnitUncached: edits (pos, len, replacement) in token order, factor
    accumulated in token order, edits applied from the last to the first *)
Definition edit := (nat * nat * bytes)%type.

Fixpoint collect (toks : list (nat * bytes * bool)) (factor : b64) : list edit * b64 :=
  match toks with
  | [] => ([], factor)
  | (pos, t, d) :: r =>
      if d then collect r factor
      else if beq t tok_ns then
        let '(es, f) := collect r (b64_div factor f_1e9) in ((pos, 2%nat, rep_sec) :: es, f)
      else if beq t tok_MB then
        let '(es, f) := collect r (b64_mul factor f_1e6) in ((pos, 2%nat, rep_B) :: es, f)
      else collect r factor
  end.

Definition apply_edit (u : bytes) (e : edit) : bytes :=
  let '(pos, len, rep) := e in firstn pos u ++ rep ++ skipn (pos + len) u.

(** [for i := len(edits)-1; i >= 0; i--] *)
Definition apply_edits (u : bytes) (es : list edit) : bytes :=
  fold_right (fun e u' => apply_edit u' e) u es.

Definition tidy_uncached (u : bytes) : bytes * b64 :=
  let '(es, f) := collect (tokens u) b64_one in (apply_edits u es, f).

(** tidyUnit: literal fast paths, substring guard, then the slow path *)
Definition tidy_unit (u : bytes) : bytes * b64 :=
  if beq u (bs "ns/op") then (bs "sec/op", f_1em9)
  else if beq u (bs "MB/s") then (bs "B/s", f_1e6)
  else if beq u (bs "B/op") || beq u (bs "allocs/op") then (u, b64_one)
  else if negb (contains u tok_ns || contains u tok_MB) then (u, b64_one)
  else tidy_uncached u.

(** Tidy *)
Definition tidy (v : b64) (u : bytes) : b64 * bytes :=
  let '(nu, f) := tidy_unit u in (b64_mul v f, nu).

(** benchfmt/reader.go, end of parseBenchmarkLine (as repaired: decides on
    the unit, not on the value) *)
Definition read_value (v : b64) (u : bytes) : value :=
  let '(tv, tu) := tidy v u in
  if beq tu u then mkValue v u b64_zero [] else mkValue tv tu v u.

(** the decision before the repair (commit e1a075c), kept for the record *)
Definition read_value_old (v : b64) (u : bytes) : value :=
  let '(tv, tu) := tidy v u in
  if b64_eq tv v then mkValue v u b64_zero [] else mkValue tv tu v u.

(** UnitMetadataMap as the list of entries; keys are (tidied unit, key).
    parseUnitLine's insertion: first value wins, equal value silent *)
Definition units_find (m : list umeta) (tu key : bytes) : option umeta :=
  find (fun e => beq (u_unit e) tu && beq (u_key e) key) m.

Inductive unit_add := UAdded (m : list umeta) | UDuplicate | UConflict.

Definition units_add (m : list umeta) (unit key val : bytes) : unit_add :=
  let tu := snd (tidy b64_one unit) in
  match units_find m tu key with
  | Some have => if beq (u_value have) val then UDuplicate else UConflict
  | None => UAdded (m ++ [mkUmeta tu key unit val])
  end.

(** UnitMetadataMap.Get *)
Definition units_get (m : list umeta) (unit key : bytes) : option umeta :=
  units_find m (snd (tidy b64_one unit)) key.

(** the [.unit] clause of benchproc.NewFilter on one value; [m] is the
    term's matcher *)
Definition unit_match (m : bytes -> bool) (v : value) : bool :=
  m (v_unit v) || (negb (beq (v_ounit v) []) && m (v_ounit v)).

(** Match.Apply of a [.unit] term: the values it keeps, and whether any remain.
    A filter holds no state between results. *)
Definition unit_filter_apply (m : bytes -> bool) (vals : list value) : list value * bool :=
  let k := filter (unit_match m) vals in (k, match k with [] => false | _ => true end).

(** ** Specification: the tokenwise rewrite.
    A unit is the sequence of its runes; separator runes are '*', '/', '-'
    and white space; a token is a maximal run of other runes; a token is in
    the denominator iff the last of '*' '/' before it is '/'.  Numerator
    tokens "ns" / "MB" are replaced by "sec" / "B"; nothing else changes.
    [tok] accumulates the token being read. *)
Definition upd_denom (r : N) (d : bool) : bool :=
  if r =? r_star then false else if r =? r_slash then true else d.

Definition flush (d : bool) (tok : list chunk) : list chunk :=
  if d then tok
  else if beq (flat tok) tok_ns then achunks rep_sec
  else if beq (flat tok) tok_MB then achunks rep_B
  else tok.

Definition flush_scale (d : bool) (tok : list chunk) : list scale :=
  if d then []
  else if beq (flat tok) tok_ns then [ScNs]
  else if beq (flat tok) tok_MB then [ScMB]
  else [].

Fixpoint rw (l : list chunk) (d : bool) (tok : list chunk) : list chunk :=
  match l with
  | [] => flush d tok
  | c :: l' =>
      if is_sep (fst c) then flush d tok ++ c :: rw l' (upd_denom (fst c) d) []
      else rw l' d (tok ++ [c])
  end.

Fixpoint scales (l : list chunk) (d : bool) (tok : list chunk) : list scale :=
  match l with
  | [] => flush_scale d tok
  | c :: l' =>
      if is_sep (fst c) then flush_scale d tok ++ scales l' (upd_denom (fst c) d) []
      else scales l' d (tok ++ [c])
  end.

Definition spec_unit (u : bytes) : bytes := flat (rw (runes u) false []).
Definition spec_scales (u : bytes) : list scale := scales (runes u) false [].
Definition spec_factor (u : bytes) : b64 := fold_left apply_scale (spec_scales u) b64_one.

(** what a reader must report for the written measurement [v u] *)
Definition spec_value (v : b64) (u : bytes) : value :=
  if beq (spec_unit u) u then mkValue v u b64_zero []
  else mkValue (b64_mul v (spec_factor u)) (spec_unit u) v u.

End Units.
