(** Specification side of the bootstrap summary (benchseries.go ratio):
    the hull of attainable ratios [min num / max den, max num / min den] in
    binary64, the guard under which no operation of [ratio] overflows, and the
    predicate saying that a replayed index stream is one that [r.Intn(l)] can
    produce.  No proofs inside; used by Corr/RunC18.v (the executable check on
    observed outputs) and by Proofs/BootstrapHull.v / Properties/C18.v. *)
From Coq Require Import ZArith List Bool.
From Perf Require Import Base.B64 Model.Bootstrap.
Import ListNotations.
Local Open Scope Z_scope.

(** least and greatest element with Go's [<] (NaN-free data) *)
Definition fmin (l : list b64) : b64 := fold_left (fun a x => if b64_lt x a then x else a) l (hd S754_nan l).
Definition fmax (l : list b64) : b64 := fold_left (fun a x => if b64_lt a x then x else a) l (hd S754_nan l).

(** the hull of the ratios attainable from a numerator and a denominator sample *)
Definition hull_lo (nu de : list b64) : b64 := b64_div (fmin nu) (fmax de).
Definition hull_hi (nu de : list b64) : b64 := b64_div (fmax nu) (fmin de).

(** a float64 in canonical representation that is finite and > 0
    (subnormal numbers included) *)
Definition pos_sample (x : b64) : bool :=
  valid_binary prec emax x && match x with S754_finite false _ _ => true | _ => false end.

(** [median] of an even number of values forms [a + b] before halving: the sum
    of two values up to [mx] must not overflow.  Nothing is needed for an odd
    number of values (the median is an element). *)
Definition even_guard (n : nat) (mx : b64) : bool :=
  Nat.odd n || b64_is_finite (b64_add mx mx).

(** the no-overflow guard of [ratio] on positive samples, exactly:
    - the two resampled medians: see [even_guard];
    - the largest attainable ratio max num / min den is finite;
    - the median of the N ratios: [even_guard] again.
    There is NO underflow condition: gradual underflow (also to zero, for the
    lower bound min num / max den) keeps every step monotone. *)
Definition hull_guard (nu de : list b64) (n : nat) : bool :=
  even_guard (length nu) (fmax nu) && even_guard (length de) (fmax de)
  && b64_is_finite (hull_hi nu de) && even_guard n (hull_hi nu de).

(** what [r.Intn(l)] returns *)
Definition idx_ok (l : nat) (i : Z) : bool := (0 <=? i) && (i <? Z.of_nat l).

(** the replayed stream is consumed as [ratio] does: per round [lnu] draws for
    the numerator sample, then [lde] draws for the denominator sample *)
Fixpoint intn_stream (n lnu lde : nat) (s : list Z) : bool :=
  match n with
  | O => true
  | S n' =>
      forallb (idx_ok lnu) (firstn lnu s)
      && forallb (idx_ok lde) (firstn lde (skipn lnu s))
      && intn_stream n' lnu lde (skipn (lnu + lde) s)
  end.

(** a float64 in canonical representation that is finite and >= 0 (either zero) *)
Definition nonneg_finite (x : b64) : bool :=
  valid_binary prec emax x
  && match x with S754_zero _ | S754_finite false _ _ => true | _ => false end.

Definition summary_finite (s : summary) : bool :=
  b64_is_finite (s_center s) && b64_is_finite (s_low s) && b64_is_finite (s_high s).
