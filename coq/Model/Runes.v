(** Rune segmentation of a Go string exactly as [utf8.RuneCountInString] /
    [range s] / [utf8.DecodeRuneInString] do it (unicode/utf8/utf8.go): a
    well-formed UTF-8 sequence is one rune, every byte that does not start one
    is one rune (RuneError) of width 1.  A rune is kept as its byte chunk.
    Also [strings.TrimSpace s == ""] ([all_blank]). *)
From Perf Require Import Base.Bytes.

Definition inr (lo hi : N) (b : byte) : bool := (lo <=? bN b)%N && (bN b <=? hi)%N.

Definition cont (b : byte) : bool := inr 128 191 b.          (* locb..hicb *)

(** two-byte sequence: first[b0] = s1 (C2..DF), accept range 80..BF *)
Definition is2 (b0 b1 : byte) : bool := inr 194 223 b0 && cont b1.

(** accept range of the second byte of a three-byte sequence *)
Definition acc3 (b0 b1 : byte) : bool :=
  (inr 224 224 b0 && inr 160 191 b1)      (* E0: A0..BF *)
  || (inr 225 236 b0 && cont b1)          (* E1..EC *)
  || (inr 237 237 b0 && inr 128 159 b1)   (* ED: 80..9F *)
  || (inr 238 239 b0 && cont b1).         (* EE..EF *)
Definition is3 (b0 b1 b2 : byte) : bool := acc3 b0 b1 && cont b2.

Definition acc4 (b0 b1 : byte) : bool :=
  (inr 240 240 b0 && inr 144 191 b1)      (* F0: 90..BF *)
  || (inr 241 243 b0 && cont b1)          (* F1..F3 *)
  || (inr 244 244 b0 && inr 128 143 b1).  (* F4: 80..8F *)
Definition is4 (b0 b1 b2 b3 : byte) : bool := acc4 b0 b1 && cont b2 && cont b3.

(** [runes s]: the chunks [range s] iterates over. Structural: every recursive
    call is on a syntactic tail of [s]. *)
Fixpoint runes (s : bytes) : list bytes :=
  match s with
  | [] => []
  | b0 :: t0 =>
      match t0 with
      | [] => [b0] :: runes t0
      | b1 :: t1 =>
          if is2 b0 b1 then [b0; b1] :: runes t1
          else match t1 with
               | [] => [b0] :: runes t0
               | b2 :: t2 =>
                   if is3 b0 b1 b2 then [b0; b1; b2] :: runes t2
                   else match t2 with
                        | [] => [b0] :: runes t0
                        | b3 :: t3 =>
                            if is4 b0 b1 b2 b3 then [b0; b1; b2; b3] :: runes t3
                            else [b0] :: runes t0
                        end
               end
      end
  end.

(** utf8.RuneCountInString *)
Definition rune_count (s : bytes) : Z := Z.of_nat (length (runes s)).

(** unicode.IsSpace on a rune chunk: the White_Space code points
    U+0009..000D, 0020, 0085, 00A0, 1680, 2000..200A, 2028, 2029, 202F, 205F,
    3000 in UTF-8. An invalid byte (RuneError) is not a space. *)
Definition is_space_rune (r : bytes) : bool :=
  match r with
  | [b] => inr 9 13 b || inr 32 32 b
  | [b0; b1] => inr 194 194 b0 && (inr 133 133 b1 || inr 160 160 b1)
  | [b0; b1; b2] =>
      (inr 225 225 b0 && inr 154 154 b1 && inr 128 128 b2)                    (* U+1680 *)
      || (inr 226 226 b0 && inr 128 128 b1 &&
          (inr 128 138 b2 || inr 168 169 b2 || inr 175 175 b2))                (* U+2000..200A, 2028, 2029, 202F *)
      || (inr 226 226 b0 && inr 129 129 b1 && inr 159 159 b2)                 (* U+205F *)
      || (inr 227 227 b0 && inr 128 128 b1 && inr 128 128 b2)                 (* U+3000 *)
  | _ => false
  end.

(** strings.TrimSpace s == "" *)
Definition all_blank (s : bytes) : bool := forallb is_space_rune (runes s).

(** well-formed UTF-8 text (for the hypotheses of the offset theorems) *)
Definition wf_rune (r : bytes) : bool :=
  match r with
  | [b0] => (bN b0 <? 128)%N
  | [b0; b1] => is2 b0 b1
  | [b0; b1; b2] => is3 b0 b1 b2
  | [b0; b1; b2; b3] => is4 b0 b1 b2 b3
  | _ => false
  end.
Definition valid_utf8 (s : bytes) : bool := forallb wf_rune (runes s).

Definition sp : byte := x20.
Definition spaces (n : Z) : bytes := repeat sp (Z.to_nat n).
