(** Histories of uploads on one database under an arbitrary clock
    (storage/db): NewUpload at a clock reading (Model/Ids.v [alloc]: the day may
    be EARLIER than the newest upload's - a clock stepped back over midnight, a
    second front end whose clock is behind), uploads with an explicit ID that is
    not in the table yet (ReplaceUpload of an absent ID: rows appear out of
    order), each upload then inserting [n] records and being committed or
    aborted.  NewUpload commits the Uploads row in a transaction of its own, so
    an aborted (or failed) upload keeps its ID used; its records are rolled
    back.  No proofs here. *)
From Perf Require Import Base.Bytes Model.StoreFmt Model.Ids.

Inductive hop :=
| HNew (day : N) (n : N) (commit : bool)      (* NewUpload at clock reading [day], n records *)
| HSeed (u : uid) (n : N) (commit : bool).    (* upload with the explicit ID u *)

(** the Uploads table, and the committed uploads with their record counts *)
Record hstate := mkH { h_table : list uid; h_recs : list (uid * N) }.

Definition h0 : hstate := mkH [] [].

Definition finish (t' : list uid) (s : hstate) (u : uid) (n : N) (commit : bool) : hstate :=
  mkH t' (if commit then h_recs s ++ [(u, n)] else h_recs s).

(** one step and the ID it hands out ([None]: the call fails, nothing changes) *)
Definition hstep (s : hstate) (o : hop) : hstate * option uid :=
  match o with
  | HNew day n c =>
      match alloc day (h_table s) with
      | Some (u, t') => (finish t' s u n c, Some u)
      | None => (s, None)
      end
  | HSeed u n c =>
      match insert u (h_table s) with
      | Some t' => (finish t' s u n c, Some u)
      | None => (s, None)
      end
  end.

(** the states after every step, with the ID handed out there *)
Fixpoint hrun (s : hstate) (ops : list hop) : list (hstate * option uid) :=
  match ops with
  | [] => []
  | o :: r => let '(s', res) := hstep s o in (s', res) :: hrun s' r
  end.

Definition hfinal (s : hstate) (ops : list hop) : hstate :=
  fold_left (fun s o => fst (hstep s o)) ops s.

(** what the listing of all uploads shows: the committed uploads that have records *)
Definition hlisting (s : hstate) : list (uid * N) :=
  filter (fun un => negb (snd un =? 0)%N) (h_recs s).

(** IDs handed out by NewUpload steps *)
Fixpoint new_ids (s : hstate) (ops : list hop) : list uid :=
  match ops with
  | [] => []
  | o :: r =>
      let '(s', res) := hstep s o in
      match o, res with
      | HNew _ _ _, Some u => u :: new_ids s' r
      | _, _ => new_ids s' r
      end
  end.
