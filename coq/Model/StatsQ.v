(** StatsQ: the descriptive statistics over exact rationals (Coq QArith).

    Two layers:
    - the *specification*: textbook definitions ([mean_q] = sum / n,
      [variance_q] = sum of squared deviations / (n-1), [percentile_q] =
      Hyndman-Fan R8 on a sorted list, [bounds_q] = (min, max));
    - the *algorithms of sample.go replayed over Q* ([mean_inc_q],
      [welford_q]): the same recurrences as Model/StatsF.v without rounding.
    Proofs/StatsQ.v shows that the algorithms compute the specification. *)
From Coq Require Import QArith Qround ZArith List.
Import ListNotations.
Local Open Scope Q_scope.

Definition sum_q (xs : list Q) : Q := fold_right Qplus 0 xs.
Definition sumsq_q (xs : list Q) : Q := fold_right (fun x a => x * x + a) 0 xs.
Definition len_q (xs : list Q) : Q := inject_Z (Z.of_nat (length xs)).

(** ** specification *)
Definition mean_q (xs : list Q) : Q := sum_q xs / len_q xs.

(** sum of squared deviations from a centre *)
Definition ssd_q (c : Q) (xs : list Q) : Q := fold_right (fun x a => (x - c) * (x - c) + a) 0 xs.

(** unbiased sample variance (n >= 2) *)
Definition variance_q (xs : list Q) : Q := ssd_q (mean_q xs) xs / (len_q xs - 1).

(** the same number through power sums; equal to [variance_q]
    ([variance_q_power_sums]); used to evaluate the specification cheaply *)
Definition variance_ps_q (xs : list Q) : Q :=
  (sumsq_q xs - sum_q xs * sum_q xs / len_q xs) / (len_q xs - 1).

(** ** the code's recurrences, exact *)
Fixpoint mean_inc_q (m : Q) (i : Z) (xs : list Q) : Q :=
  match xs with
  | [] => m
  | x :: xs' => mean_inc_q (m + (x - m) / inject_Z (i + 1)) (i + 1) xs'
  end.

Definition welford_step_q (st : Q * Q) (n : Z) (x : Q) : Q * Q :=
  let '(mean, M2) := st in
  let delta := x - mean in
  let mean' := mean + delta / inject_Z (n + 1) in
  (mean', M2 + delta * (x - mean')).

Fixpoint welford_loop_q (st : Q * Q) (n : Z) (xs : list Q) : Q * Q :=
  match xs with
  | [] => st
  | x :: xs' => welford_loop_q (welford_step_q st n x) (n + 1) xs'
  end.

Definition welford_q (xs : list Q) : Q :=
  snd (welford_loop_q (0, 0) 0 xs) / (len_q xs - 1).

(** ** order: sortedness, insertion sort, bounds *)
Definition sorted_q (xs : list Q) : Prop :=
  forall i j : nat, (i <= j < length xs)%nat -> nth i xs 0 <= nth j xs 0.

Fixpoint insert_q (x : Q) (l : list Q) : list Q :=
  match l with
  | [] => [x]
  | y :: l' => if Qle_bool x y then x :: l else y :: insert_q x l'
  end.
Definition sort_q (xs : list Q) : list Q := fold_right insert_q [] xs.

Definition qmin (a b : Q) : Q := if Qle_bool a b then a else b.
Definition qmax (a b : Q) : Q := if Qle_bool a b then b else a.
Definition bounds_q (xs : list Q) : option (Q * Q) :=
  match xs with
  | [] => None
  | x0 :: xs' => Some (fold_left qmin xs' x0, fold_left qmax xs' x0)
  end.

(** ** percentile, Hyndman & Fan method R8 on a sorted list: the value at the
    (1-based, fractional) position n = 1/3 + p (N + 1/3), linearly
    interpolated between the neighbouring order statistics and clamped to the
    first / last element *)
Definition nth_q (xs : list Q) (k : Z) : Q := nth (Z.to_nat k) xs 0.

Definition r8_pos_q (len : Z) (p : Q) : Q := (1 # 3) + p * (inject_Z len + (1 # 3)).

Definition interp_q (xs : list Q) (n : Q) : Q :=
  let len := Z.of_nat (length xs) in
  let k := Qfloor n in
  let frac := n - inject_Z k in
  if (k <=? 0)%Z then nth_q xs 0
  else if (len <=? k)%Z then nth_q xs (len - 1)
  else nth_q xs (k - 1) + frac * (nth_q xs k - nth_q xs (k - 1)).

Definition percentile_q (xs : list Q) (p : Q) : Q :=
  let len := Z.of_nat (length xs) in
  if Qle_bool p 0 then nth_q xs 0
  else if Qle_bool 1 p then nth_q xs (len - 1)
  else interp_q xs (r8_pos_q len p).
