(** The composed benchstat model: cmd/benchstat/main.go's wiring

      flags (-filter -table -row -col -ignore)  x  input files (argument, text)
        -> the measurement tuples (table, row, col, residue, value) handed to
           benchtab.Builder.Add, and from them the tables,

    put together from the EXISTING models, none of them forked:

      benchproc.NewFilter                  Model/FilterParse.new_filter        (C07)
      ProjectionParser.Parse x4, Residue   Model/ProjParse.new_projection (text -> fields, C07),
                                           Model/Projection.step on OpParse / OpResidue (C08)
      benchfmt.Files / Reader              Model/Files.files_run, Model/Reader (C02), which call
      benchunit.Tidy                       Model/Units.read_value              (C04)
      Filter.Apply                         Model/FilterEval.eval / wrap / match_apply (C06)
      Projection.ProjectValues / Project   Model/Projection.step on OpProjectValues / OpProject (C08)
      Builder.Add / ToTables               Model/BenchTab.build / to_tables    (C14)
      benchproc.SortKeys                   Model/SortR.sort_keys_r             (C09, repaired)

    What main.go itself contributes - and what this file therefore states - is
    the ORDER of these calls and which value goes where:
    - the filter is parsed first; the four projections are parsed by ONE parser
      in the order table (with .unit), row, col, ignore, each conjoining its
      fixed-order fields to the same filter; then Residue; the first parse error
      in that order is the error of the run;
    - every argument is an input (label=path allowed); records are read file
      after file by one reader (file configuration reset per file, unit
      metadata kept);
    - syntax-error records and unit records are not results; a result is first
      filtered ([Filter.Apply] rewrites its value list), and only if something
      remains is it added;
    - Add projects the FILTERED result: table keys per remaining value (by its
      tidied unit), then row, col, residue keys once per result; value i goes
      to table key i.

    The projection stage is literally a stream of [Projection.op]s run by
    [Projection.run_ops] from the empty world (projection numbers: 0 table,
    1 row, 2 col, 3 ignore, 4 residue), so every C08 theorem about streams
    applies to it as it stands.  Keys are the positions of the interned rows
    (as in C08); [BenchTab.meas] carries them as [N].

    Not modelled: the flag package (the model starts from the five flag
    STRINGS, defaults included), -alpha/-confidence/-format (they do not reach
    the tuples), os file reading and "-" = stdin (AllowStdin).  No proofs in
    this file. *)
From Perf Require Import Base.Bytes Base.B64.
From Perf Require Model.Name Model.Extract Model.Units Model.Reader Model.Files
  Model.FilterAst Model.FilterParse Model.ProjParse Model.FilterEval
  Model.Key Model.Projection Model.Sort Model.SortR Model.BenchTab.

Record flags := mkFlags {
  fl_filter : bytes; fl_table : bytes; fl_row : bytes; fl_col : bytes; fl_ignore : bytes }.

(** the defaults main.go gives the flag package *)
Definition default_flags : flags :=
  mkFlags (bs "*") (bs ".config") (bs ".fullname") (bs ".file") [].

(** why a run produced no tables.  [EProj which off]: the projection flag number
    [which] (0 -table, 1 -row, 2 -col, 3 -ignore) has a syntax error at [off].
    [EInternal] / [EFuel]: the component models disagree with each other or ran
    out of fuel - Proofs/Pipeline.v shows neither ever happens. *)
Inductive perr :=
| EFilter (off : nat) | EProj (which : nat) (off : nat)
| EOpen | EIo (line : Z) | EInternal | EFuel.

Inductive presult (A : Type) := POk (a : A) | PErr (e : perr).
Arguments POk {A}. Arguments PErr {A}.

(** the four parsed projection flags *)
Record compiled := mkCompiled {
  cp_filter : FilterAst.filter;
  cp_table : list FilterAst.pfield; cp_row : list FilterAst.pfield;
  cp_col : list FilterAst.pfield; cp_ignore : list FilterAst.pfield }.

Definition cp_all (c : compiled) : list (list FilterAst.pfield) :=
  [cp_table c; cp_row c; cp_col c; cp_ignore c].

(** parse.Field -> what makeProjection looks at *)
Definition to_spec (p : FilterAst.pfield) : Projection.pspec := Projection.mkPS (FilterAst.pf_key p) (FilterAst.pf_order p) (FilterAst.pf_fixed p).

(** projection numbers in the world *)
Definition pi_table : nat := 0.
Definition pi_row : nat := 1.
Definition pi_col : nat := 2.
Definition pi_ignore : nat := 3.
Definition pi_residue : nat := 4.

(** one result that passed the filter, as Builder.Add sees it: name,
    configuration, the tidied units of the remaining values; the values
    themselves; where it came from *)
Record kept := mkKept { k_res : Projection.result; k_vals : list b64; k_file : bytes; k_line : Z }.

(** tableBy.ProjectValues, rowBy.Project, colBy.Project, residue.Project *)
Definition add_ops (k : kept) : list Projection.op :=
  [Projection.OpProjectValues pi_table (k_res k); Projection.OpProject pi_row (k_res k);
   Projection.OpProject pi_col (k_res k); Projection.OpProject pi_residue (k_res k)].

Definition mk_meas (r c res : nat) (tv : nat * b64) : BenchTab.meas :=
  BenchTab.mkMeas (N.of_nat (fst tv)) (N.of_nat r) (N.of_nat c) (N.of_nat res) (snd tv).

(** the loop of Builder.Add over tableKeys for one result *)
Definition meas_of (ts : list nat) (r c res : nat) (vals : list b64) : list BenchTab.meas :=
  map (mk_meas r c res) (combine ts vals).

(** reading the Keys back out of the outputs of the projection stream *)
Fixpoint tuples_of (ks : list kept) (outs : list Projection.out) : option (list BenchTab.meas) :=
  match ks, outs with
  | [], [] => Some []
  | k :: ks', Projection.OutKeys ts :: Projection.OutKeys [r] :: Projection.OutKeys [c] :: Projection.OutKeys [res] :: outs' =>
      if Nat.eqb (length ts) (length (k_vals k)) then
        match tuples_of ks' outs' with
        | Some ms => Some (meas_of ts r c res (k_vals k) ++ ms)
        | None => None
        end
      else None
  | _, _ => None
  end.

Definition setup_outs_ok (outs : list Projection.out) : bool :=
  match outs with
  | [Projection.OutParse true; Projection.OutParse true; Projection.OutParse true; Projection.OutParse true; Projection.OutNone] => true
  | _ => false
  end.

(** everything a run leaves behind *)
Record run_out := mkOut {
  o_compiled : compiled;
  o_records : list Reader.record;        (* every record the files delivered, in order *)
  o_units : list Reader.umetap;          (* files.Units() *)
  o_kept : list kept;                (* the results that were added, in order *)
  o_world : Projection.world;                (* parser and projections after the last Add *)
  o_tuples : list BenchTab.meas }.

Section Pipeline.
(** library behaviour, as in the component models: unicode.IsSpace / IsLower /
    IsUpper; bytesconv.Atoi / ParseFloat (C03 models them: Corr instantiates
    these with Model/Atoi.atoi and Model/Atof.parse_float); "regexp.Compile
    succeeds" and Regexp.Match by the regexp's source text *)
Variables is_space is_lower is_upper : N -> bool.
Variable atoi : bytes -> option Z.
Variable parse_float : bytes -> option b64.
Variable re_ok : bytes -> bool.
Variable rematch : bytes -> bytes -> bool.

(** ** flags -> filter and projection fields *)
Definition parse_proj_flag (which : nat) (q : bytes) : presult (list FilterAst.pfield) :=
  match ProjParse.new_projection is_space re_ok q with
  | FilterParse.Ok l => POk l
  | FilterParse.Err off => PErr (EProj which off)
  | FilterParse.OutOfFuel => PErr EFuel
  end.

Definition compile (fl : flags) : presult compiled :=
  match FilterParse.new_filter is_space re_ok (fl_filter fl) with
  | FilterParse.Err off => PErr (EFilter off)
  | FilterParse.OutOfFuel => PErr EFuel
  | FilterParse.Ok f =>
      match parse_proj_flag 0 (fl_table fl) with
      | PErr e => PErr e
      | POk t =>
      match parse_proj_flag 1 (fl_row fl) with
      | PErr e => PErr e
      | POk r =>
      match parse_proj_flag 2 (fl_col fl) with
      | PErr e => PErr e
      | POk c =>
      match parse_proj_flag 3 (fl_ignore fl) with
      | PErr e => PErr e
      | POk i => POk (mkCompiled f t r c i)
      end end end end
  end.

(** mustParse x4 on one parser, then parser.Residue() *)
Definition setup_ops (c : compiled) : list Projection.op :=
  [Projection.OpParse true (map to_spec (cp_table c)); Projection.OpParse false (map to_spec (cp_row c));
   Projection.OpParse false (map to_spec (cp_col c)); Projection.OpParse false (map to_spec (cp_ignore c));
   Projection.OpResidue].

(** ** the command-line arguments as inputs *)
Definition file_system (files : list (bytes * bytes)) : list (bytes * bytes) :=
  map (fun f => (Files.fi_path (Files.parse_path true (fst f)), snd f)) files.

Definition read_files (files : list (bytes * bytes)) : list Reader.record * Files.ferr * Reader.rstate :=
  Files.files_run is_space is_lower is_upper atoi parse_float (file_system files) true (map fst files).

(** ** filter.Apply(rec) *)
(** the result as the filter sees it: per value its (Unit, OrigUnit) *)
Definition fres_of (r : Reader.result) : FilterEval.fresult :=
  FilterEval.mkRes (Reader.r_name r) (Reader.r_cfg r) (map (fun v => (Units.v_unit v, Units.v_ounit v)) (Reader.r_vals r)).

(** the filter after the four Parse calls wrapped it *)
Definition filter_res (c : compiled) (r : Reader.result) : FilterEval.fres :=
  let fr := fres_of r in
  FilterEval.wrap (FilterEval.fullname_keys (cp_all c)) (cp_all c) fr (FilterEval.eval rematch (cp_filter c) fr).

Definition apply_filter (c : compiled) (r : Reader.result) : list Units.value * bool :=
  FilterEval.match_apply (filter_res c r) (Reader.r_vals r).

(** the switch in the Scan loop: only results, only those Apply keeps *)
Definition kept_of (r : Reader.result) (vs : list Units.value) : kept :=
  mkKept (Projection.mkR (Reader.r_name r) (Reader.r_cfg r) (map Units.v_unit vs)) (map Units.v_val vs) (Reader.r_file r) (Reader.r_line r).

Definition keep_record (c : compiled) (rec : Reader.record) : option kept :=
  match rec with
  | Reader.RRes r => let '(vs, ok) := apply_filter c r in if ok then Some (kept_of r vs) else None
  | _ => None
  end.

(** ** the same step, by specification: measurement [i] of result [r] passes
    iff every fixed-order field of the four projection flags lists the
    result's projected value and the -filter expression is true of
    measurement [i] (ordinary boolean semantics, FilterEval.denote); a result
    is added iff some measurement passes, with exactly the passing
    measurements in their order *)
Definition meas_passes (c : compiled) (r : Reader.result) (i : nat) : bool :=
  FilterEval.fixed_keeps (FilterEval.fullname_keys (cp_all c)) (cp_all c) (fres_of r)
  && FilterEval.denote rematch (cp_filter c) (fres_of r) i.

Definition spec_kept_vals (c : compiled) (r : Reader.result) : list Units.value :=
  FilterEval.keep (meas_passes c r) (Reader.r_vals r) 0.

Definition spec_keep_record (c : compiled) (rec : Reader.record) : option kept :=
  match rec with
  | Reader.RRes r => match spec_kept_vals c r with [] => None | vs => Some (kept_of r vs) end
  | _ => None
  end.

Section Run.
(** [keepf]: the filtering step ([keep_record] for the code as it is,
    [spec_keep_record] for the specification) *)
Variable keepf : compiled -> Reader.record -> option kept.

Fixpoint keep_records (c : compiled) (recs : list Reader.record) : list kept :=
  match recs with
  | [] => []
  | rec :: recs' =>
      match keepf c rec with
      | Some k => k :: keep_records c recs'
      | None => keep_records c recs'
      end
  end.

(** ** the whole run *)
Definition run_with (c : compiled) (files : list (bytes * bytes)) : presult run_out :=
  let '(w0, outs0) := Projection.run_ops Projection.new_world (setup_ops c) in
  if negb (setup_outs_ok outs0) then PErr EInternal else
  match read_files files with
  | (_, Files.FOpen, _) => PErr EOpen
  | (_, Files.FIo n, _) => PErr (EIo n)
  | (recs, Files.FNone, st) =>
      let ks := keep_records c recs in
      let '(w, outs) := Projection.run_ops w0 (flat_map add_ops ks) in
      match tuples_of ks outs with
      | Some ms => POk (mkOut c recs (Reader.rs_units st) ks w ms)
      | None => PErr EInternal
      end
  end.

Definition run_flags (fl : flags) (files : list (bytes * bytes)) : presult run_out :=
  match compile fl with
  | PErr e => PErr e
  | POk c => run_with c files
  end.
End Run.

Definition benchstat_run : flags -> list (bytes * bytes) -> presult run_out := run_flags keep_record.
(** the run with the filter step replaced by its specification *)
Definition benchstat_run_spec : flags -> list (bytes * bytes) -> presult run_out := run_flags spec_keep_record.

(** flags -> list (argument * text) -> the tuples Builder.Add receives *)
Definition benchstat_tuples (fl : flags) (files : list (bytes * bytes)) : presult (list BenchTab.meas) :=
  match benchstat_run fl files with
  | POk o => POk (o_tuples o)
  | PErr e => PErr e
  end.

(** the syntax errors main.go prints and skips: (file, line) in order *)
Definition syntax_errors (recs : list Reader.record) : list (bytes * Z) :=
  flat_map (fun r => match r with Reader.RErr f l _ => [(f, l)] | _ => [] end) recs.

End Pipeline.

(** ** from the tuples to the tables *)
Definition proj_of (w : Projection.world) (pi : nat) : Projection.projection :=
  nth pi (Projection.w_projs w) Projection.new_projection.

(** a Key of projection [p] as main.go's output shows it: every flattened
    field with its value *)
Definition key_named (p : Projection.projection) (k : nat) : list (bytes * bytes) :=
  map (fun ni => (fst ni, Projection.key_get p k (snd ni))) (Projection.flat_named p).

(** Key.Get(unitField) of a table key *)
Definition table_unit (p : Projection.projection) (k : nat) : bytes :=
  match Projection.p_unit p with Some u => Projection.key_get p k u | None => [] end.

(** files.Units().GetAssumption(unit) == AssumeExact *)
Definition assume_exact (is_space : N -> bool) (units : list Reader.umetap) (unit : bytes) : bool :=
  match Units.units_get is_space (map Reader.up_meta units) unit (bs "assume") with
  | Some e => beq (Units.u_value e) (bs "exact")
  | None => false
  end.

Section Tables.
(** strconv.ParseFloat and math.Pow of benchproc's "num" order (C09) *)
Variable sort_parse_float : bytes -> option b64.
Variable pow : bool -> nat -> b64.

(** all Keys of a projection in benchproc.SortKeys order *)
Definition sorted_keys (p : Projection.projection) : list nat :=
  SortR.sort_keys_r sort_parse_float pow p (seq 0 (length (Projection.p_keys p))).

Fixpoint pos_in (l : list nat) (k : nat) (i : N) : N :=
  match l with
  | [] => (i + 1000000)%N
  | x :: l' => if Nat.eqb x k then i else pos_in l' k (i + 1)%N
  end.

(** rank of a Key = its place in SortKeys order *)
Definition rank_of (p : Projection.projection) (k : N) : N := pos_in (sorted_keys p) (N.to_nat k) 0%N.

(** stat.ToTables: tables, rows, columns and cells; the per-sample statistics
    stay parameters (they are C11-C13's) *)
Definition benchstat_tables (centre geomean : list b64 -> b64) (o : run_out) : list BenchTab.otab :=
  let w := o_world o in
  BenchTab.to_tables (rank_of (proj_of w pi_table)) (rank_of (proj_of w pi_row)) (rank_of (proj_of w pi_col))
               centre geomean (BenchTab.build (o_tuples o)).

(** the names in a cell's "benchmarks vary in ..." warning: the residue
    fields on which the cell's residue Keys differ *)
End Tables.

(** the names in a cell's "benchmarks vary in ..." warning: the residue fields
    (benchproc.NonSingularFields) on which the residue Keys merged into the
    cell differ; the order in which the Keys are listed does not matter *)
Definition vary_names (o : run_out) (res : list N) : list bytes :=
  let p := proj_of (o_world o) pi_residue in
  map (Projection.field_name p)
      (Key.nonsingular (Projection.flat p) (map (fun k => Projection.key_vals p (N.to_nat k)) res)).
