(** C09: the order of Keys AFTER the two repairs of golang/perf proposed with it
    (hooks/fix_c09_num_leading_sign.diff, hooks/fix_c09_config_subfield_missing_first.diff).
    The shared files Model/Sort.v and Model/Projection.v (also used by C08 and
    C14) keep modelling the code as it was; this file holds what differs.

    1. parseNum. The regexp became [(^[-+])?([0-9.]+)([kKMGTPEZY]i?)?[bB]?] and
       ParseFloat is applied to group 1 ++ group 2: a sign counts when it is the
       first byte of the string and the run of [0-9.] follows it directly; every
       other string matches exactly as before. [num_match_r] is that scanner
       (built on Sort.num_match, the unchanged scanner of the unsigned part).

    2. first-observation order. makeProjection's .config closure now starts the
       order map of a sub-field it creates late at {"": 0} when the projection
       already has Keys (they all lack the new field, so "" was observed
       first). With that, the order map of EVERY field ordered "first" lists the
       values of the field in the order in which the projection's Keys first
       carried them, a Key that lacks the field carrying "". [first_vals] is that
       list, computed from the Keys; Proofs/SortR.v (order_map_closed_form)
       relates it to the order maps of the step-by-step model of Model/Projection.v:
       equal for fields that exist from the start, and for a late sub-field equal
       to the same registrations started from [""] instead of [] when Keys
       existed. The rank lookup with Go's missing-key-is-0 is Sort.cmp_first.

    Everything else of sort.go is as in Model/Sort.v: [less_by] is [Sort.less]
    with the per-field comparison passed in, SortKeys is "the sorted
    permutation". *)
From Perf Require Import Base.Bytes Base.B64 Model.Name Model.Key Model.Projection Model.Sort.
Local Open Scope Z_scope.

Definition c_plus : byte := x2b.
Definition c_minus : byte := x2d.
Definition is_sign (c : byte) : bool := Byte.eqb c c_plus || Byte.eqb c c_minus.

(** (submatch 1 ++ submatch 2, submatch 3) of the repaired numRe; [None] = no match *)
Definition num_match_r (x : bytes) : option (bytes * bytes) :=
  match x with
  | s :: ((d :: _) as t) =>
      if is_sign s && is_numch d
      then match num_match t with Some (run, g) => Some (s :: run, g) | None => None end
      else num_match x
  | _ => num_match x
  end.

(** first occurrences, in order (the keys of an order map in insertion order) *)
Definition first_occ (l : list bytes) : list bytes :=
  fold_left (fun acc v => if mem v acc then acc else acc ++ [v]) l [].

(** the order map of field [idx] after the repair: the field's values in the
    order in which the Keys of the projection first carried them *)
Definition first_vals (p : projection) (idx : nat) : list bytes :=
  first_occ (map (fun r => vals_get r idx) (p_keys p)).

(** builtinOrders["num"] over any number parser *)
Definition cmp_num_of (pn : bytes -> option b64) (a b : bytes) : Z :=
  match pn a, pn b with
  | Some x, Some y =>
      if b64_lt x y || (negb (b64_is_nan x) && b64_is_nan y) then -1
      else if b64_lt y x || (b64_is_nan x && negb (b64_is_nan y)) then 1
      else 0
  | None, None => 0
  | Some _, None => -1
  | None, Some _ => 1
  end.

(** less(flat, a, b) with the comparison function of each field given by index *)
Fixpoint less_by (cmpf : nat -> bytes -> bytes -> Z) (fl : list nat) (a b : row) : bool :=
  match fl with
  | [] => false
  | idx :: fl' =>
      let aa := vals_get a idx in
      let bb := vals_get b idx in
      if beq aa bb then less_by cmpf fl' a b else val_less (cmpf idx) aa bb
  end.

Section SortR.
Variable parse_float : bytes -> option b64.
Variable pow : bool -> nat -> b64.      (* iec?, exponent 0..8 *)

(** parseNum; [None] = strconv.ErrSyntax *)
Definition parse_num_r (x : bytes) : option b64 :=
  match parse_float x with
  | Some v => Some v
  | None =>
      match num_match_r x with
      | None => None
      | Some (m, g) =>
          match parse_float m with
          | None => None
          | Some v => Some (b64_mul v (pow (prefix_iec g) (prefix_exp g)))
          end
      end
  end.

Definition cmp_num_r : bytes -> bytes -> Z := cmp_num_of parse_num_r.

Definition ord_cmp_r (o : ordk) (obs : list bytes) : bytes -> bytes -> Z :=
  match o with
  | OFirst => cmp_first obs
  | OAlpha => cmp_alpha
  | ONum => cmp_num_r
  | OFixed l => cmp_fixed l
  end.

(** Field.cmp of the field with index [idx], given the order maps [tbl] by index;
    an index without a field does not occur (flattened fields exist): 0, so that
    [val_less] is plain string order there, as in Sort.less *)
Definition field_cmp_r (fields : list finfo) (tbl : list (list bytes)) (idx : nat) : bytes -> bytes -> Z :=
  match nth_error fields idx with
  | Some f => ord_cmp_r (fi_ord f) (nth idx tbl [])
  | None => fun _ _ => 0
  end.

Definition obs_table (p : projection) : list (list bytes) :=
  map (first_vals p) (seq 0 (nfields p)).

(** Key.Less (the order maps are computed once per projection) *)
Definition key_less_r (p : projection) : nat -> nat -> bool :=
  let tbl := obs_table p in
  let cmpf := field_cmp_r (p_fields p) tbl in
  fun k1 k2 => less_by cmpf (flat p) (key_vals p k1) (key_vals p k2).

Definition sort_keys_r (p : projection) (ks : list nat) : list nat := sort_by (key_less_r p) ks.

End SortR.

(** * Specification of the [num] order (declarative; Proofs/SortR.v proves the
    model equal to it, Corr/RunC09.v evaluates it on the implementation)

    The value a string denotes under [@num]:
    - if strconv.ParseFloat accepts the whole string: that float;
    - otherwise the string's NUMERAL is looked at: when the string begins with a
      sign '+' or '-' directly followed by a byte of [0-9.], the sign together
      with the maximal run of such bytes after it; in every other case the
      leftmost maximal run of bytes in [0-9.] (no sign: a sign inside a word is
      a hyphen). No numeral, or ParseFloat rejects the numeral: not a number.
      Otherwise the numeral's float [v] - negative for a '-' numeral - is scaled
      by the suffix that follows it: a letter of k K M G T P E Z Y means 1000^e
      with e = 1 1 2 3 4 5 6 7 8, and 1024^e when the letter is followed by 'i';
      anything else (including a bare b/B) means 1. The multiplier is the EXACT
      integer correctly rounded to binary64 and the product is one IEEE
      multiplication (Model/Sort.v, [suffix_multiplier]).
    So "-1k" denotes -1000, "-2Ki" -2048, "+1.5M" 1500000; [numeral_signed] and
    [numeral_unsigned] (Proofs/SortR.v) give the numeral of every string of the
    shapes sign run rest / run rest outright.
    The order is [Sort.num_order]: numbers before non-numbers, NaN after all
    other numbers, otherwise [<] on the values; ties by string order. *)
Definition unsigned_numeral (x : bytes) : bytes * bytes :=
  let s := drop_while (fun c => negb (is_numch c)) x in
  (take_while is_numch s, drop_while is_numch s).

(** (numeral, what follows it) *)
Definition numeral_of (x : bytes) : bytes * bytes :=
  match x with
  | s :: ((d :: _) as t) =>
      if is_sign s && is_numch d
      then (s :: take_while is_numch t, drop_while is_numch t)
      else unsigned_numeral x
  | _ => unsigned_numeral x
  end.

Section NumSpecR.
Variable parse_float : bytes -> option b64.

Definition num_denote_r (x : bytes) : option b64 :=
  match parse_float x with
  | Some v => Some v
  | None =>
      let '(m, rest) := numeral_of x in
      match m with
      | [] => None
      | _ => match parse_float m with
             | Some v => Some (b64_mul v (b64_of_Z (suffix_multiplier rest)))
             | None => None
             end
      end
  end.

(** [a] sorts before [b] in a num field *)
Definition num_before_r (a b : bytes) : bool :=
  match num_order (num_denote_r a) (num_denote_r b) with
  | Lt => true
  | Gt => false
  | Eq => bltb a b
  end.
End NumSpecR.

(** * Specification of the fixed order: "the listed order".
    A word may be listed more than once; the statement then only fixes the order
    of two words when every listing of the one precedes every listing of the
    other. [listed_before l a b]: both are listed and the last [a] stands before
    the first [b]. *)
Fixpoint first_pos (v : bytes) (l : list bytes) (i : nat) : option nat :=
  match l with
  | [] => None
  | x :: l' => if beq x v then Some i else first_pos v l' (S i)
  end.
Fixpoint last_pos (v : bytes) (l : list bytes) (i : nat) (acc : option nat) : option nat :=
  match l with
  | [] => acc
  | x :: l' => last_pos v l' (S i) (if beq x v then Some i else acc)
  end.
Definition listed_before (l : list bytes) (a b : bytes) : bool :=
  match last_pos a l 0 None, first_pos b l 0 with
  | Some i, Some j => Nat.ltb i j
  | _, _ => false
  end.
