(** Model of benchproc.NewKeyHeader (benchproc/keyheader.go). A Key is the
    tuple of its values for the projection's flattened fields. The tree is
    represented by its breadth-first levels (the order in which
    benchtab.ToText consumes it: nodes := Top; next := concat Children), each
    node carrying Field, Value, Start, Len and its number of children. *)
From Perf Require Import Base.Bytes.

Definition key := list bytes.

Record hnode := mkH { h_field : nat; h_value : bytes; h_start : nat; h_len : nat; h_nchild : nat }.

Definition kget (level : nat) (k : key) : bytes := nth level k [].

(** maximal runs of consecutive keys with the same value of field [level]
    (the loop "if node != nil && val == node.Value then node.Len++ else new node") *)
Fixpoint group_runs (level : nat) (l : list key) : list (bytes * list key) :=
  match l with
  | [] => []
  | k :: l' =>
      match group_runs level l' with
      | (v, ks) :: rest =>
          if beq (kget level k) v then (v, k :: ks) :: rest
          else (kget level k, [k]) :: (v, ks) :: rest
      | [] => [(kget level k, [k])]
      end
  end.

Fixpoint zip_app {A} (a b : list (list A)) : list (list A) :=
  match a, b with
  | x :: a', y :: b' => (x ++ y) :: zip_app a' b'
  | [], _ => b
  | _, [] => a
  end.

(** [walk fuel level slice start]: the levels below a parent covering
    [slice] = keys[start : start+len]; [fuel] = number of fields left. *)
Fixpoint walk (fuel level : nat) (slice : list key) (start : nat) : list (list hnode) :=
  match fuel with
  | O => []
  | S fuel' =>
      let runs := group_runs level slice in
      let step := fun (acc : nat * list hnode * list (list hnode)) (run : bytes * list key) =>
        let '(off, nodes, below) := acc in
        let sub := walk fuel' (S level) (snd run) off in
        (off + length (snd run),
         nodes ++ [mkH level (fst run) off (length (snd run)) (length (hd [] sub))],
         zip_app below sub) in
      let '(_, nodes, below) := fold_left step runs (start, [], []) in
      nodes :: below
  end.

Definition key_header (nfields : nat) (keys : list key) : list (list hnode) :=
  match keys with
  | [] => []
  | _ => walk nfields 0 keys 0
  end.

(** ** the declarative description of a header (C16 header_partition):
    per level the cells are contiguous, disjoint and cover all keys; each cell
    spans keys that agree on fields 0..level and is labelled with their value of
    field [level]; neighbouring cells differ in that prefix; the children count
    is the number of next-level cells inside the cell. *)
Definition klist_eqb := list_eqb beq.
Definition prefix_eqb (n : nat) (a b : key) : bool := klist_eqb (firstn n a) (firstn n b).

Fixpoint contiguous (from : nat) (nodes : list hnode) : option nat :=   (* end offset *)
  match nodes with
  | [] => Some from
  | n :: r => if (h_start n =? from) && (1 <=? h_len n) then contiguous (from + h_len n) r else None
  end.

Definition node_ok (keys : list key) (level : nat) (n : hnode) : bool :=
  (h_field n =? level) &&
  match nth_error keys (h_start n) with
  | None => false
  | Some k0 =>
      forallb (fun k => beq (kget level k) (h_value n) && prefix_eqb (S level) k k0)
              (firstn (h_len n) (skipn (h_start n) keys))
  end.

Fixpoint neighbours_differ (keys : list key) (level : nat) (nodes : list hnode) : bool :=
  match nodes with
  | a :: ((b :: _) as r) =>
      match nth_error keys (h_start a), nth_error keys (h_start b) with
      | Some ka, Some kb => negb (prefix_eqb (S level) ka kb) && neighbours_differ keys level r
      | _, _ => false
      end
  | _ => true
  end.

Definition children_ok (next : option (list hnode)) (n : hnode) : bool :=
  match next with
  | None => h_nchild n =? 0
  | Some nx =>
      h_nchild n =? length (filter (fun m => (h_start n <=? h_start m) && (h_start m <? h_start n + h_len n)) nx)
  end.

Fixpoint levels_ok (keys : list key) (level : nat) (lv : list (list hnode)) : bool :=
  match lv with
  | [] => true
  | nodes :: rest =>
      match contiguous 0 nodes with
      | Some e => e =? length keys
      | None => false
      end
      && forallb (node_ok keys level) nodes
      && neighbours_differ keys level nodes
      && forallb (children_ok (match rest with [] => None | nx :: _ => Some nx end)) nodes
      && levels_ok keys (S level) rest
  end.

Definition knil {A} (l : list A) : bool := match l with [] => true | _ => false end.

Definition header_ok (nfields : nat) (keys : list key) (lv : list (list hnode)) : bool :=
  match keys with
  | [] => knil lv
  | _ => (length lv =? nfields) && levels_ok keys 0 lv
  end.
