(** NormalDist: arithmetic skeleton of internal/stats/normaldist.go
    (PDF, CDF, InvCDF = Acklam's rational approximation + one refinement step).
    math.Erfc, math.Exp, math.Log are oracle arguments; math.Sqrt is the
    correctly rounded square root. *)
From Coq Require Import ZArith List Bool.
From Perf Require Import Base.B64 Model.Beta.
Local Open Scope Z_scope.

Definition k_a1 : b64 := b64_of_bits 13854155686354486565. (* -39.69683028665376 *)
Definition k_a2 : b64 := b64_of_bits 4641977866302784411. (* 220.9460984245205 *)
Definition k_a3 : b64 := b64_of_bits 13866933838737128345. (* -275.9285104469687 *)
Definition k_a4 : b64 := b64_of_bits 4639072047187312667. (* 138.357751867269 *)
Definition k_a5 : b64 := b64_of_bits 13852696627858410445. (* -30.66479806614716 *)
Definition k_a6 : b64 := b64_of_bits 4612826843888178297. (* 2.506628277459239 *)
Definition k_b1 : b64 := b64_of_bits 13856235683484533956. (* -54.47609879822406 *)
Definition k_b2 : b64 := b64_of_bits 4639889312772538999. (* 161.5858368580409 *)
Definition k_b3 : b64 := b64_of_bits 13863054224260258002. (* -155.6989798598866 *)
Definition k_b4 : b64 := b64_of_bits 4634401141363829182. (* 66.80131188771972 *)
Definition k_b5 : b64 := b64_of_bits 13847038013971134502. (* -13.28068155288572 *)
Definition k_c1 : b64 := b64_of_bits 13798997430714945504. (* -0.007784894002430293 *)
Definition k_c2 : b64 := b64_of_bits 13822851435045880248. (* -0.3223964580411365 *)
Definition k_c3 : b64 := b64_of_bits 13835960482696009560. (* -2.400758277161838 *)
Definition k_c4 : b64 := b64_of_bits 13836295942911834650. (* -2.549732539343734 *)
Definition k_c5 : b64 := b64_of_bits 4616611452376731079. (* 4.374664141464968 *)
Definition k_c6 : b64 := b64_of_bits 4613798575908835234. (* 2.938163982698783 *)
Definition k_d1 : b64 := b64_of_bits 4575625165243457492. (* 0.007784695709041462 *)
Definition k_d2 : b64 := b64_of_bits 4599480671287182180. (* 0.3224671290700398 *)
Definition k_d3 : b64 := b64_of_bits 4612688371394471446. (* 2.445134137142996 *)
Definition k_d4 : b64 := b64_of_bits 4615636595525398809. (* 3.754408661907416 *)
Definition k_plow : b64 := b64_of_bits 4582646808030102946. (* 0.02425 *)
Definition k_phigh : b64 := b64_of_bits 4606963994218089939. (* 1 - plow, constant arithmetic *)
Definition k_inv_sqrt_2pi : b64 := b64_of_bits 4600858325139338833.
Definition k_sqrt2 : b64 := b64_of_bits 4609047870845172685. (* math.Sqrt2 *)
Definition k_two_pi : b64 := b64_of_bits 4618760256179416344. (* 2*math.Pi *)
Definition k_m2 : b64 := b64_of_Z (-2).

Section Normal.
  Variable erfc_o exp_o log_o : b64 -> option b64.
  Variable mu sigma : b64.

  Definition erfc_r x := res_of_option (erfc_o x).
  Definition exp_r x := res_of_option (exp_o x).
  Definition log_r x := res_of_option (log_o x).

  (** Exp(-z*z/(2*Sigma*Sigma)) * invSqrt2Pi / Sigma *)
  Definition norm_pdf (x : b64) : res b64 :=
    let z := b64_sub x mu in
    res_map (fun e => b64_div (b64_mul e k_inv_sqrt_2pi) sigma)
            (exp_r (b64_div (b64_mul (b64_neg z) z) (b64_mul (b64_mul k_two sigma) sigma))).

  (** Erfc(-(x-Mu)/(Sigma*Sqrt2)) / 2 *)
  Definition norm_cdf (x : b64) : res b64 :=
    res_map (fun e => b64_div e k_two)
            (erfc_r (b64_div (b64_neg (b64_sub x mu)) (b64_mul sigma k_sqrt2))).

  Definition horner (cs : list b64) (q : b64) (c0 : b64) : b64 :=
    (* ((c1*q+c2)*q+...)*q + c0 for cs = [c1; c2; ...] *)
    match cs with
    | nil => c0
    | c1 :: rest =>
        b64_add (b64_mul (fold_left (fun acc c => b64_add (b64_mul acc q) c) rest c1) q) c0
    end.

  Definition tail_approx (q : b64) : b64 * b64 :=
    (horner (k_c1 :: k_c2 :: k_c3 :: k_c4 :: k_c5 :: nil) q k_c6,
     horner (k_d1 :: k_d2 :: k_d3 :: k_d4 :: nil) q b64_one).

  Definition norm_inv_cdf (p : b64) : res b64 :=
    if b64_lt p b64_zero || b64_gt p b64_one then Val k_nan
    else if b64_eq p b64_zero then Val (S754_infinity true)
    else if b64_eq p b64_one then Val (S754_infinity false)
    else
      let x0 : res b64 :=
        if b64_lt p k_plow then
          res_map (fun l => let q := b64_sqrt (b64_mul k_m2 l) in
                            let '(nu, de) := tail_approx q in b64_div nu de) (log_r p)
        else if b64_lt k_phigh p then
          res_map (fun l => let q := b64_sqrt (b64_mul k_m2 l) in
                            let '(nu, de) := tail_approx q in b64_div (b64_neg nu) de)
                  (log_r (b64_sub b64_one p))
        else
          let q := b64_sub p k_half in
          let r := b64_mul q q in
          Val (b64_div (b64_mul (horner (k_a1 :: k_a2 :: k_a3 :: k_a4 :: k_a5 :: nil) r k_a6) q)
                       (horner (k_b1 :: k_b2 :: k_b3 :: k_b4 :: k_b5 :: nil) r b64_one)) in
      res_bind x0 (fun x =>
      res_bind (erfc_r (b64_div (b64_neg x) k_sqrt2)) (fun ec =>
      let e := b64_sub (b64_mul k_half ec) p in
      res_bind (exp_r (b64_div (b64_mul x x) k_two)) (fun ex =>
      let u := b64_mul (b64_mul e (b64_sqrt k_two_pi)) ex in
      let x' := b64_sub x (b64_div u (b64_add b64_one (b64_div (b64_mul x u) k_two))) in
      Val (b64_add (b64_mul x' sigma) mu)))).
End Normal.
