(** benchtab.Table.RowScaler (cmd/benchstat/internal/benchtab/table.go): the
    scale shared by the cells of one table row is benchunit.CommonScale over the
    Summary.Center of the cells the row HAS (missing cells contribute nothing),
    whatever their sign; ToText prints every centre of the row with
    [Scaler.Format] of that scale. *)
From Perf Require Import Base.Bytes Base.B64 Base.FmtFixed Model.Scale.

(** the centres of the present cells, in column order *)
Fixpoint row_values (cells : list (option b64)) : list b64 :=
  match cells with
  | [] => []
  | Some v :: r => v :: row_values r
  | None :: r => row_values r
  end.

Definition row_scaler (cells : list (option b64)) (cls : class) : option scaler :=
  common_scale (row_values cells) cls.

(** the centre texts of a row ([None] = CommonScale panics: bad class) *)
Definition row_texts (shortest : b64 -> bytes) (cells : list (option b64)) (cls : class) : option (list (option bytes)) :=
  match row_scaler cells cls with
  | Some s => Some (map (option_map (format shortest s)) cells)
  | None => None
  end.
