(** Correspondence evaluator for the second kind of C14 case: the composed
    benchstat model (Model/Pipeline.v) against the real cmd/benchstat.

    The case carries the five flag STRINGS and the argument/TEXT of every input
    file, and what the real code made of them:
    - the real binary: error class, syntax errors on stderr (text mode), and
      its -format csv output parsed back: per table the header lines, the unit,
      the column labels, the row labels, which cells exist and each cell's centre;
    - benchtab.Tables observed in process: per table the key (field names and
      values), unit, assumption, rows, columns, each cell's sample, its
      "benchmarks vary in" names, each column's "benchmark set differs" flag;
      the binary's csv and text bytes equal the rendering of those tables.
    The model recomputes all of it from the texts and flags:
    [corr_ok] with the models of the code as it is (filter masks, reader slots,
    Builder.Add); [prop_ok] with the filter step and the cells replaced by
    their specifications (boolean semantics per measurement; cells by filtering
    the tuple list), plus the binary/in-process agreement.

    Library behaviour is replayed from tables in the case: regexp.Compile /
    Regexp.Match by source text, strconv.ParseFloat and math.Pow for the "num"
    order, the centre of a sample (benchmath, called directly by the harness on
    each sample).  bytesconv.Atoi / ParseFloat are NOT replayed: they are the
    C03 models (Model/Atoi.v, Model/Atof.v). *)
From Perf Require Import Base.Bytes Base.Sx Base.B64 Base.SxF Base.DecSpec Base.Unicode.
From Perf Require Model.Atoi Model.Atof Model.Key Model.Projection Model.Sort Model.BenchTab
  Model.FilterEval Model.Reader.
From Perf Require Import Model.Pipeline.
From Perf Require Corr.RunC06 Corr.RunC07 Corr.RunC09 Corr.StatC14.

Definition named := list (bytes * bytes).

Record cell_obs := mkCO { co_r : nat; co_c : nat; co_sample : list b64; co_vary : list bytes }.
Record tab_obs := mkTO {
  to_key : named; to_unit : bytes; to_exact : bool;
  to_rows : list named; to_cols : list named; to_cells : list cell_obs; to_sums : list bool }.
Record csv_tab := mkCT {
  ct_hdr : list bytes; ct_unit : bytes; ct_cols : list (list bytes); ct_rows : list bytes;
  ct_cells : list (nat * nat * b64) }.

Record case := mkCase {
  k_flags : flags;
  k_files : list (bytes * bytes);
  k_reok : RunC07.oracle;
  k_retab : RunC06.retable;
  k_sort : RunC09.oracle;
  k_status : Z; k_which : nat;
  k_syn : list (bytes * Z);
  k_tabs : list tab_obs;
  k_stats : list (bool * list b64 * b64);
  k_csv : list csv_tab;
  k_bin_csv : bool; k_bin_text : bool;
  (* the statistics of the cells the model reconstructs, judged end to end (Corr/StatC14.v): per table every cell's
     centre, interval, comparison, the delta and ratio strings the binary printed, the summary row and its warnings;
     oracles by direct benchmath calls keyed by assumption and sample content *)
  k_stat : list StatC14.stab; k_sosum : StatC14.sum_oracle; k_socmp : StatC14.cmp_oracle }.

Definition as_named := as_list (as_pair as_b as_b).
Definition as_cell (s : sx) : option cell_obs :=
  match s with
  | SL [r; c; smp; vary] =>
      do r <- as_nat r; do c <- as_nat c; do smp <- as_list as_f64 smp; do vary <- as_list as_b vary;
      Some (mkCO r c smp vary)
  | _ => None
  end.
Definition as_tab (s : sx) : option tab_obs :=
  match s with
  | SL [k; u; ex; rows; cols; cells; sums] =>
      do k <- as_named k; do u <- as_b u; do ex <- as_bool ex;
      do rows <- as_list as_named rows; do cols <- as_list as_named cols;
      do cells <- as_list as_cell cells; do sums <- as_list as_bool sums;
      Some (mkTO k u ex rows cols cells sums)
  | _ => None
  end.
Definition as_csv (s : sx) : option csv_tab :=
  match s with
  | SL [h; u; cols; rows; cells] =>
      do h <- as_list as_b h; do u <- as_b u; do cols <- as_list (as_list as_b) cols;
      do rows <- as_list as_b rows;
      do cells <- as_list (as_triple as_nat as_nat as_f64) cells;
      Some (mkCT h u cols rows cells)
  | _ => None
  end.
Definition as_stat (s : sx) : option (bool * list b64 * b64) :=
  match s with
  | SL [e; smp; c] => do e <- as_bool e; do smp <- as_list as_f64 smp; do c <- as_f64 c; Some (e, smp, c)
  | _ => None
  end.

Definition decode (s : sx) : option case :=
  match s with
  | SL [SZ 7; SL [SB f; SB t; SB r; SB c; SB i]; files; reok; retab; so; SZ status; which; syn; tabs; stats; csv; b1; b2; stat; sosum; socmp] =>
      do files <- as_list (as_pair as_b as_b) files;
      do reok <- as_list (as_list (as_pair as_b as_bool)) reok;
      do retab <- as_list (as_triple as_b as_b as_bool) retab;
      do so <- RunC09.as_oracle so;
      do which <- as_nat which;
      do syn <- as_list (as_pair as_b as_z) syn;
      do tabs <- as_list as_tab tabs;
      do stats <- as_list as_stat stats;
      do csv <- as_list as_csv csv;
      do b1 <- as_bool b1; do b2 <- as_bool b2;
      do stat <- as_list StatC14.as_stab stat;
      do sosum <- StatC14.as_sum_oracle sosum; do socmp <- StatC14.as_cmp_oracle socmp;
      Some (mkCase (mkFlags f t r c i) files (concat reok) retab so status which syn tabs stats csv b1 b2 stat sosum socmp)
  | _ => None
  end.

(** bytesconv.Atoi / ParseFloat as the reader uses them: any error is an error *)
Definition atoi_m (s : bytes) : option Z :=
  match Atoi.atoi s with Atoi.IOk n => Some n | Atoi.IErr _ _ => None end.
Definition parse_float_m (s : bytes) : option b64 :=
  match Atof.parse_float s with (v, ErrNone) => Some v | _ => None end.

Definition flist_same (a b : list b64) : bool := list_eqb b64_same a b.
Definition blist_eqb (a b : list bytes) : bool := list_eqb beq a b.
Definition named_eqb (a b : named) : bool :=
  list_eqb (fun x y => beq (fst x) (fst y) && beq (snd x) (snd y)) a b.

Fixpoint all2 {A B} (f : A -> B -> bool) (a : list A) (b : list B) : bool :=
  match a, b with
  | [], [] => true
  | x :: a', y :: b' => f x y && all2 f a' b'
  | _, _ => false
  end.

Fixpoint index_nat (k : N) (l : list N) (i : nat) : nat :=
  match l with
  | [] => i
  | x :: l' => if (x =? k)%N then i else index_nat k l' (S i)
  end.

Section WithCase.
Variable c : case.

Definition rematch_c := RunC06.re_match (k_retab c).
Definition re_ok_c := RunC07.re_lookup (k_reok c).
Definition sort_pf := RunC09.o_parse_float (k_sort c).
Definition sort_pow := RunC09.o_powf (k_sort c).

Definition run_model : presult run_out :=
  benchstat_run go_is_space go_is_lower go_is_upper atoi_m parse_float_m re_ok_c rematch_c
                (k_flags c) (k_files c).
Definition run_spec : presult run_out :=
  benchstat_run_spec go_is_space go_is_lower go_is_upper atoi_m parse_float_m re_ok_c rematch_c
                     (k_flags c) (k_files c).

(** no regexp/value pair and no ParseFloat argument the run needs is missing
    from the tables (a miss would make the model guess) *)
Definition oracles_cover (o : run_out) : bool :=
  forallb (fun rec => match rec with
                      | Reader.RRes r => RunC06.needs_ok (k_retab c) (cp_filter (o_compiled o)) (fres_of r)
                      | _ => true end) (o_records o)
  && forallb (fun pi => RunC09.oracle_covers (k_sort c) (proj_of (o_world o) pi)) [pi_table; pi_row; pi_col].

Definition nan : b64 := S754_nan.
Fixpoint lookup_stat (tbl : list (bool * list b64 * b64)) (ex : bool) (s : list b64) : option b64 :=
  match tbl with
  | [] => None
  | (e, k, v) :: tbl' => if Bool.eqb e ex && flist_same k s then Some v else lookup_stat tbl' ex s
  end.
Definition centre_of (ex : bool) (s : list b64) : b64 :=
  match lookup_stat (k_stats c) ex s with Some v => v | None => nan end.

(* NaN-ness of go-moremath's GeoMean, as in Corr/RunC14.v *)
Definition geomean_stub (l : list b64) : b64 :=
  match l with
  | [] => nan
  | _ => if forallb (fun x => b64_lt b64_zero x) l then b64_one else nan
  end.

Section WithRun.
Variable o : run_out.
Definition p_t := proj_of (o_world o) pi_table.
Definition p_r := proj_of (o_world o) pi_row.
Definition p_c := proj_of (o_world o) pi_col.
Definition rk_t := rank_of sort_pf sort_pow p_t.
Definition rk_r := rank_of sort_pf sort_pow p_r.
Definition rk_c := rank_of sort_pf sort_pow p_c.

Definition tab_exact (t : N) : bool :=
  assume_exact go_is_space (o_units o) (table_unit p_t (N.to_nat t)).

(** the tables: Builder.Add / ToTables as modelled ... *)
Definition tables_model : list BenchTab.otab :=
  let ts := BenchTab.build (o_tuples o) in
  BenchTab.somes (map (fun k => option_map (BenchTab.table_out rk_r rk_c (centre_of (tab_exact k)) geomean_stub)
                                           (BenchTab.find_tab k ts))
                      (BenchTab.sort_by rk_t (map BenchTab.bt_key ts))).
(** ... and as specified, straight from the tuple list *)
Definition tables_spec : list BenchTab.otab :=
  map (fun t => BenchTab.table_out rk_r rk_c (centre_of (tab_exact t)) geomean_stub
                                   (BenchTab.spec_tab (o_tuples o) t))
      (BenchTab.sort_by rk_t (BenchTab.dedup (map BenchTab.m_t (o_tuples o)))).

(** against the tables observed in process *)
Definition cell_matches (e : BenchTab.otab) (x : BenchTab.ocell) (ob : cell_obs) : bool :=
  Nat.eqb (index_nat (BenchTab.oc_r x) (BenchTab.ot_rows e) 0) (co_r ob)
  && Nat.eqb (index_nat (BenchTab.oc_c x) (BenchTab.ot_cols e) 0) (co_c ob)
  && flist_same (BenchTab.oc_sample x) (BenchTab.fsort (co_sample ob))
  && blist_eqb (vary_names o (BenchTab.oc_res x)) (co_vary ob).

Definition tab_matches (e : BenchTab.otab) (ob : tab_obs) : bool :=
  let t := N.to_nat (BenchTab.ot_key e) in
  named_eqb (key_named p_t t) (to_key ob)
  && beq (table_unit p_t t) (to_unit ob)
  && Bool.eqb (tab_exact (BenchTab.ot_key e)) (to_exact ob)
  && all2 (fun r obr => named_eqb (key_named p_r (N.to_nat r)) obr) (BenchTab.ot_rows e) (to_rows ob)
  && all2 (fun cl obc => named_eqb (key_named p_c (N.to_nat cl)) obc) (BenchTab.ot_cols e) (to_cols ob)
  && all2 (cell_matches e) (BenchTab.ot_cells e) (to_cells ob)
  && all2 (fun s b => Bool.eqb (BenchTab.cs_warn_set s) b) (BenchTab.ot_sums e) (to_sums ob).

(** against the binary's csv *)
Definition colon_sp : bytes := [x3a; x20].
Definition hdr_lines (prev : option nat) (t : nat) : list bytes :=
  flat_map (fun ni =>
      let '(name, idx) := ni in
      if beq name Projection.key_unit then [] else
      let v := Projection.key_get p_t t idx in
      match prev with
      | Some t0 => if beq (Projection.key_get p_t t0 idx) v then [] else [name ++ colon_sp ++ v]
      | None => [name ++ colon_sp ++ v]
      end) (Projection.flat_named p_t).

Definition csv_cell_matches (e : BenchTab.otab) (x : BenchTab.ocell) (ob : nat * nat * b64) : bool :=
  let '(r, cl, ce) := ob in
  Nat.eqb (index_nat (BenchTab.oc_r x) (BenchTab.ot_rows e) 0) r
  && Nat.eqb (index_nat (BenchTab.oc_c x) (BenchTab.ot_cols e) 0) cl
  && match lookup_stat (k_stats c) (tab_exact (BenchTab.ot_key e)) (BenchTab.oc_sample x) with
     | Some v => b64_same v ce
     | None => false
     end.

Definition csv_tab_matches (prev : option nat) (e : BenchTab.otab) (ob : csv_tab) : bool :=
  let t := N.to_nat (BenchTab.ot_key e) in
  blist_eqb (hdr_lines prev t) (ct_hdr ob)
  && beq (table_unit p_t t) (ct_unit ob)
  && all2 (fun cl obc => blist_eqb (map snd (key_named p_c (N.to_nat cl))) obc) (BenchTab.ot_cols e) (ct_cols ob)
  && all2 (fun r obr => beq (Key.key_string false (Projection.flat_named p_r) (Projection.key_vals p_r (N.to_nat r))) obr)
          (BenchTab.ot_rows e) (ct_rows ob)
  && all2 (csv_cell_matches e) (BenchTab.ot_cells e) (ct_cells ob).

Fixpoint csv_matches (prev : option nat) (es : list BenchTab.otab) (obs : list csv_tab) : bool :=
  match es, obs with
  | [], [] => true
  | e :: es', ob :: obs' =>
      csv_tab_matches prev e ob && csv_matches (Some (N.to_nat (BenchTab.ot_key e))) es' obs'
  | _, _ => false
  end.

Definition syn_matches : bool :=
  list_eqb (fun a b => beq (fst a) (fst b) && Z.eqb (snd a) (snd b))
           (syntax_errors (o_records o)) (k_syn c).

Definition out_matches (tables : list BenchTab.otab) : bool :=
  Z.eqb (k_status c) 0 && oracles_cover o && syn_matches
  && all2 tab_matches tables (k_tabs c) && csv_matches None tables (k_csv c).
End WithRun.

Definition err_matches (e : perr) : bool :=
  match e with
  | EFilter _ => Z.eqb (k_status c) 1
  | EProj w _ => Z.eqb (k_status c) 2 && Nat.eqb w (k_which c)
  | EOpen | EIo _ => Z.eqb (k_status c) 3
  | EInternal | EFuel => false
  end && match k_tabs c, k_csv c with [], [] => true | _, _ => false end.

Definition corr_ok : bool :=
  match run_model with
  | POk o => out_matches o (tables_model o)
  | PErr e => err_matches e
  end.

(** [prop_ok]: as before, and the statistics of the very cells reconstructed from the texts: centre, interval,
    comparison and delta against the first column's cell of the row, the summary row by the declarative rule
    (Corr/StatC14.v over [tables_spec]). [relax]: the recorded deviation C14_geomean_inf_order admitted *)
Definition judge (relax : bool) : bool :=
  k_bin_csv c && k_bin_text c &&
  match run_spec with
  | POk o => out_matches o (tables_spec o)
             && StatC14.stats_ok relax (k_sosum c) (k_socmp c) (tables_spec o) (k_stat c)
  | PErr e => err_matches e && match k_stat c with [] => true | _ => false end
  end.
Definition prop_ok : bool := judge false.
Definition known_ok : bool := judge true.
End WithCase.

Definition run_case (s : sx) : N :=
  match decode s with
  | Some c => code_of3 (corr_ok c) (prop_ok c) (known_ok c)
  | None => code_undecodable
  end.
