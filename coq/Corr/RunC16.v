(** Correspondence evaluator for C16.
    kind 0: a texttab API call sequence, the permutation sort.Slice produced for
            "cells by span", and the bytes Format wrote (or a panic);
    kind 1: a key slice and the breadth-first levels of benchproc.NewKeyHeader;
    kind 2: the lines of real benchtab text tables (observation only);
    kind 3: per real table: the abstract table, ToText's bytes, ToCSV's records and warnings;
    kind 4: a whole run: per table its table-key header lines and abstract table,
            and every record and the warning stream Tables.ToCSV wrote;
    kind 5: a whole run: the names of the table-key fields, per table the table key
            the in-process Tables report and the abstract table; the bytes
            Tables.ToText wrote, every spreadsheet row Tables.ToCSV wrote and its
            warning stream (the header lines are derived, not given);
    kind 6: per real table the unit, ToText's bytes and per row the centres of its
            cells: the centres the text prints are read back and judged by the
            shared-scale clause of C10 (RunC10.rtab_prop: one precision and
            prefix per row, that of the least non-zero |centre|, every printed
            centre within half a unit of its last digit), against
            Model/RowScale.v (RunC10.rtab_corr);
    kind 7: the CSV output of a whole run that encoding/csv could not read back
            (raw bytes, the reader's message): never acceptable. *)
From Perf Require Import Base.Bytes Base.Sx Model.Runes Model.TextTab Model.KeyHeader Model.LayoutObs Model.Render Model.RenderRun.
From Perf Require Corr.RunC10.

Definition as_align (s : sx) : option align :=
  match s with SZ 0 => Some ALeft | SZ 1 => Some ACenter | SZ 2 => Some ARight | _ => None end.

Definition as_op (s : sx) : option op :=
  match s with
  | SL [SZ 0] => Some ORow
  | SL [SZ 1; c] => do c <- as_nat c; Some (OCol c)
  | SL [SZ 2; n; SB v; m; a] =>
      do n <- as_nat n; do m <- as_opt as_b m; do a <- as_align a; Some (OSpan n v m a)
  | SL [SZ 3; c; b] => do c <- as_nat c; do b <- as_bool b; Some (OShrink c b)
  | _ => None
  end.

Inductive observed := ObsPanic | ObsOut (b : bytes).
Definition as_observed (s : sx) : option observed :=
  match s with
  | SL [SZ 0; SB b] => Some (ObsOut b)
  | SL [SZ 1] => Some ObsPanic
  | _ => None
  end.

Definition as_hnode (s : sx) : option hnode :=
  match s with
  | SL [f; SB v; st; ln; nc] =>
      do f <- as_nat f; do st <- as_nat st; do ln <- as_nat ln; do nc <- as_nat nc;
      Some (mkH f v st ln nc)
  | _ => None
  end.

(** one real benchtab.Table: the abstract table (formatted strings recorded
    from the Table), startRow, ToText's bytes, ToCSV's records (parsed back),
    its row count, its warnings bytes *)
Record tc_table := mkTC { tc_abs : rtable; tc_start : nat; tc_text : bytes;
                          tc_recs : list (list bytes); tc_n : nat; tc_warn : bytes }.

Definition as_cmp (s : sx) : option rcmp :=
  match s with
  | SL [SB d; SB p; w] => do w <- as_list as_b w; Some (mkCmp d p w)
  | _ => None
  end.
Definition as_rcell (s : sx) : option rcell :=
  match s with
  | SL [SB c; SB t; SB r; sw; mw; cm] =>
      do sw <- as_list as_b sw; do mw <- as_list as_b mw; do cm <- as_opt as_cmp cm;
      Some (mkRC c t r sw mw cm)
  | _ => None
  end.
Definition as_rsum (s : sx) : option rsum :=
  match s with
  | SL [h; SB c; SB t; hr; SB r; w] =>
      do h <- as_bool h; do hr <- as_bool hr; do w <- as_list as_b w; Some (mkRS h c t hr r w)
  | _ => None
  end.
Definition as_rtable (s : sx) : option rtable :=
  match s with
  | SL [SB unit; SB sl; nf; cols; rows; sums] =>
      do nf <- as_nat nf; do cols <- as_list (as_list as_b) cols;
      do rows <- as_list (as_pair as_b (as_list (as_opt as_rcell))) rows;
      do sums <- as_list (as_opt as_rsum) sums;
      Some (mkRT unit sl nf cols rows sums)
  | _ => None
  end.
Definition as_tc (s : sx) : option tc_table :=
  match s with
  | SL [abs; st; SB text; recs; n; SB warn] =>
      do abs <- as_rtable abs; do st <- as_nat st; do recs <- as_list (as_list as_b) recs; do n <- as_nat n;
      Some (mkTC abs st text recs n warn)
  | _ => None
  end.

Inductive case :=
| KTable (ops : list op) (perm : list nat) (obs : observed)
| KKeys (nf : nat) (keys : list key) (nlev : nat) (levels : list (list hnode))
| KBench (tables : list (nat * list bytes))        (* header line count, table lines *)
| KTextCsv (tables : list tc_table)                (* abstract table + real text + real CSV *)
| KCsvTables (tabs : list (list bytes * rtable)) (recs : list (list bytes)) (warn : bytes)
| KRun (fields : list bytes) (tabs : list (list bytes * rtable)) (text : bytes) (recs : list (list bytes)) (warn : bytes)
| KRowScale (tabs : list RunC10.obs_rtab)
(** the CSV output of a run that encoding/csv (the oracle for "is this CSV")
    could not read back: the output bytes and the reader's message *)
| KCsvMalformed (raw : bytes) (err : bytes).

Definition decode (s : sx) : option case :=
  match s with
  | SL [SZ 0; ops; perm; obs] =>
      do ops <- as_list as_op ops; do perm <- as_list as_nat perm; do obs <- as_observed obs;
      Some (KTable ops perm obs)
  | SL [SZ 1; nf; keys; nlev; levels] =>
      do nf <- as_nat nf; do keys <- as_list (as_list as_b) keys; do nlev <- as_nat nlev;
      do levels <- as_list (as_list as_hnode) levels;
      Some (KKeys nf keys nlev levels)
  | SL [SZ 2; tabs] =>
      do tabs <- as_list (as_pair as_nat (as_list as_b)) tabs; Some (KBench tabs)
  | SL [SZ 3; tabs] => do tabs <- as_list as_tc tabs; Some (KTextCsv tabs)
  | SL [SZ 4; tabs; recs; SB warn] =>
      do tabs <- as_list (as_pair (as_list as_b) as_rtable) tabs; do recs <- as_list (as_list as_b) recs;
      Some (KCsvTables tabs recs warn)
  | SL [SZ 5; fields; tabs; SB text; recs; SB warn] =>
      do fields <- as_list as_b fields;
      do tabs <- as_list (as_pair (as_list as_b) as_rtable) tabs; do recs <- as_list (as_list as_b) recs;
      Some (KRun fields tabs text recs warn)
  | SL [SZ 6; tabs] => do tabs <- RunC10.as_rtabs tabs; Some (KRowScale tabs)
  | SL [SZ 7; SB raw; SB err] => Some (KCsvMalformed raw err)
  | _ => None
  end.

(** split the written bytes at "\n"; [None] if the last line is unterminated *)
Fixpoint split_lines (cur : bytes) (b : bytes) : option (list bytes) :=
  match b with
  | [] => match cur with [] => Some [] | _ => None end
  | x :: r => if Byte.eqb x nl then option_map (cons (rev cur)) (split_lines [] r)
              else split_lines (x :: cur) r
  end.

Definition hnode_eqb (a b : hnode) : bool :=
  (h_field a =? h_field b)%nat && beq (h_value a) (h_value b) && (h_start a =? h_start b)%nat
  && (h_len a =? h_len b)%nat && (h_nchild a =? h_nchild b)%nat.

Definition blines_eqb := list_eqb beq.

(** the API was used as documented: every span >= 1 and no newline in any text *)
Definition ops_wf (ops : list op) : bool :=
  forallb (fun o => match o with
                    | OSpan n v m _ => (1 <=? n)%nat && negb (existsb (Byte.eqb nl) v)
                                       && match m with Some x => negb (existsb (Byte.eqb nl) x) | None => true end
                    | _ => true end) ops.

(** benchtab.Table.ToText observed on real tables: every header line ends with
    the border "│" at one offset; the bars of a header line are also bars of the
    line below it; no line is longer than the border; no line ends in a blank *)
Definition bar : bytes := [xe2; x94; x82].
Fixpoint bar_positions (i : nat) (l : list bytes) : list nat :=
  match l with
  | [] => []
  | r :: l' => if beq r bar then i :: bar_positions (S i) l' else bar_positions (S i) l'
  end.
Definition ends_with_bar (l : list bytes) : bool :=
  match rev l with r :: _ => beq r bar | [] => false end.
Definition ends_blank (l : list bytes) : bool :=
  match rev l with r :: _ => is_space_rune r | [] => false end.
Fixpoint nested (hs : list (list nat)) : bool :=
  match hs with
  | a :: ((b :: _) as r) => forallb (fun x => existsb (Nat.eqb x) b) a && nested r
  | _ => true
  end.
Definition bench_table_ok (t : nat * list bytes) : bool :=
  let '(nhdr, lines) := t in
  let rl := map runes lines in
  let hdr := firstn nhdr rl in
  match hdr with
  | [] => false
  | h0 :: _ =>
      let w := length h0 in
      (length hdr =? nhdr)%nat
      && forallb (fun h => ends_with_bar h && (length h =? w)%nat) hdr
      && nested (map (bar_positions 0) hdr)
      && forallb (fun l => (length l <=? w)%nat && negb (ends_blank l)) rl
  end.

(** model of ToCSV / ToText placement against the real renderings: CSV records and
    warnings stream equal; the real text is a layout of exactly the cells the
    model hands to texttab (located cell by cell), followed by the model's
    footnote lines. (The byte-exact text would need the permutation of
    texttab's internal span sort, which is not observable here.) *)
Definition wline_bytes (w : wline) : bytes :=
  let '(ref, row, msg) := w in
  ref ++ rev (let fix dig (fuel n : nat) : bytes :=
                match fuel with O => [] | S f =>
                  match Byte.of_N (48 + N.of_nat (n mod 10)) with
                  | Some b => b :: (if n / 10 =? 0 then [] else dig f (n / 10))%nat
                  | None => [] end end in dig 20 row)
      ++ [x3a; sp] ++ msg.

Definition tc_corr (t : tc_table) : bool :=
  let '(recs, ws) := csv_model (tc_abs t) (tc_start t) in
  list_eqb (list_eqb beq) recs (tc_recs t)
  && (tc_n t =? length recs)%nat
  && list_eqb beq (map wline_bytes ws) (split_nl [] (tc_warn t))
  && let '(ops, wl) := text_model (tc_abs t) in
     match build ops, split_lines [] (tc_text t) with
     | Some tb, Some lines =>
         let ntab := if is_nilb (t_cells tb) then 0%nat else S (last_row (t_cells tb)) in
         layout_obs_ok (t_cols tb) (t_cells tb) (firstn ntab lines)
         && list_eqb beq (skipn ntab lines) (text_footer wl)
     | _, _ => false
     end.

(** Tables.ToCSV observed on a whole run, read from its output alone: every
    warning line "REFn: msg" refers to spreadsheet row n (1-based record of the
    output) that exists, is not a blank/separator record and lies in a table
    below that table's unit row; the referenced column is a centre column (its
    header in the unit row is the unit) or a delta column (then the row is not
    the table's last record, the summary row).
    The unit row is found by the SHAPE of the records, not by what the CSV
    calls its columns: in the chunk of records above the row (up to the blank
    separator record) it is the topmost record with an empty first field and a
    non-empty third field - "key: value" header lines have one field, column-key
    header records have an empty third field (a column key sits over the centre
    column, the range column next to it stays empty), data rows lie below the
    unit row. A delta column is a column that is not headed by the unit and
    stands two to the right of a column headed by the unit. *)
Definition is_blank_rec (r : list bytes) : bool := match r with [[]] => true | _ => false end.
Definition is_unit_like (r : list bytes) : bool :=
  match r with f0 :: _ :: f2 :: _ => knil f0 && negb (knil f2) | _ => false end.
Fixpoint chunk_above (before : list (list bytes)) : list (list bytes) :=   (* [before]: records above, nearest first *)
  match before with
  | [] => []
  | r :: l => if is_blank_rec r then [] else r :: chunk_above l
  end.
Definition nearest_unit (before : list (list bytes)) : option (list bytes) :=
  find is_unit_like (rev (chunk_above before)).
Definition ref_index (ref : bytes) : nat := fold_left (fun a b => a * 26 + (N.to_nat (bN b) - 64))%nat ref 0%nat - 1.
Definition tables_warn_ok (recs : list (list bytes)) (w : bytes * nat * bytes) : bool :=
  let '(ref, row, _) := w in
  (1 <=? row)%nat && (row <=? length recs)%nat &&
  match nth_error recs (row - 1), nearest_unit (rev (firstn (row - 1) recs)) with
  | Some r, Some u =>
      let c := ref_index ref in
      let h := field u c in
      let last := match nth_error recs row with None => true | Some r' => is_blank_rec r' end in
      negb (is_blank_rec r) && (1 <=? c)%nat && negb (knil h)
      && (beq h (field u 1)
          || ((2 <=? c)%nat && beq (field u (c - 2)) (field u 1) && negb last))
  | _, _ => false
  end.
Definition csv_tables_obs_ok (recs : list (list bytes)) (warn : bytes) : bool :=
  match omap' parse_wline (split_nl [] warn) with
  | Some ws => forallb (tables_warn_ok recs) ws
  | None => false
  end.

(** Tables.ToText against the model: per table the blank separator (not before
    the first), the model's header lines, then - as in [tc_corr] - a layout of
    the model's texttab cells and the model's footnote lines; nothing else *)
Fixpoint run_text_corr (first : bool) (mt : list (list bytes * rtable)) (lines : list bytes) : bool :=
  match mt with
  | [] => is_nilb lines
  | (hs, t) :: r =>
      let pre := (if first then [] else [[]]) ++ hs in
      let lines1 := skipn (length pre) lines in
      let '(ops, wl) := text_model t in
      list_eqb beq (firstn (length pre) lines) pre &&
      match build ops with
      | Some tb =>
          let ntab := if is_nilb (t_cells tb) then 0%nat else S (last_row (t_cells tb)) in
          let foot := text_footer wl in
          layout_obs_ok (t_cols tb) (t_cells tb) (firstn ntab lines1)
          && list_eqb beq (firstn (length foot) (skipn ntab lines1)) foot
          && run_text_corr false r (skipn (ntab + length foot) lines1)
      | None => false
      end
  end.

Definition corr_ok (c : case) : bool :=
  match c with
  | KTable ops perm obs =>
      match build ops with
      | None => match obs with ObsPanic => true | _ => false end
      | Some t =>
          match format t perm, obs with
          | OPanic, ObsPanic => true
          | OOut l, ObsOut b => beq (out_bytes (l_lines l)) b
          | _, _ => false
          end
      end
  | KKeys nf keys nlev levels =>
      let m := key_header nf keys in
      (length m =? length levels)%nat
      && list_eqb (list_eqb hnode_eqb) m levels
      && (nlev =? match keys with [] => 0 | _ => nf end)%nat
  | KBench _ => true      (* observation only; the assembly is tied by kind 3 *)
  | KTextCsv tabs => forallb tc_corr tabs
  | KCsvTables tabs recs warn =>
      let '(mrecs, mws) := csv_tables_model tabs in
      list_eqb (list_eqb beq) mrecs recs && list_eqb beq (map wline_bytes mws) (split_nl [] warn)
  | KRun fields tabs text recs warn =>
      let mt := run_tabs fields tabs in
      let '(mrecs, mws) := csv_tables_model mt in
      list_eqb (list_eqb beq) mrecs recs && list_eqb beq (map wline_bytes mws) (split_nl [] warn)
      && match split_lines [] text with
         | Some lines => run_text_corr true mt lines
         | None => false
         end
  | KRowScale tabs => forallb RunC10.rtab_corr tabs
  | KCsvMalformed _ _ => false   (* the model writes records through csv.Writer: always readable *)
  end.

(** [relax = false]: what the property says. [relax = true]: the same except
    exactly the recorded deviation of the known finding
    C16_csv_summary_one_row (tag one_row_table): a table with fewer than two
    rows has a summary record (label "geomean", the geomean and its warnings)
    in the CSV that the text does not show. Everything else - headers, the row,
    numbers, deltas, warnings of the data row, cell references, layout - is
    still demanded of such a table, and [relax] changes nothing for tables
    with two or more rows. *)
Definition prop_ok_gen (relax : bool) (c : case) : bool :=
  match c with
  | KTable ops perm obs =>
      match build ops with
      | None => true                       (* Col moved backwards: documented panic *)
      | Some t =>
          if negb (ops_wf ops) then true   (* outside the property's domain *)
          else match obs with
               | ObsPanic => false
               | ObsOut b =>
                   match split_lines [] b with
                   | Some lines => layout_obs_ok (t_cols t) (t_cells t) lines
                   | None => false
                   end
               end
      end
  | KKeys nf keys nlev levels =>
      forallb (fun k => (length k =? nf)%nat) keys && header_ok nf keys levels
  | KBench tabs => forallb bench_table_ok tabs
  | KTextCsv tabs => forallb (fun t => text_csv_ok_gen relax (tc_start t) (tc_text t) (tc_recs t) (tc_warn t)) tabs
  | KCsvTables _ recs warn => csv_tables_obs_ok recs warn
  | KRun fields tabs text recs warn => run_ok_gen relax fields tabs text recs warn
  | KRowScale tabs => forallb RunC10.rtab_prop tabs
  | KCsvMalformed _ _ => false   (* -format csv must write CSV *)
  end.

Definition prop_ok : case -> bool := prop_ok_gen false.
Definition known_ok : case -> bool := prop_ok_gen true.

Definition run_case (s : sx) : N :=
  match decode s with
  | Some c => code_of3 (corr_ok c) (prop_ok c) (known_ok c)
  | None => code_undecodable
  end.
