(** Correspondence evaluator for C12 (internal/stats numerics). *)
From Coq Require Import ZArith QArith Qround Qminmax List Bool.
From Perf Require Import Base.Bytes Base.Sx Base.B64 Base.SxF Model.StatsF Model.Beta Model.TDist Model.Bisect Model.TTest Model.NormalDist Base.B64Q Model.StatsQ Model.TRefTable Proofs.TTest Model.TTestQ Model.TTestSpec Model.Quadrature Model.DistRefTable.
Import ListNotations.
Local Open Scope Z_scope.

(** oracle tables: (argument bits, result bits) *)
Definition otab := list (Z * Z).
(** keys are bit patterns; every NaN is the one NaN *)
Definition norm_bits (a : Z) : Z := if (a <? 0x7FF0000000000001) then a else bits_of_b64 (b64_of_bits a).
Fixpoint olookup (t : otab) (k : Z) : option b64 :=
  match t with
  | [] => None
  | (a, r) :: t' => if (a =? k) || (norm_bits a =? k) then Some (b64_of_bits r) else olookup t' k
  end.
Definition oracle1 (t : otab) (x : b64) : option b64 := olookup t (bits_of_b64 x).
Definition as_otab (s : sx) : option otab := as_list (as_pair as_z as_z) s.

Definition same_o (m : option b64) (v : b64) : bool :=
  match m with Some x => b64_same x v | None => false end.

(** * kind 1: descriptive statistics *)
Record desc_case := mkDesc {
  d_sorted : bool; d_xs : list b64; d_ps : list b64; d_log : otab; d_exp : otab;
  d_mean : b64; d_var : b64; d_sd : b64; d_gm : b64; d_min : b64; d_max : b64;
  d_smin : b64; d_smax : b64; d_sum : b64; d_iqr : b64; d_agree : bool;
  d_percs : list b64 }.

Definition decode_desc (l : list sx) : option desc_case :=
  match l with
  | [sorted; xs; ps; lg; ex; SL [mean; vr; sd; gm; mn; mx; smn; smx; sum; iqr; agree]; percs] =>
      do sorted <- as_bool sorted;
      do xs <- as_list as_f64 xs;
      do ps <- as_list as_f64 ps;
      do lg <- as_otab lg;
      do ex <- as_otab ex;
      do mean <- as_f64 mean; do vr <- as_f64 vr; do sd <- as_f64 sd; do gm <- as_f64 gm;
      do mn <- as_f64 mn; do mx <- as_f64 mx; do smn <- as_f64 smn; do smx <- as_f64 smx;
      do sum <- as_f64 sum; do iqr <- as_f64 iqr; do agree <- as_bool agree;
      do percs <- as_list as_f64 percs;
      Some (mkDesc sorted xs ps lg ex mean vr sd gm mn mx smn smx sum iqr agree percs)
  | _ => None
  end.

Fixpoint all2 {A B} (f : A -> B -> bool) (a : list A) (b : list B) : bool :=
  match a, b with
  | [], [] => true
  | x :: a', y :: b' => f x y && all2 f a' b'
  | _, _ => false
  end.

Definition corr_desc (c : desc_case) : bool :=
  let xs := d_xs c in
  b64_same (mean_f xs) (d_mean c)
  && b64_same (variance_f xs) (d_var c)
  && b64_same (stddev_f xs) (d_sd c)
  && same_o (geomean_f (oracle1 (d_log c)) (oracle1 (d_exp c)) xs) (d_gm c)
  && b64_same (fst (bounds_f xs)) (d_min c) && b64_same (snd (bounds_f xs)) (d_max c)
  && b64_same (fst (sample_bounds_f (d_sorted c) xs)) (d_smin c)
  && b64_same (snd (sample_bounds_f (d_sorted c) xs)) (d_smax c)
  && b64_same (vecsum_f xs) (d_sum c)
  && b64_same (iqr_f (d_sorted c) xs) (d_iqr c)
  && d_agree c
  && all2 (fun p v => b64_same (percentile_f (d_sorted c) xs p) v) (d_ps c) (d_percs c).


(** ** specification predicate for descriptive statistics, evaluated on the
    implementation's observed output by exact rational arithmetic.

    The sample is scaled to integers z_i = x_i / 2^E (E = smallest exponent);
    [mean_q], [variance_ps_q] (= [variance_q], Proofs/StatsQ.variance_q_power_sums),
    [percentile_q (sort_q ..)] are evaluated on the z_i and compared with the
    observed floats divided by 2^E (resp. 4^E): the specification is
    homogeneous (Proofs/StatsQ.mean_q_scale, variance_ps_q_scale).

    Stated tolerances (u = 2^-52 * max|x_i|, n = sample size, tiny = 2^-1074):
      mean        |got - mean|       <= (4 + n/2) u            + (n+4) tiny
      variance    |got - var|        <= (4 + n/2) u max|x|     + (n+4) tiny
    (n/2: on ascending data with a large offset every increment (x-m)/(i+1) can be
     smaller than half an ulp of m and is lost: observed 48 u at n = 267)
      stddev      |got^2 - var|      <= tol_var + 2^-51 (var + tol_var) + (n+4) tiny
      percentile  |got - R8|         <= (2 + 2n) u             + (n+4) tiny
      geomean     |got/gm - 1|       <= (4 + n/8)(2 + max|log2 x_i|) 2^-52   (n <= 32, 2^-1022 <= x_i < 2^1022)
    exact clauses: bounds are the extreme sample values; min <= mean <= max;
    percentiles are monotone in p and within [min, max].
      IQR         |got - (R8(3/4) - R8(1/4))| <= 2 tol_percentile + 2 u, got >= 0
    Not demanded (the property is about samples of >= 1 values and definitions that exist):
    the NaN results of the empty sample, the documented variance 0 of a single value
    (both compared with the model in [corr_desc]).
    Skipped when intermediate overflow is possible: max|x| >= 2^1022 (mean,
    percentile), >= 2^500 (variance, stddev). *)
Local Open Scope Q_scope.

Definition q_of_nat (n : nat) : Q := inject_Z (Z.of_nat n).
Definition pow2Q (e : Z) : Q := Q_of_ZE 1 e.

Definition oQ (o : option Q) (k : Q -> bool) : bool := match o with Some q => k q | None => false end.

Definition zmax_abs (zs : list Z) : Z := fold_left (fun a z => Z.max a (Z.abs z)) zs 0%Z.

Definition b64_lt_pow2 (x : b64) (k : Z) : bool :=
  (* |x| < 2^k for finite x *)
  match x with
  | S754_zero _ => true
  | S754_finite _ m e => (Z.log2 (Zpos m) + e <? k)%Z
  | _ => false
  end.

Fixpoint nondecreasing_f (l : list b64) : bool :=
  match l with
  | a :: ((b :: _) as l') => b64_le a b && nondecreasing_f l'
  | _ => true
  end.

Definition geomean_ok (xs : list b64) (gm : b64) : bool :=
  let n := Z.of_nat (length xs) in
  match gm with
  | S754_finite false mg eg =>
      let prodm := fold_left (fun a x => match x with S754_finite _ m _ => (a * Zpos m)%Z | _ => a end) xs 1%Z in
      let sume := fold_left (fun a x => match x with S754_finite _ _ e => (a + e)%Z | _ => a end) xs 0%Z in
      let maxlog := fold_left (fun a x => match x with
                                          | S754_finite _ m e => Z.max a (Z.abs (Z.log2 (Zpos m) + e))
                                          | _ => a end) xs 0%Z in
      let k := ((4 + (n + 7) / 8) * (2 + maxlog))%Z in
      let lo := (Zpos mg * (2 ^ 52 - k))%Z in
      let hi := (Zpos mg * (2 ^ 52 + k))%Z in
      let eg' := (n * (eg - 52))%Z in
      (* lo^n 2^eg' <= prodm 2^sume <= hi^n 2^eg' *)
      let sh := (sume - eg')%Z in
      let '(l, p, h) := if (0 <=? sh)%Z then ((lo ^ n)%Z, (prodm * 2 ^ sh)%Z, (hi ^ n)%Z)
                        else ((lo ^ n * 2 ^ (- sh))%Z, prodm, (hi ^ n * 2 ^ (- sh))%Z) in
      (l <=? p)%Z && (p <=? h)%Z
  | _ => false
  end.

Definition prop_desc (c : desc_case) : bool :=
  let xs := d_xs c in
  let n := length xs in
  match xs with
  | [] => true   (* the property quantifies over samples of >= 1 values; the NaN convention of the
                    empty sample is compared in [corr_desc] only *)
  | _ =>
    if negb (all_finite xs) then true else
    let E := min_exp xs in
    let zs := map (scaled_int E) xs in
    let zq := map inject_Z zs in
    let maxabs := inject_Z (zmax_abs zs) in
    let u := maxabs * pow2Q (-52) in
    let nq := q_of_nat n in
    let tiny := (nq + 4) * pow2Q (-1074 - E) in
    let tiny2 := (nq + 4) * pow2Q (-1074 - 2 * E) in
    let small1022 := forallb (fun x => b64_lt_pow2 x 1022) xs in
    let small500 := forallb (fun x => b64_lt_pow2 x 500) xs in
    let sv := b64_to_Q_scaled E in
    let sv2 := b64_to_Q_scaled (2 * E) in
    (* bounds: exactly the extreme sample values *)
    let bounds_ok :=
      match bounds_q zq with
      | Some (mn, mx) => oQ (sv (d_min c)) (fun a => Qeq_bool a mn) && oQ (sv (d_max c)) (fun a => Qeq_bool a mx)
      | None => false
      end in
    let mean_ok :=
      if small1022 then
        oQ (sv (d_mean c)) (fun m => Qclose m (mean_q zq) ((4 + nq / 2) * u + tiny))
        && b64_le (d_min c) (d_mean c) && b64_le (d_mean c) (d_max c)
      else true in
    let tol_var := (4 + nq / 2) * u * maxabs + tiny2 in
    let var_ok :=
      if small500 then
        match xs with
        | [_] => true   (* the unbiased variance of one value is 0/0: the property states nothing; the
                           documented 0 is compared in [corr_desc] *)
        | _ =>
            let vq := variance_ps_q zq in
            oQ (sv2 (d_var c)) (fun v => Qclose v vq tol_var && Qle_bool 0 v)
            && oQ (sv (d_sd c)) (fun s => Qclose (s * s) vq (tol_var + pow2Q (-51) * (vq + tol_var) + tiny2)
                                          && Qle_bool 0 s)
        end
      else true in
    let gm_ok :=
      if forallb (fun x => b64_lt f_zero x) xs then
        (* math.Log of Go 1.23 on amd64 is inaccurate for subnormal arguments and math.Exp returns
           +Inf from about 709.65 (e^709.65 = 1.58e308 is still finite): library behaviour outside
           golang/perf; the tolerance is only claimed for normal values below 2^1022 *)
        if forallb (fun x => negb (b64_lt_pow2 x (-1022))) xs && small1022 then
          if (n <=? 32)%nat then geomean_ok xs (d_gm c) else b64_lt f_zero (d_gm c)
        else true
      else b64_is_nan (d_gm c) in
    let sorted_data := nondecreasing_f xs in
    let perc_ok :=
      if small1022 && (negb (d_sorted c) || sorted_data) then
        let sq := sort_q zq in
        all2 (fun p v =>
                if b64_is_nan p then true else
                let want :=
                  if b64_le p f_zero then Some (nth_q sq 0)
                  else if b64_ge p b64_one then Some (nth_q sq (Z.of_nat n - 1))
                  else match b64_to_Q p with Some pq => Some (percentile_q sq pq) | None => None end in
                match want with
                | Some w => oQ (sv v) (fun g => Qclose g w ((2 + 2 * nq) * u + tiny))
                            && b64_le (d_min c) v && b64_le v (d_max c)
                | None => false
                end) (d_ps c) (d_percs c)
        && nondecreasing_f (d_percs c)   (* the generator emits p in ascending order *)
        (* Sample.IQR = R8(3/4) - R8(1/4): two percentile tolerances and one rounded subtraction; >= 0 *)
        && (let sq := sort_q zq in
            oQ (sv (d_iqr c)) (fun g => Qclose g (percentile_q sq (3 # 4) - percentile_q sq (1 # 4))
                                               (2 * ((2 + 2 * nq) * u + tiny) + 2 * u)
                                        && Qle_bool 0 g))
      else true in
    bounds_ok && mean_ok && var_ok && gm_ok && perc_ok
  end.
Local Close Scope Q_scope.


(** two-argument oracle tables with a kind column: (x, y, kind, value); kind 1 = the call panicked *)
Definition otab2 := list (Z * Z * Z * Z).
Definition as_otab2 (s : sx) : option otab2 :=
  as_list (fun r => match r with
                    | SL [SZ a; SZ b; SZ k; SZ v] => Some (a, b, k, v)
                    | _ => None end) s.
Fixpoint olookup2 (t : otab2) (a b : Z) : res b64 :=
  match t with
  | [] => Miss
  | (x, y, k, v) :: t' =>
      if ((x =? a) || (norm_bits x =? a)) && ((y =? b) || (norm_bits y =? b)) then (if k =? 1 then Panicked else Val (b64_of_bits v))
      else olookup2 t' a b
  end.
Definition oracle2 (t : otab2) (x y : b64) : res b64 := olookup2 t (bits_of_b64 x) (bits_of_b64 y).
Definition oracle2o (t : otab2) (x y : b64) : option b64 :=
  match oracle2 t x y with Val v => Some v | _ => None end.

(** outcome of a float-valued call: (0 v) value, (2) panic *)
Inductive fout := FVal (v : b64) | FPanic.
Definition as_fout (s : sx) : option fout :=
  match s with
  | SL [SZ 0; SZ v] => Some (FVal (b64_of_bits v))
  | SL [SZ 2] => Some FPanic
  | _ => None
  end.
Definition res_matches (r : res b64) (o : fout) : bool :=
  match r, o with
  | Val a, FVal b => b64_same a b
  | Panicked, FPanic => true
  | _, _ => false
  end.

(** * kind 2: t-tests *)
Inductive sdesc := SSum (n mean var : b64) | SRaw (xs : list b64).
Definition as_sdesc (s : sx) : option sdesc :=
  match s with
  | SL [SZ 0; n; m; v] => do n <- as_f64 n; do m <- as_f64 m; do v <- as_f64 v; Some (SSum n m v)
  | SL [SZ 1; xs] => do xs <- as_list as_f64 xs; Some (SRaw xs)
  | _ => None
  end.
Definition ts_of (d : sdesc) : tsample :=
  match d with SSum n m v => mkTS n m v | SRaw xs => tsample_of xs end.
Definition raw_of (d : sdesc) : list b64 := match d with SRaw xs => xs | _ => [] end.

Inductive tobs := OOk (n1 n2 : Z) (t dof : b64) (alt : Z) (p : b64) | OErr (code : Z) | OPanic.
Definition as_tobs (s : sx) : option tobs :=
  match s with
  | SL [SZ 0; SZ n1; SZ n2; t; dof; SZ alt; p] =>
      do t <- as_f64 t; do dof <- as_f64 dof; do p <- as_f64 p; Some (OOk n1 n2 t dof alt p)
  | SL [SZ 1; SZ c] => Some (OErr c)
  | SL [SZ 2] => Some OPanic
  | _ => None
  end.

Record tt_case := mkTT { tt_test : Z; tt_alt : Z; tt_mu0 : b64; tt_s1 : sdesc; tt_s2 : sdesc;
                         tt_cdf : otab2; tt_pow : otab2; tt_out : tobs }.
Definition decode_tt (l : list sx) : option tt_case :=
  match l with
  | [SZ test; SZ alt; mu0; s1; s2; cdf; pw; out] =>
      do mu0 <- as_f64 mu0; do s1 <- as_sdesc s1; do s2 <- as_sdesc s2;
      do cdf <- as_otab2 cdf; do pw <- as_otab2 pw; do out <- as_tobs out;
      Some (mkTT test alt mu0 s1 s2 cdf pw out)
  | _ => None
  end.

Definition err_code (e : terr) : Z :=
  match e with ErrSampleSize => 1 | ErrZeroVariance => 2 | ErrMismatchedSamples => 3 end.

Definition optZ_is (o : option Z) (z : Z) : bool := match o with Some a => a =? z | None => false end.

Definition tout_matches (m : tout) (o : tobs) : bool :=
  match m, o with
  | TOk r, OOk n1 n2 t dof alt p =>
      optZ_is (tr_n1 r) n1 && optZ_is (tr_n2 r) n2 && b64_same (tr_t r) t && b64_same (tr_dof r) dof
      && (tr_alt r =? alt) && b64_same (tr_p r) p
  | TErr e, OErr c => err_code e =? c
  | TPanic, OPanic => true
  | _, _ => false
  end.

Definition model_tt (c : tt_case) : tout :=
  let cdf := oracle2 (tt_cdf c) in
  let pw := oracle2o (tt_pow c) in
  let t := tt_test c in
  if t =? 0 then two_sample_ttest cdf (ts_of (tt_s1 c)) (ts_of (tt_s2 c)) (tt_alt c)
  else if t =? 1 then welch_ttest cdf pw (ts_of (tt_s1 c)) (ts_of (tt_s2 c)) (tt_alt c)
  else if t =? 2 then paired_ttest cdf (raw_of (tt_s1 c)) (raw_of (tt_s2 c)) (tt_mu0 c) (tt_alt c)
  else one_sample_ttest cdf (ts_of (tt_s1 c)) (tt_mu0 c) (tt_alt c).

Definition corr_tt (c : tt_case) : bool := tout_matches (model_tt c) (tt_out c).

(** * kinds 3-6: beta / t distribution replay *)
Definition corr_betainc (l : list sx) : option bool :=
  match l with
  | [x; a; b; lg; lo; ex; out] =>
      do x <- as_f64 x; do a <- as_f64 a; do b <- as_f64 b;
      do lg <- as_otab lg; do lo <- as_otab lo; do ex <- as_otab ex; do out <- as_fout out;
      Some (res_matches (math_beta_inc (oracle1 lg) (oracle1 lo) (oracle1 ex) x a b) out)
  | _ => None
  end.

Definition corr_betacf (l : list sx) : option bool :=
  match l with
  | [x; a; b; out] =>
      do x <- as_f64 x; do a <- as_f64 a; do b <- as_f64 b; do out <- as_fout out;
      Some (res_matches (betacf x a b) out)
  | _ => None
  end.

Definition corr_tcdf (l : list sx) : option bool :=
  match l with
  | [v; x; lg; lo; ex; out] =>
      do v <- as_f64 v; do x <- as_f64 x;
      do lg <- as_otab lg; do lo <- as_otab lo; do ex <- as_otab ex; do out <- as_fout out;
      Some (res_matches (tcdf (math_beta_inc (oracle1 lg) (oracle1 lo) (oracle1 ex)) v x) out)
  | _ => None
  end.

Definition corr_tpdf (l : list sx) : option bool :=
  match l with
  | [v; x; lg; ex; pw; out] =>
      do v <- as_f64 v; do x <- as_f64 x;
      do lg <- as_otab lg; do ex <- as_otab ex; do pw <- as_otab2 pw; do out <- as_fout out;
      Some (res_matches (tpdf (oracle1 lg) (oracle1 ex) (oracle2o pw) v x) out)
  | _ => None
  end.

(** "never fails to converge for degrees of freedom that real samples produce": in the replay of
    TDist.CDF a panic (betacf's iteration cap) for 1 <= nu <= 1e5 and a numeric x is a violation of the
    property even when the model predicts it; a value there must lie in [0,1] *)
Definition prop_tcdf (l : list sx) : option bool :=
  match l with
  | [v; x; lg; lo; ex; out] =>
      do v <- as_f64 v; do x <- as_f64 x; do out <- as_fout out;
      if b64_le b64_one v && b64_le v (b64_of_Z 100000) && negb (b64_is_nan x) then
        Some (match out with
              | FVal f => b64_le b64_zero f && b64_le f b64_one
              | FPanic => false
              end)
      else Some true
  | _ => None
  end.

(** * kinds 7-8: InvCDF / bisectBool replay *)
Definition ires_matches (r : ires) (o : fout) : bool :=
  match r, o with
  | IVal a, FVal b => b64_same a b
  | IPanic, FPanic => true
  | _, _ => false
  end.

Definition corr_invcdf (l : list sx) : option bool :=
  match l with
  | [y; lo; hi; tab; out] =>
      do y <- as_f64 y; do lo <- as_f64 lo; do hi <- as_f64 hi; do tab <- as_otab2 tab; do out <- as_fout out;
      Some (ires_matches (inv_cdf (fun x => oracle2 tab x b64_zero) (lo, hi) y) out)
  | _ => None
  end.

Definition corr_bisect (l : list sx) : option bool :=
  match l with
  | [lo; hi; xtol; tab; out] =>
      do lo <- as_f64 lo; do hi <- as_f64 hi; do xtol <- as_f64 xtol; do tab <- as_otab2 tab;
      let f := fun x => res_map (fun v => negb (b64_is_zero v)) (oracle2 tab x b64_zero) in
      match bisect_bool f bisect_fuel lo hi xtol, out with
      | BRes a b, SL [SZ 0; x1; x2] =>
          do x1 <- as_f64 x1; do x2 <- as_f64 x2; Some (b64_same a x1 && b64_same b x2)
      | BPanic, SL [SZ 2] => Some true
      | _, SL _ => Some false
      | _, _ => None
      end
  | _ => None
  end.

(** * kind 9: NormalDist replay *)
Definition corr_normal (l : list sx) : option bool :=
  match l with
  | [mu; sigma; SZ which; arg; er; ex; lo; val] =>
      do mu <- as_f64 mu; do sigma <- as_f64 sigma; do arg <- as_f64 arg;
      do er <- as_otab er; do ex <- as_otab ex; do lo <- as_otab lo; do val <- as_f64 val;
      let r := if which =? 0 then norm_pdf (oracle1 ex) mu sigma arg
               else if which =? 1 then norm_cdf (oracle1 er) mu sigma arg
               else norm_inv_cdf (oracle1 er) (oracle1 ex) (oracle1 lo) mu sigma arg in
      Some (res_matches r (FVal val))
  | _ => None
  end.


(** * t-tests: specification predicate on the observed outcome
    (decisions of Proofs/TTest.v, sizes, tail rule relative to the recorded CDF value, p in [0,1]) *)
Definition decision_tt (c : tt_case) : option terr :=
  let t := tt_test c in
  if t =? 0 then pooled_decision (ts_of (tt_s1 c)) (ts_of (tt_s2 c))
  else if t =? 1 then welch_decision (ts_of (tt_s1 c)) (ts_of (tt_s2 c))
  else if t =? 2 then paired_decision (raw_of (tt_s1 c)) (raw_of (tt_s2 c))
  else one_sample_decision (ts_of (tt_s1 c)).

Definition qf' (x : b64) : option Q := b64_to_Q x.
Definition in_unit (p : b64) : bool := b64_le b64_zero p && b64_le p b64_one.

(** ** textbook statistic and degrees of freedom in exact rationals (Model/TTestQ.v)

    From raw samples: mean_q / variance_ps_q of the samples scaled to integers
    (paired: of the exact differences). The observed t and nu must agree with
    the textbook formulas evaluated by interval arithmetic over Q on
      mean_i +- (4 + n_i/2) u_i,   var_i +- (4 + n_i/2) u_i max|x_i|   (u_i = 2^-52 max|x_i|:
    the stated accuracy of Mean / Variance), widened by the relative slack rho = 2^-46
    (64 ulps) for the handful of further rounded operations:
      t^2 W = D^2 and sign t = sign D;  nu = Welch-Satterthwaite / n1+n2-2 / n-1;
      Welch: (min(n1,n2) - 1)(1 - rho) <= nu <= (n1+n2-2)(1 + rho)   (Proofs/TTestQ.welch_dof_bounds).
    From summary triples the same check with the given n, mean, variance taken as exact. *)
Local Open Scope Q_scope.
Definition rho : Q := Q_of_ZE 1 (-46).

Record qstat := mkQS { qs_n : Q; qs_m : Q; qs_v : Q; qs_em : Q; qs_ev : Q }.

Definition qstat_of_ints (zs : list Z) (extra : Q) : qstat :=
  let zq := map inject_Z zs in
  let n := inject_Z (Z.of_nat (length zs)) in
  let maxabs := inject_Z (zmax_abs zs) in
  let u := maxabs * Q_of_ZE 1 (-52) in
  mkQS n (mean_q zq) (variance_ps_q zq) ((4 + extra + n / 2) * u) ((4 + extra + n / 2) * u * maxabs).

(** statistics of a sample descriptor in units of 2^E (variance: 4^E) *)
Definition qstat_of (E : Z) (d : sdesc) : option qstat :=
  match d with
  | SRaw xs => if all_finite xs then Some (qstat_of_ints (map (scaled_int E) xs) 0) else None
  | SSum n m v =>
      match b64_to_Q n, b64_to_Q_scaled E m, b64_to_Q_scaled (2 * E) v with
      | Some nq, Some mq, Some vq => Some (mkQS nq mq vq 0 0)
      | _, _, _ => None
      end
  end.

Definition qpos (q : Q) : Q := if Qle_bool 0 q then q else 0.
Definition qsign (q : Q) : Z := Z.sgn (Qnum q).

(** t^2 W = D^2 within the intervals D in |D| +- dd, W in [wlo, whi] (wlo clipped at 0) *)
Definition tstat_ok (t D dd wlo whi : Q) : bool :=
  let da := Qabs' D in
  let dlo := qpos (da - dd) in
  let dhi := da + dd in
  let T := t * t in
  Qle_bool (dlo * dlo * (1 - rho)) (T * whi) && Qle_bool (T * qpos wlo) (dhi * dhi * (1 + rho))
  && (if Qle_bool da dd then true else (qsign t =? qsign D)%Z).

Definition rel_close (a b scale : Q) : bool := Qclose a b (rho * Qabs' scale).

Definition tt_textbook_ok (c : tt_case) (t dof : b64) : bool :=
  let E := match tt_s1 c, tt_s2 c with
           | SRaw a, SRaw b => min_exp (a ++ b)
           | SRaw a, _ => min_exp a
           | _, SRaw b => min_exp b
           | _, _ => 0%Z
           end in
  match b64_to_Q t, b64_to_Q dof, b64_to_Q_scaled E (tt_mu0 c) with
  | Some tq, Some nu, Some mu0 =>
    let test := tt_test c in
    if (test =? 2)%Z then
      (* paired: one-sample test of the exact differences; 2 extra ulps for the rounded subtractions *)
      let x1 := raw_of (tt_s1 c) in let x2 := raw_of (tt_s2 c) in
      if all_finite x1 && all_finite x2 then
        let ds := map (fun '(a, b) => (scaled_int E a - scaled_int E b)%Z) (combine x1 x2) in
        let s := qstat_of_ints ds 2 in
        let n := qs_n s in
        Qeq_bool nu (n - 1)
        && tstat_ok tq (qs_m s - mu0) (qs_em s) ((qs_v s - qs_ev s) / n) ((qs_v s + qs_ev s) / n)
      else true
    else
    match qstat_of E (tt_s1 c), qstat_of E (tt_s2 c) with
    | Some s1, Some s2 =>
      let n1 := qs_n s1 in let n2 := qs_n s2 in
      if (test =? 3)%Z then
        if Qle_bool n1 0 || negb (Qle_bool 0 (qs_v s1)) then true else
        rel_close nu (n1 - 1) (n1 + 1)
        && tstat_ok tq (qs_m s1 - mu0) (qs_em s1) ((qs_v s1 - qs_ev s1) / n1) ((qs_v s1 + qs_ev s1) / n1)
      else if (test =? 1)%Z then
        if Qle_bool n1 1 || Qle_bool n2 1 || negb (Qle_bool 0 (qs_v s1)) || negb (Qle_bool 0 (qs_v s2)) then true else
        let q1lo := qpos (qs_v s1 - qs_ev s1) / n1 in let q1hi := (qs_v s1 + qs_ev s1) / n1 in
        let q2lo := qpos (qs_v s2 - qs_ev s2) / n2 in let q2hi := (qs_v s2 + qs_ev s2) / n2 in
        let wlo := q1lo + q2lo in let whi := q1hi + q2hi in
        let denlo := q1lo * q1lo / (n1 - 1) + q2lo * q2lo / (n2 - 1) in
        let denhi := q1hi * q1hi / (n1 - 1) + q2hi * q2hi / (n2 - 1) in
        tstat_ok tq (qs_m s1 - qs_m s2) (qs_em s1 + qs_em s2) wlo whi
        && Qle_bool (wlo * wlo * (1 - rho)) (nu * denhi) && Qle_bool (nu * denlo) (whi * whi * (1 + rho))
        && Qle_bool ((Qmin n1 n2 - 1) * (1 - rho)) nu && Qle_bool nu ((n1 + n2 - 2) * (1 + rho))
      else
        (* pooled *)
        if Qle_bool n1 0 || Qle_bool n2 0 || Qle_bool (n1 + n2) 2 || negb (Qle_bool 1 n1) || negb (Qle_bool 1 n2)
           || negb (Qle_bool 0 (qs_v s1)) || negb (Qle_bool 0 (qs_v s2)) then true else
        let k := (1 / n1 + 1 / n2) / (n1 + n2 - 2) in
        let wlo := ((n1 - 1) * qpos (qs_v s1 - qs_ev s1) + (n2 - 1) * qpos (qs_v s2 - qs_ev s2)) * k in
        let whi := ((n1 - 1) * (qs_v s1 + qs_ev s1) + (n2 - 1) * (qs_v s2 + qs_ev s2)) * k in
        rel_close nu (n1 + n2 - 2) (n1 + n2 + 2)
        && tstat_ok tq (qs_m s1 - qs_m s2) (qs_em s1 + qs_em s2) wlo whi
    | _, _ => true
    end
  | _, _, _ =>
      (* a non-finite statistic is only acceptable for the irregular summaries excluded above *)
      match tt_s1 c, tt_s2 c with SRaw _, SRaw _ => false | _, _ => true end
  end.
Local Close Scope Q_scope.

(** ** which inputs are errors: the declarative preconditions of Model/TTestSpec.v
    (undersized = an empty group or no positive degrees of freedom; zero variance =
    the variance estimate of the statistic is 0), evaluated in exact rationals:
    from raw samples n = length and the exact sample variance; from summaries the
    given Weight / Variance. Judged on REGULAR inputs: finite raw samples below 2^500;
    summaries with a non-negative integer Weight <= 2^52, a finite Mean below 2^500 and
    a Variance that is 0 or in [2^-500, 2^500) - what the property quantifies over
    ("samples of 1 to several hundred finite values"; a Weight of 0.5 or a negative
    or NaN variance is no sample's). Irregular summaries are only held to the code's
    documented decisions (Proofs/TTest.v), as before.

    Paired test: lengths and the binary64 standard deviation of the rounded
    differences, as documented (Proofs/TTest.paired_decision).

    The error KIND is demanded only as far as the property goes: an undersized input
    must give ErrSampleSize, a zero-variance input ErrZeroVariance, an input that is
    both may give either ([corr_tt] stays exact about the order of the checks). *)
Local Open Scope Q_scope.
Definition q_is_int (q : Q) : bool := Qeq_bool q (inject_Z (Qfloor q)).
Definition mag_ok (q : Q) : bool := Qle_bool (Qabs' q) (pow2Q 500).
Definition regular_sd (d : sdesc) : bool :=
  match d with
  | SRaw xs => all_finite xs && forallb (fun x => b64_lt_pow2 x 500) xs
  | SSum n m v =>
      match b64_to_Q n, b64_to_Q m, b64_to_Q v with
      | Some nq, Some mq, Some vq =>
          q_is_int nq && Qle_bool 0 nq && Qle_bool nq (pow2Q 52) && mag_ok mq
          && Qle_bool 0 vq && mag_ok vq && (Qeq_bool vq 0 || Qle_bool (pow2Q (-500)) vq)
      | _, _, _ => false
      end
  end.
Local Close Scope Q_scope.

Definition tt_E (c : tt_case) : Z :=
  match tt_s1 c, tt_s2 c with
  | SRaw a, SRaw b => min_exp (a ++ b)
  | SRaw a, _ => min_exp a
  | _, SRaw b => min_exp b
  | _, _ => 0%Z
  end.

Definition expect_tt (c : tt_case) : option expect :=
  let test := tt_test c in
  if test =? 2 then
    Some (match paired_decision (raw_of (tt_s1 c)) (raw_of (tt_s2 c)) with
          | Some e => ExpErrIn [err_code e] | None => ExpOk end)
  else if regular_sd (tt_s1 c) && ((test =? 3) || regular_sd (tt_s2 c)) then
    match qstat_of (tt_E c) (tt_s1 c), qstat_of (tt_E c) (tt_s2 c) with
    | Some s1, o2 =>
        if test =? 3 then Some (expect_of (undersized_one (qs_n s1)) (zero_var_one (qs_v s1)))
        else match o2 with
             | Some s2 =>
                 if test =? 1 then Some (expect_of (undersized_welch (qs_n s1) (qs_n s2))
                                                   (zero_var_welch (qs_v s1) (qs_v s2)))
                 else Some (expect_of (undersized_pooled (qs_n s1) (qs_n s2))
                                      (zero_var_pooled (qs_v s1) (qs_n s1) (qs_v s2) (qs_n s2)))
             | None => None
             end
    | None, _ => None
    end
  else None.

(** the tail rule relative to the recorded value c of the implementation's own CDF at the
    observed (dof, t): two-sided 2 (1 - c(|t|)), less c(t), greater 1 - c(t), an unknown
    hypothesis 0; within 2^-50 (the rule, not one particular way of rounding it), and p in [0,1] *)
Local Open Scope Q_scope.
Definition p_rule_ok (cdf : otab2) (t dof : b64) (alt : Z) (p : b64) : bool :=
  match qf' p with
  | Some pq =>
      Qle_bool 0 pq && Qle_bool pq 1 &&
      (if (alt =? 0)%Z || (alt =? -1)%Z || (alt =? 1)%Z then
         match oracle2 cdf dof (if (alt =? 0)%Z then b64_abs t else t) with
         | Val cv =>
             match qf' cv with
             | Some cq =>
                 Qclose pq (if (alt =? 0)%Z then 2 * (1 - cq) else if (alt =? -1)%Z then cq else 1 - cq)
                        (pow2Q (-50))
             | None => false
             end
         | _ => false
         end
       else Qeq_bool pq 0)
  | None => false
  end.
Local Close Scope Q_scope.

Definition sizes_ok (c : tt_case) (n1 n2 alt : Z) : bool :=
  let s1 := ts_of (tt_s1 c) in let s2 := ts_of (tt_s2 c) in
  optZ_is (b64_to_int (ts_n s1)) n1
  && (if tt_test c =? 3 then n2 =? 0
      else if tt_test c =? 2 then n2 =? Z.of_nat (length (raw_of (tt_s2 c)))
      else optZ_is (b64_to_int (ts_n s2)) n2)
  && (alt =? tt_alt c).

(** irregular summaries (outside the property's quantifier): the code's documented decisions,
    sizes, the tail rule where the statistic is a number *)
Definition prop_tt_irregular (c : tt_case) : bool :=
  match tt_out c, decision_tt c with
  | OErr code, Some e => err_code e =? code
  | OOk n1 n2 t dof alt p, None =>
      sizes_ok c n1 n2 alt
      && tt_textbook_ok c t dof
      && (if b64_is_nan t || b64_is_nan dof then true else
          match p_value (oracle2 (tt_cdf c)) t dof alt with
          | Val p' => b64_same p p' && (if b64_is_nan p then true else in_unit p)
          | _ => false
          end)
  | _, _ => false
  end.

Definition prop_tt (c : tt_case) : bool :=
  match tt_out c, expect_tt c with
  | OPanic, _ => false
  | _, None => prop_tt_irregular c
  | OErr code, Some (ExpErrIn l) => existsb (Z.eqb code) l
  | OOk n1 n2 t dof alt p, Some ExpOk =>
      (* a result: finite statistic, positive finite degrees of freedom, textbook values, a probability *)
      sizes_ok c n1 n2 alt
      && b64_is_finite t && b64_is_finite dof && b64_lt b64_zero dof
      && tt_textbook_ok c t dof
      && p_rule_ok (tt_cdf c) t dof alt p
  | _, _ => false
  end.

(** * kind 10-12: the implementation's values as data (TESTS, not proofs) *)
Local Open Scope Q_scope.
Definition tol_sym : Q := 1 # 1000000000000.        (* 1e-12 : F(x)+F(-x)=1, monotone slack *)
Definition tol_beta : Q := 1 # 10000000000.         (* 1e-10 : I_x(a,b)+I_{1-x}(b,a)=1 *)
Definition tol_ref : Q := 1 # 10000000000.          (* 1e-10 : certified reference points *)
Definition tol_ninv : Q := 1 # 100000000000.        (* 1e-11 : normal CDF(InvCDF p) - p *)

Definition qf (x : b64) : option Q := b64_to_Q x.

(** values in [0,1], nondecreasing (within 1e-12), symmetric about the centre of the grid *)
Fixpoint mono_tol (l : list Q) : bool :=
  match l with
  | a :: ((b :: _) as l') => Qle_bool (a - tol_sym) b && mono_tol l'
  | _ => true
  end.
Definition prop_sweep_cdf (fs : list b64) (pan : bool) : bool :=
  negb pan &&
  match omap qf fs with
  | Some qs =>
      forallb (fun q => Qle_bool 0 q && Qle_bool q 1) qs && mono_tol qs
      && all2 (fun a b => Qclose (a + b) 1 tol_sym) qs (rev qs)
  | None => false
  end.

(** InvCDF o CDF: x = InvCDF(y) nondecreasing in y, CDF(x) >= y (bisection post-condition),
    |CDF(x) - y| <= 1e-10 (t, generic bisection; observed <= 3e-13 since the repair of the
    small-x cancellation, 7450c97); normal (own InvCDF): |CDF(x) - y| <= 1e-11 *)
Definition tol_tinv : Q := 1 # 10000000000.         (* 1e-10 *)
Definition prop_sweep_inv (which : Z) (p1 : b64) (ys xs fs : list b64) (pan : bool) : bool :=
  negb pan && nondecreasing_f xs &&
  match omap qf ys, omap qf fs with
  | Some yq, Some fq =>
      all2 (fun y f =>
              if which =? 2 then Qle_bool y f && Qle_bool (f - y) tol_tinv
              else Qclose f y tol_ninv) yq fq
  | _, _ => false
  end.

Definition prop_sweep_beta (rows : list sx) (pan : bool) : bool :=
  negb pan &&
  forallb (fun r => match r with
                    | SL [_; _; _; SZ i1; SZ i2] =>
                        match qf (b64_of_bits i1), qf (b64_of_bits i2) with
                        | Some a, Some b => Qclose (a + b) 1 tol_beta
                                            && Qle_bool 0 a && Qle_bool a 1 && Qle_bool 0 b && Qle_bool b 1
                        | _, _ => false
                        end
                    | _ => false end) rows.

Definition prop_sweep (l : list sx) : option bool :=
  match l with
  | [SZ which; p1; p2; xs; fs; pan] =>
      do fs <- as_list as_f64 fs; do pan <- as_bool pan; Some (prop_sweep_cdf fs pan)
  | [SZ which; p1; p2; ys; xs; fs; pan] =>
      do p1 <- as_f64 p1; do ys <- as_list as_f64 ys; do xs <- as_list as_f64 xs; do fs <- as_list as_f64 fs;
      do pan <- as_bool pan; Some (prop_sweep_inv which p1 ys xs fs pan)
  | [SZ 4; SL rows; pan] => do pan <- as_bool pan; Some (prop_sweep_beta rows pan)
  | _ => None
  end.

(** certified reference points: the implementation within 1e-10 of 1/2 +- c (Proofs/TRef.v) *)
Definition prop_ref (l : list sx) : option bool :=
  match l with
  | [SZ k; v; x; f; fneg] =>
      do v <- as_f64 v; do x <- as_f64 x; do f <- as_f64 f; do fneg <- as_f64 fneg;
      match nth_error tref_table (Z.to_nat k), qf v, qf x, qf f, qf fneg with
      | Some (nu, xq, c), Some vq, Some xq', Some fq, Some fnq =>
          Some (Qeq_bool vq (inject_Z nu) && Qeq_bool xq xq'
                && Qclose fq ((1 # 2) + c) tol_ref && Qclose fnq ((1 # 2) - c) tol_ref)
      | _, _, _, _, _ => Some false
      end
  | _ => None
  end.

(** slope at the origin: 0.3182 x - 2^-53 <= F(x) - 1/2 <= 0.39895 x + 2^-53 for 0 < x <= 0.01, nu >= 1
    (2^-53: half an ulp of the returned value near 1/2) *)
Definition prop_slope (l : list sx) : option bool :=
  match l with
  | [v; x; f] =>
      do x <- as_f64 x; do f <- as_f64 f;
      match qf x, qf f with
      | Some xq, Some fq => Some (Qle_bool ((3182 # 10000) * xq - pow2Q (-53)) (fq - (1 # 2))
                                  && Qle_bool (fq - (1 # 2)) ((39895 # 100000) * xq + pow2Q (-53)))
      | _, _ => Some false
      end
  | _ => None
  end.
Local Close Scope Q_scope.

(** * kind 13: the distribution functions agree with numerical integration of their densities,
    judged on the implementation's own PDF and CDF values: for 4k+1 equidistant points a + i h
    (a, h dyadic, the points exact) the composite Boole sum (Model/Quadrature.v, exact rationals)
    of the observed PDF values is within 5e-10 of CDF(a + 4k h) - CDF(a); the PDF is >= 0.
    Steps: h <= sigma/64 over at most one sigma (t: sigma = 1), for which the truncation error
    (b-a)(2/945) h^6 max|f^(6)| is below 7e-12 (max|f^(6)| <= 720/pi for Student t with nu >= 1,
    attained by the Cauchy density at 0; 15/sqrt(2 pi) for the standard normal) *)
Local Open Scope Q_scope.
Definition tol_quad : Q := 5 # 10000000000.         (* 5e-10; observed <= 2e-11 (t), 1e-13 (normal) *)
Definition prop_quad (l : list sx) : option bool :=
  match l with
  | [SZ which; p1; p2; a; h; fs; fa; fb; pan] =>
      do h <- as_f64 h; do fs <- as_list as_f64 fs; do fa <- as_f64 fa; do fb <- as_f64 fb; do pan <- as_bool pan;
      Some (negb pan &&
            match qf' h, omap qf' fs, qf' fa, qf' fb with
            | Some hq, Some fq, Some faq, Some fbq =>
                Qle_bool 0 hq && negb (Qeq_bool hq 0)
                && forallb (fun v => Qle_bool 0 v) fq
                && match boole_integral hq fq with
                   | Some bi => Qclose (fbq - faq) bi tol_quad
                   | None => false
                   end
            | _, _, _, _ => false
            end)
  | _ => None
  end.

(** * kind 14: second table of certified reference points (Proofs/DistRef.v): Student-t and normal
    PDF and CDF values of the implementation within 1e-10 of the certified constants *)
Definition prop_dref (l : list sx) : option bool :=
  match l with
  | [SZ k; SZ dist; p1; p2; SZ fn; x; f] =>
      do p1 <- as_f64 p1; do p2 <- as_f64 p2; do x <- as_f64 x; do f <- as_f64 f;
      match nth_error dref_table (Z.to_nat k), qf' p1, qf' p2, qf' x, qf' f with
      | Some (d, q1, q2, fn', xq, c), Some p1q, Some p2q, Some xq', Some fq =>
          Some ((d =? dist)%Z && (fn' =? fn)%Z && Qeq_bool q1 p1q && Qeq_bool q2 p2q && Qeq_bool xq xq'
                && Qclose fq c tol_ref)
      | _, _, _, _, _ => Some false
      end
  | _ => None
  end.
Local Close Scope Q_scope.

(** * kind 15: InvCDF at attained CDF values of the bracket expansion's own probe points.
    y_i = dist.CDF(x0_i) bit for bit, x0_i = 0, +-(2^k - 1): the expansion loop of the generic
    InvCDF (dist.go) probes exactly these points, so y_i equals a probed CDF value and the
    strict/non-strict comparisons decide the bracket. Judged by the property's own clause
    (no panic; the result inverts the CDF), independent of the model: for 0 < y < 1
    CDF(x) >= y, CDF(x) - y <= 1e-10, and x <= x0 ("the smallest x": x0 itself attains y). *)
Local Open Scope Q_scope.
Definition prop_probe_one (x0 y x f : b64) : bool :=
  if b64_lt b64_zero y && b64_lt y b64_one then
    match qf' y, qf' f with
    | Some yq, Some fq => Qle_bool yq fq && Qle_bool (fq - yq) (1 # 10000000000) && b64_le x x0
    | _, _ => false
    end
  else true.
Local Close Scope Q_scope.
Fixpoint prop_probe_all (x0s ys xs fs : list b64) : bool :=
  match x0s, ys, xs, fs with
  | [], [], [], [] => true
  | x0 :: x0s', y :: ys', x :: xs', f :: fs' => prop_probe_one x0 y x f && prop_probe_all x0s' ys' xs' fs'
  | _, _, _, _ => false
  end.
Definition prop_probe (l : list sx) : option bool :=
  match l with
  | [SZ which; p1; p2; x0s; ys; xs; fs; pan] =>
      do x0s <- as_list as_f64 x0s; do ys <- as_list as_f64 ys; do xs <- as_list as_f64 xs;
      do fs <- as_list as_f64 fs; do pan <- as_bool pan;
      Some (negb pan && prop_probe_all x0s ys xs fs)
  | _ => None
  end.

Definition code_prop (o : option bool) : N :=
  match o with Some b => code_of true b | None => code_undecodable end.

Definition code_corr (o : option bool) : N :=
  match o with Some b => code_of b true | None => code_undecodable end.

Definition run_case (s : sx) : N :=
  match s with
  | SL (SZ 1 :: l) =>
      match decode_desc l with
      | Some c => code_of (corr_desc c) (prop_desc c)
      | None => code_undecodable
      end
  | SL (SZ 2 :: l) =>
      match decode_tt l with
      | Some c => code_of (corr_tt c) (prop_tt c)
      | None => code_undecodable
      end
  | SL (SZ 3 :: l) => code_corr (corr_betainc l)
  | SL (SZ 4 :: l) => code_corr (corr_betacf l)
  | SL (SZ 5 :: l) => match corr_tcdf l, prop_tcdf l with
                      | Some a, Some b => code_of a b
                      | _, _ => code_undecodable
                      end
  | SL (SZ 6 :: l) => code_corr (corr_tpdf l)
  | SL (SZ 7 :: l) => code_corr (corr_invcdf l)
  | SL (SZ 8 :: l) => code_corr (corr_bisect l)
  | SL (SZ 9 :: l) => code_corr (corr_normal l)
  | SL (SZ 10 :: l) => code_prop (prop_sweep l)
  | SL (SZ 11 :: l) => code_prop (prop_ref l)
  | SL (SZ 12 :: l) => code_prop (prop_slope l)
  | SL (SZ 13 :: l) => code_prop (prop_quad l)
  | SL (SZ 14 :: l) => code_prop (prop_dref l)
  | SL (SZ 15 :: l) => code_prop (prop_probe l)
  | _ => code_undecodable
  end.
