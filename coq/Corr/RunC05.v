(** Correspondence evaluator for C05: compares observations of the real
    benchfmt.Name / benchproc extractors with the model, and checks the
    specification predicates directly on the observed outputs. *)
From Perf Require Import Base.Bytes Base.Sx Model.Name Model.Extract.

Record case := mkCase {
  k_name  : bytes;
  k_cfg   : list (bytes * bytes * bool);
  k_base  : bytes;                  (* Parts() base *)
  k_parts : list bytes;             (* Parts() parts *)
  k_Base  : bytes;                  (* Base() *)
  k_gets  : list (bytes * bytes);   (* key, Key.Get of single-field projection *)
  k_xfull : list (list bytes * bytes);      (* exclude set, projected .fullname *)
  k_fmatch : list (bytes * bytes * bool);   (* key, literal, Filter.Match all *)
}.

(** a HISTORY: one long-lived single-field Projection and one long-lived
    literal Filter per key (hence one extractor each), plus one long-lived
    [.fullname] projection with an exclusion set, applied in order to
    consecutive results (a Result overwritten in place, or a Reader's Result
    taken without Clone).  Per step: the name and configuration the result
    held at that moment, and what each key's projection / filter answered. *)
Record hstep := mkHstep {
  h_name : bytes;
  h_cfg  : list (bytes * bytes * bool);
  h_gets : list bytes;     (* Key.Get per key, in key order *)
  h_fm   : list bool;      (* Filter.Match all per (key, literal) *)
  h_xfull : bytes;         (* .fullname with the exclusion set *)
}.

Inductive kase :=
| KOne (c : case)
| KHist (keys : list (bytes * bytes)) (ex : list bytes) (steps : list hstep).

Definition decode_one (s : sx) : option case :=
  match s with
  | SL [SB name; cfgs; SB b; ps; SB bb; gets; xf; fm] =>
      do cfgs <- as_list (as_triple as_b as_b as_bool) cfgs;
      do ps <- as_list as_b ps;
      do gets <- as_list (as_pair as_b as_b) gets;
      do xf <- as_list (as_pair (as_list as_b) as_b) xf;
      do fm <- as_list (as_triple as_b as_b as_bool) fm;
      Some (mkCase name cfgs b ps bb gets xf fm)
  | _ => None
  end.

Definition as_hstep (s : sx) : option hstep :=
  match s with
  | SL [SB name; cfgs; gets; fm; SB xf] =>
      do cfgs <- as_list (as_triple as_b as_b as_bool) cfgs;
      do gets <- as_list as_b gets;
      do fm <- as_list as_bool fm;
      Some (mkHstep name cfgs gets fm xf)
  | _ => None
  end.

Definition decode (s : sx) : option kase :=
  match s with
  | SL [SZ 1; keys; ex; steps] =>
      do keys <- as_list (as_pair as_b as_b) keys;
      do ex <- as_list as_b ex;
      do steps <- as_list as_hstep steps;
      Some (KHist keys ex steps)
  | _ => do c <- decode_one s; Some (KOne c)
  end.

Definition to_cfg (l : list (bytes * bytes * bool)) : list cfg :=
  map (fun '(k, v, f) => mkCfg k v f) l.

Definition blist_eqb := list_eqb beq.

(** specification predicates evaluated on the implementation's output *)
Definition noslash (b : bytes) : bool := negb (existsb (Byte.eqb c_slash) b).
Definition slash_part_b (p : bytes) : bool :=
  match p with c :: s => Byte.eqb c c_slash && noslash s | [] => false end.
Definition gmp_part_b (p : bytes) : bool :=
  match p with c :: ds => Byte.eqb c c_dash && negb (is_nil ds) && forallb is_digit ds | [] => false end.
(* does the name end in "-digits"? independent formulation: strip trailing digits *)
Fixpoint drop_digits (r : bytes) : bytes * nat :=
  match r with
  | c :: r' => if is_digit c then let '(x, k) := drop_digits r' in (x, S k) else (r, 0)
  | [] => ([], 0)
  end.
Definition ends_gmp (n : bytes) : bool :=
  match drop_digits (rev n) with
  | (c :: _, S _) => Byte.eqb c c_dash
  | _ => false
  end.
Fixpoint shape_b (ps : list bytes) (n_ends_gmp : bool) : bool :=
  match ps with
  | [] => negb n_ends_gmp
  | [p] => if n_ends_gmp then gmp_part_b p else slash_part_b p
  | p :: ps' => slash_part_b p && shape_b ps' n_ends_gmp
  end.

(** [.fullname] next to other projections of the same parser: the parts named
    by the excluded keys are removed - a part "/k=..." for an excluded key
    "/k" spelled exactly so, the trailing "-N" for the exact key "/gomaxprocs",
    the base replaced by "*" for the exact key ".name".  Every other excluded
    key (a plain key, a key differing from a special key in letter case)
    removes nothing special.  Stated on a decomposition (base, parts). *)
Definition spec_part_excluded (ex : list bytes) (p : bytes) : bool :=
  existsb (fun k => is_subname_key k && has_prefix p (k ++ [c_eq])) ex
  || (existsb (beq (bs "/gomaxprocs")) ex
      && match p with c :: _ => Byte.eqb c c_dash | [] => false end).
Definition spec_xfull (ex : list bytes) (b : bytes) (ps : list bytes) : bytes :=
  (if existsb (beq (bs ".name")) ex then [c_star] else b)
    ++ concat (filter (fun p => negb (spec_part_excluded ex p)) ps).

Definition prop_one (c : case) : bool :=
  let cfgs := to_cfg (k_cfg c) in
  beq (k_base c ++ concat (k_parts c)) (k_name c)
  && noslash (k_base c)
  && shape_b (k_parts c) (ends_gmp (k_name c))
  && beq (k_Base c) (k_base c)
  (* key semantics: [extract] is proved to be the documented meaning (Properties/C05.v) *)
  && forallb (fun '(k, got) => beq (extract k (k_name c) cfgs) got) (k_gets c)
  && forallb (fun '(k, lit, m) => Bool.eqb (beq (extract k (k_name c) cfgs) lit) m) (k_fmatch c)
  && forallb (fun '(ex, got) => beq (spec_xfull ex (k_base c) (k_parts c)) got) (k_xfull c).

Definition corr_one (c : case) : bool :=
  let cfgs := to_cfg (k_cfg c) in
  let '(b, ps) := parts (k_name c) in
  beq b (k_base c) && blist_eqb ps (k_parts c) && beq (base (k_name c)) (k_Base c)
  && forallb (fun '(k, got) => beq (extract k (k_name c) cfgs) got) (k_gets c)
  && forallb (fun '(ex, got) => beq (extractor_fullname ex (k_name c)) got) (k_xfull c)
  && forallb (fun '(k, lit, m) => Bool.eqb (beq (extract k (k_name c) cfgs) lit) m) (k_fmatch c).

(** statelessness: every answer of a long-lived projection / filter is the
    documented meaning of the key for the name (and configuration) the result
    holds AT THAT MOMENT, whatever the same extractor was applied to before
    (even bytes at the same address with the same length). *)
Definition hist_step_ok (keys : list (bytes * bytes)) (st : hstep) : bool :=
  let cfgs := to_cfg (h_cfg st) in
  list_eqb beq (map (fun '(k, _) => extract k (h_name st) cfgs) keys) (h_gets st)
  && list_eqb Bool.eqb (map (fun '(k, lit) => beq (extract k (h_name st) cfgs) lit) keys) (h_fm st).

Definition prop_ok (c : kase) : bool :=
  match c with
  | KOne c => prop_one c
  | KHist keys ex steps =>
      forallb (fun st => hist_step_ok keys st
                 (* .fullname with nothing excluded is the whole name, at every step *)
                 && (negb (is_nil ex) || beq (h_xfull st) (h_name st))
                 && (let '(b, ps) := parts (h_name st) in beq (spec_xfull ex b ps) (h_xfull st))) steps
  end.

Definition corr_ok (c : kase) : bool :=
  match c with
  | KOne c => corr_one c
  | KHist keys ex steps =>
      forallb (fun st => hist_step_ok keys st
                 && beq (extractor_fullname ex (h_name st)) (h_xfull st)) steps
  end.

Definition run_case (s : sx) : N :=
  match decode s with
  | Some c => code_of (corr_ok c) (prop_ok c)
  | None => code_undecodable
  end.
