(** Correspondence evaluator for C07: tokenizer, strconv.Unquote, filter and
    projection parsers and the semantic rejections of benchproc, compared with
    what /repo produced; and the specification predicates of C07 evaluated on
    the observed outputs. *)
From Perf Require Import Base.Bytes Base.Sx Base.Rune Model.Name Model.Extract
  Model.Unquote Model.Tok Model.FilterAst Model.FilterParse Model.ProjParse Model.ExprSpec.

(** outcomes of the real code: 0 ok (with payload), 1 syntax error at offset,
    2 panic, 3 other error, 4 timeout *)
Inductive obs (A : Type) := OOk (a : A) | OErr (off : Z) | OBad (code : Z).
Arguments OOk {A}. Arguments OErr {A}. Arguments OBad {A}.

Fixpoint dec_filter (fuel : nat) (s : sx) : option filter :=
  match fuel with
  | O => None
  | S f =>
      match s with
      | SL [SZ 0; SB k; SL [SZ 0; SB lit]; off] => do o <- as_nat off; Some (FMatch k (MLit lit) o)
      | SL [SZ 0; SB k; SL [SZ 1; SB re]; off] => do o <- as_nat off; Some (FMatch k (MRe re) o)
      | SL [SZ 1; SL l] => do fs <- omap (dec_filter f) l; Some (FAnd fs)
      | SL [SZ 2; SL l] => do fs <- omap (dec_filter f) l; Some (FOr fs)
      | SL [SZ 3; x] => do y <- dec_filter f x; Some (FNot y)
      | _ => None
      end
  end.

Definition dec_field (s : sx) : option pfield :=
  match s with
  | SL [SB k; SB o; fx; ko; oo] =>
      do fx <- as_list as_b fx; do ko <- as_nat ko; do oo <- as_nat oo;
      Some (mkField k o fx ko oo)
  | _ => None
  end.

Definition dec_obs {A} (payload : list sx -> option A) (s : sx) : option (obs A) :=
  match s with
  | SL (SZ 0 :: rest) => do a <- payload rest; Some (OOk a)
  | SL [SZ 1; SZ off] => Some (OErr off)
  | SL [SZ c] => Some (OBad c)
  | _ => None
  end.

Definition dec_fobs : sx -> option (obs filter) :=
  dec_obs (fun l => match l with [x] => dec_filter 200 x | _ => None end).
Definition dec_pobs : sx -> option (obs (list pfield)) :=
  dec_obs (fun l => match l with [x] => as_list dec_field x | _ => None end).
Definition dec_uobs : sx -> option (obs unit) :=
  dec_obs (fun l => match l with [] => Some tt | _ => None end).

(** oracle for regexp.Compile: texts recorded by the harness; a text that is
    not in the table counts as not compiling (the harness records every
    candidate, so a miss shows up as a disagreement) *)
Definition oracle := list (bytes * bool).
Fixpoint re_lookup (t : oracle) (x : bytes) : bool :=
  match t with
  | [] => false
  | (y, b) :: t' => if beq x y then b else re_lookup t' x
  end.

Definition obs_eq {A} (eqb : A -> A -> bool) (m : outcome A) (o : obs A) : bool :=
  match m, o with
  | Ok a, OOk b => eqb a b
  | Err off, OErr z => Z.eqb (Z.of_nat off) z
  | _, _ => false
  end.
(** accept/reject + offset only *)
Definition obs_eq_u {A} (m : outcome A) (o : obs unit) : bool :=
  match m, o with
  | Ok _, OOk _ => true
  | Err off, OErr z => Z.eqb (Z.of_nat off) z
  | _, _ => false
  end.

Definition clean {A} (n : nat) (o : obs A) : bool :=
  match o with
  | OOk _ => true
  | OErr z => (0 <=? z)%Z && (z <=? Z.of_nat n)%Z
  | OBad _ => false
  end.
Definition is_ok {A} (o : obs A) : bool := match o with OOk _ => true | _ => false end.

Fixpoint filter_keys (x : filter) : list bytes :=
  match x with
  | FMatch k _ _ => [k]
  | FAnd l | FOr l => flat_map filter_keys l
  | FNot y => filter_keys y
  end.

Inductive case :=
| CSpace (l : list N)
| CExpr (q : bytes) (t : oracle) (fp : obs filter) (pp : obs (list pfield)) (nf np : obs unit)
| CQuote (k v ck cv gk gv : bytes) (fc : obs filter) (pc : obs (list pfield))
         (fg : obs filter) (pg : obs (list pfield))
         (name : bytes) (cfgs : list (bytes * bytes * bool))
         (nf : obs unit) (mall : Z) (np : obs unit) (got : bytes)
(* quoted words inside a value list and a fixed-order list *)
| CQList (k v v2 ck cv cv2 gk gv gv2 : bytes) (flc flg : obs filter) (pfc pfg : obs (list pfield))
(* bare words: w:v as filter, w as projection, k@(w v); [d] = the two
   character classes of the production bareWord as the package documentation
   of the tree under test gives them *)
| CBare (w v : bytes) (t : oracle) (fo : obs filter) (po xo : obs (list pfield)) (d : docsyn)
(* structured expressions: the generator made the tree / field list [want]
   first and printed it in the documented syntax as [q] *)
| CSFilter (q : bytes) (t : oracle) (want : filter) (fp : obs filter) (nf : obs unit)
| CSProj (q : bytes) (want : list pfield) (pp : obs (list pfield)) (np : obs unit)
(* a regexp in value position: the text is pre ++ "/" ++ s, where [pre] is a
   well-formed beginning that ends right where a value is expected (k: , k:( ,
   k:(x OR , .unit: ...) and holds no regexp itself; [s] is everything after
   the opening slash (regexp body with \Q..\E sections, classes, escaped
   slashes, then the closing slash -- or none -- and what follows) *)
| CReDelim (pre s : bytes) (t : oracle) (fp : obs filter) (nf : obs unit).

Definition decode (s : sx) : option case :=
  match s with
  | SL [SZ 0; l] => do l <- as_list as_N l; Some (CSpace l)
  | SL [SZ 1; SB q; t; fp; pp; nf; np] =>
      do t <- as_list (as_pair as_b as_bool) t;
      do fp <- dec_fobs fp; do pp <- dec_pobs pp; do nf <- dec_uobs nf; do np <- dec_uobs np;
      Some (CExpr q t fp pp nf np)
  | SL [SZ 2; SB k; SB v; SB ck; SB cv; SB gk; SB gv; fc; pc; fg; pg; SB name; cfgs; nf; SZ mall; np; SB got] =>
      do fc <- dec_fobs fc; do pc <- dec_pobs pc; do fg <- dec_fobs fg; do pg <- dec_pobs pg;
      do cfgs <- as_list (as_triple as_b as_b as_bool) cfgs;
      do nf <- dec_uobs nf; do np <- dec_uobs np;
      Some (CQuote k v ck cv gk gv fc pc fg pg name cfgs nf mall np got)
  | SL [SZ 3; SB k; SB v; SB v2; SB ck; SB cv; SB cv2; SB gk; SB gv; SB gv2; flc; flg; pfc; pfg] =>
      do flc <- dec_fobs flc; do flg <- dec_fobs flg; do pfc <- dec_pobs pfc; do pfg <- dec_pobs pfg;
      Some (CQList k v v2 ck cv cv2 gk gv gv2 flc flg pfc pfg)
  | SL [SZ 4; SB w; SB v; t; fo; po; xo; SL [f; fsp; r; rsp]] =>
      do t <- as_list (as_pair as_b as_bool) t;
      do fo <- dec_fobs fo; do po <- dec_pobs po; do xo <- dec_pobs xo;
      do f <- as_list as_N f; do fsp <- as_bool fsp; do r <- as_list as_N r; do rsp <- as_bool rsp;
      Some (CBare w v t fo po xo (mkDoc f fsp r rsp))
  | SL [SZ 5; SB q; t; want; fp; nf] =>
      do t <- as_list (as_pair as_b as_bool) t;
      do want <- dec_filter 200 want;
      do fp <- dec_fobs fp; do nf <- dec_uobs nf;
      Some (CSFilter q t want fp nf)
  | SL [SZ 6; SB q; want; pp; np] =>
      do want <- as_list dec_field want;
      do pp <- dec_pobs pp; do np <- dec_uobs np;
      Some (CSProj q want pp np)
  | SL [SZ 7; SB pre; SB s; t; fp; nf] =>
      do t <- as_list (as_pair as_b as_bool) t;
      do fp <- dec_fobs fp; do nf <- dec_uobs nf;
      Some (CReDelim pre s t fp nf)
  | _ => None
  end.

Fixpoint increasing (l : list N) : bool :=
  match l with
  | a :: ((b :: _) as l') => (a <? b)%N && increasing l'
  | _ => true
  end.

Definition sp := go_is_space.
Definition pf (t : oracle) (q : bytes) := parse_filter sp (re_lookup t) q.
Definition pp_ (t : oracle) (q : bytes) := parse_projection sp (re_lookup t) q.
Definition nf_ (t : oracle) (q : bytes) := new_filter sp (re_lookup t) q.
Definition np_ (t : oracle) (q : bytes) := new_projection sp (re_lookup t) q.

Definition fields_eqb := list_eqb pfield_eqb.
Definition colon (a b : bytes) : bytes := a ++ c_colon :: b.

(** k:(a OR b)   and   k@(a b) *)
Definition vlist_text (k a b : bytes) : bytes := k ++ bs ":(" ++ a ++ bs " OR " ++ b ++ bs ")".
Definition fixed_text (k a b : bytes) : bytes := k ++ bs "@(" ++ a ++ bs " " ++ b ++ bs ")".

(** ** bare words: judged by [ExprSpec.doc_bare] on the character classes the
    documentation names (the case carries them); the documentation's "white
    space" is unicode.IsSpace, which holds the blank *)
Definition doc_space (r : N) : bool := go_is_space r || (r =? 32)%N.

Definition corr_ok (c : case) : bool :=
  match c with
  | CSpace l =>
      forallb go_is_space l && increasing l
      && N.eqb (N.of_nat (length l)) (ranges_count go_space_ranges)
  | CExpr q t fp pp nf np =>
      obs_eq filter_eqb (pf t q) fp && obs_eq fields_eqb (pp_ t q) pp
      && obs_eq_u (nf_ t q) nf && obs_eq_u (np_ t q) np
  | CQuote k v ck cv gk gv fc pc fg pg name cfgs nf mall np got =>
      beq (cquote k) ck && beq (cquote v) cv
      && obs_eq filter_eqb (pf [] (colon ck cv)) fc && obs_eq fields_eqb (pp_ [] ck) pc
      && obs_eq filter_eqb (pf [] (colon gk gv)) fg && obs_eq fields_eqb (pp_ [] gk) pg
      && obs_eq_u (nf_ [] (colon gk gv)) nf && obs_eq_u (np_ [] gk) np
  | CQList k v v2 ck cv cv2 gk gv gv2 flc flg pfc pfg =>
      beq (cquote k) ck && beq (cquote v) cv && beq (cquote v2) cv2
      && obs_eq filter_eqb (pf [] (vlist_text ck cv cv2)) flc
      && obs_eq filter_eqb (pf [] (vlist_text gk gv gv2)) flg
      && obs_eq fields_eqb (pp_ [] (fixed_text ck cv cv2)) pfc
      && obs_eq fields_eqb (pp_ [] (fixed_text gk gv gv2)) pfg
  | CBare w v t fo po xo _ =>
      obs_eq filter_eqb (pf t (colon w v)) fo && obs_eq fields_eqb (pp_ t w) po
      && obs_eq fields_eqb (pp_ t (fixed_text (bs "k") w v)) xo
  | CSFilter q t want fp nf =>
      obs_eq filter_eqb (pf t q) fp && obs_eq_u (nf_ t q) nf
  | CSProj q want pp np =>
      obs_eq fields_eqb (pp_ [] q) pp && obs_eq_u (np_ [] q) np
  | CReDelim pre s t fp nf =>
      let q := pre ++ c_fslash :: s in
      obs_eq filter_eqb (pf t q) fp && obs_eq_u (nf_ t q) nf
  end.

Definition to_cfg (l : list (bytes * bytes * bool)) : list cfg :=
  map (fun '(k, v, f) => mkCfg k v f) l.

(** ** keys.  "Any key ... string whatsoever can be used in a filter or
    projection by writing it as a double-quoted Go string literal"; the
    statement names the two keys that are refused all the same: .config in a
    filter and .unit in a projection.  The EMPTY key is a string like any
    other, so the property demands that it is accepted.  golang/perf refuses it
    (benchproc/extract.go newExtractor: "key must not be empty", pinned by
    extract_test.go): known finding C07_empty_key_refused.  With [relax] (the
    judge of that finding, [known_ok]) exactly this outcome is allowed as
    well: a syntax error at the term / field that holds the empty key. *)

(** offsets of the terms of a filter tree whose key satisfies [p] *)
Fixpoint key_terms (p : bytes -> bool) (x : filter) : list nat :=
  match x with
  | FMatch k _ off => if p k then [off] else []
  | FAnd l | FOr l => flat_map (key_terms p) l
  | FNot y => key_terms p y
  end.
Definition is_config (k : bytes) : bool := beq k key_config.

(** offsets at which a projection field list must be refused: the key of a
    .unit field, the order of an unknown order, of a fixed order without
    values and of a fixed order on .config *)
Definition bad_fields (l : list pfield) : list nat :=
  flat_map (fun p =>
    (if negb (known_order (pf_order p))
        || (beq (pf_order p) ord_fixed && (is_nil (pf_fixed p) || beq (pf_key p) key_config))
     then [pf_ooff p] else [])
    ++ (if beq (pf_key p) key_unit then [pf_koff p] else [])) l.
(** offsets of the fields with the empty key *)
Definition empty_fields (l : list pfield) : list nat :=
  flat_map (fun p => if is_nil (pf_key p) then [pf_koff p] else []) l.

Definition err_in {A} (offs : list nat) (o : obs A) : bool :=
  match o with OErr z => existsb (fun off => Z.eqb (Z.of_nat off) z) offs | _ => false end.

(** [must]: the offending terms the property lists; accepted when there is
    none, else a syntax error positioned at one of them (and never a panic, a
    hang or another kind of error).  [may]: the terms with the empty key; they
    count only under [relax]. *)
Definition refused_gen (relax : bool) (must may : list nat) (o : obs unit) : bool :=
  match must with
  | [] => is_ok o || (relax && err_in may o)
  | _ => err_in (must ++ (if relax then may else [])) o
  end.

(** the regexps of a filter tree, in the order of the text *)
Fixpoint filter_res (x : filter) : list bytes :=
  match x with
  | FMatch _ (MRe e) _ => [e]
  | FMatch _ (MLit _) _ => []
  | FAnd l | FOr l => flat_map filter_res l
  | FNot y => filter_res y
  end.

Definition err_at {A} (off : nat) (o : obs A) : bool :=
  match o with OErr z => Z.eqb (Z.of_nat off) z | _ => false end.

(** ** regexps.  What the property states about a regexp that starts right
    after [pre] (text pre ++ "/" ++ s), and nothing about HOW its end is found
    (the scan of the code, [re_scan], is compared exactly in [corr_ok]):
    - an unterminated regexp is rejected, by the syntax layer and therefore by
      NewFilter ([ExprSpec.re_unterminated]: no slash follows, or only escaped
      ones and no literal section);
    - an accepted text denotes what was written: its first regexp value is the
      text between the opening slash and a later slash of [s];
    - never a panic, a hang ((4), the watchdog's verdict) or another error
      ([clean], at the use site). *)
Definition re_spec_ok (s : bytes) (fp : obs filter) (nf : obs unit) : bool :=
  (if re_unterminated s then negb (is_ok fp) && negb (is_ok nf) else true)
  && match fp with
     | OOk x => match filter_res x with e :: _ => re_delimited s e | [] => false end
     | _ => true
     end.

(** specification predicates on the implementation's observed behaviour;
    [relax] = false: the property ([prop_ok]); true: the property minus the
    recorded deviation of the known finding ([known_ok]) *)
Definition prop_gen (relax : bool) (c : case) : bool :=
  match c with
  | CSpace _ => true
  | CExpr q t fp pp nf np =>
      let n := length q in
      (* clean failure: no panic/hang, error offsets inside the text *)
      clean n fp && clean n pp && clean n nf && clean n np
      (* the semantic layer only ever rejects more *)
      && (is_ok fp || negb (is_ok nf)) && (is_ok pp || negb (is_ok np))
      (* .config in a filter, .unit / unknown order / fixed order on .config /
         fixed order without values (k@fixed) in a projection are rejected,
         and nothing else is -- not the empty key either (known finding) *)
      && match fp with
         | OOk x => if existsb is_config (filter_keys x) then negb (is_ok nf)
                    else if existsb is_nil (filter_keys x) then is_ok nf || relax
                    else is_ok nf
         | _ => true
         end
      && match pp with
         | OOk l => if existsb (fun p => negb (known_order (pf_order p))
                                         || beq (pf_key p) key_unit
                                         || (beq (pf_key p) key_config && beq (pf_order p) ord_fixed)
                                         || (beq (pf_order p) ord_fixed && is_nil (pf_fixed p))) l
                    then negb (is_ok np)
                    else if existsb (fun p => is_nil (pf_key p)) l then is_ok np || relax
                    else is_ok np
         | _ => true
         end
      (* syntax layer (ParseProjection): a fixed order with no values can only
         come from the order name fixed spelled out, never from an empty
         parenthesised list k@(); the semantic layer refuses it either way
         (clause above) *)
      && match pp with
         | OOk l => forallb (fun p => negb (beq (pf_order p) ord_fixed && is_nil (pf_fixed p)
                                            && match nth_error q (pf_ooff p) with
                                               | Some c => Byte.eqb c c_lpar
                                               | None => true
                                               end)) l
         | _ => true
         end
  | CQuote k v ck cv gk gv fc pc fg pg name cfgs nf mall np got =>
      let want_p := [mkField k ord_first [] 0 (length k)] in
      let is_f (o : obs filter) := match o with OOk x => filter_eqb x (FMatch k (MLit v) 0) | _ => false end in
      let is_p (o : obs (list pfield)) := match o with OOk l => fields_eqb l want_p | _ => false end in
      (* any string is expressible as a double-quoted literal, in both quotings *)
      is_f fc && is_f fg && is_p pc && is_p pg
      (* and can be used: accepted, except .config in a filter and .unit in a
         projection, which are refused; the empty key included (known finding:
         refused at offset 0) *)
      && (if is_nil k then is_ok nf || (relax && err_at 0 nf)
          else Bool.eqb (is_ok nf) (negb (beq k key_config)))
      && (if is_nil k then is_ok np || (relax && err_at 0 np)
          else Bool.eqb (is_ok np) (negb (beq k key_unit)))
      (* and denotes exactly that string when used *)
      && (if is_ok nf && negb (beq k key_unit)
          then Z.eqb mall (if beq (extract k name (to_cfg cfgs)) v then 1 else 0) else true)
      && (if is_ok np && negb (beq k key_config)
          then beq got (extract k name (to_cfg cfgs)) else true)
  | CQList k v v2 ck cv cv2 gk gv gv2 flc flg pfc pfg =>
      (* quoted words are ordinary strings in every position, whatever they spell (AND, OR, ...) *)
      let want_f := FOr [FMatch k (MLit v) 0; FMatch k (MLit v2) 0] in
      let is_f (o : obs filter) := match o with OOk x => filter_eqb x want_f | _ => false end in
      let is_p (qk : bytes) (o : obs (list pfield)) :=
        match o with
        | OOk l => fields_eqb l [mkField k ord_fixed [v; v2] 0 (S (length qk))]
        | _ => false
        end in
      is_f flc && is_f flg && is_p ck pfc && is_p gk pfg
  | CBare w v t fo po xo d =>
      let n := length w + length v + 8 in
      let bare := doc_bare doc_space d in
      clean n fo && clean n po && clean n xo
      (* an unquoted word without any of the documented special characters
         denotes exactly its bytes *)
      && (if bare false w && bare true v
          then match fo with OOk x => filter_eqb x (FMatch w (MLit v) 0) | _ => false end else true)
      && (if bare false w
          then match po with OOk l => fields_eqb l [mkField w ord_first [] 0 (length w)] | _ => false end
          else true)
      && (if bare false w && bare false v
          then match xo with OOk l => fields_eqb l [mkField (bs "k") ord_fixed [w; v] 0 2] | _ => false end
          else true)
  | CSFilter q t want fp nf =>
      (* the printed tree parses, and denotes exactly the strings and the
         structure it was printed from (quoted keys and values anywhere in an
         AND sequence, in parentheses, under '-', in value lists) *)
      match fp with OOk x => filter_eqb x want | _ => false end
      (* .config anywhere in it: refused cleanly, at that term; else accepted *)
      && refused_gen relax (key_terms is_config want) (key_terms is_nil want) nf
  | CSProj q want pp np =>
      match pp with OOk l => fields_eqb l want | _ => false end
      && refused_gen relax (bad_fields want) (empty_fields want) np
  | CReDelim pre s t fp nf =>
      let n := length pre + S (length s) in
      (* never a hang or a panic; offsets inside the text *)
      clean n fp && clean n nf
      (* unterminated: rejected; accepted: the value is the text between its delimiters *)
      && re_spec_ok s fp nf
      (* the semantic layer only rejects more, and only .config keys *)
      && (is_ok fp || negb (is_ok nf))
      && match fp with
         | OOk x => refused_gen relax (key_terms is_config x) (key_terms is_nil x) nf
         | _ => true
         end
  end.

Definition prop_ok (c : case) : bool := prop_gen false c.
(** everything the property demands except the recorded deviation of
    C07_empty_key_refused *)
Definition known_ok (c : case) : bool := prop_gen true c.

Definition run_case (s : sx) : N :=
  match decode s with
  | Some c => code_of3 (corr_ok c) (prop_ok c) (known_ok c)
  | None => code_undecodable
  end.
