(** The statistics judge shared by both kinds of C14 case (Corr/RunC14.v: tuples
    from the real projections; Corr/PipeC14.v: flag strings and file texts).

    Given the EXPECTED table (cells and samples by specification,
    Model.BenchTab.spec_tab rendered by table_out: only its rows, columns,
    cells' keys and samples are used here) and what the real code showed for
    that table, it demands, per cell:
      - centre and interval = what the unit's assumption yields for the cell's
        sample (benchmath called directly by the harness on that sample);
      - a comparison and a delta iff the cell is not in the first column and
        the FIRST COLUMN'S CELL OF THE SAME ROW exists; then p, n1, n2, alpha =
        what the assumption yields for (that cell's sample, this sample), and
        the delta STRING the real binary printed (-format csv, "vs base")
        denotes Model.SummarySpec.delta_rule of that p/alpha and of the two
        centres (first column's, then this cell's);
    and per column the summary-row rule Model.SummarySpec.summary_rule: which
    geomeans exist, each documented warning, the geomean values (exact rational
    bound 2^-30; +Inf when a value is +Inf), and the ratio string the binary
    printed.

    [relax] admits exactly the recorded deviation C14_geomean_inf_order: a list
    of positive values in which a +Inf is followed by another value gets "must
    be >0" instead of the geomean +Inf (go-moremath's running mean of logs). *)
From Perf Require Import Base.Bytes Base.Sx Base.B64 Base.SxF Model.BenchTab Model.SummarySpec.

Record scell := mkSC {
  sc_r : nat; sc_c : nat; sc_sample : list b64;
  sc_centre : b64; sc_lo : b64; sc_hi : b64;
  sc_cmp : option (b64 * N * N * b64);
  sc_delta : option bytes }.
Record ssum := mkSS {
  ss_has_summary : bool; ss_summary : b64; ss_has_ratio : bool; ss_ratio : b64;
  ss_warn_set : bool; ss_warn_sum : bool; ss_warn_ratio : bool;
  ss_ratio_str : option bytes }.
Record stab := mkST { st_asm : N; st_nrows : nat; st_ncols : nat; st_cells : list scell; st_sums : list ssum }.

Definition sum_oracle := list (N * list b64 * (b64 * b64 * b64)).
Definition cmp_oracle := list (N * list b64 * list b64 * (b64 * N * N * b64)).

Definition as_cmp4 (s : sx) : option (b64 * N * N * b64) :=
  match s with
  | SL [p; n1; n2; a] => do p <- as_f64 p; do n1 <- as_N n1; do n2 <- as_N n2; do a <- as_f64 a; Some (p, n1, n2, a)
  | _ => None
  end.
Definition as_f3 (s : sx) : option (b64 * b64 * b64) :=
  match s with SL [a; b; c] => do a <- as_f64 a; do b <- as_f64 b; do c <- as_f64 c; Some (a, b, c) | _ => None end.
Definition as_scell (s : sx) : option scell :=
  match s with
  | SL [r; c; smp; ce; lo; hi; cmp; d] =>
      do r <- as_nat r; do c <- as_nat c; do smp <- as_list as_f64 smp;
      do ce <- as_f64 ce; do lo <- as_f64 lo; do hi <- as_f64 hi;
      do cmp <- as_opt as_cmp4 cmp; do d <- as_opt as_b d;
      Some (mkSC r c smp ce lo hi cmp d)
  | _ => None
  end.
Definition as_ssum (s : sx) : option ssum :=
  match s with
  | SL [hs; sm; hr; ra; wset; wsum; wr; rs] =>
      do hs <- as_bool hs; do sm <- as_f64 sm; do hr <- as_bool hr; do ra <- as_f64 ra;
      do wset <- as_bool wset; do wsum <- as_bool wsum; do wr <- as_bool wr; do rs <- as_opt as_b rs;
      Some (mkSS hs sm hr ra wset wsum wr rs)
  | _ => None
  end.
Definition as_stab (s : sx) : option stab :=
  match s with
  | SL [a; nr; nc; cells; sums] =>
      do a <- as_N a; do nr <- as_nat nr; do nc <- as_nat nc;
      do cells <- as_list as_scell cells; do sums <- as_list as_ssum sums;
      Some (mkST a nr nc cells sums)
  | _ => None
  end.
Definition as_sum_oracle : sx -> option sum_oracle :=
  as_list (as_pair (as_pair as_N (as_list as_f64)) as_f3).
Definition as_cmp_oracle : sx -> option cmp_oracle :=
  as_list (fun s => match s with
                    | SL [a; b; c] => do a <- as_pair as_N (as_list as_f64) a; do b <- as_list as_f64 b;
                                      do c <- as_cmp4 c; Some (a, b, c)
                    | _ => None end).

Definition flist_same (a b : list b64) : bool := list_eqb b64_same a b.

Fixpoint lookup_sum (tbl : sum_oracle) (a : N) (s : list b64) : option (b64 * b64 * b64) :=
  match tbl with
  | [] => None
  | (ka, k, v) :: tbl' => if (ka =? a)%N && flist_same k s then Some v else lookup_sum tbl' a s
  end.
Fixpoint lookup_cmp (tbl : cmp_oracle) (a : N) (x y : list b64) : option (b64 * N * N * b64) :=
  match tbl with
  | [] => None
  | (ka, kx, ky, v) :: tbl' =>
      if (ka =? a)%N && flist_same kx x && flist_same ky y then Some v else lookup_cmp tbl' a x y
  end.

Fixpoint all2 {A B} (f : A -> B -> bool) (a : list A) (b : list B) : bool :=
  match a, b with
  | [], [] => true
  | x :: a', y :: b' => f x y && all2 f a' b'
  | _, _ => false
  end.

Fixpoint index_nat (k : N) (l : list N) (i : nat) : nat :=
  match l with
  | [] => i
  | x :: l' => if (x =? k)%N then i else index_nat k l' (S i)
  end.

(** geometric mean within 2^-30 relative, by exact rational comparison:
    (g (1-eps))^n <= prod <= (g (1+eps))^n with positive finite floats *)
Definition ze_mul (a b : Z * Z) : Z * Z := (fst a * fst b, snd a + snd b)%Z.
Fixpoint ze_pow (a : Z * Z) (n : nat) : Z * Z :=
  match n with O => (1, 0)%Z | S n' => ze_mul a (ze_pow a n') end.
Definition ze_le (a b : Z * Z) : bool :=
  let e := Z.min (snd a) (snd b) in
  (fst a * 2 ^ (snd a - e) <=? fst b * 2 ^ (snd b - e))%Z.
Definition geomean_close (g : b64) (xs : list b64) : bool :=
  match b64_to_ZE g, xs with
  | Some gz, _ :: _ =>
      if (fst gz <=? 0)%Z then false else
      if negb (forallb (fun x => match b64_to_ZE x with Some z => (0 <? fst z)%Z | None => false end) xs) then false else
      let prod := fold_left (fun acc x => match b64_to_ZE x with Some z => ze_mul acc z | None => acc end) xs (1, 0)%Z in
      let n := length xs in
      let lo := ze_pow (ze_mul gz (2^30 - 1, -30))%Z n in
      let hi := ze_pow (ze_mul gz (2^30 + 1, -30))%Z n in
      ze_le lo prod && ze_le prod hi
  | _, _ => false
  end.
(** the geometric mean of positive values one of which is +Inf is +Inf *)
Definition geo_value_ok (g : b64) (xs : list b64) : bool :=
  if existsb b64_is_inf xs then match g with S754_infinity false => true | _ => false end
  else geomean_close g xs.

(** the recorded deviation: positive values, a +Inf followed by another value *)
Fixpoint inf_followed (l : list b64) : bool :=
  match l with
  | [] => false
  | x :: l' => (b64_is_inf x && match l' with [] => false | _ => true end) || inf_followed l'
  end.
Definition inf_order_class (l : list b64) : bool := all_pos l && inf_followed l.

Definition opt_b_eqb (a b : option bytes) : bool :=
  match a, b with Some x, Some y => beq x y | None, None => true | _, _ => false end.

Section Judge.
  Variable relax : bool.
  Variable osum : sum_oracle.
  Variable ocmp : cmp_oracle.
  Variable e : otab.
  Variable s : stab.

  Definition asm := st_asm s.
  Definition ecell (r c : N) : option ocell :=
    find (fun x => (oc_r x =? r)%N && (oc_c x =? c)%N) (ot_cells e).
  Definition centre_of (smp : list b64) : option b64 :=
    match lookup_sum osum asm smp with Some (ce, _, _) => Some ce | None => None end.
  Definition cc (r c : N) : option b64 :=
    match ecell r c with Some x => centre_of (oc_sample x) | None => None end.

  (** the first column's cell of the same row, for a cell outside the first column *)
  Definition base_of (x : ocell) : option ocell :=
    match ot_cols e with
    | c0 :: _ => if (oc_c x =? c0)%N then None else ecell (oc_r x) c0
    | [] => None
    end.

  Definition cell_ok (x : ocell) (o : scell) : bool :=
    Nat.eqb (index_nat (oc_r x) (ot_rows e) 0) (sc_r o)
    && Nat.eqb (index_nat (oc_c x) (ot_cols e) 0) (sc_c o)
    && flist_same (oc_sample x) (fsort (sc_sample o))
    && match lookup_sum osum asm (oc_sample x) with
       | Some (ce, lo, hi) =>
           b64_same ce (sc_centre o) && b64_same lo (sc_lo o) && b64_same hi (sc_hi o)
           && match base_of x with
              | None => match sc_cmp o, sc_delta o with None, None => true | _, _ => false end
              | Some b =>
                  match sc_cmp o, sc_delta o, lookup_cmp ocmp asm (oc_sample b) (oc_sample x),
                        lookup_sum osum asm (oc_sample b) with
                  | Some (p, n1, n2, a), Some d, Some (p', n1', n2', a'), Some (bce, _, _) =>
                      b64_same p p' && (n1 =? n1')%N && (n2 =? n2')%N && b64_same a a'
                      && delta_str_ok d (delta_rule p' a' bce ce)
                  | _, _, _, _ => false
                  end
              end
       | None => false
       end.

  (** one geomean of the summary row: shown iff the rule says so (value judged),
      else the documented warning iff the rule says so *)
  Definition geo_ok (want_has want_warn : bool) (vals : list b64) (has : bool) (g : b64) (warn : bool) : bool :=
    (Bool.eqb want_has has && Bool.eqb want_warn warn && (if has then geo_value_ok g vals else true))
    || (relax && inf_order_class vals && negb has && warn).

  Definition sum_ok (ic : nat * N) (o : ssum) : bool :=
    let '(i, col) := ic in
    let is_base := Nat.eqb i 0 in
    let c0 := match ot_cols e with c :: _ => c | [] => col end in
    let ru := summary_rule (ot_rows e) cc c0 is_base col in
    Bool.eqb (sr_warn_set ru) (ss_warn_set o)
    && geo_ok (sr_has_summary ru) (sr_warn_sum ru) (sr_centres ru) (ss_has_summary o) (ss_summary o) (ss_warn_sum o)
    && geo_ok (sr_has_ratio ru) (sr_warn_ratio ru) (sr_ratios ru) (ss_has_ratio o) (ss_ratio o) (ss_warn_ratio o)
    && (if is_base then opt_b_eqb (ss_ratio_str o) None
        else match ss_ratio_str o with
             | Some t => if ss_has_ratio o then pct_str_ok t (ratio_pct (ss_ratio o)) else beq t (bs "?")
             | None => false
             end).

  Definition stat_tab_ok : bool :=
    Nat.eqb (length (ot_rows e)) (st_nrows s) && Nat.eqb (length (ot_cols e)) (st_ncols s)
    && all2 cell_ok (ot_cells e) (st_cells s)
    && all2 sum_ok (combine (seq 0 (length (ot_cols e))) (ot_cols e)) (st_sums s).
End Judge.

Definition stats_ok (relax : bool) (osum : sum_oracle) (ocmp : cmp_oracle) (es : list otab) (ss : list stab) : bool :=
  all2 (stat_tab_ok relax osum ocmp) es ss.
