(** Correspondence evaluator for C06: filter evaluation (masks, NOT/AND/OR,
    All/Any/Test/Apply) and the fixed-list filters of projections, compared
    with /repo; and the boolean specification [denote] evaluated on what /repo
    answered. *)
From Perf Require Import Base.Bytes Base.Sx Base.Rune Model.Name Model.Extract
  Model.Unquote Model.Tok Model.FilterAst Model.FilterParse Model.ProjParse Model.FilterEval
  Model.FilterGrammarSpec.
From Perf Require Corr.RunC07.

Definition retable := list (bytes * bytes * bool).
Fixpoint re_match (t : retable) (re v : bytes) : bool :=
  match t with
  | [] => false
  | (r, x, b) :: t' => if beq r re && beq x v then b else re_match t' re v
  end.
(** a regexp/value pair the table lacks is a divergence between model and code *)
Fixpoint re_known (t : retable) (re v : bytes) : bool :=
  match t with
  | [] => false
  | (r, x, _) :: t' => (beq r re && beq x v) || re_known t' re v
  end.

Record res_in := mkIn {
  i_name : bytes; i_cfg : list (bytes * bytes * bool); i_units : list (bytes * bytes) }.

Definition to_res (i : res_in) : fresult :=
  mkRes (i_name i) (RunC07.to_cfg (i_cfg i)) (i_units i).

Inductive case :=
| CFilter (q : bytes) (ot : RunC07.oracle) (ast : RunC07.obs filter) (r : res_in) (rt : retable)
          (matched : list nat) (oob_ok all any : bool) (apply_ret : bool) (remaining : list nat)
          (unchanged : bool)
| CFixed (q : bytes) (projs : list bytes) (ot : RunC07.oracle) (r : res_in) (rt : retable)
         (matched : list nat) (all any : bool) (pvals : list (list (bytes * bytes)))
(** a HISTORY on one Filter and one ProjectionParser: Parse / ParseWithUnit
    calls that succeed or FAIL (observed [ok]), interleaved with Match and
    Apply of results through the same Filter *)
| CHist (q : bytes) (ot : RunC07.oracle) (rt : retable) (steps : list hstep)
with hstep :=
| HParse (p : bytes) (with_unit ok : bool)
| HMatch (r : res_in) (matched : list nat) (all any : bool)
| HApply (r : res_in) (remaining : list nat) (ret : bool).

Definition dec_res (name cfgs units : sx) : option res_in :=
  do name <- as_b name;
  do cfgs <- as_list (as_triple as_b as_b as_bool) cfgs;
  do units <- as_list (as_pair as_b as_b) units;
  Some (mkIn name cfgs units).

Definition dec_hstep (s : sx) : option hstep :=
  match s with
  | SL [SZ 0; SB p; wu; ok] => do wu <- as_bool wu; do ok <- as_bool ok; Some (HParse p wu ok)
  | SL [SZ 1; name; cfgs; units; matched; all; any] =>
      do r <- dec_res name cfgs units;
      do matched <- as_list as_nat matched;
      do all <- as_bool all; do any <- as_bool any;
      Some (HMatch r matched all any)
  | SL [SZ 2; name; cfgs; units; remaining; ret] =>
      do r <- dec_res name cfgs units;
      do remaining <- as_list as_nat remaining;
      do ret <- as_bool ret;
      Some (HApply r remaining ret)
  | _ => None
  end.

Definition decode (s : sx) : option case :=
  match s with
  | SL [SZ 4; SB q; ot; rt; steps] =>
      do ot <- as_list (as_pair as_b as_bool) ot;
      do rt <- as_list (as_triple as_b as_b as_bool) rt;
      do steps <- as_list dec_hstep steps;
      Some (CHist q ot rt steps)
  | SL [SZ 1; SB q; ot; ast; name; cfgs; units; rt; matched; oob; all; any; aret; remaining; unch] =>
      do ot <- as_list (as_pair as_b as_bool) ot;
      do ast <- RunC07.dec_fobs ast;
      do r <- dec_res name cfgs units;
      do rt <- as_list (as_triple as_b as_b as_bool) rt;
      do matched <- as_list as_nat matched;
      do oob <- as_bool oob; do all <- as_bool all; do any <- as_bool any; do aret <- as_bool aret;
      do remaining <- as_list as_nat remaining;
      do unch <- as_bool unch;
      Some (CFilter q ot ast r rt matched oob all any aret remaining unch)
  (* kind 3: the same observations, consulted only after the same Filter has
     matched or applied another result; judged on this result alone *)
  | SL [SZ 3; SB q; ot; ast; name; cfgs; units; rt; matched; oob; all; any; aret; remaining; unch] =>
      do ot <- as_list (as_pair as_b as_bool) ot;
      do ast <- RunC07.dec_fobs ast;
      do r <- dec_res name cfgs units;
      do rt <- as_list (as_triple as_b as_b as_bool) rt;
      do matched <- as_list as_nat matched;
      do oob <- as_bool oob; do all <- as_bool all; do any <- as_bool any; do aret <- as_bool aret;
      do remaining <- as_list as_nat remaining;
      do unch <- as_bool unch;
      Some (CFilter q ot ast r rt matched oob all any aret remaining unch)
  | SL [SZ 2; SB q; projs; ot; name; cfgs; units; rt; matched; all; any; pvals] =>
      do projs <- as_list as_b projs;
      do ot <- as_list (as_pair as_b as_bool) ot;
      do r <- dec_res name cfgs units;
      do rt <- as_list (as_triple as_b as_b as_bool) rt;
      do matched <- as_list as_nat matched;
      do all <- as_bool all; do any <- as_bool any;
      do pvals <- as_list (as_list (as_pair as_b as_b)) pvals;
      Some (CFixed q projs ot r rt matched all any pvals)
  | _ => None
  end.

Definition nat_list_eqb := list_eqb Nat.eqb.
Definition idxs (n : nat) (p : nat -> bool) : list nat := List.filter p (seq 0 n).

(** every regexp/value pair the evaluation can need is in the table *)
Fixpoint needs_ok (rt : retable) (f : filter) (r : fresult) : bool :=
  match f with
  | FMatch key (MRe re) _ =>
      if beq key key_unit
      then forallb (fun u => re_known rt re (fst u) && (is_nil (snd u) || re_known rt re (snd u))) (fr_units r)
      else re_known rt re (extract key (fr_name r) (fr_cfg r))
  | FMatch _ (MLit _) _ => true
  | FNot g => needs_ok rt g r
  | FAnd l | FOr l => forallb (fun g => needs_ok rt g r) l
  end.

Definition parse_projs (ot : RunC07.oracle) (projs : list bytes) : option (list (list pfield)) :=
  omap (fun p => match RunC07.np_ ot p with Ok l => Some l | _ => None end) projs.

(** histories: [ps] = the projections whose Parse SUCCEEDED so far.

    Contract of ProjectionParser (benchproc/projection.go: "Fields below here
    are constructed when the first Result is processed"; "we delay
    constructing the extractor until we process the first Result"; "This
    closure doesn't get called until we've parsed all projections"): the
    exclusions of the group key .fullname are collected from ALL Parse calls
    and fixed when the first result reaches a .fullname extractor.  A history
    is inside that contract iff no SUCCESSFUL Parse adds a sub-name key or
    .name to the exclusions once a result has been matched or applied after a
    fixed list on .fullname was parsed ([armed] = such a list was parsed,
    [frozen] = a result was processed since).  Failed Parse calls are
    unrestricted, before and after: they must contribute nothing.  The guard is
    a predicate of the INPUT (the projection texts, through the C07 model). *)
Definition has_fixed_fullname (l : list pfield) : bool :=
  existsb (fun p => beq (pf_key p) key_fullname && beq (pf_order p) ord_fixed) l.
Definition adds_fullname_keys (l : list pfield) : bool := negb (is_nil (fullname_keys [l])).

Fixpoint hist_contract (ot : RunC07.oracle) (armed frozen : bool) (steps : list hstep) : bool :=
  match steps with
  | [] => true
  | HParse p _ _ :: tl =>
      match RunC07.np_ ot p with
      | Ok l => negb (frozen && adds_fullname_keys l)
                && hist_contract ot (armed || has_fixed_fullname l) frozen tl
      | _ => hist_contract ot armed frozen tl
      end
  | _ :: tl => hist_contract ot armed (frozen || armed) tl
  end.

(** model: Parse conjoins the fixed fields iff the whole expression is accepted *)
Fixpoint hist_corr (ot : RunC07.oracle) (rt : retable) (f : filter) (ps : list (list pfield))
         (steps : list hstep) : bool :=
  match steps with
  | [] => true
  | HParse p _ ok :: tl =>
      match RunC07.np_ ot p with
      | Ok l => ok && hist_corr ot rt f (ps ++ [l]) tl
      | _ => negb ok && hist_corr ot rt f ps tl
      end
  | HMatch ri matched all any :: tl =>
      let r := to_res ri in
      let n := length (fr_units r) in
      let e := wrap (fullname_keys ps) ps r (eval (re_match rt) f r) in
      needs_ok rt f r
      && nat_list_eqb (idxs n (match_test n e)) matched
      && Bool.eqb (match_all n e) all && Bool.eqb (match_any n e) any
      && hist_corr ot rt f ps tl
  | HApply ri remaining ret :: tl =>
      let r := to_res ri in
      let n := length (fr_units r) in
      let e := wrap (fullname_keys ps) ps r (eval (re_match rt) f r) in
      needs_ok rt f r
      && (let '(kept, aret) := match_apply e (seq 0 n) in
          nat_list_eqb kept remaining && Bool.eqb ret aret)
      && hist_corr ot rt f ps tl
  end.

(** All / Any / the value Apply returns, as the property states them, for
    EVERY measurement count including 0: All = every measurement matches
    (true of none), Any = some measurement matches, Apply reports whether any
    remain.  [want] = the measurements the expression denotes.

    [relax] is the judge of the known finding C06_empty_result_answers and
    admits exactly its deviation: on a result WITHOUT measurements the code
    answers All and Any either as over an empty mask (true / false) or both
    with the whole-result value of the expression ([d0], every .unit term
    false), and Apply returns All although nothing remains. *)
Definition answers_ok (relax : bool) (n : nat) (want : list nat) (d0 : bool)
           (all any : bool) (ret : option bool) : bool :=
  (Bool.eqb all (Nat.eqb (length want) n) && Bool.eqb any (negb (is_nil want))
   && match ret with Some b => Bool.eqb b (negb (is_nil want)) | None => true end)
  || (relax && Nat.eqb n 0
      && ((all && negb any) || (Bool.eqb all d0 && Bool.eqb any d0))
      && match ret with Some b => Bool.eqb b all | None => true end).

(** specification: at every Match / Apply the Filter denotes (every fixed
    field of every projection whose Parse SUCCEEDED keeps the result) and (the
    expression is true of measurement i).  A Parse that FAILED - at whatever
    field, whatever came before it in the expression - contributes nothing:
    the denotation is what it was before the call. *)
Fixpoint hist_prop (ot : RunC07.oracle) (rt : retable) (f : filter) (ps : list (list pfield))
         (steps : list hstep) : bool :=
  match steps with
  | [] => true
  | HParse p _ ok :: tl =>
      match ok, RunC07.np_ ot p with
      | true, Ok l => hist_prop ot rt f (ps ++ [l]) tl
      | _, _ => hist_prop ot rt f ps tl
      end
  | HMatch ri matched all any :: tl =>
      let r := to_res ri in
      let n := length (fr_units r) in
      let want := if fixed_keeps (fullname_keys ps) ps r
                  then idxs n (denote (re_match rt) f r) else [] in
      nat_list_eqb matched want
      && Bool.eqb all (Nat.eqb (length want) n)
      && Bool.eqb any (negb (is_nil want))
      && hist_prop ot rt f ps tl
  | HApply ri remaining ret :: tl =>
      let r := to_res ri in
      let n := length (fr_units r) in
      let want := if fixed_keeps (fullname_keys ps) ps r
                  then idxs n (denote (re_match rt) f r) else [] in
      nat_list_eqb remaining want
      && Bool.eqb ret (negb (is_nil want))
      && hist_prop ot rt f ps tl
  end.

Definition corr_ok (c : case) : bool :=
  match c with
  | CHist q ot rt steps =>
      match RunC07.nf_ ot q with
      | Ok f => hist_contract ot false false steps && hist_corr ot rt f [] steps
      | _ => false
      end
  | CFilter q ot ast ri rt matched oob all any aret remaining unch =>
      match RunC07.nf_ ot q, ast with
      | Ok f, RunC07.OOk f' =>
          let r := to_res ri in
          let n := length (fr_units r) in
          let e := eval (re_match rt) f r in
          filter_eqb f f' && needs_ok rt f r
          && nat_list_eqb (idxs n (match_test n e)) matched
          && Bool.eqb (match_all n e) all && Bool.eqb (match_any n e) any
          && (let '(kept, ret) := match_apply e (seq 0 n) in
              nat_list_eqb kept remaining && Bool.eqb ret aret)
          && negb (match_test n e n)
      | _, _ => false
      end
  | CFixed q projs ot ri rt matched all any pvals =>
      match RunC07.nf_ ot q, parse_projs ot projs with
      | Ok f, Some ps =>
          let r := to_res ri in
          let n := length (fr_units r) in
          let e := wrap (fullname_keys ps) ps r (eval (re_match rt) f r) in
          needs_ok rt f r
          && nat_list_eqb (idxs n (match_test n e)) matched
          && Bool.eqb (match_all n e) all && Bool.eqb (match_any n e) any
          (* the projected values of the fixed fields *)
          && list_eqb (list_eqb (fun a b => beq (fst a) (fst b) && beq (snd a) (snd b)))
               (map (fun fields => map (fun p => (pf_key p, proj_value (fullname_keys ps) (pf_key p) r))
                                       (List.filter (fun p => beq (pf_order p) ord_fixed) fields)) ps)
               pvals
      | _, _ => false
      end
  end.

(** the meaning of an expression TEXT is stated by the documented grammar
    (Model/FilterGrammarSpec.v [derives]: AND binds tighter than OR, '-' takes
    one match, a value list is a disjunction).  The tree [f] on which [denote]
    is evaluated is produced by the model of the parser, so it is CERTIFIED per
    case: the recogniser must derive exactly this tree from the whole text. *)
Definition gram_ok (ot : RunC07.oracle) (q : bytes) (f : filter) : bool :=
  grammar_ok RunC07.sp (RunC07.re_lookup ot) q f.

(** specification on the observed answers ([relax] = false) *)
Definition prop_gen (relax : bool) (c : case) : bool :=
  match c with
  | CHist q ot rt steps =>
      match RunC07.nf_ ot q with
      | Ok f => gram_ok ot q f && hist_prop ot rt f [] steps
      | _ => false
      end
  | CFilter q ot ast ri rt matched oob all any aret remaining unch =>
      (* the meaning of the expression TEXT: a tree the documented grammar
         derives from it ([gram_ok]), not the tree the implementation's
         parser produced - a parser that reads "x OR *" as "x" is judged here *)
      match RunC07.nf_ ot q, ast with
      | Ok f, RunC07.OOk _ =>
          let r := to_res ri in
          let n := length (fr_units r) in
          let want := idxs n (denote (re_match rt) f r) in
          (* measurement i matches iff the expression is true of it *)
          gram_ok ot q f && nat_list_eqb matched want && oob
          (* Match leaves the result untouched; Apply keeps exactly the matching
             measurements in order and reports whether any remain (every n) *)
          && unch && nat_list_eqb remaining want
          && answers_ok relax n want (denote (re_match rt) f r 0) all any (Some aret)
      | _, _ => false
      end
  | CFixed q projs ot ri rt matched all any pvals =>
      match RunC07.nf_ ot q, parse_projs ot projs with
      | Ok f, Some ps =>
          let r := to_res ri in
          let n := length (fr_units r) in
          (* the observed projected value of every fixed field is in its list *)
          let fixed_ok :=
            forallb (fun '(fields, vals) =>
                       forallb (fun '(p, kv) => existsb (beq (snd kv)) (pf_fixed p))
                               (combine (List.filter (fun p => beq (pf_order p) ord_fixed) fields) vals))
                    (combine ps pvals) in
          let want := if fixed_ok then idxs n (denote (re_match rt) f r) else [] in
          (* ... where the value of a field is its PROJECTED value: for .fullname
             the name with the parts owned by every specifically projected key
             (of any Parse call on the parser, earlier or LATER) deleted - the
             declarative [fixed_keeps] of Model/FilterEval.v *)
          let want_spec := if fixed_keeps (fullname_keys ps) ps r
                           then idxs n (denote (re_match rt) f r) else [] in
          gram_ok ot q f && nat_list_eqb matched want && nat_list_eqb matched want_spec
          && answers_ok relax n want (fixed_ok && denote (re_match rt) f r 0) all any None
      | _, _ => false
      end
  end.

Definition prop_ok (c : case) : bool := prop_gen false c.

(** known finding C06_empty_result_answers (tag c06_result_without_measurements):
    everything the property demands, except the answers of All / Any / Apply on
    a result without measurements (see [answers_ok]) *)
Definition known_ok (c : case) : bool := prop_gen true c.

Definition run_case (s : sx) : N :=
  match decode s with
  | Some c => code_of3 (corr_ok c) (prop_ok c) (known_ok c)
  | None => code_undecodable
  end.
